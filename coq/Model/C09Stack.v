(* C09, part 2: the server side of the stack around the rendering of Model/C09.v —
   MessageManager._process_request / send_message (response branch) / _send_initially / _remove_exchange /
   _continue_backlog / the empty-ACK timer, TokenManager.process_request, and the rendering tasks in flight.
   Inputs are the things the environment does: a request datagram arrives, a slow handler gets to finish,
   time passes, the client acknowledges.  Outputs are the datagrams put on the wire and the ERROR log records.
   Not modelled here (other properties): deduplication (request message ids are fresh), retransmission
   (time stays below ACK_TIMEOUT after a CON response), block-wise, observe.  No proofs in this file. *)
From Verif Require Import Lib.Py Model.C09.
Open Scope Z_scope.

Definition T_CON := 0. Definition T_NON := 1. Definition T_ACK := 2. Definition T_RST := 3.
Definition EMPTY_ACK_DELAY := 100000.   (* microseconds; numbers/constants.py *)

Record wire := { w_rid : Z (* id of the request it answers, -1 for empty messages *); w_remote : Z; w_type : Z; w_mid : Z; w_code : Z; w_token : bytes; w_payload : bytes; w_cf : option Z; w_obs : option Z }.

Definition key := (Z * bytes)%type.     (* (remote, token) *)
Definition key_eqb (a b : key) : bool := (fst a =? fst b) && beqb (snd a) (snd b).
Definition key_of (r : request) : key := (r_remote r, r_token r).

(* one rendering set up by TokenManager.process_request whose key is still in incoming_requests *)
Record entry := { e_req : request; e_pipes : pipes; e_finished : bool (* its coroutine has ended *) }.

Record state := {
  s_now : Z;                          (* virtual clock, microseconds *)
  s_mid : Z;                          (* MessageManager.message_id *)
  s_incoming : list entry;            (* TokenManager.incoming_requests *)
  s_piggy : list (key * (Z * Z));     (* MessageManager._piggyback_opportunities: key -> (mid, due time of the empty ACK), in timer order *)
  s_active : list (Z * Z);            (* MessageManager._active_exchanges keys (remote, mid) *)
  s_backlog : list (Z * list wire) }. (* MessageManager._backlogs *)
Definition init_state (mid0 : Z) : state :=
  {| s_now := 0; s_mid := mid0; s_incoming := []; s_piggy := []; s_active := []; s_backlog := [] |}.
Definition set_now s v := {| s_now := v; s_mid := s_mid s; s_incoming := s_incoming s; s_piggy := s_piggy s; s_active := s_active s; s_backlog := s_backlog s |}.
Definition set_mid s v := {| s_now := s_now s; s_mid := v; s_incoming := s_incoming s; s_piggy := s_piggy s; s_active := s_active s; s_backlog := s_backlog s |}.
Definition set_incoming s v := {| s_now := s_now s; s_mid := s_mid s; s_incoming := v; s_piggy := s_piggy s; s_active := s_active s; s_backlog := s_backlog s |}.
Definition set_piggy s v := {| s_now := s_now s; s_mid := s_mid s; s_incoming := s_incoming s; s_piggy := v; s_active := s_active s; s_backlog := s_backlog s |}.
Definition set_active s v := {| s_now := s_now s; s_mid := s_mid s; s_incoming := s_incoming s; s_piggy := s_piggy s; s_active := v; s_backlog := s_backlog s |}.
Definition set_backlog s v := {| s_now := s_now s; s_mid := s_mid s; s_incoming := s_incoming s; s_piggy := s_piggy s; s_active := s_active s; s_backlog := v |}.

(* ------------------------------------------------------------------ message layer, outgoing responses *)
Fixpoint lookup_piggy (k : key) (l : list (key * (Z * Z))) : option (Z * Z) :=
  match l with [] => None | (k', v) :: rest => if key_eqb k k' then Some v else lookup_piggy k rest end.
Definition remove_piggy (k : key) (l : list (key * (Z * Z))) := filter (fun x => negb (key_eqb k (fst x))) l.
Definition has_backlog (s : state) (remote : Z) : bool := existsb (fun x => fst x =? remote) (s_backlog s).
Definition has_active (s : state) (remote : Z) : bool := existsb (fun x => fst x =? remote) (s_active s).

Definition code_of (m : msg) : Z := match m_code m with Some c => c | None => 0 end.
(* no_response = (message.opt.no_response or 0) & (1 << message.code.class_ - 1) != 0   (messagemanager.py:443-445) *)
Definition suppressed (m : msg) : bool :=
  negb (Z.land (match m_nr m with Some n => n | None => 0 end) (Z.shiftl 1 (class_ (code_of m) - 1)) =? 0).
Definition mk_wire (r : request) (t mid : Z) (m : msg) : wire :=
  {| w_rid := r_id r; w_remote := r_remote r; w_type := t; w_mid := mid; w_code := code_of m; w_token := r_token r;
     w_payload := m_payload m; w_cf := m_cf m; w_obs := m_obs m |}.
Definition empty_ack (remote mid : Z) : wire :=
  {| w_rid := -1; w_remote := remote; w_type := T_ACK; w_mid := mid; w_code := EMPTY; w_token := []; w_payload := []; w_cf := None; w_obs := None |}.

(* MessageManager._send_initially (+ _add_exchange for CON)  (messagemanager.py:523-537, 249-272) *)
Definition send_initially (s : state) (w : wire) : state * list wire :=
  if w_type w =? T_CON then
    let bl := if has_backlog s (w_remote w) then s_backlog s else s_backlog s ++ [(w_remote w, [])] in
    (set_backlog (set_active s (s_active s ++ [(w_remote w, w_mid w)])) bl, [w])
  else (s, [w]).
(* self._backlogs[remote].append(...) / self._backlogs[remote] = rest: _backlogs is a dict, the (one) entry of the key *)
Fixpoint backlog_append (remote : Z) (w : wire) (l : list (Z * list wire)) : list (Z * list wire) :=
  match l with
  | [] => []
  | (r, b) :: rest => if r =? remote then (r, b ++ [w]) :: rest else (r, b) :: backlog_append remote w rest
  end.
Fixpoint backlog_set (remote : Z) (b' : list wire) (l : list (Z * list wire)) : list (Z * list wire) :=
  match l with
  | [] => []
  | (r, b) :: rest => if r =? remote then (r, b') :: rest else (r, b) :: backlog_set remote b' rest
  end.
Fixpoint backlog_del (remote : Z) (l : list (Z * list wire)) : list (Z * list wire) :=
  match l with
  | [] => []
  | (r, b) :: rest => if r =? remote then rest else (r, b) :: backlog_del remote rest
  end.
Definition append_backlog (s : state) (remote : Z) (w : wire) : state :=
  set_backlog s (backlog_append remote w (s_backlog s)).
(* MessageManager.send_message for a response to request r  (messagemanager.py:428-521) *)
Definition send_message (s : state) (r : request) (m : msg) : state * list wire :=
  let k := key_of r in
  let plain (_ : unit) :=                                            (* type from the request, own message id, NSTART backlog *)
        let t := if r_con r then T_CON else T_NON in                 (* reliability None: NON iff the request was NON *)
        let mid := s_mid s in
        let s1 := set_mid s (Z.land 65535 (1 + mid)) in              (* _next_message_id *)
        let w := mk_wire r t mid m in
        if (t =? T_CON) && has_backlog s1 (r_remote r) then (append_backlog s1 (r_remote r) w, [])
        else send_initially s1 w in
  if negb (is_response (code_of m)) then plain tt                    (* `if message.code.is_response():` skipped — FINDING: the bogus
                                                                        message goes out with the request's token, no piggy-backing, no suppression *)
  else
  match lookup_piggy k (s_piggy s) with
  | Some (mid, _) =>
      let s1 := set_piggy s (remove_piggy k (s_piggy s)) in       (* pop, handle.cancel() *)
      if suppressed m then send_initially s1 (empty_ack (r_remote r) mid)
      else send_initially s1 (mk_wire r T_ACK mid m)
  | None =>
      if suppressed m then (s, []) else plain tt
  end.

(* MessageManager._continue_backlog  (messagemanager.py:294-314); only CONs are ever backlogged *)
Fixpoint find_backlog (remote : Z) (l : list (Z * list wire)) : option (list wire) :=
  match l with [] => None | (r, b) :: rest => if r =? remote then Some b else find_backlog remote rest end.
Definition continue_backlog (s : state) (remote : Z) : state * list wire :=
  if has_active s remote then (s, [])
  else match find_backlog remote (s_backlog s) with
       | None => (s, [])                                   (* AssertionError in the code; unreachable *)
       | Some [] => (set_backlog s (backlog_del remote (s_backlog s)), [])
       | Some (w :: rest) =>
           let s1 := set_backlog s (backlog_set remote rest (s_backlog s)) in
           send_initially s1 w
       end.
(* an empty ACK for the (only) active exchange with [remote] arrives: _remove_exchange (messagemanager.py:274-292) *)
Fixpoint remove_first_active (remote : Z) (l : list (Z * Z)) : option (list (Z * Z)) :=
  match l with
  | [] => None
  | (r, m) :: rest => if r =? remote then Some rest
                      else match remove_first_active remote rest with Some x => Some ((r, m) :: x) | None => None end
  end.
Definition step_ack (s : state) (remote : Z) : state * list wire :=
  match remove_first_active remote (s_active s) with
  | None => (s, [])
  | Some a => continue_backlog (set_active s a) remote
  end.

(* the empty-ACK timers that are due: on_timeout in _process_request (messagemanager.py:372-377) *)
Fixpoint fire_piggy (now : Z) (l : list (key * (Z * Z))) : list (key * (Z * Z)) * list wire :=
  match l with
  | [] => ([], [])
  | (k, (mid, due)) :: rest =>
      let '(keep, out) := fire_piggy now rest in
      if due <=? now then (keep, empty_ack (fst k) mid :: out) else ((k, (mid, due)) :: keep, out)
  end.
Definition step_tick (s : state) (us : Z) : state * list wire :=
  let now := s_now s + us in
  let '(keep, out) := fire_piggy now (s_piggy s) in
  (set_piggy (set_now s now) keep, out).

(* ------------------------------------------------------------------ token manager and rendering tasks *)
Definition step_out := (list wire * list logrec * Z)%type.   (* datagrams, log records, exceptions raised back into tasks *)

(* TokenManager.process_request.on_event (tokenmanager.py:139-143): the request's No-Response option is filled into
   every response that has none, whoever produced it *)
Definition tm_fill (r : request) (m : msg) : msg :=
  {| m_code := m_code m; m_payload := m_payload m; m_cf := m_cf m;
     m_nr := match m_nr m with Some n => Some n | None => r_nr r end; m_obs := m_obs m |}.
(* effects of what the pipes did: every Send is a token_interface.send_message(m, stop) *)
Fixpoint perform (s : state) (r : request) (acts : list action) : state * list wire * list logrec :=
  match acts with
  | [] => (s, [], [])
  | Send m _ :: rest =>
      let '(s1, w) := send_message s r (tm_fill r m) in
      let '(s2, w2, l2) := perform s1 r rest in (s2, w ++ w2, l2)
  | Log l :: rest => let '(s2, w2, l2) := perform s r rest in (s2, w2, l :: l2)
  end.

Fixpoint find_by_key (k : key) (l : list entry) : option entry :=
  match l with [] => None | e :: rest => if key_eqb k (key_of (e_req e)) then Some e else find_by_key k rest end.
Fixpoint find_by_id (id : Z) (l : list entry) : option entry :=
  match l with [] => None | e :: rest => if r_id (e_req e) =? id then Some e else find_by_id id rest end.
Definition remove_id (id : Z) (l : list entry) := filter (fun e => negb (r_id (e_req e) =? id)) l.
Definition replace_id (id : Z) (e' : entry) (l : list entry) := map (fun e => if r_id (e_req e) =? id then e' else e) l.

(* the coroutine of entry [e] gets to run to its end *)
Definition run_entry (srv : option site) (s : state) (e : entry) : state * step_out :=
  let r := e_req e in
  let '(q, acts, n) := run_ractions (e_pipes e) (respond srv r) in
  let inc := if p_registered q
             then replace_id (r_id r) {| e_req := r; e_pipes := q; e_finished := true |} (s_incoming s)
             else remove_id (r_id r) (s_incoming s) in
  let '(s2, w, l) := perform (set_incoming s inc) r acts in
  (s2, (w, l, n)).

(* a request datagram arrives: MessageManager._process_request (messagemanager.py:366-397),
   TokenManager.process_request (tokenmanager.py:117-186), Context.render_to_pipe *)
Definition step_req (srv : option site) (s : state) (r : request) : state * step_out :=
  let k := key_of r in
  let s1 := if r_con r
            then set_piggy s (remove_piggy k (s_piggy s) ++ [(k, (r_mid r, s_now s + EMPTY_ACK_DELAY))])
            else s in
  let '(s2, l0) :=
    match find_by_key k (s_incoming s1) with
    | Some old =>                                              (* "Incoming request overrides existing request": pop, stop() *)
        let '(_, acts, _) := old_unregister_tm (e_pipes old) in
        let '(s', _, l) := perform (set_incoming s1 (remove_id (r_id (e_req old)) (s_incoming s1))) (e_req old) acts in
        (s', l)
    | None => (s1, [])
    end in
  let e := {| e_req := r; e_pipes := setup_pipes; e_finished := false |} in
  let s3 := set_incoming s2 (s_incoming s2 ++ [e]) in
  if r_slow r && reaches_handler srv r then (s3, ([], l0, 0))
  else let '(s4, (w, l, n)) := run_entry srv s3 e in (s4, (w, l0 ++ l, n)).

(* the thing a slow handler was waiting for happens *)
Definition step_done (srv : option site) (s : state) (id : Z) : state * step_out :=
  match find_by_id id (s_incoming s) with
  | Some e => if e_finished e then (s, ([], [], 0)) else run_entry srv s e
  | None => (s, ([], [], 0))
  end.

Inductive sevent := Req (r : request) | Done (id : Z) | Tick (us : Z) | AckFrom (remote : Z).
Definition step (srv : option site) (s : state) (ev : sevent) : state * step_out :=
  match ev with
  | Req r => step_req srv s r
  | Done id => step_done srv s id
  | Tick us => let '(s', w) := step_tick s us in (s', (w, [], 0))
  | AckFrom remote => let '(s', w) := step_ack s remote in (s', (w, [], 0))
  end.
Fixpoint run (srv : option site) (s : state) (evs : list sevent) : state * list step_out :=
  match evs with
  | [] => (s, [])
  | ev :: rest => let '(s1, o) := step srv s ev in let '(s2, os) := run srv s1 rest in (s2, o :: os)
  end.

(* what the correspondence run compares: per-step outputs and the sizes of the tables at the end *)
Definition summary (s : state) : Z * Z * Z * Z :=
  (blen (s_incoming s), blen (s_piggy s), blen (s_active s), blen (s_backlog s)).
Definition run_script (srv : option site) (mid0 : Z) (evs : list sevent) :=
  let '(s, os) := run srv (init_state mid0) evs in (os, summary s).

(* ------------------------------------------------------------------ instrumentation used by the theorems *)
(* the final responses handed to the message layer in a step, by request id *)
Definition sends_of (acts : list action) : list (msg * bool) :=
  flat_map (fun a => match a with Send m l => [(m, l)] | _ => [] end) acts.
Definition entry_sends (srv : option site) (e : entry) : list (msg * bool) :=
  let '(_, acts, _) := run_ractions (e_pipes e) (respond srv (e_req e)) in sends_of acts.
Definition step_sends (srv : option site) (s : state) (ev : sevent) : list (Z * msg * bool) :=
  match ev with
  | Req r => if r_slow r && reaches_handler srv r then []
             else map (fun x => (r_id r, fst x, snd x)) (entry_sends srv {| e_req := r; e_pipes := setup_pipes; e_finished := false |})
  | Done id => match find_by_id id (s_incoming s) with
               | Some e => if e_finished e then [] else map (fun x => (id, fst x, snd x)) (entry_sends srv e)
               | None => []
               end
  | _ => []
  end.
Fixpoint run_sends (srv : option site) (s : state) (evs : list sevent) : list (Z * msg * bool) :=
  match evs with
  | [] => []
  | ev :: rest => step_sends srv s ev ++ run_sends srv (fst (step srv s ev)) rest
  end.
(* the datagrams of a run, and among them the (non-empty) ones that answer request [id] *)
Definition wires (os : list step_out) : list wire := flat_map (fun o => fst (fst o)) os.
Definition is_answer (id : Z) (w : wire) : bool := (w_rid w =? id) && negb (w_code w =? EMPTY).
Definition answers (id : Z) (ws : list wire) : list wire := filter (is_answer id) ws.
Definition sends_for (id : Z) (l : list (Z * msg * bool)) : list (Z * msg * bool) := filter (fun x => fst (fst x) =? id) l.
Definition finals_for (id : Z) (l : list (Z * msg * bool)) : list msg :=
  flat_map (fun x => let '(i, m, last) := x in if (i =? id) && last then [m] else []) l.
