(* C15 — the transport endpoint around the connections: the pool (_TCPPooling / TCPClient._pool,
   tcp.py:281-292, 429-436) and the token manager's table of outstanding requests
   (tokenmanager.py:22, 74-110 dispatch_error, 184-218 process_response, 220-260 request).
   It says what "Release or Abort from the peer fail the pending requests with a network error" means
   beyond the DispatchError output of the connection. No proofs in this file. *)
From Verif Require Import Lib.Py Gen.options_ext Gen.tcp_framing Model.C15.
Open Scope Z_scope.

(* TokenManager.outgoing_requests: key (token, remote) -> Pipe, in dict (insertion) order; the request's
   Observe:0 decides whether a response with Observe is final (tokenmanager.py:208-212) *)
Record req := { r_token : bytes; r_remote : Z; r_observe : bool }.

(* what _dispatch_error passes to TokenManager.dispatch_error: the RemoteServerShutdown built by
   _process_signaling (a NetworkError subclass, error.py:312), or None from connection_lost *)
Inductive exn_arg := XShutdown (k : errkind) | XNone.
Definition exc_of (k : errkind) : exn_arg := match k with ConnectionLost => XNone | _ => XShutdown k end.
Definition is_network_error (x : exn_arg) : bool := match x with XShutdown _ => true | XNone => false end.
(* tokenmanager.py:88-91: anything that is not a NetworkError is wrapped into one *)
Inductive delivered := DAsIs (x : exn_arg) | DWrapped (x : exn_arg).
Definition tm_wrap (x : exn_arg) : delivered := if is_network_error x then DAsIs x else DWrapped x.
Definition delivered_is_network (d : delivered) : bool :=
  match d with DAsIs x => is_network_error x | DWrapped _ => true end.

Record sys := { conns : list (Z * conn); pool : list Z; outgoing : list req }.

(* what the endpoint's users and transports see *)
Inductive eout :=
| SConn (id : Z) (o : out)                                          (* write / close on connection id; incoming request handed on *)
| SResponse (tok : bytes) (id : Z) (c : Z) (final : bool)           (* Pipe.add_response on the request (tok, id) *)
| SFail (tok : bytes) (id : Z) (d : delivered).                     (* Pipe.add_exception on the request (tok, id) *)

Definition req_is (tok : bytes) (id : Z) (r : req) : bool := beqb (r_token r) tok && (r_remote r =? id).
Definition has_observe (m : msg) : bool := existsb (fun o => fst o =? 6) (opts m).

Fixpoint get_conn (id : Z) (l : list (Z * conn)) : option conn :=
  match l with [] => None | (i, c) :: r => if i =? id then Some c else get_conn id r end.
Fixpoint set_conn (id : Z) (c : conn) (l : list (Z * conn)) : list (Z * conn) :=
  match l with [] => [] | (i, c0) :: r => if i =? id then (i, c) :: r else (i, c0) :: set_conn id c r end.

(* TokenManager.process_response, tokenmanager.py:184-218 (the multicast fallback key does not apply) *)
Definition tm_process_response (id : Z) (m : msg) (s : sys) : sys * list eout :=
  match filter (req_is (token m) id) (outgoing s) with
  | [] => (s, [])                                                    (* "could not be matched to any request" *)
  | r :: _ =>
    let final := negb (r_observe r && has_observe m) in
    ({| conns := conns s; pool := pool s;
        outgoing := if final then filter (fun x => negb (req_is (token m) id x)) (outgoing s) else outgoing s |},
     [SResponse (token m) id (code m) final])
  end.

(* TokenManager.dispatch_error, tokenmanager.py:74-110: every outstanding request of that remote gets the
   (NetworkError) exception; the terminal event ends the Pipe's interest, which pops the key (:251-253).
   Incoming requests' stoppers (:106-108) are the server side and not part of this model. *)
Definition tm_dispatch_error (x : exn_arg) (id : Z) (s : sys) : sys * list eout :=
  ({| conns := conns s; pool := pool s; outgoing := filter (fun r => negb (r_remote r =? id)) (outgoing s) |},
   map (fun r => SFail (r_token r) id (tm_wrap x)) (filter (fun r => r_remote r =? id) (outgoing s))).

(* _TCPPooling._dispatch_error, tcp.py:281-292 (token manager present) + TCPClient._evict_from_pool *)
Definition pool_dispatch_error (id : Z) (x : exn_arg) (s : sys) : sys * list eout :=
  tm_dispatch_error x id {| conns := conns s; pool := filter (fun i => negb (i =? id)) (pool s); outgoing := outgoing s |}.

(* where the outputs of connection [id] go *)
Definition route (id : Z) (o : out) (s : sys) : sys * list eout :=
  match o with
  | Response m => tm_process_response id m s
  | DispatchError k => pool_dispatch_error id (exc_of k) s
  | _ => (s, [SConn id o])
  end.
Fixpoint route_all (id : Z) (os : list out) (s : sys) : sys * list eout :=
  match os with
  | [] => (s, [])
  | o :: r => let '(s1, x1) := route id o s in let '(s2, x2) := route_all id r s1 in (s2, x1 ++ x2)
  end.

(* histories of the endpoint: a request is issued on a connection (TokenManager.request: table entry, then
   pool.send_message), bytes arrive on a connection, a connection is lost *)
Inductive pevent := PRequest (id : Z) (tok : bytes) (observe : bool) | PData (id : Z) (d : bytes) | PLost (id : Z).

Definition request_msg (tok : bytes) (observe : bool) : msg :=
  {| code := 1; token := tok; opts := (11, [120]) :: (if observe then [(6, [])] else []); payload := [] |}.

Definition sys_step (s : sys) (e : pevent) : sys * list eout :=
  match e with
  | PRequest id tok observe =>
    match get_conn id (conns s) with
    | None => (s, [])
    | Some c =>
      let s1 := {| conns := conns s; pool := pool s;
                   outgoing := outgoing s ++ [{| r_token := tok; r_remote := id; r_observe := observe |}] |} in
      let '(c1, o, _) := pool_send_message c (request_msg tok observe) in
      route_all id o {| conns := set_conn id c1 (conns s1); pool := pool s1; outgoing := outgoing s1 |}
    end
  | PData id d =>
    match get_conn id (conns s) with
    | None => (s, [])
    | Some c =>
      if closed c then (s, [])
      else let '(c1, o) := data_received c d in
           route_all id o {| conns := set_conn id c1 (conns s); pool := pool s; outgoing := outgoing s |}
    end
  | PLost id => route_all id [DispatchError ConnectionLost] s
  end.
Fixpoint sys_run (s : sys) (es : list pevent) : sys * list eout :=
  match es with
  | [] => (s, [])
  | e :: r => let '(s1, o1) := sys_step s e in let '(s2, o2) := sys_run s1 r in (s2, o1 ++ o2)
  end.

(* two client connections on which the peer's (empty) CSM has arrived, both pooled *)
Definition csm_conn (maxsize : Z) : conn :=
  {| spool := []; remote_settings := Some {| max_message_size := None; block_wise_transfer := false |};
     my_max_message_size := maxsize; closed := false |}.
Definition sys0 : sys := {| conns := [(0, csm_conn 1048576); (1, csm_conn 1048576)]; pool := [0; 1]; outgoing := [] |}.

(* report for the correspondence run *)
Inductive ssout :=
| RConn (id : Z) (o : C15.sout) | RResponse (tok : bytes) (id : Z) (c : Z) (final : bool) | RFail (tok : bytes) (id : Z) (d : delivered).
Definition summ_sout (o : eout) : ssout :=
  match o with SConn id x => RConn id (summ_out x) | SResponse t i c f => RResponse t i c f | SFail t i d => RFail t i d end.
Definition sys_report (r : sys * list eout) :=
  (map summ_sout (snd r), pool (fst r), map (fun q => (r_token q, r_remote q)) (outgoing (fst r)),
   map (fun ic => (fst ic, closed (snd ic))) (conns (fst r))).
