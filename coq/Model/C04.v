(* C04 — duplicate requests: executable model of the deduplication slice of
   aiocoap.messagemanager.MessageManager (/repo/aiocoap/messagemanager.py) together with as much of
   the request path (piggy-backed response, empty ACK, separate response with retransmission and
   NSTART backlog, TokenManager.process_request, the rendering of a resource.Site) as is needed to
   produce every message that _store_response_for_duplicates may remember.

   Each function is named after the Python method it mirrors (file:line in the comment).
   Time is integer microseconds; the event loop is the ideal timer service of harness/simloop.py:
   [Fire] runs the pending timer with the least (due, creation seq), [Advance d] runs every timer
   due within d and then moves the clock.  Every output carries the clock value at which it happened.
   No proofs in this file. *)
From Verif Require Import Lib.Py.
Open Scope Z_scope.

(* ------------------------------------------------------------------ data *)
Inductive mtype := CON | NON | ACK | RST.
Definition mtype_eqb (a b : mtype) : bool :=
  match a, b with CON, CON | NON, NON | ACK, ACK | RST, RST => true | _, _ => false end.
Definition is_ackrst (t : mtype) : bool := match t with ACK | RST => true | _ => false end.

(* header-level view of an option-less datagram (everything this endpoint sends here) *)
Record wire := { w_type : mtype; w_code : Z; w_mid : Z; w_token : list Z; w_payload : list Z }.

(* which resource of the test site the Uri-Path names *)
Inductive hkind := HFast | HSlow | HFail | HMissing | HSuppress | HBadReq | HRel | HUnrel | HCached.

(* an incoming datagram: remote endpoint, header, Uri-Path (as resource kind), No-Response option, payload *)
Record inmsg := { i_remote : Z; i_type : mtype; i_code : Z; i_mid : Z; i_token : list Z;
                  i_path : hkind; i_nr : option Z; i_payload : list Z }.

(* a response as a handler hands it to the library: code, payload, No-Response option, transport_tuning.reliability *)
Record appmsg := { a_code : Z; a_payload : list Z; a_nr : option Z; a_rel : option bool }.
Inductive exnkind := ERuntime | ENotFound.

Inductive event :=
| Recv (m : inmsg)                      (* datagram arrives (Message.decode + dispatch_message + run the loop until idle) *)
| Fire                                  (* the next pending timer fires *)
| Advance (d : Z)                       (* d microseconds pass *)
| Respond (sid : Z) (a : appmsg)        (* the waiting handler number sid returns a response *)
| RaiseIn (sid : Z) (k : exnkind)       (* the waiting handler number sid raises *)
| Refuse (r : Z) (b : bool)             (* from now on the transport refuses (b = true) / accepts datagrams to remote r *)
| NetError (r : Z).                     (* the transport reports an error about remote r: MessageManager.dispatch_error *)

Inductive exnname := AssertionError | KeyError.
Inductive output :=
| Send (t : Z) (r : Z) (w : wire)                              (* message_interface.send *)
| Start (t : Z) (sid : Z) (r : Z) (mid : Z) (tok : list Z)     (* the site's render_to_pipe is entered: request passed to the application *)
| Exn (t : Z) (e : exnname)                                    (* exception leaving dispatch_message / a timer callback *)
| Refused (t : Z) (r : Z).                                     (* the transport refused the datagram just handed to it and reported that
                                                                  from inside send() (udp6: sendmsg failing) *)

Notation key := (Z * Z)%type (only parsing).   (* (remote, message id) *)
Definition key_eqb (a b : Z * Z) : bool := (fst a =? fst b) && (snd a =? snd b).
Definition tokkey_eqb (a b : Z * list Z) : bool := (fst a =? fst b) && beqb (snd a) (snd b).   (* (remote, token) *)
Definition inckey_eqb (a b : list Z * Z) : bool := beqb (fst a) (fst b) && (snd a =? snd b).   (* (token, remote) *)

(* Python dict as association list: lookup, in-place replace, append at the end, delete *)
Section AList.
  Context {K V : Type} (eqb : K -> K -> bool).
  Fixpoint aget (k : K) (l : list (K * V)) : option V :=
    match l with [] => None | (k', v) :: r => if eqb k k' then Some v else aget k r end.
  Fixpoint aremove (k : K) (l : list (K * V)) : list (K * V) :=
    match l with [] => [] | (k', v) :: r => if eqb k k' then aremove k r else (k', v) :: aremove k r end.
  Fixpoint areplace (k : K) (v : V) (l : list (K * V)) : list (K * V) :=
    match l with [] => [] | (k', v') :: r => if eqb k k' then (k', v) :: r else (k', v') :: areplace k v r end.
  Definition aset (k : K) (v : V) (l : list (K * V)) : list (K * V) :=
    match aget k l with Some _ => areplace k v l | None => l ++ [(k, v)] end.
End AList.

Inductive tkind :=
| TEmptyAck (r : Z) (tok : list Z)                               (* on_timeout of _process_request *)
| TRetransmit (r : Z) (w : wire) (timeout : Z) (counter : Z).    (* retr of _schedule_retransmit *)

Record st := mkst {
  now : Z;                                         (* loop clock, us *)
  tseq : Z;                                        (* creation counter of loop timers *)
  ack_timeout : Z;                                 (* value random.uniform(ACK_TIMEOUT, ACK_TIMEOUT*ACK_RANDOM_FACTOR) returns, us *)
  message_id : Z;                                  (* MessageManager.message_id *)
  recent : list ((Z * Z) * option (Z * wire));     (* _recent_messages: (remote, mid) -> None | stored Message (remote, wire) *)
  forgets : list (Z * Z * (Z * Z));                (* (due, seq, key): the call_later(EXCHANGE_LIFETIME, _recent_messages.pop, key)
                                                      timers; their handles are dropped by the code, so they are never cancelled *)
  timers : list (Z * Z * tkind);                   (* (due, seq, what): the cancellable timers *)
  exchanges : list ((Z * Z) * Z);                  (* _active_exchanges: (remote, mid) -> handle (seq) of the retransmission timer;
                                                      the messageerror_monitor of a response is the pipe's stop(), a no-op once
                                                      the (final) response has been produced, and is left out *)
  backlogs : list (Z * list wire);                 (* _backlogs: remote -> queued CONs *)
  piggy : list ((Z * list Z) * (Z * Z));           (* _piggyback_opportunities: (remote, token) -> (mid, handle of the empty-ACK timer) *)
  incoming : list ((list Z * Z) * Z);              (* TokenManager.incoming_requests: (token, remote) -> handler number *)
  waiting : list (Z * inmsg);                      (* handlers awaiting the harness: handler number -> its request *)
  next_sid : Z;                                    (* number of requests passed to the site so far *)
  refused : list Z;                                (* remotes to which the transport currently refuses to send (harness) *)
  outs : list output }.                            (* log of everything observable, in order *)

Definition set_now v s := mkst v (tseq s) (ack_timeout s) (message_id s) (recent s) (forgets s) (timers s) (exchanges s) (backlogs s) (piggy s) (incoming s) (waiting s) (next_sid s) (refused s) (outs s).
Definition set_tseq v s := mkst (now s) v (ack_timeout s) (message_id s) (recent s) (forgets s) (timers s) (exchanges s) (backlogs s) (piggy s) (incoming s) (waiting s) (next_sid s) (refused s) (outs s).
Definition set_message_id v s := mkst (now s) (tseq s) (ack_timeout s) v (recent s) (forgets s) (timers s) (exchanges s) (backlogs s) (piggy s) (incoming s) (waiting s) (next_sid s) (refused s) (outs s).
Definition set_recent v s := mkst (now s) (tseq s) (ack_timeout s) (message_id s) v (forgets s) (timers s) (exchanges s) (backlogs s) (piggy s) (incoming s) (waiting s) (next_sid s) (refused s) (outs s).
Definition set_forgets v s := mkst (now s) (tseq s) (ack_timeout s) (message_id s) (recent s) v (timers s) (exchanges s) (backlogs s) (piggy s) (incoming s) (waiting s) (next_sid s) (refused s) (outs s).
Definition set_timers v s := mkst (now s) (tseq s) (ack_timeout s) (message_id s) (recent s) (forgets s) v (exchanges s) (backlogs s) (piggy s) (incoming s) (waiting s) (next_sid s) (refused s) (outs s).
Definition set_exchanges v s := mkst (now s) (tseq s) (ack_timeout s) (message_id s) (recent s) (forgets s) (timers s) v (backlogs s) (piggy s) (incoming s) (waiting s) (next_sid s) (refused s) (outs s).
Definition set_backlogs v s := mkst (now s) (tseq s) (ack_timeout s) (message_id s) (recent s) (forgets s) (timers s) (exchanges s) v (piggy s) (incoming s) (waiting s) (next_sid s) (refused s) (outs s).
Definition set_piggy v s := mkst (now s) (tseq s) (ack_timeout s) (message_id s) (recent s) (forgets s) (timers s) (exchanges s) (backlogs s) v (incoming s) (waiting s) (next_sid s) (refused s) (outs s).
Definition set_incoming v s := mkst (now s) (tseq s) (ack_timeout s) (message_id s) (recent s) (forgets s) (timers s) (exchanges s) (backlogs s) (piggy s) v (waiting s) (next_sid s) (refused s) (outs s).
Definition set_waiting v s := mkst (now s) (tseq s) (ack_timeout s) (message_id s) (recent s) (forgets s) (timers s) (exchanges s) (backlogs s) (piggy s) (incoming s) v (next_sid s) (refused s) (outs s).
Definition set_next_sid v s := mkst (now s) (tseq s) (ack_timeout s) (message_id s) (recent s) (forgets s) (timers s) (exchanges s) (backlogs s) (piggy s) (incoming s) (waiting s) v (refused s) (outs s).
Definition set_refused v s := mkst (now s) (tseq s) (ack_timeout s) (message_id s) (recent s) (forgets s) (timers s) (exchanges s) (backlogs s) (piggy s) (incoming s) (waiting s) (next_sid s) v (outs s).
Definition set_outs v s := mkst (now s) (tseq s) (ack_timeout s) (message_id s) (recent s) (forgets s) (timers s) (exchanges s) (backlogs s) (piggy s) (incoming s) (waiting s) (next_sid s) (refused s) v.

Definition emit (o : output) (s : st) : st := set_outs (outs s ++ [o]) s.

(* numbers/constants.py TransportTuning defaults, in microseconds *)
Definition EXCHANGE_LIFETIME : Z := 247000000.   (* MAX_TRANSMIT_SPAN 45 s + MAX_RTT 202 s, constants.py:117-122 *)
Definition EMPTY_ACK_DELAY : Z := 100000.        (* constants.py:127 *)
Definition MAX_RETRANSMIT : Z := 4.              (* constants.py:65 *)

Definition is_request (c : Z) : bool := (1 <=? c) && (c <? 32).      (* numbers/codes.py:78 *)
Definition is_response (c : Z) : bool := (64 <=? c) && (c <? 192).   (* numbers/codes.py:82 *)
Definition EMPTY : Z := 0.

Definition msg_key (m : inmsg) : Z * Z := (i_remote m, i_mid m).

(* ------------------------------------------------------------------ loop timers *)
(* loop.call_later for a cancellable callback; returns the handle *)
Definition call_later (delay : Z) (k : tkind) (s : st) : st * Z :=
  (set_tseq (tseq s + 1) (set_timers (timers s ++ [(now s + delay, tseq s, k)]) s), tseq s).
(* handle.cancel() *)
Definition cancel (h : Z) (s : st) : st :=
  set_timers (filter (fun t => negb (snd (fst t) =? h)) (timers s)) s.

(* ------------------------------------------------------------------ outgoing messages *)
(* the stop() closure of TokenManager.process_request (tokenmanager.py:176): the pipe ends, on_end drops the
   incoming_requests entry, the rendering task is cancelled *)
Definition stop_incoming (ik : list Z * Z) (sid : Z) (s : st) : st :=
  set_waiting (aremove Z.eqb sid (waiting s)) (set_incoming (aremove inckey_eqb ik (incoming s)) s).

(* tokenmanager.py:74 dispatch_error: every incoming request of that remote is stopped (there are no outgoing requests here) *)
Definition tm_dispatch_error (r : Z) (s : st) : st :=
  fold_left (fun s e => if snd (fst e) =? r then stop_incoming (fst e) (snd e) s else s) (incoming s) s.

(* messagemanager.py:157 dispatch_error: the transport reports an error about remote r. The token manager stops the
   remote's incoming requests, every exchange with r ends (its retransmission timer is cancelled), r's backlog is dropped *)
Definition mm_dispatch_error (r : Z) (s : st) : st :=
  let s := tm_dispatch_error r s in
  let s := fold_left (fun s e => if fst (fst e) =? r
                                 then cancel (snd e) (set_exchanges (aremove key_eqb (fst e) (exchanges s)) s)
                                 else s) (exchanges s) s in
  set_backlogs (aremove Z.eqb r (backlogs s)) s.

(* messagemanager.py:548 _send_via_transport = message_interface.send(message). [Send] records that the datagram was handed
   to the transport; a transport that refuses it says so from inside send() by calling dispatch_error (udp6: sendmsg
   failing with ENETUNREACH/EACCES; here: the harness's interface for the remotes in [refused]) *)
Definition send_log (r : Z) (w : wire) (s : st) : st := emit (Send (now s) r w) s.
Definition is_refused (r : Z) (s : st) : bool := existsb (Z.eqb r) (refused s).
Definition refusal (r : Z) (s : st) : st :=
  if is_refused r s then mm_dispatch_error r (emit (Refused (now s) r) s) else s.
Definition _send_via_transport (r : Z) (w : wire) (s : st) : st := refusal r (send_log r w s).

(* messagemanager.py:224 — as fixed in cd09d80: only ACK and RST are remembered; as fixed in 75465d6: a snapshot
   (message.copy()) is stored, i.e. a value *)
Definition _store_response_for_duplicates (r : Z) (w : wire) (s : st) : st :=
  if negb (is_ackrst (w_type w)) then s
  else
    let key := (r, w_mid w) in
    match aget key_eqb key (recent s) with
    | Some _ => set_recent (areplace key_eqb key (Some (r, w)) (recent s)) s
    | None => s
    end.

(* messagemanager.py:320 *)
Definition _schedule_retransmit (r : Z) (w : wire) (timeout counter : Z) (s : st) : st * Z :=
  call_later timeout (TRetransmit r w timeout counter) s.

(* messagemanager.py:247 *)
Definition _add_exchange (r : Z) (w : wire) (s : st) : st :=
  let s := match aget Z.eqb r (backlogs s) with
           | None => set_backlogs (aset Z.eqb r [] (backlogs s)) s
           | Some _ => s end in
  let '(s, h) := _schedule_retransmit r w (ack_timeout s) 0 s in
  set_exchanges (aset key_eqb (r, w_mid w) h (exchanges s)) s.

(* messagemanager.py:533; [monitor] = whether a messageerror_monitor was passed.
   The assertion failure leaves the method (and its callers: nothing follows the call in any of them). *)
Definition _send_initially (r : Z) (w : wire) (monitor : bool) (s : st) : st :=
  match w_type w with
  | CON =>
      if negb monitor then emit (Exn (now s) AssertionError) s
      else _send_via_transport r w (_store_response_for_duplicates r w (_add_exchange r w s))
  | _ => _send_via_transport r w (_store_response_for_duplicates r w s)
  end.

(* messagemanager.py:553 *)
Definition _next_message_id (s : st) : st * Z :=
  (set_message_id (Z.land 65535 (1 + message_id s)) s, message_id s).

(* messagemanager.py:559 *)
Definition _send_empty_ack (r mid : Z) (s : st) : st :=
  _send_initially r {| w_type := ACK; w_code := EMPTY; w_mid := mid; w_token := []; w_payload := [] |} false s.

(* ------------------------------------------------------------------ message-type sublayer *)
Definition has_exchange_with (r : Z) (s : st) : bool :=
  existsb (fun e => fst (fst e) =? r) (exchanges s).

(* messagemanager.py:292; the while loop, structurally on a bound that exceeds the backlog length *)
Fixpoint _continue_backlog_loop (fuel : nat) (r : Z) (s : st) : st :=
  match fuel with
  | O => s
  | S fuel =>
      if has_exchange_with r s then s
      else match aget Z.eqb r (backlogs s) with
           | None => s   (* as fixed in 8d04b7c: `while remote in self._backlogs and ...` — a refused release dropped it *)
           | Some [] => set_backlogs (aremove Z.eqb r (backlogs s)) s
           | Some (w :: rest) =>
               _continue_backlog_loop fuel r
                 (_send_initially r w true (set_backlogs (aset Z.eqb r rest (backlogs s)) s))
           end
  end.
Definition _continue_backlog (r : Z) (s : st) : st :=
  match aget Z.eqb r (backlogs s) with
  | None => emit (Exn (now s) AssertionError) s
  | Some b => _continue_backlog_loop (S (S (length b))) r s
  end.

(* messagemanager.py:270 *)
Definition _remove_exchange (r mid : Z) (s : st) : st :=
  match aget key_eqb (r, mid) (exchanges s) with
  | None => s
  | Some h => _continue_backlog r (cancel h (set_exchanges (aremove key_eqb (r, mid) (exchanges s)) s))
  end.

(* messagemanager.py:342; the timer that fired has already left [timers] *)
Definition _retransmit (r : Z) (w : wire) (timeout counter : Z) (s : st) : st :=
  let key := (r, w_mid w) in
  match aget key_eqb key (exchanges s) with
  | None => emit (Exn (now s) KeyError) s
  | Some h =>
      let s := cancel h (set_exchanges (aremove key_eqb key (exchanges s)) s) in
      if counter <? MAX_RETRANSMIT then
        (* as fixed in 11456f9: the exchange is put back before the message is handed to the transport *)
        let '(s, h) := _schedule_retransmit r w (timeout * 2) (counter + 1) s in
        _send_via_transport r w (set_exchanges (aset key_eqb key h (exchanges s)) s)
      else
        match aget Z.eqb r (backlogs s) with
        | None => emit (Exn (now s) KeyError) s
        | Some _ => tm_dispatch_error r (set_backlogs (aremove Z.eqb r (backlogs s)) s)
        end
  end.

(* ------------------------------------------------------------------ responses of the application *)
(* messagemanager.py:437 send_message, for a response [a] to request [m] (token and remote were filled in by
   tokenmanager.py:128 on_event); no multicast, no shutdown *)
Definition send_message (m : inmsg) (a : appmsg) (s : st) : st :=
  let r := i_remote m in
  let tok := i_token m in
  let plain t mid := {| w_type := t; w_code := a_code a; w_mid := mid; w_token := tok; w_payload := a_payload a |} in
  let decide s :=                                                   (* lines 472-517 *)
    let t := match a_rel a with
             | Some true => CON | Some false => NON
             | None => match i_type m with NON => NON | _ => CON end end in
    let '(s, mid) := _next_message_id s in
    let w := plain t mid in
    match t, aget Z.eqb r (backlogs s) with
    | CON, Some b => set_backlogs (aset Z.eqb r (b ++ [w]) (backlogs s)) s
    | _, _ => _send_initially r w true s
    end in
  if is_response (a_code a) then
    let no_response :=
      negb (Z.land (match a_nr a with Some v => v | None => 0 end) (Z.shiftl 1 (a_code a / 32 - 1)) =? 0) in
    match aget tokkey_eqb (r, tok) (piggy s) with
    | Some (mid, h) =>
        let s := cancel h (set_piggy (aremove tokkey_eqb (r, tok) (piggy s)) s) in
        if no_response
        then _send_initially r {| w_type := ACK; w_code := EMPTY; w_mid := mid; w_token := []; w_payload := [] |} true s
        else _send_initially r (plain ACK mid) true s
    | None => if no_response then s else decide s
    end
  else decide s.

(* resource.py:141: a response without No-Response option inherits the request's *)
Definition render_copy (m : inmsg) (a : appmsg) : appmsg :=
  match a_nr a with
  | None => {| a_code := a_code a; a_payload := a_payload a; a_nr := i_nr m; a_rel := a_rel a |}
  | Some _ => a
  end.

(* pipe.add_response(res, is_last=True) seen from the TokenManager: on_event (tokenmanager.py:128) fills in the request's
   No-Response option where the response has none (also for responses built from exceptions, as fixed in 3a77ec2) and sends;
   then the pipe ends and on_end (tokenmanager.py:166) drops the incoming_requests entry *)
Definition finish (m : inmsg) (a : appmsg) (s : st) : st :=
  let s := send_message m (render_copy m a) s in
  set_incoming (aremove inckey_eqb (i_token m, i_remote m) (incoming s)) s.

(* pipe.py:245 error_to_message *)
Definition error_message (k : exnkind) : appmsg :=
  match k with
  | ERuntime => {| a_code := 160; a_payload := []; a_nr := None; a_rel := None |}     (* 5.00 *)
  | ENotFound => {| a_code := 132; a_payload := []; a_nr := None; a_rel := None |}    (* 4.04 *)
  end.

(* the task created by Context.render_to_pipe (protocol.py:581), running the logging Site of the harness and the
   resource the path names; the resources build their payload from the invocation number *)
Definition render_to_pipe (m : inmsg) (s : st) : st :=
  let sid := next_sid s in
  let s := emit (Start (now s) sid (i_remote m) (i_mid m) (i_token m)) (set_next_sid (sid + 1) s) in
  let body := (sid mod 256) :: i_payload m in
  let ok code nr rel := finish m (render_copy m {| a_code := code; a_payload := body; a_nr := nr; a_rel := rel |}) s in
  match i_path m with
  | HFast => ok 69 None None
  | HSuppress => ok 68 (Some 26) None
  | HBadReq => ok 128 None None
  | HRel => ok 69 None (Some true)
  | HUnrel => ok 69 None (Some false)
  | HCached =>   (* the resource returns ONE pre-built Message object for every request; since 75465d6 the reply remembered for
                    duplicates is a snapshot (message.copy()), so for requests answered at once by a piggy-backed ACK the
                    object behaves like a value *)
      finish m {| a_code := 69; a_payload := [99; 97; 99; 104; 101; 100]; a_nr := None; a_rel := None |} s
  | HFail => finish m (error_message ERuntime) s
  | HMissing => finish m (error_message ENotFound) s
  | HSlow => set_waiting (aset Z.eqb sid m (waiting s)) s
  end.

(* tokenmanager.py:112 *)
Definition process_request (m : inmsg) (s : st) : st :=
  let ik := (i_token m, i_remote m) in
  let s := match aget inckey_eqb ik (incoming s) with
           | Some old => stop_incoming ik old s
           | None => s end in
  let s := set_incoming (aset inckey_eqb ik (next_sid s) (incoming s)) s in
  render_to_pipe m s.

(* the harness completes the future a slow handler awaits *)
Definition handler_respond (sid : Z) (a : appmsg) (s : st) : st :=
  match aget Z.eqb sid (waiting s) with
  | None => s
  | Some m =>
      (* resource.py:143 (fix of C09): a render method returning a non-response code is a ValueError, answered 5.00 *)
      finish m (if is_response (a_code a) then render_copy m a else error_message ERuntime)
             (set_waiting (aremove Z.eqb sid (waiting s)) s)
  end.
Definition handler_raise (sid : Z) (k : exnkind) (s : st) : st :=
  match aget Z.eqb sid (waiting s) with
  | None => s
  | Some m => finish m (error_message k) (set_waiting (aremove Z.eqb sid (waiting s)) s)
  end.

(* ------------------------------------------------------------------ incoming messages *)
(* messagemanager.py:194 *)
Definition _deduplicate_message (m : inmsg) (s : st) : st * bool :=
  let key := msg_key m in
  match aget key_eqb key (recent s) with
  | Some stored =>
      match i_type m, stored with
      | CON, Some (r, w) => (_send_initially r w false s, true)
      | _, _ => (s, true)
      end
  | None =>
      let s := set_tseq (tseq s + 1) (set_forgets (forgets s ++ [(now s + EXCHANGE_LIFETIME, tseq s, key)]) s) in
      (set_recent (recent s ++ [(key, None)]) s, false)
  end.

(* messagemanager.py:375 *)
Definition _process_ping (m : inmsg) (s : st) : st :=
  _send_initially (i_remote m) {| w_type := RST; w_code := EMPTY; w_mid := i_mid m; w_token := []; w_payload := [] |} false s.

(* messagemanager.py:383 *)
Definition _process_request (m : inmsg) (s : st) : st :=
  let s :=
    match i_type m with
    | CON =>
        let '(s, h) := call_later EMPTY_ACK_DELAY (TEmptyAck (i_remote m) (i_token m)) s in
        let pk := (i_remote m, i_token m) in
        let s := match aget tokkey_eqb pk (piggy s) with
                 | Some (_, old) => cancel old (set_piggy (aremove tokkey_eqb pk (piggy s)) s)
                 | None => s end in
        set_piggy (aset tokkey_eqb pk (i_mid m, h) (piggy s)) s
    | _ => s
    end in
  process_request m s.

(* messagemanager.py:97 *)
Definition dispatch_message (m : inmsg) (s : st) : st :=
  let '(s, dup) := if is_request (i_code m) then _deduplicate_message m s else (s, false) in
  if dup then s
  else
    let s := if is_ackrst (i_type m) then _remove_exchange (i_remote m) (i_mid m) s else s in
    if (i_code m =? EMPTY) && mtype_eqb (i_type m) CON then _process_ping m s
    else if (i_code m =? EMPTY) && is_ackrst (i_type m) then s
    else if is_request (i_code m) && negb (is_ackrst (i_type m)) then _process_request m s
    else if is_response (i_code m) && negb (mtype_eqb (i_type m) RST) then
      (* no outgoing requests here: _process_response is False *)
      if mtype_eqb (i_type m) CON
      then _send_initially (i_remote m) {| w_type := RST; w_code := EMPTY; w_mid := i_mid m; w_token := []; w_payload := [] |} false s
      else s
    else s.

(* ------------------------------------------------------------------ the loop *)
Inductive anytimer := AForget (k : Z * Z) | ATimer (t : tkind).
Definition all_timers (s : st) : list (Z * Z * anytimer) :=
  map (fun f => (fst f, AForget (snd f))) (forgets s) ++ map (fun t => (fst t, ATimer (snd t))) (timers s).
Definition earlier (a b : Z * Z * anytimer) : bool :=
  let '(d1, q1, _) := a in let '(d2, q2, _) := b in (d1 <? d2) || ((d1 =? d2) && (q1 <? q2)).
Fixpoint min_timer (l : list (Z * Z * anytimer)) : option (Z * Z * anytimer) :=
  match l with
  | [] => None
  | x :: r => match min_timer r with None => Some x | Some y => if earlier y x then Some y else Some x end
  end.

(* on_timeout of _process_request, messagemanager.py:389 *)
Definition on_timeout (r : Z) (tok : list Z) (s : st) : st :=
  match aget tokkey_eqb (r, tok) (piggy s) with
  | None => emit (Exn (now s) KeyError) s
  | Some (mid, _) => _send_empty_ack r mid (set_piggy (aremove tokkey_eqb (r, tok) (piggy s)) s)
  end.

(* simloop.VLoop.fire_next *)
Definition fire (s : st) : st :=
  match min_timer (all_timers s) with
  | None => s
  | Some (due, q, AForget k) =>
      let s := set_now (Z.max (now s) due) s in
      let s := set_forgets (filter (fun f => negb (key_eqb (snd f) k)) (forgets s)) s in
      (* functools.partial(self._recent_messages.pop, key), messagemanager.py:219 *)
      match aget key_eqb k (recent s) with
      | None => emit (Exn (now s) KeyError) s
      | Some _ => set_recent (aremove key_eqb k (recent s)) s
      end
  | Some (due, q, ATimer t) =>
      let s := set_now (Z.max (now s) due) s in
      let s := cancel q s in
      match t with
      | TEmptyAck r tok => on_timeout r tok s
      | TRetransmit r w timeout counter => _retransmit r w timeout counter s
      end
  end.

Definition next_due (s : st) : option Z :=
  match min_timer (all_timers s) with Some (due, _, _) => Some due | None => None end.

(* simloop.VLoop.advance: fire what becomes due, in order, then set the clock *)
Fixpoint advance_loop (fuel : nat) (target : Z) (s : st) : st :=
  match fuel with
  | O => s
  | S fuel => match next_due s with
              | Some due => if due <=? target then advance_loop fuel target (fire s) else s
              | None => s
              end
  end.
Definition advance_fuel : nat := 2000.
Definition advance (d : Z) (s : st) : st :=
  if d <? 0 then s else
  let target := now s + d in
  let s := advance_loop advance_fuel target s in
  match next_due s with
  | Some due => if due <=? target then s (* bound exhausted: the clock never passes a pending timer *)
                else set_now (Z.max (now s) target) s
  | None => set_now (Z.max (now s) target) s
  end.

Definition step (s : st) (e : event) : st :=
  match e with
  | Recv m => dispatch_message m s
  | Fire => fire s
  | Advance d => advance d s
  | Respond sid a => handler_respond sid a s
  | RaiseIn sid k => handler_raise sid k s
  | Refuse r b => set_refused (if b then r :: refused s else filter (fun x => negb (x =? r)) (refused s)) s
  | NetError r => mm_dispatch_error r s
  end.

Definition run (s : st) (evs : list event) : st := fold_left step evs s.

(* clock and length of the log after every event: lets the harness cut the log into per-event pieces *)
Fixpoint scan (s : st) (evs : list event) : list (Z * Z) :=
  match evs with
  | [] => []
  | e :: r => let s' := step s e in (now s', Z.of_nat (length (outs s'))) :: scan s' r
  end.

Definition init (mid0 uniform : Z) : st :=
  mkst 0 0 uniform mid0 [] [] [] [] [] [] [] [] 0 [] [].

(* the datagram of an option-less message (RFC 7252 section 3): version 1, type, token length; code; message id; token;
   payload marker and payload *)
Definition mtype_code (t : mtype) : Z := match t with CON => 0 | NON => 1 | ACK => 2 | RST => 3 end.
Definition wire_bytes (w : wire) : list Z :=
  [64 + 16 * mtype_code (w_type w) + blen (w_token w); w_code w; w_mid w / 256; w_mid w mod 256]
  ++ w_token w ++ match w_payload w with [] => [] | p => 255 :: p end.

(* what the correspondence run compares: the log (as flat integer lists), its cutting, and the final tables *)
Definition output_row (o : output) : list Z :=
  match o with
  | Send t r w => 0 :: t :: r :: wire_bytes w
  | Start t sid r mid tok => 1 :: t :: sid :: r :: mid :: tok
  | Exn t AssertionError => [2; t; 0]
  | Exn t KeyError => [2; t; 1]
  | Refused t r => [3; t; r]
  end.
Definition observe (s0 : st) (evs : list event) :=
  let s := run s0 evs in
  (map output_row (outs s), scan s0 evs,
   (map (fun e => fst (fst e) :: snd (fst e) :: match snd e with Some (_, w) => wire_bytes w | None => [] end) (recent s),
    now s, message_id s),
   (map (fun f => fst (fst f)) (forgets s) ++ map (fun t => fst (fst t)) (timers s),
    map (fun p => (fst (fst p), snd (fst p), fst (snd p))) (piggy s),
    map fst (exchanges s),
    map (fun b => (fst b, Z.of_nat (length (snd b)))) (backlogs s),
    map (fun i => (snd (fst i), fst (fst i))) (incoming s))).

(* ------------------------------------------------------------------ vocabulary of the theorems *)
(* the ACK / RST sent to endpoint [fst k] under message id [snd k], if [o] is one *)
Definition reply_of (k : Z * Z) (o : output) : option (Z * wire) :=
  match o with
  | Send _ r w => if (r =? fst k) && (w_mid w =? snd k) && is_ackrst (w_type w) then Some (r, w) else None
  | _ => None
  end.
(* the last such message in a piece of log, [acc] if there is none *)
Definition last_reply (k : Z * Z) (l : list output) (acc : option (Z * wire)) : option (Z * wire) :=
  fold_left (fun acc o => match reply_of k o with Some x => Some x | None => acc end) l acc.
(* is [o] the hand-over of a request with key [k] to the application, and when *)
Definition start_of (k : Z * Z) (o : output) : option Z :=
  match o with
  | Start t _ r mid _ => if (r =? fst k) && (mid =? snd k) then Some t else None
  | _ => None
  end.
Definition starts (k : Z * Z) (l : list output) : list Z :=
  flat_map (fun o => match start_of k o with Some t => [t] | None => [] end) l.
Definition out_time (o : output) : Z := match o with Send t _ _ => t | Start t _ _ _ _ => t | Exn t _ => t | Refused t _ => t end.
