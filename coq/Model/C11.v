(* C11 — OSCORE protect / unprotect (aiocoap/oscore.py), executable model.  No proofs in this file.
   Hand-written, every function named after the Python method it mirrors; tied to the code by the
   correspondence streams of harness/props/c11.py.  All numeric constants come from Gen/oscore_consts.v
   (extracted from the source on every run), the extended option-field codec from Gen/options_ext.v and the
   replay window from Gen/oscore_replay.v (both translated from the source on every run).
   The AEAD is a parameter ([aead] record): theorems quantify over every ideal AEAD, the correspondence run
   instantiates it with the symbolic scheme [sym_aead] below (also plugged into the real oscore.py). *)
From Verif Require Import Lib.Py Gen.options_ext Gen.oscore_replay Gen.oscore_consts.
Open Scope Z_scope.

(* error.Error subclasses of oscore.py that Lib/Py.v has no constructor for *)
Notation NotAProtectedMessage := (OtherError 1).

(* ------------------------------------------------------------------ data *)
(* SymmetricEncryptionAlgorithm.encrypt(plaintext, aad, key, iv) / decrypt — argument order here: key nonce aad text *)
Record aead := { enc : list Z -> list Z -> list Z -> list Z -> list Z;
                 dec : list Z -> list Z -> list Z -> list Z -> option (list Z) }.
(* class attributes value / key_bytes / tag_bytes / iv_bytes (oscore.py:213-216) *)
Record alg := { alg_value : Z; alg_key_bytes : Z; alg_tag_bytes : Z; alg_iv_bytes : Z }.

(* a CoAP message as far as OSCORE looks at it: options are (number, encoded value), sorted by number *)
Record msg := { code : Z; opts : list (Z * list Z); payload : list Z }.
(* result of unprotect: Observe is carried as an integer (may be -1 or > 3 bytes, oscore.py:1431-1436) *)
Record umsg := { u_code : Z; u_observe : option Z; u_opts : list (Z * list Z); u_payload : list Z }.

(* RequestIdentifiers (oscore.py:168-195); can_reuse_nonce None is modelled as false; code_style = (request, response) *)
Record rid := { rid_kid : list Z; rid_piv : list Z; can_reuse_nonce : bool; code_style : Z * Z }.

(* security context (BaseSecurityContext / CanProtect / CanUnprotect attributes); echo_recovery is None
   (the Echo recovery flow is C12's model) *)
Record ctx := { c_alg : alg; sender_id : list Z; recipient_id : list Z; id_context : option (list Z);
                sender_key : list Z; recipient_key : list Z; common_iv : list Z;
                sender_sequence_number : Z; recipient_replay_window : option rw; responses_send_kid : bool }.
Definition set_seq (c : ctx) (n : Z) : ctx :=
  {| c_alg := c_alg c; sender_id := sender_id c; recipient_id := recipient_id c; id_context := id_context c;
     sender_key := sender_key c; recipient_key := recipient_key c; common_iv := common_iv c;
     sender_sequence_number := n; recipient_replay_window := recipient_replay_window c; responses_send_kid := responses_send_kid c |}.
Definition set_window (c : ctx) (w : option rw) : ctx :=
  {| c_alg := c_alg c; sender_id := sender_id c; recipient_id := recipient_id c; id_context := id_context c;
     sender_key := sender_key c; recipient_key := recipient_key c; common_iv := common_iv c;
     sender_sequence_number := sender_sequence_number c; recipient_replay_window := w; responses_send_kid := responses_send_kid c |}.

(* the `unprotected` COSE header bag of _compress/_uncompress: keys COSE_PIV, COSE_KID, COSE_KID_CONTEXT, COSE_COUNTERSIGNATURE0 *)
Record unprot := { u_piv : option (list Z); u_kid : option (list Z); u_kid_context : option (list Z); u_group : bool }.

Definition opt_beqb (a b : option (list Z)) : bool :=
  match a, b with Some x, Some y => beqb x y | None, None => true | _, _ => false end.
Definition get_opt (n : Z) (os : list (Z * list Z)) : option (list Z) :=
  match find (fun o => fst o =? n) os with Some o => Some (snd o) | None => None end.
Definition del_opt (n : Z) (os : list (Z * list Z)) : list (Z * list Z) := filter (fun o => negb (fst o =? n)) os.
(* Code.is_request / is_response (numbers/codes.py:78-84) *)
Definition is_request (c : Z) : bool := (1 <=? c) && (c <? 32).
Definition is_response (c : Z) : bool := (64 <=? c) && (c <? 192).
Definition zeros (n : Z) : list Z := repeat 0 (Z.to_nat n).           (* b"\0" * n, empty for n <= 0 *)
Fixpoint lstrip0 (b : list Z) : list Z := match b with 0 :: r => lstrip0 r | _ => b end.   (* .lstrip(b"\0") *)
Fixpoint map2 (f : Z -> Z -> Z) (a b : list Z) : list Z :=
  match a, b with x :: a', y :: b' => f x y :: map2 f a' b' | _, _ => [] end.

(* ------------------------------------------------------------------ _compress (oscore.py:929-979) *)
Definition compress (u : unprot) : M (list Z) :=
  let piv := match u_piv u with Some p => p | None => [] end in
  if blen piv >? COMPRESSION_BITS_N then Raise ValueError else
  let firstbyte := blen piv in
  let '(firstbyte, kid_data) := match u_kid u with Some k => (Z.lor firstbyte COMPRESSION_BIT_K, k) | None => (firstbyte, []) end in
  r <- match u_kid_context u with
       | Some kc => if blen kc >? KID_CONTEXT_MAX then Raise ValueError else Ok (Z.lor firstbyte COMPRESSION_BIT_H, blen kc :: kc)
       | None => Ok (firstbyte, [])
       end ;;
  let '(firstbyte, s_kid_context) := r in
  let firstbyte := if u_group u then Z.lor firstbyte COMPRESSION_BIT_GROUP else firstbyte in
  Ok (if firstbyte =? 0 then [] else firstbyte :: piv ++ s_kid_context ++ kid_data).

(* ------------------------------------------------------------------ _uncompress (oscore.py:1462-1506) *)
Definition uncompress (option_data : list Z) : M unprot :=
  let '(firstbyte, tail) := match option_data with [] => (0, []) | b :: t => (b, t) end in
  if negb (Z.land firstbyte COMPRESSION_BITS_RESERVED =? 0) then Raise DecodeError else
  let pivsz := Z.land firstbyte COMPRESSION_BITS_N in
  if pivsz >? PIVSZ_MAX then Raise DecodeError else
  r1 <- (if negb (pivsz =? 0)
         then if blen tail <? pivsz then Raise DecodeError else Ok (Some (bto tail pivsz), bfrom tail pivsz)
         else Ok (None, tail)) ;;
  let '(piv, tail) := r1 in
  r2 <- (if negb (Z.land firstbyte COMPRESSION_BIT_H =? 0)
         then match tail with
              | [] => Raise DecodeError
              | s :: t => if blen tail - 1 <? s then Raise DecodeError else Ok (Some (bto t s), bfrom t s)
              end
         else Ok (None, tail)) ;;
  let '(kc, tail) := r2 in
  let kid := if negb (Z.land firstbyte COMPRESSION_BIT_K =? 0) then Some tail else None in
  Ok {| u_piv := piv; u_kid := kid; u_kid_context := kc; u_group := negb (Z.land firstbyte COMPRESSION_BIT_GROUP =? 0) |}.

(* ------------------------------------------------------------------ _xor_bytes, _construct_nonce (oscore.py:198-202, 802-821) *)
Definition xor_bytes (a b : list Z) : M (list Z) :=
  if blen a =? blen b then Ok (map2 Z.lxor a b) else Raise AssertionError.
Definition nonce_components (partial_iv_short piv_generator_id : list Z) (iv_bytes : Z) : list Z :=
  let pad_piv := zeros (NONCE_PIV_BYTES - blen partial_iv_short) in
  let pad_id := zeros (iv_bytes - NONCE_ID_OVERHEAD - blen piv_generator_id) in
  [blen piv_generator_id] ++ pad_id ++ piv_generator_id ++ pad_piv ++ partial_iv_short.
Definition construct_nonce (common_iv partial_iv_short piv_generator_id : list Z) (iv_bytes : Z) : M (list Z) :=
  if blen piv_generator_id >? 255 then Raise ValueError else       (* bytes([len(piv_generator_id)]) *)
  let components := nonce_components partial_iv_short piv_generator_id iv_bytes in
  xor_bytes (bto common_iv (blen components)) components.

(* ------------------------------------------------------------------ CBOR fragment used for the AAD (cbor2.dumps of ints, bstr, tstr, arrays) *)
Definition cbor_head (major n : Z) : list Z :=
  if n <? 24 then [major * 32 + n]
  else if n <? 256 then [major * 32 + 24; n]
  else if n <? 65536 then (major * 32 + 25) :: to_bytes_big_n 2 n
  else if n <? 4294967296 then (major * 32 + 26) :: to_bytes_big_n 4 n
  else (major * 32 + 27) :: to_bytes_big_n 8 n.
Definition cbor_int (v : Z) : list Z := if 0 <=? v then cbor_head 0 v else cbor_head 1 (-1 - v).
Definition cbor_bstr (b : list Z) : list Z := cbor_head 2 (blen b) ++ b.
Definition cbor_tstr (b : list Z) : list Z := cbor_head 3 (blen b) ++ b.
Definition cbor_array (items : list (list Z)) : list Z := cbor_head 4 (blen items) ++ concat items.

(* _extract_external_aad (oscore.py:823-881) for a non-group context without request_hash:
   [oscore_version = 1, [alg_aead.value], request_id.kid, request_id.partial_iv, class_i_options = b""] *)
Definition extract_external_aad (a : alg) (r : rid) : list Z :=
  cbor_array [cbor_int 1; cbor_array [cbor_int (alg_value a)]; cbor_bstr (rid_kid r); cbor_bstr (rid_piv r); cbor_bstr []].
(* _build_encrypt0_structure (oscore.py:227-233): ["Encrypt0", b"", external_aad] *)
Definition Encrypt0 : list Z := [69; 110; 99; 114; 121; 112; 116; 48].
Definition build_encrypt0_structure (external_aad : list Z) : list Z :=
  cbor_array [cbor_tstr Encrypt0; cbor_bstr []; cbor_bstr external_aad].

(* ------------------------------------------------------------------ inner message codec: Options.encode / Options.decode (options.py:166-210) *)
Fixpoint encode_options (current_opt_num : Z) (os : list (Z * list Z)) : M (list Z) :=
  match os with
  | [] => Ok []
  | (number, optiondata) :: rest =>
      '(delta, extended_delta) <- write_extended_field_value (number - current_opt_num) ;;
      '(length, extended_length) <- write_extended_field_value (blen optiondata) ;;
      r <- encode_options number rest ;;
      Ok ((Z.shiftl (Z.land delta 15) 4 + Z.land length 15) :: extended_delta ++ extended_length ++ optiondata ++ r)
  end.
(* returns (options, payload = what follows the 0xFF marker); fuel = number of bytes is always enough *)
Fixpoint decode_options (fuel : nat) (option_number : Z) (rawdata : list Z) : M (list (Z * list Z) * list Z) :=
  match rawdata with
  | [] => Ok ([], [])
  | b :: rest =>
    if b =? 255 then Ok ([], rest) else
    match fuel with
    | O => Raise OutOfFuel
    | S f =>
      let delta := Z.shiftr (Z.land b 240) 4 in
      let length := Z.land b 15 in
      '(delta, rawdata1) <- read_extended_field_value delta rest ;;
      '(length, rawdata2) <- read_extended_field_value length rawdata1 ;;
      let option_number := option_number + delta in
      if blen rawdata2 <? length then Raise UnparsableMessage else
      r <- decode_options f option_number (bfrom rawdata2 length) ;;
      Ok ((option_number, bto rawdata2 length) :: fst r, snd r)
    end
  end.

(* ------------------------------------------------------------------ _split_message (oscore.py:1130-1186) *)
(* plaintext = bytes([inner.code]) + inner.opt.encode() [+ 0xFF + payload] *)
Definition plaintext_of (c : Z) (os : list (Z * list Z)) (pl : list Z) : M (list Z) :=
  if (c <? 0) || (255 <? c) then Raise ValueError else
  e <- encode_options 0 os ;;
  Ok (c :: e ++ match pl with [] => [] | _ => 255 :: pl end).
Definition inner_opts (m : msg) : list (Z * list Z) :=
  if is_request (code m)
  then del_opt OPT_PROXY_SCHEME (del_opt OPT_PROXY_URI (del_opt OPT_URI_PORT (del_opt OPT_URI_HOST (opts m))))
  else opts m.
Definition observe_value (os : list (Z * list Z)) : option Z :=
  match get_opt OPT_OBSERVE os with Some v => Some (from_bytes_big v) | None => None end.
Definition outer_code_of (m : msg) (r : option rid) : M Z :=
  if is_request (code m)
  then Ok (match get_opt OPT_OBSERVE (opts m) with None => CODE_POST | Some _ => CODE_FETCH end)
  else match r with Some r => Ok (snd (code_style r)) | None => Raise AttributeError end.
(* outer options before the OSCORE option is added: Uri-Host (requests), Observe (copied unless the code is a response code) *)
Definition outer_opts_of (m : msg) : list (Z * list Z) :=
  (if is_request (code m)
   then match get_opt OPT_URI_HOST (opts m) with Some h => [(OPT_URI_HOST, h)] | None => [] end else [])
  ++ (if is_response (code m) then []
      else match observe_value (opts m) with Some v => [(OPT_OBSERVE, to_minimum_bytes v)] | None => [] end).
Definition split_message (m : msg) (r : option rid) : M (msg * list Z) :=
  if is_request (code m) && match get_opt OPT_PROXY_URI (opts m) with Some _ => true | None => false end
  then Raise IncompleteUrlError
       (* oscore.py:1150-1158, 1178-1179 as the code is: for a Proxy-Uri with a CoAP scheme, `inner_message.remote.uri_base` is None
          (UndecidedRemote does not define it) and `outer_message.set_request_uri(None)` raises IncompleteUrlError — open finding
          C11:protect-exception:IncompleteUrlError:proxy-uri.  (Non-CoAP schemes: ValueError, malformed URIs: MalformedUrlError; not modelled.) *)
  else
  oc <- outer_code_of m r ;;
  pt <- plaintext_of (code m) (inner_opts m) (payload m) ;;
  Ok ({| code := oc; opts := outer_opts_of m; payload := [] |}, pt).

(* ------------------------------------------------------------------ new_sequence_number, _build_new_nonce (oscore.py:1188-1213) *)
Definition new_sequence_number (c : ctx) : M (ctx * Z) :=
  let retval := sender_sequence_number c in
  if retval >=? MAX_SEQNO then Raise ContextUnavailable else Ok (set_seq c (retval + 1), retval).
Definition shorten_piv (partial_iv : list Z) : list Z :=       (* partial_iv.lstrip(b"\0") or b"\0" *)
  match lstrip0 partial_iv with [] => [0] | s => s end.
(* the part of _build_new_nonce after new_sequence_number: (nonce, shortened partial IV) *)
Definition build_new_nonce (c : ctx) (seqno : Z) : M (list Z * list Z) :=
  partial_iv <- to_bytes_big seqno PIV_FULL_BYTES ;;
  nonce <- construct_nonce (common_iv c) partial_iv (sender_id c) (alg_iv_bytes (c_alg c)) ;;
  Ok (nonce, shorten_piv partial_iv).

(* CodeStyle.from_request (oscore.py:95-102) *)
Definition code_style_from_request (request : Z) : M (Z * Z) :=
  if request =? CODE_FETCH then Ok (CODE_FETCH, CODE_CONTENT)
  else if request =? CODE_POST then Ok (CODE_POST, CODE_CHANGED)
  else Raise ValueError.
(* RequestIdentifiers.get_reusable_kid_and_piv (oscore.py:187-195): returns the mutated object and the pair *)
Definition get_reusable_kid_and_piv (r : rid) : rid * option (list Z * list Z) :=
  if can_reuse_nonce r
  then ({| rid_kid := rid_kid r; rid_piv := rid_piv r; can_reuse_nonce := false; code_style := code_style r |}, Some (rid_kid r, rid_piv r))
  else (r, None).

(* the kid_context keyword argument of protect: True (default) / False / explicit bytes *)
Inductive kc_arg := KcDefault | KcOff | KcBytes (b : list Z).

(* insert the OSCORE option into the (sorted) outer option list *)
Definition add_oscore (os : list (Z * list Z)) (v : list Z) : list (Z * list Z) :=
  filter (fun o => fst o <? OPT_OSCORE) os ++ [(OPT_OSCORE, v)] ++ filter (fun o => OPT_OSCORE <? fst o) os.

(* ------------------------------------------------------------------ CanProtect.protect (oscore.py:981-1119) *)
(* everything after the nonce is known (oscore.py:1037-1119) *)
Definition protect_finish (E : aead) (c : ctx) (message outer_message : msg) (plaintext nonce partial_iv_short : list Z)
    (upiv : option (list Z)) (request_id1 : option rid) (kid_context : kc_arg) : M (msg * rid) :=
  hdr <- (if is_request (code message) then
            cs <- code_style_from_request (code outer_message) ;;
            let rid' := {| rid_kid := sender_id c; rid_piv := partial_iv_short; can_reuse_nonce := false; code_style := cs |} in
            let kc := match kid_context with
                      | KcDefault => id_context c
                      | KcOff => None
                      | KcBytes b => Some b end in
            Ok (rid', {| u_piv := upiv; u_kid := Some (sender_id c); u_kid_context := kc; u_group := false |})
          else match request_id1 with
               | Some r => Ok (r, {| u_piv := upiv; u_kid := if responses_send_kid c then Some (sender_id c) else None;
                                     u_kid_context := None; u_group := false |})
               | None => Raise AttributeError
               end) ;;
  let '(rid', unprotected) := hdr in
  option_data <- compress unprotected ;;
  let external_aad := extract_external_aad (c_alg c) rid' in
  let aad := build_encrypt0_structure external_aad in
  let ciphertext := enc E (sender_key c) nonce aad plaintext in
  Ok ({| code := code outer_message; opts := add_oscore (opts outer_message) option_data; payload := ciphertext |}, rid').

(* choice of the nonce (oscore.py:1017-1035): reuse the request's (kid, Partial IV) once, else take a fresh sequence number.
   Result: context afterwards, request_id object afterwards (can_reuse_nonce is cleared in place),
   (nonce, partial_iv_short, Partial IV to put into the option) *)
Definition protect_nonce (c : ctx) (request_id : option rid)
  : ctx * option rid * M (list Z * list Z * option (list Z)) :=
  let '(request_id1, reuse) :=
    match request_id with
    | Some r => let '(r1, x) := get_reusable_kid_and_piv r in (Some r1, x)
    | None => (None, None) end in
  match reuse with
  | None =>
      match new_sequence_number c with
      | Raise e => (c, request_id1, Raise e)
      | Ok (c1, seqno) =>
          (c1, request_id1, '(nonce, partial_iv_short) <- build_new_nonce c seqno ;; Ok (nonce, partial_iv_short, Some partial_iv_short))
      end
  | Some (gen_by, partial_iv_short) =>
      (c, request_id1,
       nonce <- construct_nonce (common_iv c) partial_iv_short gen_by (alg_iv_bytes (c_alg c)) ;; Ok (nonce, partial_iv_short, None))
  end.
(* result: the context afterwards (sequence number), the request_id object afterwards, and the outcome
   (outer message, request_id to use for the response) *)
Definition protect (E : aead) (c : ctx) (message : msg) (request_id : option rid) (kid_context : kc_arg)
  : ctx * option rid * M (msg * rid) :=
  match (_ <- massert (Bool.eqb (match request_id with None => true | Some _ => false end) (is_request (code message))) ;;
         split_message message request_id) with
  | Raise e => (c, request_id, Raise e)
  | Ok (outer_message, plaintext) =>
      let '(c1, request_id1, ns) := protect_nonce c request_id in
      (c1, request_id1,
       '(nonce, partial_iv_short, upiv) <- ns ;;
       protect_finish E c message outer_message plaintext nonce partial_iv_short upiv request_id1 kid_context)
  end.

(* ------------------------------------------------------------------ CanUnprotect.unprotect (oscore.py:1239-1443), echo_recovery = None *)
(* header checks, replay check, AAD, nonce, decryption, strike-out (oscore.py:1239-1385):
   context afterwards, plaintext, sequence number of an own Partial IV, request_id *)
Definition unprotect_verify (E : aead) (c : ctx) (protected_message : msg) (request_id : option rid)
  : M (ctx * list Z * option Z * rid) :=
  let is_resp := is_response (code protected_message) in
  _ <- massert (Bool.eqb (match request_id with Some _ => true | None => false end) is_resp) ;;
  match get_opt OPT_OSCORE (opts protected_message) with
  | None => Raise NotAProtectedMessage                      (* _extract_encrypted0 *)
  | Some option_data =>
  unprotected <- uncompress option_data ;;
  let ciphertext := payload protected_message in
  if negb (opt_beqb (match u_kid_context unprotected with Some x => Some x | None => id_context c end) (id_context c))
  then Raise ProtectionInvalid                               (* "Sender ID context does not match" *)
  else if negb (beqb (match u_kid unprotected with Some k => k | None => recipient_id c end) (recipient_id c))
  then Raise ProtectionInvalid                               (* "Sender ID does not match" *)
  else
  step <- match u_piv unprotected with
          | None =>
              match request_id with
              | None => Raise ProtectionInvalid              (* "No sequence number provided in request" *)
              | Some r => Ok (None, rid_piv r, rid_kid r, r)
              end
          | Some partial_iv_short =>
              let seqno := from_bytes_big partial_iv_short in
              match request_id with
              | Some r => Ok (Some seqno, partial_iv_short, recipient_id c, r)
              | None =>
                  (* replay_error is raised at once because echo_recovery is None *)
                  match recipient_replay_window c with
                  | None => Raise ReplayError               (* "Sequence number check unavailable" *)
                  | Some w =>
                      v <- is_valid w seqno ;;
                      if negb v then Raise ReplayError       (* "Sequence number was reused" *)
                      else
                        cs <- code_style_from_request (code protected_message) ;;
                        Ok (Some seqno, partial_iv_short, recipient_id c,
                            {| rid_kid := recipient_id c; rid_piv := partial_iv_short; can_reuse_nonce := true; code_style := cs |})
                  end
              end
          end ;;
  let '(seqno, partial_iv_short, partial_iv_generated_by, rid') := step in
  let external_aad := extract_external_aad (c_alg c) rid' in
  (* COSE_COUNTERSIGNATURE0 present on a non-group context: DecodeError "Group messages can not be decoded with this
     non-group context" (oscore.py:1311-1317; AttributeError before fix 479d37c) *)
  if u_group unprotected then Raise DecodeError else
  if blen ciphertext <? alg_tag_bytes (c_alg c) + 1 then Raise ProtectionInvalid else    (* "Ciphertext too short" *)
  let aad := build_encrypt0_structure external_aad in
  nonce <- construct_nonce (common_iv c) partial_iv_short partial_iv_generated_by (alg_iv_bytes (c_alg c)) ;;
  match dec E (recipient_key c) nonce aad ciphertext with
  | None => Raise ProtectionInvalid                           (* "Tag invalid" *)
  | Some plaintext =>
      w' <- match request_id, seqno, recipient_replay_window c with
            | None, Some n, Some w => '(w1, _) <- strike_out w n ;; Ok (Some w1)
            | _, _, w => Ok w
            end ;;
      Ok (set_window c w', plaintext, seqno, rid')
  end
  end.
(* parsing of the plaintext and Observe handling (oscore.py:1389-1436) *)
Definition unprotect_finish (protected_message : msg) (plaintext : list Z) (seqno : option Z) : M umsg :=
  code0 <- bget plaintext 0 ;;
  r <- decode_options (length plaintext) 0 (bfrom plaintext 1) ;;
  let '(os, pl) := r in
  let outer_observe := observe_value (opts protected_message) in
  let observe :=
    if is_request code0
    then match outer_observe with Some 0 => observe_value os | _ => None end
    else match outer_observe with
         | Some _ => Some (match seqno with None => -1 | Some n => n end)
         | None => observe_value os
         end in
  Ok {| u_code := code0; u_observe := observe; u_opts := del_opt OPT_OBSERVE os; u_payload := pl |}.
(* the context is returned also when parsing fails: the window was already struck *)
Definition unprotect (E : aead) (c : ctx) (protected_message : msg) (request_id : option rid)
  : ctx * M (umsg * rid) :=
  match unprotect_verify E c protected_message request_id with
  | Raise e => (c, Raise e)
  | Ok (c1, plaintext, seqno, rid') =>
      (c1, m <- unprotect_finish protected_message plaintext seqno ;; Ok (m, rid'))
  end.

(* ------------------------------------------------------------------ symbolic AEAD:
   ciphertext = lp(key) lp(nonce) lp(aad) lp(plaintext) plaintext — the trailing copy plays the tag: a ciphertext decrypts
   iff it is exactly the encryption of its plaintext under the same key, nonce and AAD *)
Definition lp (x : list Z) : list Z := [blen x / 256; blen x mod 256] ++ x.
Definition take_lp (c : list Z) : option (list Z * list Z) :=
  match c with
  | h :: l :: r => let n := h * 256 + l in
                   if (0 <=? h) && byte_ok l && (n <=? blen r) then Some (bto r n, bfrom r n) else None
  | _ => None
  end.
Definition sym_parse (c : list Z) : option (list Z * list Z * list Z * list Z * list Z) :=
  match take_lp c with
  | Some (k, r1) => match take_lp r1 with
                    | Some (n, r2) => match take_lp r2 with
                                      | Some (a, r3) => match take_lp r3 with
                                                        | Some (p, t) => Some (k, n, a, p, t)
                                                        | None => None end
                                      | None => None end
                    | None => None end
  | None => None end.
Definition sym_enc (k n a p : list Z) : list Z := lp k ++ lp n ++ lp a ++ lp p ++ p.
Definition sym_dec (k n a c : list Z) : option (list Z) :=
  match sym_parse c with
  | Some (k', n', a', p, t) => if beqb k k' && beqb n n' && beqb a a' && beqb p t then Some p else None
  | None => None
  end.
Definition sym_aead : aead := {| enc := sym_enc; dec := sym_dec |}.

(* ------------------------------------------------------------------ scenario interpreter for the correspondence run *)
(* manipulations of a protected message *)
Inductive tamper :=
| TOptBit (i bit : Z)        (* flip one bit of the OSCORE option value (index modulo length) *)
| TOptSet (v : list Z)       (* replace the OSCORE option value *)
| TOptDel                    (* remove the OSCORE option *)
| TPayBit (i bit : Z)        (* flip one bit of the ciphertext *)
| TPaySet (v : list Z)       (* replace the ciphertext *)
| TPayTrunc (n : Z)          (* keep the first n bytes of the ciphertext *)
| TPayAppend (v : list Z)
| TCode (c : Z)              (* replace the outer code *)
| TSetOpt (n : Z) (v : option (list Z)).   (* set / remove another outer option (Uri-Host, Observe, ...) *)

Fixpoint flip_at (i : nat) (bit : Z) (b : list Z) : list Z :=
  match b, i with
  | [], _ => []
  | x :: r, O => Z.lxor x (Z.shiftl 1 bit) :: r
  | x :: r, S i' => x :: flip_at i' bit r
  end.
Definition flip_bit (i bit : Z) (b : list Z) : list Z :=
  match b with [] => [] | _ => flip_at (Z.to_nat (i mod blen b)) bit b end.
Definition set_opt (n : Z) (v : option (list Z)) (os : list (Z * list Z)) : list (Z * list Z) :=
  match v with
  | None => del_opt n os
  | Some v => filter (fun o => fst o <? n) os ++ [(n, v)] ++ filter (fun o => n <? fst o) os
  end.
Definition with_opts (m : msg) (os : list (Z * list Z)) : msg := {| code := code m; opts := os; payload := payload m |}.
Definition with_payload (m : msg) (p : list Z) : msg := {| code := code m; opts := opts m; payload := p |}.
Definition apply_tamper (t : tamper) (m : msg) : msg :=
  match t with
  | TOptBit i bit => match get_opt OPT_OSCORE (opts m) with
                     | Some v => with_opts m (set_opt OPT_OSCORE (Some (flip_bit i bit v)) (opts m))
                     | None => m end
  | TOptSet v => with_opts m (set_opt OPT_OSCORE (Some v) (opts m))
  | TOptDel => with_opts m (del_opt OPT_OSCORE (opts m))
  | TPayBit i bit => with_payload m (flip_bit i bit (payload m))
  | TPaySet v => with_payload m v
  | TPayTrunc n => with_payload m (bto (payload m) n)
  | TPayAppend v => with_payload m (payload m ++ v)
  | TCode c => {| code := c; opts := opts m; payload := payload m |}
  | TSetOpt n v => with_opts m (set_opt n v (opts m))
  end.

Inductive op :=
| OProtect (c : Z) (m : msg) (r : option Z) (kc : kc_arg) (out rout : Z)
| OTamper (src : Z) (t : tamper) (out : Z)
| OUnprotect (c : Z) (src : Z) (r : option Z) (rout : Z)
| OForge (c : Z) (r : option Z) (own_piv : option (list Z)) (plaintext : list Z) (out : Z).
   (* insider: a key holder encrypts an arbitrary plaintext (symbolic AEAD only); header as protect would build it *)
Inductive res :=
| RProtected (m : msg) (r : rid) (seq : Z)
| RUnprotected (m : umsg) (r : rid) (w : option (Z * Z))
| RTampered (m : msg)
| RExn (e : exn)
| RSkip.
Record env := { e_ctx : list (Z * ctx); e_msg : list (Z * msg); e_rid : list (Z * rid) }.
Definition lookup {A} (k : Z) (l : list (Z * A)) : option A :=
  match find (fun x => fst x =? k) l with Some x => Some (snd x) | None => None end.
Definition upd {A} (k : Z) (v : A) (l : list (Z * A)) : list (Z * A) := (k, v) :: l.
Definition window_view (c : ctx) : option (Z * Z) :=
  match recipient_replay_window c with Some w => Some (rw_index w, rw_bitfield w) | None => None end.

Definition forge (E : aead) (c : ctx) (r : option rid) (own_piv : option (list Z)) (plaintext : list Z) : M msg :=
  (* requests: kid + own PIV; responses: own PIV or the request's; AAD / nonce exactly as the recipient will compute them *)
  match r with
  | None =>
      let piv := match own_piv with Some p => p | None => [0] end in
      let rid' := {| rid_kid := sender_id c; rid_piv := piv; can_reuse_nonce := false; code_style := (CODE_POST, CODE_CHANGED) |} in
      od <- compress {| u_piv := Some piv; u_kid := Some (sender_id c); u_kid_context := id_context c; u_group := false |} ;;
      nonce <- construct_nonce (common_iv c) piv (sender_id c) (alg_iv_bytes (c_alg c)) ;;
      Ok {| code := CODE_POST; opts := [(OPT_OSCORE, od)];
            payload := enc E (sender_key c) nonce (build_encrypt0_structure (extract_external_aad (c_alg c) rid')) plaintext |}
  | Some r =>
      od <- compress {| u_piv := own_piv; u_kid := None; u_kid_context := None; u_group := false |} ;;
      nonce <- match own_piv with
               | Some p => construct_nonce (common_iv c) p (sender_id c) (alg_iv_bytes (c_alg c))
               | None => construct_nonce (common_iv c) (rid_piv r) (rid_kid r) (alg_iv_bytes (c_alg c)) end ;;
      Ok {| code := snd (code_style r); opts := [(OPT_OSCORE, od)];
            payload := enc E (sender_key c) nonce (build_encrypt0_structure (extract_external_aad (c_alg c) r)) plaintext |}
  end.

Definition get_rid (e : env) (r : option Z) : option (option rid) :=
  match r with None => Some None | Some k => match lookup k (e_rid e) with Some x => Some (Some x) | None => None end end.

Definition step (E : aead) (e : env) (o : op) : env * res :=
  match o with
  | OProtect ci m r kc out rout =>
      match lookup ci (e_ctx e), get_rid e r with
      | Some c, Some r' =>
          let '(c1, r1, x) := protect E c m r' kc in
          (* the request_id object passed in is mutated by get_reusable_kid_and_piv: write it back *)
          let rids := match r, r1 with Some k, Some v => upd k v (e_rid e) | _, _ => e_rid e end in
          match x with
          | Ok (pm, rid') =>
              ({| e_ctx := upd ci c1 (e_ctx e); e_msg := upd out pm (e_msg e); e_rid := upd rout rid' rids |},
               RProtected pm rid' (sender_sequence_number c1))
          | Raise x => ({| e_ctx := upd ci c1 (e_ctx e); e_msg := e_msg e; e_rid := rids |}, RExn x)
          end
      | _, _ => (e, RSkip)
      end
  | OTamper src t out =>
      match lookup src (e_msg e) with
      | Some m => let m' := apply_tamper t m in
                  ({| e_ctx := e_ctx e; e_msg := upd out m' (e_msg e); e_rid := e_rid e |}, RTampered m')
      | None => (e, RSkip)
      end
  | OUnprotect ci src r rout =>
      match lookup ci (e_ctx e), lookup src (e_msg e), get_rid e r with
      | Some c, Some pm, Some r' =>
          let '(c1, x) := unprotect E c pm r' in
          match x with
          | Ok (um, rid') =>
              ({| e_ctx := upd ci c1 (e_ctx e); e_msg := e_msg e; e_rid := upd rout rid' (e_rid e) |},
               RUnprotected um rid' (window_view c1))
          | Raise x => ({| e_ctx := upd ci c1 (e_ctx e); e_msg := e_msg e; e_rid := e_rid e |}, RExn x)
          end
      | _, _, _ => (e, RSkip)
      end
  | OForge ci r own_piv pt out =>
      match lookup ci (e_ctx e), get_rid e r with
      | Some c, Some r' =>
          match forge E c r' own_piv pt with
          | Ok m => ({| e_ctx := e_ctx e; e_msg := upd out m (e_msg e); e_rid := e_rid e |}, RTampered m)
          | Raise x => (e, RExn x)
          end
      | _, _ => (e, RSkip)
      end
  end.
Fixpoint run (E : aead) (e : env) (ops : list op) : list res :=
  match ops with
  | [] => []
  | o :: rest => let '(e1, r) := step E e o in r :: run E e1 rest
  end.

(* ------------------------------------------------------------------ compact literals / results for the correspondence run
   (long [a; b; ...] byte lists are slow to elaborate and print: bytes travel as (length, big-endian number)) *)
Fixpoint unchunk (n : nat) (ws : list Z) : list Z :=
  match ws with [] => [] | w :: r => to_bytes_big_n (Nat.min n 8) w ++ unchunk (n - 8) r end.
Definition B (n : Z) (ws : list Z) : list Z := unchunk (Z.to_nat n) ws.       (* n bytes given as 8-byte big-endian words *)
Fixpoint chunk (fuel : nat) (b : list Z) : list Z :=
  match fuel, b with
  | S f, _ :: _ => from_bytes_big (firstn 8 b) :: chunk f (skipn 8 b)
  | _, _ => []
  end.
Inductive pb := PB (n : Z) (ws : list Z) | PBad.
Definition pk (b : list Z) : pb := if bytes_ok b then PB (blen b) (chunk (length b) b) else PBad.
Definition pk_opts (os : list (Z * list Z)) : list (Z * pb) := map (fun o => (fst o, pk (snd o))) os.
Inductive cres :=
| CProtected (code : Z) (os : list (Z * pb)) (payload kid piv : pb) (reuse : bool) (sreq sresp seq : Z)
| CUnprotected (code : Z) (observe : option Z) (os : list (Z * pb)) (payload kid piv : pb) (reuse : bool) (sreq sresp : Z) (w : option (Z * Z))
| CTampered (code : Z) (os : list (Z * pb)) (payload : pb)
| CExn (e : exn)
| CSkip.
Definition pk_res (r : res) : cres :=
  match r with
  | RProtected m r seq => CProtected (code m) (pk_opts (opts m)) (pk (payload m)) (pk (rid_kid r)) (pk (rid_piv r)) (can_reuse_nonce r)
                                     (fst (code_style r)) (snd (code_style r)) seq
  | RUnprotected m r w => CUnprotected (u_code m) (u_observe m) (pk_opts (u_opts m)) (pk (u_payload m)) (pk (rid_kid r)) (pk (rid_piv r))
                                       (can_reuse_nonce r) (fst (code_style r)) (snd (code_style r)) w
  | RTampered m => CTampered (code m) (pk_opts (opts m)) (pk (payload m))
  | RExn e => CExn e
  | RSkip => CSkip
  end.
Definition run_packed (E : aead) (e : env) (ops : list op) : list cres := map pk_res (run E e ops).
