(* C07 — observe client.  Executable model of
     aiocoap/protocol.py  Request._run (697-813), ClientObservation (1133-1304) incl. the lossy _Iterator,
     aiocoap/pipe.py      Pipe._add_event / _unregister_on_event / _end (as far as one requester is concerned).
   The freshness test itself is Gen/protocol_is_recent.v (translated from the source on every run, tie T);
   everything else here is written by hand and tied by the correspondence streams of harness/props/c07.py (tie C).
   Clock readings are integers (microseconds).  No proofs in this file. *)
From Verif Require Import Lib.Py Gen.protocol_is_recent.
Open Scope Z_scope.

(* ------------------------------------------------------------------ Pipe.Event (pipe.py:66) *)
Inductive event :=
| EvMsg (id : Z) (observe : option Z) (is_last : bool)   (* Pipe.add_response(message, is_last); id names the message *)
| EvExn (e : exn).                                       (* Pipe.add_exception(e): always is_last *)
Definition ev_is_last (ev : event) : bool := match ev with EvMsg _ _ l => l | EvExn _ => true end.

(* what one resumption of the generator Request._run does, in program order *)
Inductive action :=
| ASetResult (id : Z)        (* self.response.set_result(message)            protocol.py:710 *)
| ASetException (e : exn)    (* self.response.set_exception(exception)       protocol.py:712 *)
| ACallback (id : Z)         (* self.observation.callback(message)           protocol.py:799 *)
| AError (e : exn)           (* self.observation.error(e)                    protocol.py:732,763,802,806 *)
| AStopInterest              (* self._stop_interest()                        protocol.py:728,741,759,765,812 *)
| ARaise (e : exn).          (* exception leaving the generator (observation.error on a cancelled observation) *)

(* position of the generator: before the first event, inside the `while True` loop with the RFC 7641 3.4
   variables v1/t1, or returned (any further send raises StopIteration) *)
Inductive runner := RFirst | RObserving (v1 t1 : Z) | RFinished.

(* Request._run, one `send(event)`.  has_obs: self.observation is not None (request carried Observe: 0);
   cancelled: self.observation.cancelled at the time of the send; now: what time.time() returns during it *)
Definition Request_run (has_obs : bool) (reset : Z) (r : runner) (cancelled : bool) (now : Z) (ev : event)
  : runner * list action :=
  match r with
  | RFinished => (RFinished, [])
  | RFirst =>
      let first := match ev with EvMsg id _ _ => ASetResult id | EvExn e => ASetException e end in
      if negb has_obs then (RFinished, first :: (if ev_is_last ev then [] else [AStopInterest]))
      else if ev_is_last ev then
        (RFinished, [first; if cancelled then ARaise RuntimeError else AError NotObservable])
      else match ev with
        | EvMsg _ (Some v) _ => (RObserving v now, [first])
        | _ => (RFinished, [first; AStopInterest])            (* "Pipe indicated more possible responses" *)
        end
  | RObserving v1 t1 =>
      if cancelled then (RFinished, [AStopInterest])
      else match ev with
        | EvExn e => (RFinished, [AError e])
        | EvMsg id None is_last =>                             (* the terminal message is always the last *)
            (RFinished, [ACallback id; AError ObservationCancelled] ++ (if is_last then [] else [AStopInterest]))
        | EvMsg id (Some v2) is_last =>
            let recent := is_recent v1 v2 t1 now reset in
            let r' := if is_last then RFinished else if recent then RObserving v2 now else RObserving v1 t1 in
            (r', (if recent then [ACallback id] else []) ++ (if is_last then [AError ObservationCancelled] else []))
        end
  end.

(* ------------------------------------------------------------------ ClientObservation and its _Iterator *)
Inductive listener := LObserver (k : Z) | LIterator.
Inductive item := IMsg (id : Z) | IErr (e : exn).

(* _Iterator seen from outside: the consumer task is blocked on a future; it_w is that future's result once a push
   has resolved it, it_s the (overwritable, hence lossy) result of the replacement future created by later pushes *)
Record iter := { it_started : bool; it_finished : bool; it_w : option item; it_s : option item }.
Definition iter0 := {| it_started := false; it_finished := false; it_w := None; it_s := None |}.

Record cobs := {
  callbacks : list listener; errbacks : list listener; cancelled : bool;
  latest_response : option Z; cancellation_reason : option exn }.
Definition cobs0 := {| callbacks := []; errbacks := []; cancelled := false; latest_response := None; cancellation_reason := None |}.

Inductive out :=
| OResp (id : Z) | ORespExn (e : exn) | ORespCancelled     (* the request.response future *)
| OCb (k id : Z)                                            (* observer k's callback got message id *)
| OEb (k : Z) (e : option exn)                              (* observer k's errback got e (None: Python None) *)
| OEnd                                                      (* the pipe's on_interest_end callbacks ran *)
| OIt (id : Z) | OItStop | OItExn (e : exn)                 (* async iteration: item / clean end / exception *)
| OEscaped (e : exn).                                       (* exception propagating to whoever called into the pipe *)

(* _Iterator.push / push_err (protocol.py:1165-1174) *)
Definition push (it : iter) (x : item) : iter :=
  if it_finished it then it
  else match it_w it with
       | None => {| it_started := it_started it; it_finished := false; it_w := Some x; it_s := it_s it |}
       | Some _ => {| it_started := it_started it; it_finished := false; it_w := it_w it; it_s := Some x |}
       end.

Definition yield (x : item) : out :=
  match x with
  | IMsg id => OIt id
  | IErr NotObservable => OItStop | IErr ObservationCancelled => OItStop   (* protocol.py:1186-1191 *)
  | IErr e => OItExn e
  end.
Definition is_err (x : item) : bool := match x with IErr _ => true | IMsg _ => false end.

(* the consumer task `async for m in observation` runs until it blocks again (protocol.py:1176-1185) *)
Definition anext_drain (it : iter) : iter * list out :=
  if negb (it_started it) || it_finished it then (it, [])
  else match it_w it with
       | None => (it, [])
       | Some x =>
           if is_err x then ({| it_started := true; it_finished := true; it_w := None; it_s := None |}, [yield x])
           else match it_s it with
                | None => ({| it_started := true; it_finished := false; it_w := None; it_s := None |}, [yield x])
                | Some y => ({| it_started := true; it_finished := is_err y; it_w := None; it_s := None |}, [yield x; yield y])
                end
       end.

Fixpoint deliver_callbacks (ls : list listener) (id : Z) (it : iter) : iter * list out :=
  match ls with
  | [] => (it, [])
  | LObserver k :: r => let '(it', o) := deliver_callbacks r id it in (it', OCb k id :: o)
  | LIterator :: r => deliver_callbacks r id (push it (IMsg id))
  end.
Fixpoint deliver_errbacks (ls : list listener) (e : exn) (it : iter) : iter * list out :=
  match ls with
  | [] => (it, [])
  | LObserver k :: r => let '(it', o) := deliver_errbacks r e it in (it', OEb k (Some e) :: o)
  | LIterator :: r => deliver_errbacks r e (push it (IErr e))
  end.

(* ClientObservation.callback (protocol.py:1255) — only reached while not cancelled *)
Definition callback (o : cobs) (it : iter) (id : Z) : cobs * iter * list out :=
  let '(it', outs) := deliver_callbacks (callbacks o) id it in
  ({| callbacks := callbacks o; errbacks := errbacks o; cancelled := cancelled o;
      latest_response := Some id; cancellation_reason := cancellation_reason o |}, it', outs).

(* ClientObservation.cancel (protocol.py:1277) *)
Definition cancel (o : cobs) : cobs :=
  {| callbacks := []; errbacks := []; cancelled := true; latest_response := latest_response o; cancellation_reason := None |}.

(* ClientObservation.error (protocol.py:1263) — only reached while not cancelled (else RuntimeError, see Request_run) *)
Definition error (o : cobs) (it : iter) (e : exn) : cobs * iter * list out :=
  let '(it', outs) := deliver_errbacks (errbacks o) e it in
  ({| callbacks := []; errbacks := []; cancelled := true; latest_response := latest_response o;
      cancellation_reason := Some e |}, it', outs).

(* ClientObservation.register_callback / register_errback (protocol.py:1218-1253) for observer or iterator l *)
Definition register_callback (o : cobs) (it : iter) (l : listener) : cobs * iter * list out :=
  if cancelled o then (o, it, [])
  else
    let o' := {| callbacks := callbacks o ++ [l]; errbacks := errbacks o; cancelled := false;
                 latest_response := latest_response o; cancellation_reason := cancellation_reason o |} in
    match latest_response o, l with
    | None, _ => (o', it, [])
    | Some id, LObserver k => (o', it, [OCb k id])
    | Some id, LIterator => (o', push it (IMsg id), [])
    end.
Definition register_errback (o : cobs) (it : iter) (l : listener) : cobs * iter * list out :=
  if cancelled o then
    match l, cancellation_reason o with
    | LObserver k, r => (o, it, [OEb k r])
    | LIterator, Some e => (o, push it (IErr e), [])
    | LIterator, None =>        (* future.set_exception(None) raises TypeError out of __aiter__ *)
        (o, {| it_started := true; it_finished := true; it_w := None; it_s := None |}, [OItExn TypeError])
    end
  else ({| callbacks := callbacks o; errbacks := errbacks o ++ [l]; cancelled := false;
           latest_response := latest_response o; cancellation_reason := cancellation_reason o |}, it, []).

(* ------------------------------------------------------------------ the whole requester side of one Pipe *)
Inductive resp_state := RespPending | RespDone | RespCancelled.

Record sys := {
  s_has_obs : bool;          (* request.opt.observe == 0 *)
  s_reset : Z;               (* request.transport_tuning.OBSERVATION_RESET_TIME in microseconds *)
  s_ended : bool;            (* Pipe._event_callbacks is False *)
  s_runner : runner;
  s_resp : resp_state;
  s_obs : cobs;
  s_iter : iter }.

Definition sys0 (has_obs : bool) (reset : Z) : sys :=
  {| s_has_obs := has_obs; s_reset := reset; s_ended := false; s_runner := RFirst; s_resp := RespPending;
     s_obs := cobs0; s_iter := iter0 |}.

Definition set_parts (s : sys) (ended : bool) (resp : resp_state) (o : cobs) (it : iter) : sys :=
  {| s_has_obs := s_has_obs s; s_reset := s_reset s; s_ended := ended; s_runner := s_runner s; s_resp := resp;
     s_obs := o; s_iter := it |}.
Definition set_runner (s : sys) (r : runner) : sys :=
  {| s_has_obs := s_has_obs s; s_reset := s_reset s; s_ended := s_ended s; s_runner := r; s_resp := s_resp s;
     s_obs := s_obs s; s_iter := s_iter s |}.

(* effects of the runner's actions, in order; the boolean says whether an exception left the generator *)
Fixpoint apply_actions (s : sys) (acts : list action) : sys * list out * bool :=
  match acts with
  | [] => (s, [], false)
  | a :: rest =>
      match a with
      | ARaise e => (s, [OEscaped e], true)
      | _ =>
        let '(s1, o1) :=
          match a with
          | ASetResult id => (set_parts s (s_ended s) RespDone (s_obs s) (s_iter s), [OResp id])
          | ASetException e => (set_parts s (s_ended s) RespDone (s_obs s) (s_iter s), [ORespExn e])
          | ACallback id => let '(o, it, outs) := callback (s_obs s) (s_iter s) id in (set_parts s (s_ended s) (s_resp s) o it, outs)
          | AError e => let '(o, it, outs) := error (s_obs s) (s_iter s) e in (set_parts s (s_ended s) (s_resp s) o it, outs)
          | AStopInterest =>       (* Pipe._unregister_on_event: the last interest goes, Pipe._end *)
              if s_ended s then (s, []) else (set_parts s true (s_resp s) (s_obs s) (s_iter s), [OEnd])
          | ARaise _ => (s, [])
          end in
        let '(s2, o2, raised) := apply_actions s1 rest in (s2, o1 ++ o2, raised)
      end
  end.

(* Pipe._add_event (pipe.py:170) with the Request's `process` callback and an on_interest_end probe registered *)
Definition add_event (s : sys) (now : Z) (ev : event) : sys * list out :=
  if s_ended s then (s, [])                                  (* "added after ... has already ended": dropped *)
  else match s_runner s with
  | RFinished =>                                             (* process -> StopIteration -> unregistered -> _end *)
      (set_parts s true (s_resp s) (s_obs s) (s_iter s), [OEnd])
  | r =>
      let '(r', acts) := Request_run (s_has_obs s) (s_reset s) r (cancelled (s_obs s)) now ev in
      let '(s1, outs, raised) := apply_actions (set_runner s r') acts in
      if raised then (s1, outs)                              (* the exception aborts Pipe._add_event's loop *)
      else if ev_is_last ev && negb (s_ended s1)
           then (set_parts s1 true (s_resp s1) (s_obs s1) (s_iter s1), outs ++ [OEnd])
           else (s1, outs)
  end.

Inductive op :=
| OpEvent (now : Z) (ev : event)   (* the transport side adds an event while time.time() = now *)
| OpCancelObs                      (* application: request.observation.cancel() *)
| OpCancelResp                     (* application: request.response.cancel(), then the loop runs *)
| OpRegister (k : Z)               (* application: register_callback + register_errback of observer k *)
| OpIter                           (* application: a task starts `async for m in request.observation`, loop runs *)
| OpDrain.                         (* the event loop runs until idle *)

Definition drain (s : sys) : sys * list out :=
  let '(it, outs) := anext_drain (s_iter s) in (set_parts s (s_ended s) (s_resp s) (s_obs s) it, outs).

Definition step (s : sys) (o : op) : sys * list out :=
  match o with
  | OpEvent now ev => add_event s now ev
  | OpCancelObs =>
      if negb (s_has_obs s) then (s, [])
      else if cancelled (s_obs s) then (s, [OEscaped AssertionError])
      else (set_parts s (s_ended s) (s_resp s) (cancel (s_obs s)) (s_iter s), [])
  | OpCancelResp =>
      (* Request._response_cancellation_handler: drop the generator, stop the interest *)
      match s_resp s with
      | RespPending =>
          let s1 := set_runner (set_parts s true RespCancelled (s_obs s) (s_iter s)) RFinished in
          let '(s2, o2) := drain s1 in (s2, ORespCancelled :: (if s_ended s then [] else [OEnd]) ++ o2)
      | _ => drain s
      end
  | OpRegister k =>
      if negb (s_has_obs s) then (s, [])
      else
        let '(o1, it1, outs1) := register_callback (s_obs s) (s_iter s) (LObserver k) in
        let '(o2, it2, outs2) := register_errback o1 it1 (LObserver k) in
        (set_parts s (s_ended s) (s_resp s) o2 it2, outs1 ++ outs2)
  | OpIter =>
      if negb (s_has_obs s) || it_started (s_iter s) then drain s
      else
        let it0 := {| it_started := true; it_finished := false; it_w := None; it_s := None |} in
        let '(o1, it1, outs1) := register_callback (s_obs s) it0 LIterator in
        let '(o2, it2, outs2) := register_errback o1 it1 LIterator in
        let '(s3, outs3) := drain (set_parts s (s_ended s) (s_resp s) o2 it2) in
        (s3, outs1 ++ outs2 ++ outs3)
  | OpDrain => drain s
  end.

Fixpoint run (s : sys) (ops : list op) : list (list out) :=
  match ops with
  | [] => []
  | o :: rest => let '(s', outs) := step s o in outs :: run s' rest
  end.

Fixpoint run_state (s : sys) (ops : list op) : sys :=
  match ops with [] => s | o :: rest => run_state (fst (step s o)) rest end.
