(* C05 — block-wise client.  Executable model of
     aiocoap/protocol.py  BlockwiseRequest._run (875-1049, the Block1 loop) and
                          BlockwiseRequest._complete_by_requesting_block2 (1081-1144),
     aiocoap/message.py   Message._append_response_block (474-495), _generate_next_block2_request (497-525),
   over the block arithmetic that is TRANSLATED from source (Gen/block_kernels.v: _extract_block and the BlockwiseTuple methods).
   The client is a machine run against an abstract server [serve : S -> request -> S * sresult]; the scripted server
   (a list of responses) and the RFC 7959 reference server (Model/C05Server.v) are two instances.
   No proofs in this file. *)
From Verif Require Import Lib.Py Gen.block_kernels.
Open Scope Z_scope.

(* BlockwiseTuple(block_number, more, size_exponent) *)
Notation bt := (Z * bool * Z)%type (only parsing).
Definition bt_num (b : bt) : Z := fst (fst b).
Definition bt_more (b : bt) : bool := snd (fst b).
Definition bt_szx (b : bt) : Z := snd b.

(* what the block-wise code reads / writes of a message *)
Record request := { rq_block1 : option bt; rq_block2 : option bt; rq_size1 : option Z; rq_payload : list Z }.
Record response := { rs_code : Z; rs_block1 : option bt; rs_block2 : option bt; rs_etag : option Z;
                     rs_payload : list Z;
                     rs_maxexp : Z;  (* response.remote.maximum_block_size_exp *)
                     rs_observe : bool (* truth value of response.opt.observe: present and non-zero *) }.
(* a sub-request either gets a response or fails with a transport-level exception *)
Inductive sresult := SResp (r : response) | SFail.
Inductive outcome := Done (r : response) | Err (e : exn) | Fuel.

(* the application's request: payload, remote.maximum_payload_size, remote.maximum_block_size_exp, its own Block2 option *)
Record ccfg := { c_body : list Z; c_mps : Z; c_mbse : Z; c_block2 : option bt }.

Definition CONTINUE : Z := 95.
(* numbers/codes.py:89 *)
Definition is_successful (c : Z) : bool := (64 <=? c) && (c <? 96).

(* protocol.py:906-910 *)
Definition fragmentation_threshold (mps size_exp : Z) : Z :=
  if size_exp >=? 6 then mps else 2 ^ (size_exp + 4).

(* protocol.py:912-922: current_block1 *)
Definition block1_request (cfg : ccfg) (block_cursor size_exp : Z) : M request :=
  if blen (c_body cfg) >? fragmentation_threshold (c_mps cfg) size_exp then
    '(pl, bo) <- extract_block (c_body cfg) block_cursor size_exp (c_mps cfg) ;;
    Ok {| rq_block1 := Some bo; rq_block2 := c_block2 cfg;
          rq_size1 := if block_cursor =? 0 then Some (blen (c_body cfg)) else None; rq_payload := pl |}
  else
    Ok {| rq_block1 := None; rq_block2 := c_block2 cfg; rq_size1 := None; rq_payload := c_body cfg |}.

(* protocol.py:963-968: while block1.size_exponent < size_exp: (if size_exp != 7: block_cursor *= 2); size_exp -= 1
   — BERT (7) counts in the same 1024-byte blocks as exponent 6 (fix 166eafe) *)
Fixpoint reduce_size (fuel : nat) (target block_cursor size_exp : Z) : Z * Z :=
  match fuel with
  | O => (block_cursor, size_exp)
  | S f => if target <? size_exp then reduce_size f target (if size_exp =? 7 then block_cursor else block_cursor * 2) (size_exp - 1)
           else (block_cursor, size_exp)
  end.

Inductive b1_decision := B1Err (e : exn) | B1Continue (block_cursor size_exp : Z) | B1Break.

(* protocol.py:939-998: what the loop does with the response to current_block1 *)
Definition block1_react (rq : request) (resp : response) (block_cursor size_exp : Z) : b1_decision :=
  match rs_block1 resp with
  | None => B1Break                                                          (* 939-945 *)
  | Some block1 =>
    match rq_block1 rq with
    | None => B1Err AttributeError                                           (* 955 on current_block1.opt.block1 = None *)
    | Some cb =>
      if negb (bt_num block1 =? bt_num cb) then B1Err UnexpectedBlock1Option (* 955-956 *)
      else
        let cursor1 := if size_exp =? 7 then block_cursor + blen (rq_payload rq) / 1024 else block_cursor + 1 in  (* 958-961 *)
        let '(cursor2, size_exp2) := reduce_size (Z.to_nat (size_exp - bt_szx block1)) (bt_szx block1) cursor1 size_exp in
        if negb (bt_more cb) then                                            (* 967-975 *)
          if bt_more block1 || (rs_code resp =? CONTINUE) then B1Err UnexpectedBlock1Option else B1Break
        else if rs_observe resp then B1Err AttributeError                    (* 979-986: `blockrequest.observe.cancel()` — a Request has no attribute `observe` *)
        else if bt_more block1 then B1Continue cursor2 size_exp2             (* 988-992 *)
        else if negb (is_successful (rs_code resp)) then B1Break             (* 994-995 *)
        else B1Continue cursor2 size_exp2                                    (* 996-998 *)
    end
  end.

(* message.py:497-525 (self = request_to_repeat, response = the assembled response, whose remote's exponent is mbse) *)
Definition generate_next_block2_request (request_to_repeat : request) (assembled : response) (mbse : Z) : M request :=
  match rs_block2 assembled with
  | None => Raise AttributeError
  | Some (n, m, szx) =>
    size <- bt_size n m szx ;;
    let next_after_received := blen (rs_payload assembled) / size in
    start <- bt_start next_after_received false szx ;;
    _ <- massert (start =? blen (rs_payload assembled)) ;;
    blockopt <- bt_reduced_to next_after_received false szx mbse ;;
    Ok {| rq_block1 := None; rq_block2 := Some blockopt; rq_size1 := rq_size1 request_to_repeat; rq_payload := [] |}
  end.

Definition etag_eqb (a b : option Z) : bool :=
  match a, b with None, None => true | Some x, Some y => x =? y | _, _ => false end.

(* message.py:474-495 (self = assembled response): the guards are the TRANSLATED ones (Gen/block_kernels.append_response_block_guard:
   payload size valid for the block option, block2.start = len(self.payload), same ETag), then the block is appended *)
Definition append_response_block (assembled next_block : response) : M response :=
  match rs_block2 next_block with
  | None => Raise AttributeError
  | Some (n, m, szx) =>
    _ <- append_response_block_guard n m szx (blen (rs_payload next_block)) (blen (rs_payload assembled))
                                     (negb (etag_eqb (rs_etag next_block) (rs_etag assembled))) ;;
    Ok {| rs_code := rs_code assembled; rs_block1 := rs_block1 assembled; rs_block2 := Some (n, m, szx);
          rs_etag := rs_etag assembled; rs_payload := rs_payload assembled ++ rs_payload next_block;
          rs_maxexp := rs_maxexp assembled; rs_observe := rs_observe assembled |}
  end.

Definition clear_block1 (r : response) : response :=
  {| rs_code := rs_code r; rs_block1 := None; rs_block2 := rs_block2 r; rs_etag := rs_etag r; rs_payload := rs_payload r; rs_maxexp := rs_maxexp r; rs_observe := rs_observe r |}.
Definition clear_block2 (r : response) : response :=
  {| rs_code := rs_code r; rs_block1 := rs_block1 r; rs_block2 := None; rs_etag := rs_etag r; rs_payload := rs_payload r; rs_maxexp := rs_maxexp r; rs_observe := rs_observe r |}.

Section Client.
  Context {S : Type}.
  Variable serve : S -> request -> S * sresult.

  (* protocol.py:1113-1144: the while True loop of _complete_by_requesting_block2 *)
  Fixpoint block2_loop (fuel : nat) (s : S) (request_to_repeat : request) (assembled : response) (mbse : Z)
    : S * list request * outcome :=
    match fuel with
    | O => (s, [], Fuel)
    | Datatypes.S f =>
      match generate_next_block2_request request_to_repeat assembled mbse with
      | Raise e => (s, [], Err e)
      | Ok rq =>
        let '(s1, r) := serve s rq in
        match r with
        | SFail => (s1, [rq], Err NetworkError)
        | SResp last_response =>
          match rs_block2 last_response with
          | None => (s1, [rq], Done last_response)                                      (* 1123-1128 *)
          | Some block2 =>
            match append_response_block assembled last_response with
            | Raise e => (s1, [rq], Err e)                                               (* 1136-1141 *)
            | Ok assembled' =>
              if negb (bt_more block2) then (s1, [rq], Done assembled')                  (* 1143-1144 *)
              else let '(s2, tr, o) := block2_loop f s1 request_to_repeat assembled' mbse in (s2, rq :: tr, o)
            end
          end
        end
      end
    end.

  (* protocol.py:1087-1099: a first response that names a later block is refused unless the application itself asked for a later block *)
  Definition unexpected_first_block (request_to_repeat : request) (initial_response : response) : bool :=
    match rs_block2 initial_response with
    | None => false
    | Some block2 =>
      negb (bt_num block2 =? 0) &&
      match rq_block2 request_to_repeat with None => true | Some rb => bt_num rb =? 0 end
    end.

  (* protocol.py:1081-1118 *)
  Definition complete_by_requesting_block2 (fuel : nat) (s : S) (request_to_repeat : request) (initial_response : response) (mbse : Z)
    : S * list request * outcome :=
    if unexpected_first_block request_to_repeat initial_response then (s, [], Err UnexpectedBlock2)    (* 1087-1099 *)
    else
    match rs_block2 initial_response with
    | None => (s, [], Done initial_response)
    | Some block2 =>
      if negb (bt_more block2) then (s, [], Done (clear_block2 initial_response))
      else if negb (bt_num block2 =? 0) then (s, [], Err UnexpectedBlock2)
      else block2_loop fuel s request_to_repeat initial_response mbse
    end.

  (* protocol.py:903-998 + 1010-1022: the Block1 loop, then Block2 completion of the last response *)
  Fixpoint block1_loop (fuel : nat) (s : S) (cfg : ccfg) (block_cursor size_exp mbse : Z) : S * list request * outcome :=
    match fuel with
    | O => (s, [], Fuel)
    | Datatypes.S f =>
      match block1_request cfg block_cursor size_exp with
      | Raise e => (s, [], Err e)
      | Ok current_block1 =>
        let '(s1, r) := serve s current_block1 in
        match r with
        | SFail => (s1, [current_block1], Err NetworkError)
        | SResp blockresponse =>
          (* 930-937: app_request.remote = blockresponse.remote, carrying along the local limit *)
          let mbse' := if mbse <? rs_maxexp blockresponse then mbse else rs_maxexp blockresponse in
          match block1_react current_block1 blockresponse block_cursor size_exp with
          | B1Err e => (s1, [current_block1], Err e)
          | B1Continue cursor' size_exp' =>
            let '(s2, tr, o) := block1_loop f s1 cfg cursor' size_exp' mbse' in (s2, current_block1 :: tr, o)
          | B1Break =>
            let '(s2, tr, o) := complete_by_requesting_block2 f s1 current_block1 (clear_block1 blockresponse) mbse' in
            (s2, current_block1 :: tr, o)
          end
        end
      end
    end.

  (* BlockwiseRequest._run with size_exp = app_request.remote.maximum_block_size_exp, block_cursor = 0 *)
  Definition run (fuel : nat) (s : S) (cfg : ccfg) : S * list request * outcome :=
    block1_loop fuel s cfg 0 (c_mbse cfg) (c_mbse cfg).
End Client.

(* the scripted server: answers the k-th sub-request with the k-th entry, whatever was asked *)
Definition serve_script (s : list sresult) (_ : request) : list sresult * sresult :=
  match s with [] => ([], SFail) | r :: rest => (rest, r) end.
Definition run_script (script : list sresult) (cfg : ccfg) : list request * outcome :=
  let '(_, tr, o) := run serve_script (Datatypes.S (length script)) script cfg in (tr, o).

(* ---- compact views for the correspondence run (payloads as length + polynomial hash) *)
(* no division: vm_compute spends ~100 us per Z.modulo *)
Definition phash (p : list Z) : Z := fold_left (fun a x => Z.land (a * 31 + x + 1) 68719476735) p 7.
Definition req_view (r : request) := (rq_block1 r, rq_block2 r, rq_size1 r, blen (rq_payload r), phash (rq_payload r)).
Inductive oview := VDone (code : Z) (block1 block2 : option bt) (etag : option Z) (len hash : Z) | VErr (e : exn) | VFuel.
Definition outcome_view (o : outcome) : oview :=
  match o with
  | Done r => VDone (rs_code r) (rs_block1 r) (rs_block2 r) (rs_etag r) (blen (rs_payload r)) (phash (rs_payload r))
  | Err e => VErr e | Fuel => VFuel
  end.
(* test bodies: byte i of body (len, seed) is (i*7 + (i/251)*3 + seed) mod 251, computed incrementally (c = i mod 251) *)
Fixpoint mkbody_from (n : nat) (c v : Z) : list Z :=
  match n with
  | O => []
  | Datatypes.S k =>
    let c1 := c + 1 in
    let v1 := if c1 =? 251 then v + 10 else v + 7 in
    let c2 := if c1 =? 251 then 0 else c1 in
    let v2 := if v1 >=? 251 then v1 - 251 else v1 in
    v :: mkbody_from k c2 v2
  end.
Definition mkbody (len seed : Z) : list Z := mkbody_from (Z.to_nat len) 0 (seed mod 251).

(* all blocks of a body as _extract_block produces them, up to and including the first exception (kernels stream) *)
Fixpoint extract_all (fuel : nat) (body : list Z) (szx mbs n : Z) : list (M (Z * Z * bt)) :=
  match fuel with
  | O => []
  | Datatypes.S f =>
    match extract_block body n szx mbs with
    | Raise e => [Raise e]
    | Ok (pl, bo) => Ok (blen pl, phash pl, bo) :: extract_all f body szx mbs (n + 1)
    end
  end.
