(* C01 — UTF-8 (RFC 3629) over code points, written from the RFC's table of well-formed byte sequences
   (the same table as Unicode 15 table 3-7).  It stands for CPython's strict codec
   (bytes.decode("utf-8") / str.encode("utf-8") in optiontypes.py:57-60, StringOption.encode/decode); the
   correspondence run compares the two on every string option.  A Python str is a list of code points.
   No proofs in this file. *)
From Verif Require Import Lib.Py.
Open Scope Z_scope.

(* Unicode scalar value: what a str element can be when it is encodable *)
Definition scalar (c : Z) : bool := ((0 <=? c) && (c <? 55296)) || ((57344 <=? c) && (c <? 1114112)).

(* continuation byte 10xxxxxx *)
Definition cont (b : Z) : bool := (128 <=? b) && (b <? 192).
Definition inr_ (lo hi b : Z) : bool := (lo <=? b) && (b <=? hi).

(* str.encode("utf-8"); lone surrogates (and anything that is no scalar value) raise UnicodeEncodeError,
   rendered as [OtherError 0] because Lib/Py.v has no constructor of that name *)
Definition UnicodeEncodeError := OtherError 0.
Definition utf8_encode_cp (c : Z) : M bytes :=
  if negb (scalar c) then Raise UnicodeEncodeError
  else if c <? 128 then Ok [c]
  else if c <? 2048 then Ok [192 + c / 64; 128 + c mod 64]
  else if c <? 65536 then Ok [224 + c / 4096; 128 + (c / 64) mod 64; 128 + c mod 64]
  else Ok [240 + c / 262144; 128 + (c / 4096) mod 64; 128 + (c / 64) mod 64; 128 + c mod 64].
Fixpoint utf8_encode (s : list Z) : M bytes :=
  match s with
  | [] => Ok []
  | c :: r => b <- utf8_encode_cp c ;; rest <- utf8_encode r ;; Ok (b ++ rest)
  end.

(* bytes.decode("utf-8"), strict: shortest form only, no surrogates, nothing above U+10FFFF *)
Fixpoint utf8_decode (b : bytes) : M (list Z) :=
  match b with
  | [] => Ok []
  | b0 :: r0 =>
    if inr_ 0 127 b0 then s <- utf8_decode r0 ;; Ok (b0 :: s)
    else if inr_ 194 223 b0 then
      match r0 with
      | b1 :: r1 =>
        if cont b1 then s <- utf8_decode r1 ;; Ok (((b0 - 192) * 64 + (b1 - 128)) :: s)
        else Raise UnicodeDecodeError
      | _ => Raise UnicodeDecodeError
      end
    else if inr_ 224 239 b0 then
      match r0 with
      | b1 :: b2 :: r2 =>
        if (if b0 =? 224 then inr_ 160 191 b1 else if b0 =? 237 then inr_ 128 159 b1 else cont b1) && cont b2
        then s <- utf8_decode r2 ;; Ok (((b0 - 224) * 4096 + (b1 - 128) * 64 + (b2 - 128)) :: s)
        else Raise UnicodeDecodeError
      | _ => Raise UnicodeDecodeError
      end
    else if inr_ 240 244 b0 then
      match r0 with
      | b1 :: b2 :: b3 :: r3 =>
        if (if b0 =? 240 then inr_ 144 191 b1 else if b0 =? 244 then inr_ 128 143 b1 else cont b1) && cont b2 && cont b3
        then s <- utf8_decode r3 ;; Ok (((b0 - 240) * 262144 + (b1 - 128) * 4096 + (b2 - 128) * 64 + (b3 - 128)) :: s)
        else Raise UnicodeDecodeError
      | _ => Raise UnicodeDecodeError
      end
    else Raise UnicodeDecodeError
  end.
