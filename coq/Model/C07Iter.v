(* C07 — ClientObservation._Iterator (protocol.py:1161-1209) with a consumer that may be BUSY between two __anext__ calls
   (an `async for` body that awaits something else, e.g. BlockwiseRequest._run_observation completing a Block2 transfer).
   Model/C07.v's (it_w, it_s) iterator is the special case of a consumer whose loop body takes no time (see
   Proofs/C07Iter.v, anext_drain_is_instant_consumer).  No proofs in this file. *)
From Verif Require Import Lib.Py Model.C07.
Open Scope Z_scope.

Inductive gstate :=
| GBlocked (w s : option item)   (* the consumer awaits the iterator's future f: w = f's result once a push resolved it,
                                    s = result of the future that replaced f in self._future (overwritten by later pushes) *)
| GBusy (b : option item)        (* the consumer is inside the loop body; b = result of self._future (overwritten by later pushes) *)
| GFinished.                     (* an end signal was raised out of __anext__: the iteration is over *)

(* _Iterator.push / push_err *)
Definition gpush (g : gstate) (x : item) : gstate :=
  match g with
  | GBlocked None _ => GBlocked (Some x) None          (* f is still self._future: there is no replacement future *)
  | GBlocked (Some a) _ => GBlocked (Some a) (Some x)
  | GBusy _ => GBusy (Some x)
  | GFinished => GFinished
  end.

(* the event loop resumes the consumer if the future it awaits is resolved: __anext__ returns (or raises), the body starts *)
Definition gwake (g : gstate) : gstate * list item :=
  match g with
  | GBlocked (Some a) s => (if is_err a then GFinished else GBusy s, [a])
  | _ => (g, [])
  end.

(* the body is done, the consumer calls __anext__ again: it returns at once if self._future is already resolved,
   otherwise the consumer blocks *)
Definition gpull (g : gstate) : gstate * list item :=
  match g with
  | GBusy (Some x) => (if is_err x then GFinished else GBusy None, [x])
  | GBusy None => (GBlocked None None, [])
  | _ => (g, [])
  end.

Inductive gop := GPush (x : item) | GWake | GPull.

Definition gstep (g : gstate) (o : gop) : gstate * list item :=
  match o with GPush x => (gpush g x, []) | GWake => gwake g | GPull => gpull g end.

Fixpoint grun (g : gstate) (ops : list gop) : list item :=
  match ops with [] => [] | o :: r => let '(g', ys) := gstep g o in ys ++ grun g' r end.

(* a consumer that keeps pulling and is given time: finish the body, block, be woken, finish the body, ... *)
Definition keep_pulling : list gop := [GPull; GWake; GPull; GPull].

(* what is still to be yielded *)
Definition pending (g : gstate) : list item :=
  match g with
  | GBlocked w s => (match w with Some a => [a] | None => [] end) ++ (match s with Some a => [a] | None => [] end)
  | GBusy b => match b with Some a => [a] | None => [] end
  | GFinished => []
  end.
Fixpoint pushed (ops : list gop) : list item :=
  match ops with [] => [] | GPush x :: r => x :: pushed r | _ :: r => pushed r end.
