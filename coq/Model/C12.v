(* C12 — OSCORE replay protection. The window arithmetic is the translated code
   (Gen/oscore_replay.v, tie T); the order of window check / decryption / strike-out / Echo
   handling in CanUnprotect.unprotect (oscore.py) is modelled by hand here (tie C).
   No proofs in this file. *)
From Verif Require Import Lib.Py Gen.oscore_replay.
Open Scope Z_scope.

(* ReplayWindow.initialize_empty / initialize_from_freshlyseen / is_initialized: the window is
   [None] while uninitialised (Python: _index is None) *)
Definition initialize_empty (size : Z) : rw := {| rw_size := size; rw_index := 0; rw_bitfield := 0 |}.
Definition initialize_from_freshlyseen (size seen : Z) : rw := {| rw_size := size; rw_index := seen; rw_bitfield := 1 |}.

(* abstract specification: the set of numbers that are no longer acceptable *)
Definition seen (w : rw) (n : Z) : bool := (n <? rw_index w) || Z.testbit (rw_bitfield w) (n - rw_index w).

(* plain window operations, as a replayable op list (correspondence with the real class) *)
Inductive wop := IsValid (n : Z) | StrikeOut (n : Z).
Inductive wres := RBool (b : bool) | RDone | RExn (e : exn).
Definition wstep (w : rw) (o : wop) : rw * wres :=
  match o with
  | IsValid n => match is_valid w n with Ok b => (w, RBool b) | Raise e => (w, RExn e) end
  | StrikeOut n => match strike_out w n with Ok (w', _) => (w', RDone) | Raise e => (w, RExn e) end
  end.
Fixpoint wrun (w : rw) (ops : list wop) : rw * list wres :=
  match ops with
  | [] => (w, [])
  | o :: r => let '(w1, x) := wstep w o in let '(w2, xs) := wrun w1 r in (w2, x :: xs)
  end.

(* the request path of CanUnprotect.unprotect *)
Record ctx := { size : Z; window : option rw; echo_recovery : option Z }.
(* a protected request: sequence number, whether AEAD verification succeeds, inner Echo option *)
Record preq := { seqno : Z; authentic : bool; echo : option Z }.
Inductive outcome := Accept | RejectReplay | RejectInvalid | RejectEcho | InternalError (e : exn).

Definition opt_eqb (a b : option Z) : bool :=
  match a, b with Some x, Some y => x =? y | None, None => true | _, _ => false end.

Definition unprotect_request (c : ctx) (r : preq) : ctx * outcome :=
  let replay_error :=
    match window c with
    | None => Ok true                                   (* "Sequence number check unavailable" *)
    | Some w => b <- is_valid w (seqno r) ;; Ok (negb b) (* "Sequence number was reused" *)
    end in
  match replay_error with
  | Raise e => (c, InternalError e)
  | Ok replay_error =>
    if replay_error && (match echo_recovery c with None => true | Some _ => false end)
    then (c, RejectReplay)                               (* don't even try decoding *)
    else if negb (authentic r) then (c, RejectInvalid)   (* decryption fails before any state change *)
    else
      let struck :=
        if negb replay_error
        then match window c with
             | Some w => '(w', _) <- strike_out w (seqno r) ;; Ok (Some w')
             | None => Ok None
             end
        else Ok (window c) in
      match struck with
      | Raise e => (c, InternalError e)
      | Ok win =>
        let c1 := {| size := size c; window := win; echo_recovery := echo_recovery c |} in
        let try_initialize :=
          (match win with None => true | Some _ => false end)
          && (match echo_recovery c with None => false | Some _ => true end) in
        if try_initialize then
          if opt_eqb (echo r) (echo_recovery c)
          then ({| size := size c; window := Some (initialize_from_freshlyseen (size c) (seqno r));
                   echo_recovery := echo_recovery c |}, Accept)
          else (c1, RejectEcho)
        else if replay_error then (c1, RejectReplay) else (c1, Accept)
      end
  end.

Fixpoint run (c : ctx) (rs : list preq) : ctx * list outcome :=
  match rs with
  | [] => (c, [])
  | r :: rest => let '(c1, o) := unprotect_request c r in let '(c2, os) := run c1 rest in (c2, o :: os)
  end.

(* how often sequence number [n] was accepted in a run *)
Fixpoint accepted_count (n : Z) (rs : list preq) (os : list outcome) : nat :=
  match rs, os with
  | r :: rs', o :: os' =>
      let hit := (seqno r =? n) && match o with Accept => true | _ => false end in
      ((if hit then 1%nat else 0%nat) + accepted_count n rs' os')%nat
  | _, _ => 0%nat
  end.
