(* C12 — OSCORE replay protection. The window arithmetic is the translated code
   (Gen/oscore_replay.v, tie T); the order of window check / decryption / strike-out / Echo
   handling in CanUnprotect.unprotect (oscore.py) is modelled by hand here (tie C).
   No proofs in this file. *)
From Verif Require Import Lib.Py Gen.oscore_replay.
Open Scope Z_scope.

(* ReplayWindow.initialize_empty / initialize_from_freshlyseen / is_initialized: the window is
   [None] while uninitialised (Python: _index is None) *)
Definition initialize_empty (size : Z) : rw := {| rw_size := size; rw_index := 0; rw_bitfield := 0 |}.
Definition initialize_from_freshlyseen (size seen : Z) : rw := {| rw_size := size; rw_index := seen; rw_bitfield := 1 |}.

(* abstract specification: the set of numbers that are no longer acceptable *)
Definition seen (w : rw) (n : Z) : bool := (n <? rw_index w) || Z.testbit (rw_bitfield w) (n - rw_index w).

(* plain window operations, as a replayable op list (correspondence with the real class) *)
Inductive wop := IsValid (n : Z) | StrikeOut (n : Z).
Inductive wres := RBool (b : bool) | RDone | RExn (e : exn).
Definition wstep (w : rw) (o : wop) : rw * wres :=
  match o with
  | IsValid n => match is_valid w n with Ok b => (w, RBool b) | Raise e => (w, RExn e) end
  | StrikeOut n => match strike_out w n with Ok (w', _) => (w', RDone) | Raise e => (w, RExn e) end
  end.
Fixpoint wrun (w : rw) (ops : list wop) : rw * list wres :=
  match ops with
  | [] => (w, [])
  | o :: r => let '(w1, x) := wstep w o in let '(w2, xs) := wrun w1 r in (w2, x :: xs)
  end.

(* the request path of CanUnprotect.unprotect *)
Record ctx := { size : Z; window : option rw; echo_recovery : option Z }.
(* a protected request: sequence number, whether AEAD verification succeeds, inner Echo option *)
Record preq := { seqno : Z; authentic : bool; echo : option Z }.
Inductive outcome := Accept | RejectReplay | RejectInvalid | RejectEcho | InternalError (e : exn).

Definition opt_eqb (a b : option Z) : bool :=
  match a, b with Some x, Some y => x =? y | None, None => true | _, _ => false end.

Definition unprotect_request (c : ctx) (r : preq) : ctx * outcome :=
  let replay_error :=
    match window c with
    | None => Ok true                                   (* "Sequence number check unavailable" *)
    | Some w => b <- is_valid w (seqno r) ;; Ok (negb b) (* "Sequence number was reused" *)
    end in
  match replay_error with
  | Raise e => (c, InternalError e)
  | Ok replay_error =>
    if replay_error && (match echo_recovery c with None => true | Some _ => false end)
    then (c, RejectReplay)                               (* don't even try decoding *)
    else if negb (authentic r) then (c, RejectInvalid)   (* decryption fails before any state change *)
    else
      let struck :=
        if negb replay_error
        then match window c with
             | Some w => '(w', _) <- strike_out w (seqno r) ;; Ok (Some w')
             | None => Ok None
             end
        else Ok (window c) in
      match struck with
      | Raise e => (c, InternalError e)
      | Ok win =>
        let c1 := {| size := size c; window := win; echo_recovery := echo_recovery c |} in
        let try_initialize :=
          (match win with None => true | Some _ => false end)
          && (match echo_recovery c with None => false | Some _ => true end) in
        if try_initialize then
          if opt_eqb (echo r) (echo_recovery c)
          then ({| size := size c; window := Some (initialize_from_freshlyseen (size c) (seqno r));
                   echo_recovery := echo_recovery c |}, Accept)
          else (c1, RejectEcho)
        else if replay_error then (c1, RejectReplay) else (c1, Accept)
      end
  end.

Fixpoint run (c : ctx) (rs : list preq) : ctx * list outcome :=
  match rs with
  | [] => (c, [])
  | r :: rest => let '(c1, o) := unprotect_request c r in let '(c2, os) := run c1 rest in (c2, o :: os)
  end.

(* how often sequence number [n] was accepted in a run *)
Fixpoint accepted_count (n : Z) (rs : list preq) (os : list outcome) : nat :=
  match rs, os with
  | r :: rs', o :: os' =>
      let hit := (seqno r =? n) && match o with Accept => true | _ => false end in
      ((if hit then 1%nat else 0%nat) + accepted_count n rs' os')%nat
  | _, _ => 0%nat
  end.

(* ---------------------------------------------------------------------------------------------
   Round 5: the rest of CanUnprotect.unprotect that touches the replay state.

   (a) RequestIdentifiers.can_reuse_nonce (oscore.py:1300-1305): computed from the replay check made
       BEFORE decryption and never revised (an Echo-recovered request keeps can_reuse_nonce = False).
   (b) the response path (oscore.py:1278-1282, 1408-1422): responses are not replay-checked; an
       authentic response that carries the peer's own Partial IV initialises an uninitialised
       window (only when echo_recovery is set: try_initialize).                                   *)
Definition can_reuse_nonce (c : ctx) (r : preq) : bool :=
  match window c with
  | None => false
  | Some w => match is_valid w (seqno r) with Ok b => b | Raise _ => false end
  end.

Inductive pmsg :=
| PReq (r : preq)
| PResp (own_seq : option Z) (auth : bool).   (* own_seq = the response's own Partial IV, if it has one *)
Inductive pout :=
| OReq (o : outcome) (reuse : bool)   (* reuse = request_id.can_reuse_nonce handed on (Accept, RejectEcho) *)
| OResp (ok : bool).

Definition unprotect_response (c : ctx) (own_seq : option Z) (auth : bool) : ctx * bool :=
  if negb auth then (c, false)
  else match window c, echo_recovery c, own_seq with
       | None, Some _, Some n =>
           ({| size := size c; window := Some (initialize_from_freshlyseen (size c) n);
               echo_recovery := echo_recovery c |}, true)
       | _, _, _ => (c, true)
       end.

Definition hands_on_request_id (o : outcome) : bool :=
  match o with Accept | RejectEcho => true | _ => false end.

Definition pstep (c : ctx) (m : pmsg) : ctx * pout :=
  match m with
  | PReq r => let '(c', o) := unprotect_request c r in
              (c', OReq o (hands_on_request_id o && can_reuse_nonce c r))
  | PResp own auth => let '(c', ok) := unprotect_response c own auth in (c', OResp ok)
  end.

Fixpoint prun (c : ctx) (ms : list pmsg) : ctx * list pout :=
  match ms with
  | [] => (c, [])
  | m :: rest => let '(c1, o) := pstep c m in let '(c2, os) := prun c1 rest in (c2, o :: os)
  end.

Definition pauth (m : pmsg) : bool := match m with PReq r => authentic r | PResp _ a => a end.
Definition pwf (m : pmsg) : Prop :=
  match m with PReq r => 0 <= seqno r | PResp (Some n) _ => 0 <= n | PResp None _ => True end.

(* how often a request with sequence number [n] was accepted / was handed on with a reusable nonce *)
Fixpoint paccepted_count (n : Z) (ms : list pmsg) (os : list pout) : nat :=
  match ms, os with
  | m :: ms', o :: os' =>
      let hit := match m, o with PReq r, OReq Accept _ => seqno r =? n | _, _ => false end in
      ((if hit then 1%nat else 0%nat) + paccepted_count n ms' os')%nat
  | _, _ => 0%nat
  end.
Fixpoint preuse_count (n : Z) (ms : list pmsg) (os : list pout) : nat :=
  match ms, os with
  | m :: ms', o :: os' =>
      let hit := match m, o with PReq r, OReq _ true => seqno r =? n | _, _ => false end in
      ((if hit then 1%nat else 0%nat) + preuse_count n ms' os')%nat
  | _, _ => 0%nat
  end.
