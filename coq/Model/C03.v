(* C03 — confirmable retransmission: executable model of the retransmission slice of
   aiocoap/messagemanager.py (MessageManager) together with the three lines of
   aiocoap/tokenmanager.py that turn its callbacks into request failures.

   Time is the virtual clock of harness/simloop.py in integer microseconds.  No proofs here.

   Representation choices (each checked by the correspondence run, see notes/C03.md):
   * a remote is a Z, a Request object / its token / the message bytes are one Z ([m_rid]);
     the messageerror_monitor closure `lambda: request.add_exception(MessageError)` is that Z too;
   * the asyncio handle returned by loop.call_later(timeout, retr) is the record [timer]; retr closes over
     (message, timeout, retransmission_counter), the loop orders handles by (due, creation sequence);
   * `_active_exchanges[key] = (monitor, handle)`: the handle lives in this dict only -- every pop in the
     anchored code is followed by handle.cancel(), so "the loop's pending retransmission timers" are exactly
     the handles stored in the dict (theorem exchange_key_fresh: an entry is never overwritten);
   * random.uniform(lo, hi) is  lo + (hi - lo) * n / 1000  for the next n of a scripted stream [rng]
     (the harness stub does the same integer arithmetic on the arguments it is called with);
   * only confirmable messages go through send_message; the `while` of _continue_backlog is a loop on fuel;
   * a transport that refuses a datagram synchronously (udp6: sendmsg fails, error_received -> MessageManager.dispatch_error
     from INSIDE message_interface.send) is the set [refusing] of remotes; nothing reaches the wire for them;
   * a request id that is not pending in the token manager stands for an unknown token. *)
From Verif Require Import Lib.Py.
Open Scope Z_scope.

(* numbers/constants.py:36-168 TransportTuning, the three parameters the retransmission code reads;
   ACK_TIMEOUT in microseconds, ACK_RANDOM_FACTOR as a fraction *)
Record tuning := { ACK_TIMEOUT : Z; ARF_num : Z; ARF_den : Z; MAX_RETRANSMIT : Z }.

Record message := { m_remote : Z; m_mid : Z; m_rid : Z; m_tuning : tuning }.

Record timer := { h_due : Z; h_seq : Z; h_message : message; h_timeout : Z; h_counter : Z }.

Notation key := (Z * Z)%type (only parsing).
Definition key_eqb (a b : Z * Z) : bool := (fst a =? fst b) && (snd a =? snd b).

Record state := {
  now : Z;                                           (* loop.time() *)
  next_seq : Z;                                      (* creation counter of loop handles *)
  message_id : Z;                                    (* messagemanager.py:44 *)
  active_exchanges : list ((Z * Z) * (Z * timer));   (* messagemanager.py:50  (remote, mid) -> (monitor, handle) *)
  backlogs : list (Z * list (message * Z));          (* messagemanager.py:55  remote -> [(message, monitor)] *)
  outgoing_requests : list (Z * Z);                  (* tokenmanager.py: pending Request objects (rid, remote) *)
  rng : list Z;                                      (* scripted stream behind random.uniform *)
  refusing : list Z                                  (* remotes whose datagrams the transport refuses synchronously *)
}.

Inductive output :=
| OSend (t : Z) (m : message)            (* message_interface.send(message) *)
| ODraw (t lo hi v : Z)                  (* random.uniform(lo, hi) returned v *)
| OFail (t rid : Z) (e : exn)            (* Request.response got this exception *)
| OError (t : Z) (e : exn)               (* an exception escaped a MessageManager method *)
| OResult (t rid : Z)                    (* Request.response got a response message *)
| OEmpty (t : Z) (is_rst : bool) (r mid : Z).  (* an empty ACK / RST of ours was put on the wire *)

(* ---- dict helpers (python dict on a key with decidable equality) ---- *)
Definition xget (k : Z * Z) (l : list ((Z * Z) * (Z * timer))) : option (Z * timer) :=
  match find (fun e => key_eqb (fst e) k) l with Some e => Some (snd e) | None => None end.
Definition xdel (k : Z * Z) (l : list ((Z * Z) * (Z * timer))) := filter (fun e => negb (key_eqb (fst e) k)) l.
Definition xset (k : Z * Z) (v : Z * timer) (l : list ((Z * Z) * (Z * timer))) := (k, v) :: xdel k l.
Definition qget (r : Z) (l : list (Z * list (message * Z))) : option (list (message * Z)) :=
  match find (fun e => fst e =? r) l with Some e => Some (snd e) | None => None end.
Definition qdel (r : Z) (l : list (Z * list (message * Z))) := filter (fun e => negb (fst e =? r)) l.
Definition qset (r : Z) (v : list (message * Z)) (l : list (Z * list (message * Z))) := (r, v) :: qdel r l.

Definition set_now (st : state) (t : Z) : state :=
  {| now := t; next_seq := next_seq st; message_id := message_id st; active_exchanges := active_exchanges st;
     backlogs := backlogs st; outgoing_requests := outgoing_requests st; rng := rng st; refusing := refusing st |}.
Definition set_exchanges (st : state) x : state :=
  {| now := now st; next_seq := next_seq st; message_id := message_id st; active_exchanges := x;
     backlogs := backlogs st; outgoing_requests := outgoing_requests st; rng := rng st; refusing := refusing st |}.
Definition set_backlogs (st : state) b : state :=
  {| now := now st; next_seq := next_seq st; message_id := message_id st; active_exchanges := active_exchanges st;
     backlogs := b; outgoing_requests := outgoing_requests st; rng := rng st; refusing := refusing st |}.
Definition set_outgoing (st : state) o : state :=
  {| now := now st; next_seq := next_seq st; message_id := message_id st; active_exchanges := active_exchanges st;
     backlogs := backlogs st; outgoing_requests := o; rng := rng st; refusing := refusing st |}.

(* any(r == remote for r, mid in self._active_exchanges.keys()) *)
Definition has_exchange_with (st : state) (r : Z) : bool :=
  existsb (fun e => fst (fst e) =? r) (active_exchanges st).
(* remote in self._backlogs *)
Definition in_backlogs (st : state) (r : Z) : bool :=
  match qget r (backlogs st) with Some _ => true | None => false end.

(* ---- random.uniform on the scripted stream ---- *)
Definition RNG_DEN : Z := 1000.
Definition uniform (st : state) (lo hi : Z) : Z * state :=
  let n := match rng st with [] => 0 | n :: _ => n end in
  (lo + (hi - lo) * n / RNG_DEN,
   {| now := now st; next_seq := next_seq st; message_id := message_id st; active_exchanges := active_exchanges st;
      backlogs := backlogs st; outgoing_requests := outgoing_requests st; rng := tl (rng st); refusing := refusing st |}).

Definition set_refusing (st : state) (l : list Z) : state :=
  {| now := now st; next_seq := next_seq st; message_id := message_id st; active_exchanges := active_exchanges st;
     backlogs := backlogs st; outgoing_requests := outgoing_requests st; rng := rng st; refusing := l |}.

(* ---- tokenmanager.py ---- *)
(* request.add_exception(e) on a pending request: the response future fails and on_interest_end pops the entry *)
Definition tm_fail (st : state) (rid : Z) (e : exn) : state * list output :=
  if existsb (fun q => fst q =? rid) (outgoing_requests st)
  then (set_outgoing st (filter (fun q => negb (fst q =? rid)) (outgoing_requests st)), [OFail (now st) rid e])
  else (st, []).
(* tokenmanager.py:74-110 dispatch_error: every outstanding request to that remote fails with the exception
   (an exception that is not a NetworkError is wrapped into one by the caller of this function, see mm_dispatch_error) *)
Definition tm_dispatch_error (st : state) (e : exn) (r : Z) : state * list output :=
  (set_outgoing st (filter (fun q => negb (snd q =? r)) (outgoing_requests st)),
   map (fun q => OFail (now st) (fst q) e) (filter (fun q => snd q =? r) (outgoing_requests st))).
(* tokenmanager.py:177 process_response: a response with the token of request [rid] from remote [r];
   matched iff that request is still pending towards that very remote; it then completes and is forgotten *)
Definition tm_process_response (st : state) (rid r : Z) : bool * state * list output :=
  if existsb (fun q => (fst q =? rid) && (snd q =? r)) (outgoing_requests st)
  then (true, set_outgoing st (filter (fun q => negb (fst q =? rid)) (outgoing_requests st)), [OResult (now st) rid])
  else (false, st, []).
(* the requester loses interest (Request.response cancelled): on_interest_end pops the entry; send_message returned no
   canceller, so nothing is told to the message layer *)
Definition tm_cancel (st : state) (rid : Z) : state :=
  set_outgoing st (filter (fun q => negb (fst q =? rid)) (outgoing_requests st)).

(* ---- messagemanager.py ---- *)
(* messagemanager.py:157 dispatch_error(error, remote), called by the transport -- asynchronously (ICMP) or, for a
   synchronously refusing transport, from inside message_interface.send; OSError is wrapped into NetworkError *)
Definition mm_dispatch_error (st : state) (r : Z) : state * list output :=
  let '(st, o) := tm_dispatch_error st NetworkError r in
  let st := set_exchanges st (filter (fun e => negb (fst (fst e) =? r)) (active_exchanges st)) in   (* pop + cancel each *)
  (set_backlogs st (qdel r (backlogs st)), o).                                                        (* _backlogs.pop(remote, ()) *)

Definition is_refusing (st : state) (r : Z) : bool := existsb (fun x => x =? r) (refusing st).

(* messagemanager.py:539 _next_message_id *)
Definition _next_message_id (st : state) : Z * state :=
  (message_id st,
   {| now := now st; next_seq := next_seq st; message_id := Z.land 65535 (1 + message_id st);
      active_exchanges := active_exchanges st; backlogs := backlogs st; outgoing_requests := outgoing_requests st; rng := rng st; refusing := refusing st |}).

(* messagemanager.py:310 _schedule_retransmit: loop.call_later(timeout, retr) *)
Definition _schedule_retransmit (st : state) (m : message) (timeout counter : Z) : timer * state :=
  ({| h_due := now st + timeout; h_seq := next_seq st; h_message := m; h_timeout := timeout; h_counter := counter |},
   {| now := now st; next_seq := next_seq st + 1; message_id := message_id st; active_exchanges := active_exchanges st;
      backlogs := backlogs st; outgoing_requests := outgoing_requests st; rng := rng st; refusing := refusing st |}).

(* messagemanager.py:242 _add_exchange *)
Definition _add_exchange (st : state) (m : message) (monitor : Z) : state * list output :=
  let k := (m_remote m, m_mid m) in
  let st := if in_backlogs st (m_remote m) then st else set_backlogs st (qset (m_remote m) [] (backlogs st)) in
  let tn := m_tuning m in
  let lo := ACK_TIMEOUT tn in
  let hi := ACK_TIMEOUT tn * ARF_num tn / ARF_den tn in
  let '(timeout, st) := uniform st lo hi in
  let '(next_retransmission, st) := _schedule_retransmit st m timeout 0 in
  (set_exchanges st (xset k (monitor, next_retransmission) (active_exchanges st)), [ODraw (now st) lo hi timeout]).

(* messagemanager.py:534 _send_via_transport: message_interface.send(message) *)
Definition _send_via_transport (st : state) (m : message) : state * list output :=
  if is_refusing st (m_remote m) then mm_dispatch_error st (m_remote m) else (st, [OSend (now st) m]).

(* messagemanager.py:519 _send_initially, for a CON (_store_response_for_duplicates ignores CONs) *)
Definition _send_initially (st : state) (m : message) (monitor : Z) : state * list output :=
  let '(st, o1) := _add_exchange st m monitor in
  let '(st, o2) := _send_via_transport st m in
  (st, o1 ++ o2).

(* messagemanager.py:545 _send_empty_ack / the RST of dispatch_message: _send_initially of an empty ACK / RST *)
Definition send_empty (st : state) (is_rst : bool) (r mid : Z) : state * list output :=
  if is_refusing st r then mm_dispatch_error st r else (st, [OEmpty (now st) is_rst r mid]).

(* messagemanager.py:287 _continue_backlog; the while loop on fuel *)
Fixpoint _continue_backlog_loop (fuel : nat) (st : state) (r : Z) : state * list output :=
  match fuel with
  | O => (st, [OError (now st) OutOfFuel])
  | S fuel =>
      match qget r (backlogs st) with
      | None => (st, [])                                 (* `remote in self._backlogs and ...` is false (fix 8d04b7c) *)
      | Some q =>
          if has_exchange_with st r then (st, [])
          else match q with
               | (next_message, monitor) :: rest =>
                   let '(st, o1) := _send_initially (set_backlogs st (qset r rest (backlogs st))) next_message monitor in
                   let '(st, o2) := _continue_backlog_loop fuel st r in
                   (st, o1 ++ o2)
               | [] => (set_backlogs st (qdel r (backlogs st)), [])
               end
      end
  end.
Definition _continue_backlog (st : state) (r : Z) : state * list output :=
  match qget r (backlogs st) with
  | None => (st, [OError (now st) AssertionError])
  | Some q => _continue_backlog_loop (2 + length q) st r
  end.

(* messagemanager.py:265 _remove_exchange, called from dispatch_message for every incoming ACK / RST *)
Definition _remove_exchange (st : state) (r mid : Z) (is_rst : bool) : state * list output :=
  match xget (r, mid) (active_exchanges st) with
  | None => (st, [])
  | Some (monitor, next_retransmission) =>
      let st := set_exchanges st (xdel (r, mid) (active_exchanges st)) in      (* pop; next_retransmission.cancel() *)
      let '(st, o1) := if is_rst then tm_fail st monitor MessageError else (st, []) in
      let '(st, o2) := _continue_backlog st r in
      (st, o1 ++ o2)
  end.

(* messagemanager.py:332 _retransmit, called by the loop with the closure's (message, timeout, counter) *)
Definition _retransmit (st : state) (h : timer) : state * list output :=
  let m := h_message h in
  let k := (m_remote m, m_mid m) in
  match xget k (active_exchanges st) with
  | None => (st, [OError (now st) KeyError])
  | Some (monitor, _) =>
      let st := set_exchanges st (xdel k (active_exchanges st)) in
      if h_counter h <? MAX_RETRANSMIT (m_tuning m) then
        let retransmission_counter := h_counter h + 1 in
        let timeout := h_timeout h * 2 in
        let '(next_retransmission, st) := _schedule_retransmit st m timeout retransmission_counter in
        (* the exchange is put back BEFORE the message is handed to the transport (fix 11456f9): a refusing transport's
           dispatch_error, running inside send(), finds and ends it *)
        let st := set_exchanges st (xset k (monitor, next_retransmission) (active_exchanges st)) in
        _send_via_transport st m
      else
        match qget (m_remote m) (backlogs st) with
        | None => (st, [OError (now st) KeyError])                      (* del self._backlogs[message.remote] *)
        | Some _ =>
            let st := set_backlogs st (qdel (m_remote m) (backlogs st)) in
            tm_dispatch_error st ConRetransmitsExceeded (m_remote m)
        end
  end.

(* messagemanager.py:423 send_message for a request whose mtype resolves to CON *)
Definition send_message (st : state) (rid r : Z) (tn : tuning) : state * list output :=
  let '(mid, st) := _next_message_id st in
  let m := {| m_remote := r; m_mid := mid; m_rid := rid; m_tuning := tn |} in
  match qget r (backlogs st) with
  | Some q =>
      if has_exchange_with st r
      then (set_backlogs st (qset r (q ++ [(m, rid)]) (backlogs st)), [])
      else tm_fail st rid AssertionError               (* the assert; tokenmanager.request catches it *)
  | None => _send_initially st m rid
  end.

(* tokenmanager.py:220 request *)
Definition tm_request (st : state) (rid r : Z) (tn : tuning) : state * list output :=
  send_message (set_outgoing st (outgoing_requests st ++ [(rid, r)])) rid r tn.

(* messagemanager.py:97 dispatch_message for a response (code 2.05) of type ACK (ty 0), CON (1) or NON (2) from r with
   message id mid and the token of request rid *)
Definition dispatch_response (st : state) (r ty mid rid : Z) : state * list output :=
  let '(st, o1) := if ty =? 0 then _remove_exchange st r mid false else (st, []) in
  let '(success, st, o2) := tm_process_response st rid r in
  let '(st, o3) :=
    if ty =? 1 then (if success then send_empty st false r mid else send_empty st true r mid) else (st, []) in
  (st, o1 ++ o2 ++ o3).

(* ---- the event loop ---- *)
Definition timer_before (a b : timer) : bool :=
  (h_due a <? h_due b) || ((h_due a =? h_due b) && (h_seq a <? h_seq b)).
Fixpoint min_timer (l : list ((Z * Z) * (Z * timer))) : option timer :=
  match l with
  | [] => None
  | e :: r => match min_timer r with
              | None => Some (snd (snd e))
              | Some h => if timer_before h (snd (snd e)) then Some h else Some (snd (snd e))
              end
  end.
Definition next_timer (st : state) : option timer := min_timer (active_exchanges st).

Inductive event :=
| ERequest (rid r : Z) (tn : tuning)       (* Context.request(CON message to r).response *)
| ERecv (r : Z) (is_rst : bool) (mid : Z)  (* an empty ACK / RST datagram from r *)
| EWaitUntil (t : Z)                       (* time passes, but never beyond the next pending timer *)
| EFire                                    (* time passes until the next timer, which fires *)
| EFireDue                                 (* the next timer fires if it is due now *)
| EError (r : Z)                           (* the transport reports an error for r (ICMP): MessageManager.dispatch_error *)
| ECancel (rid : Z)                        (* the requester cancels Request.response *)
| EResponse (r ty mid rid : Z)             (* a 2.05 response datagram from r: ty 0 piggy-backed ACK, 1 CON, 2 NON; token of rid *)
| ERefuse (r : Z) (on : bool).             (* the transport starts / stops refusing datagrams to r synchronously *)

Definition step (st : state) (e : event) : state * list output :=
  match e with
  | ERequest rid r tn => tm_request st rid r tn
  | ERecv r is_rst mid => _remove_exchange st r mid is_rst
  | EWaitUntil t =>
      let t := match next_timer st with Some h => Z.min t (h_due h) | None => t end in
      (set_now st (Z.max (now st) t), [])
  | EFire =>
      match next_timer st with
      | Some h => _retransmit (set_now st (Z.max (now st) (h_due h))) h
      | None => (st, [])
      end
  | EFireDue =>
      match next_timer st with
      | Some h => if h_due h <=? now st then _retransmit st h else (st, [])
      | None => (st, [])
      end
  | EError r => mm_dispatch_error st r
  | ECancel rid => (tm_cancel st rid, [])
  | EResponse r ty mid rid => dispatch_response st r ty mid rid
  | ERefuse r on =>
      (set_refusing st (if on then r :: filter (fun x => negb (x =? r)) (refusing st)
                        else filter (fun x => negb (x =? r)) (refusing st)), [])
  end.

(* one output list per event *)
Fixpoint run (st : state) (evs : list event) : state * list (list output) :=
  match evs with
  | [] => (st, [])
  | e :: r => let '(st1, o) := step st e in let '(st2, os) := run st1 r in (st2, o :: os)
  end.

Definition init (mid0 : Z) (draws : list Z) : state :=
  {| now := 0; next_seq := 0; message_id := mid0; active_exchanges := []; backlogs := [];
     outgoing_requests := []; rng := draws; refusing := [] |}.

(* what the correspondence run prints: the trace, and the pending timers / backlog sizes at the end *)
Definition summary (st : state) : list (Z * Z * Z * Z * Z) * list (Z * Z) * list (Z * Z) :=
  (map (fun e => (fst (fst e), snd (fst e), h_due (snd (snd e)), h_timeout (snd (snd e)), h_counter (snd (snd e)))) (active_exchanges st),
   map (fun b => (fst b, blen (snd b))) (backlogs st),
   outgoing_requests st).
Definition run_trace (mid0 : Z) (draws : list Z) (evs : list event) :=
  let '(st, os) := run (init mid0 draws) evs in (os, summary st, now st).
