(* C05 — an independent reference server written from RFC 7959 (not from aiocoap's server code):
   Block1: reassembly by offset NUM * 2^(SZX+4) (block 0 restarts), non-final blocks must be exactly one block long,
           each block acknowledged with its own NUM and the server's preferred (never larger) SZX — 2.31/M=1 when atomic,
           2.04/M=0 when the server processes blocks statelessly (RFC 7959 section 2.3);
   Block2: slices of the current representation at offset NUM * 2^(SZX+4), in blocks no larger than the client asked for
           and no larger than the server's current limit, M = more bytes follow, ETag of the representation on every block.
   It is parameterised by a policy (the size exponents it uses at each step — late and mid-transfer reduction), by a list of
   representations and the moment they change, and by one optional misbehaviour applied to the k-th response.
   The same server exists in Python (harness/props/c05.py, class RefServer); both are compared on every run.
   No proofs in this file. *)
From Verif Require Import Lib.Py Gen.block_kernels Model.C05.
Open Scope Z_scope.

Record scfg := {
  s_policy1 : list Z;                 (* SZX offered in the Block1 acknowledgement of request k (last entry repeats; [] = 6) *)
  s_policy2 : list Z;                 (* largest Block2 SZX used when answering request k (last entry repeats; [] = 6) *)
  s_reps : list (option Z * list Z);  (* representations: (ETag, bytes) *)
  s_rep_at : list Z;                  (* index of the representation that is current at request k (last repeats; [] = 0) *)
  s_atomic : bool;
  s_mis : option (Z * Z);             (* (k, kind): the response to request k is mutated, see [mutate] *)
  s_bert : Z                          (* 0: a server on a datagram transport (no BERT).  b > 0: a server on a reliable transport (RFC 8323) that
                                         sends BERT messages of up to b blocks of 1024 bytes where its policy allows size exponent 7 *)
}.
Record sstate := { sv_asm : list Z; sv_bodies : list (list Z); sv_step : Z }.
Definition sstate0 : sstate := {| sv_asm := []; sv_bodies := []; sv_step := 0 |}.

Definition pol (l : list Z) (k d : Z) : Z := nth (Z.to_nat k) l (last l d).

Definition plain (code : Z) : response :=
  {| rs_code := code; rs_block1 := None; rs_block2 := None; rs_etag := None; rs_payload := []; rs_maxexp := 6; rs_observe := false |}.

Definition BAD_REQUEST : Z := 128.
Definition REQUEST_ENTITY_INCOMPLETE : Z := 136.
Definition CHANGED : Z := 68.
Definition CONTENT : Z := 69.

(* the (slice of the) current representation asked for by [req_b2] *)
Definition slice_response (cfg : scfg) (k code : Z) (b1 req_b2 : option bt) : response :=
  let '(etag, rep) := nth (Z.to_nat (pol (s_rep_at cfg) k 0)) (s_reps cfg) (None, []) in
  let '(n2, szx2) := match req_b2 with Some (n, _, szx) => (n, Z.min szx 6) | None => (0, 6) end in
  let sszx := Z.min szx2 (pol (s_policy2 cfg) k 6) in
  let offset := n2 * 2 ^ (szx2 + 4) in
  let size := 2 ^ (sszx + 4) in
  if (offset >? blen rep) || ((offset =? blen rep) && (0 <? n2)) then plain BAD_REQUEST
  else
    let more := offset + size <? blen rep in
    {| rs_code := code; rs_block1 := b1;
       rs_block2 := match req_b2 with None => if more then Some (0, more, sszx) else None | Some _ => Some (offset / size, more, sszx) end;
       rs_etag := etag; rs_payload := bslice rep offset (offset + size); rs_maxexp := 6; rs_observe := false |}.

Definition honest_regular (cfg : scfg) (st : sstate) (rq : request) : sstate * response :=
  let k := sv_step st in
  match rq_block1 rq with
  | Some (n, m, szx) =>
    let size := 2 ^ (szx + 4) in
    let asm := if n =? 0 then [] else sv_asm st in
    if negb (n * size =? blen asm) then
      ({| sv_asm := sv_asm st; sv_bodies := sv_bodies st; sv_step := k + 1 |}, plain REQUEST_ENTITY_INCOMPLETE)
    else if (m && negb (blen (rq_payload rq) =? size)) || (negb m && (size <? blen (rq_payload rq))) then
      ({| sv_asm := sv_asm st; sv_bodies := sv_bodies st; sv_step := k + 1 |}, plain BAD_REQUEST)
    else
      let asm' := asm ++ rq_payload rq in
      let aszx := Z.min szx (pol (s_policy1 cfg) k 6) in
      if m then
        ({| sv_asm := asm'; sv_bodies := sv_bodies st; sv_step := k + 1 |},
         {| rs_code := if s_atomic cfg then CONTINUE else CHANGED; rs_block1 := Some (n, s_atomic cfg, aszx); rs_block2 := None;
            rs_etag := None; rs_payload := []; rs_maxexp := 6; rs_observe := false |})
      else
        ({| sv_asm := []; sv_bodies := asm' :: sv_bodies st; sv_step := k + 1 |},
         slice_response cfg k CHANGED (Some (n, false, aszx)) (rq_block2 rq))
  | None =>
    match rq_block2 rq with
    | Some (n2, _, _) =>
      if 0 <? n2 then   (* a follow-up request for a later block of the representation: carries no body *)
        ({| sv_asm := sv_asm st; sv_bodies := sv_bodies st; sv_step := k + 1 |}, slice_response cfg k CONTENT None (rq_block2 rq))
      else
        ({| sv_asm := []; sv_bodies := rq_payload rq :: sv_bodies st; sv_step := k + 1 |}, slice_response cfg k CONTENT None (rq_block2 rq))
    | None =>
      ({| sv_asm := []; sv_bodies := rq_payload rq :: sv_bodies st; sv_step := k + 1 |}, slice_response cfg k CONTENT None None)
    end
  end.

(* ---- RFC 8323 section 6 (BERT): size exponent 7 means blocks of 1024 bytes, several per message.
   Block1: NUM counts 1024-byte blocks, a non-final payload is a non-empty whole number of them; Block2: the server sends up to s_bert
   blocks per message when the request (or, unasked, the server itself) uses exponent 7 and the policy of this step allows 7. *)
Definition b1_unit (szx : Z) : Z := if szx =? 7 then 1024 else 2 ^ (szx + 4).
Definition set_maxexp (mx : Z) (r : response) : response :=
  {| rs_code := rs_code r; rs_block1 := rs_block1 r; rs_block2 := rs_block2 r; rs_etag := rs_etag r; rs_payload := rs_payload r; rs_maxexp := mx; rs_observe := rs_observe r |}.
Definition remote_exp (cfg : scfg) : Z := if 0 <? s_bert cfg then 7 else 6.

Definition respond (cfg : scfg) (k code : Z) (b1 req_b2 : option bt) : response :=
  let want := match req_b2 with Some (_, _, s) => s | None => remote_exp cfg end in
  if (want =? 7) && (7 <=? pol (s_policy2 cfg) k 6) then
    let '(etag, rep) := nth (Z.to_nat (pol (s_rep_at cfg) k 0)) (s_reps cfg) (None, []) in
    let n2 := match req_b2 with Some (n, _, _) => n | None => 0 end in
    let size := 1024 * Z.max 1 (s_bert cfg) in
    let offset := n2 * 1024 in
    if (offset >? blen rep) || ((offset =? blen rep) && (0 <? n2)) then set_maxexp (remote_exp cfg) (plain BAD_REQUEST)
    else
      let more := offset + size <? blen rep in
      {| rs_code := code; rs_block1 := b1;
         rs_block2 := match req_b2 with None => if more then Some (0, more, 7) else None | Some _ => Some (n2, more, 7) end;
         rs_etag := etag; rs_payload := bslice rep offset (offset + size); rs_maxexp := remote_exp cfg; rs_observe := false |}
  else set_maxexp (remote_exp cfg) (slice_response cfg k code b1 req_b2).

Definition honest_bert (cfg : scfg) (st : sstate) (rq : request) : sstate * response :=
  let k := sv_step st in
  let same := {| sv_asm := sv_asm st; sv_bodies := sv_bodies st; sv_step := k + 1 |} in
  match rq_block1 rq with
  | Some (n, m, szx) =>
    let asm := if n =? 0 then [] else sv_asm st in
    let len := blen (rq_payload rq) in
    if negb (n * b1_unit szx =? blen asm) then (same, set_maxexp (remote_exp cfg) (plain REQUEST_ENTITY_INCOMPLETE))
    else if (if szx =? 7 then m && ((len =? 0) || negb (len mod 1024 =? 0))
             else (m && negb (len =? b1_unit szx)) || (negb m && (b1_unit szx <? len))) then (same, set_maxexp (remote_exp cfg) (plain BAD_REQUEST))
    else
      let asm' := asm ++ rq_payload rq in
      let aszx := Z.min szx (pol (s_policy1 cfg) k 6) in
      if m then
        ({| sv_asm := asm'; sv_bodies := sv_bodies st; sv_step := k + 1 |},
         {| rs_code := if s_atomic cfg then CONTINUE else CHANGED; rs_block1 := Some (n, s_atomic cfg, aszx); rs_block2 := None;
            rs_etag := None; rs_payload := []; rs_maxexp := remote_exp cfg; rs_observe := false |})
      else
        ({| sv_asm := []; sv_bodies := asm' :: sv_bodies st; sv_step := k + 1 |}, respond cfg k CHANGED (Some (n, false, aszx)) (rq_block2 rq))
  | None =>
    match rq_block2 rq with
    | Some (n2, _, _) =>
      if 0 <? n2 then (same, respond cfg k CONTENT None (rq_block2 rq))
      else ({| sv_asm := []; sv_bodies := rq_payload rq :: sv_bodies st; sv_step := k + 1 |}, respond cfg k CONTENT None (rq_block2 rq))
    | None => ({| sv_asm := []; sv_bodies := rq_payload rq :: sv_bodies st; sv_step := k + 1 |}, respond cfg k CONTENT None None)
    end
  end.

Definition szx_is_7 (b : option bt) : bool := match b with Some (_, _, s) => s =? 7 | None => false end.
Definition is_bert_request (rq : request) : bool := szx_is_7 (rq_block1 rq) || szx_is_7 (rq_block2 rq).
Definition honest (cfg : scfg) (st : sstate) (rq : request) : sstate * response :=
  if is_bert_request rq || (0 <? s_bert cfg) then honest_bert cfg st rq else honest_regular cfg st rq.

Definition map_b1 (f : bt -> bt) (r : response) : response :=
  {| rs_code := rs_code r; rs_block1 := option_map f (rs_block1 r); rs_block2 := rs_block2 r; rs_etag := rs_etag r; rs_payload := rs_payload r; rs_maxexp := rs_maxexp r; rs_observe := rs_observe r |}.
Definition map_b2 (f : bt -> bt) (r : response) : response :=
  {| rs_code := rs_code r; rs_block1 := rs_block1 r; rs_block2 := option_map f (rs_block2 r); rs_etag := rs_etag r; rs_payload := rs_payload r; rs_maxexp := rs_maxexp r; rs_observe := rs_observe r |}.
Definition set_code (c : Z) (r : response) : response :=
  {| rs_code := c; rs_block1 := rs_block1 r; rs_block2 := rs_block2 r; rs_etag := rs_etag r; rs_payload := rs_payload r; rs_maxexp := rs_maxexp r; rs_observe := rs_observe r |}.
Definition set_payload (p : list Z) (r : response) : response :=
  {| rs_code := rs_code r; rs_block1 := rs_block1 r; rs_block2 := rs_block2 r; rs_etag := rs_etag r; rs_payload := p; rs_maxexp := rs_maxexp r; rs_observe := rs_observe r |}.
Definition set_etag (e : option Z) (r : response) : response :=
  {| rs_code := rs_code r; rs_block1 := rs_block1 r; rs_block2 := rs_block2 r; rs_etag := e; rs_payload := rs_payload r; rs_maxexp := rs_maxexp r; rs_observe := rs_observe r |}.

(* the misbehaving-server variants: one response of an otherwise honest exchange is altered *)
Definition mutate (kind : Z) (r : response) : sresult :=
  match kind with
  | 1 => SResp (map_b1 (fun b => (bt_num b + 1, bt_more b, bt_szx b)) r)      (* wrong block number in the acknowledgement *)
  | 2 => SResp (map_b1 (fun b => (bt_num b, true, bt_szx b)) r)               (* more-flag (also on the final acknowledgement) *)
  | 3 => SResp (set_code CONTINUE r)                                          (* 2.31 (also on the final acknowledgement) *)
  | 4 => SResp (clear_block1 r)                                               (* Block1 option dropped *)
  | 5 => SResp (map_b2 (fun b => (bt_num b + 1, bt_more b, bt_szx b)) r)      (* wrong Block2 number *)
  | 6 => SResp (set_payload (removelast (rs_payload r)) r)                    (* a payload byte missing *)
  | 7 => SResp (set_payload (rs_payload r ++ [0]) r)                          (* a payload byte too many *)
  | 8 => SResp (set_etag (Some 200) r)                                        (* ETag differs *)
  | 9 => SResp (clear_block2 r)                                               (* Block2 option dropped *)
  | 10 => SResp (map_b2 (fun b => (bt_num b, negb (bt_more b), bt_szx b)) r)  (* Block2 more-flag flipped *)
  | 11 => SResp (map_b1 (fun b => (bt_num b, bt_more b, Z.min 6 (bt_szx b + 1))) r)   (* acknowledgement asks for larger blocks *)
  | 12 => SResp (set_code 141 r)                                              (* 4.13 *)
  | 13 => SFail                                                               (* the exchange fails in the transport *)
  | 14 => SResp (map_b2 (fun b => (bt_num b, bt_more b, Z.max 0 (bt_szx b - 1))) r)   (* Block2 SZX changed, NUM not rescaled *)
  | 15 => SResp (map_b1 (fun b => (0, bt_more b, bt_szx b)) r)                (* acknowledgement always names block 0 *)
  | 16 => SResp (map_b2 (fun b => (bt_num b + 1, false, bt_szx b)) r)         (* Block2 names a later block and claims to be final *)
  | 17 => SResp (set_etag None r)                                             (* ETag missing on one block *)
  | 20 => SResp (map_b2 (fun b => (bt_num b / 2, false, Z.min 6 (bt_szx b + 1))) r)       (* Block2 SZX grown, NUM rounded down, claims to be final *)
  | 21 => SResp (map_b2 (fun b => (bt_num b / 2, bt_more b, Z.min 6 (bt_szx b + 1))) r)  (* Block2 SZX grown, NUM rounded down *)
  | _ => SResp r
  end.

(* misbehaviours 18 / 19: the server answers a Block2 request with a LARGER block than it was asked for (size exponent grown by 1 / 2,
   ignoring its policy): it serves the block of the larger size that contains the requested offset, i.e. it starts up to size-1 bytes
   BEFORE the requested offset when that offset is not a multiple of the larger size *)
Definition grow_request (grow : Z) (rq : request) : request :=
  match rq_block2 rq with
  | Some (n, m, s) => let s' := Z.min 6 (s + grow) in
                      {| rq_block1 := rq_block1 rq; rq_block2 := Some (n * 2 ^ (s + 4) / 2 ^ (s' + 4), m, s'); rq_size1 := rq_size1 rq; rq_payload := rq_payload rq |}
  | None => rq
  end.
Definition with_policy2 (cfg : scfg) (l : list Z) : scfg :=
  {| s_policy1 := s_policy1 cfg; s_policy2 := l; s_reps := s_reps cfg; s_rep_at := s_rep_at cfg; s_atomic := s_atomic cfg; s_mis := s_mis cfg; s_bert := s_bert cfg |}.

Definition serve_ref (cfg : scfg) (st : sstate) (rq : request) : sstate * sresult :=
  let '(st', r) := honest cfg st rq in
  match s_mis cfg with
  | Some (k, kind) =>
    if k =? sv_step st then
      if kind =? 22 then (st, SFail)      (* no transmission of the request arrives: the sub-request fails and nothing happens at the server *)
      else if (kind =? 18) || (kind =? 19) then let '(st2, r2) := honest (with_policy2 cfg [6]) st (grow_request (kind - 17) rq) in (st2, SResp r2)
      else (st', mutate kind r)
    else (st', SResp r)
  | None => (st', SResp r)
  end.

Definition body_view (b : list Z) := (blen b, phash b).
Definition run_ref (fuel : nat) (scf : scfg) (cfg : ccfg) :=
  let '(st, tr, o) := run (serve_ref scf) fuel sstate0 cfg in
  (map req_view tr, outcome_view o, map body_view (sv_bodies st)).
