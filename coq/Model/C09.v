(* C09 — every request gets exactly one final response reflecting the handler outcome.
   Part 1 (this file): the rendering decision (Resource.render, Site.render_to_pipe, Context._render_to_pipe,
   ConstructionRenderableError.to_message, error_to_message) as total functions, and the pair of Pipes that
   Context.render_to_pipe / TokenManager.process_request set up for one incoming request, with the callbacks that
   the code registers on them (defunctionalised).  Part 2 (Model/C09Stack.v): the server stack around it.
   No proofs in this file. *)
From Coq Require Import String Ascii.
From Verif Require Import Lib.Py.
Open Scope Z_scope.

(* ------------------------------------------------------------------ numbers/codes.py *)
Definition EMPTY := 0.
Definition GET := 1. Definition POST := 2. Definition PUT := 3. Definition DELETE := 4.
Definition FETCH := 5. Definition PATCH := 6. Definition iPATCH := 7.
Definition DELETED := 66. Definition CHANGED := 68. Definition CONTENT := 69.
Definition NOT_FOUND := 132. Definition METHOD_NOT_ALLOWED := 133. Definition INTERNAL_SERVER_ERROR := 160.
(* Code.is_request / is_response / class_  (codes.py:78-84, 105-119) *)
Definition is_request (c : Z) : bool := (1 <=? c) && (c <? 32).
Definition is_response (c : Z) : bool := (64 <=? c) && (c <? 192).
Definition is_successful (c : Z) : bool := (64 <=? c) && (c <? 96).
Definition class_ (c : Z) : Z := Z.shiftr c 5.

Definition ascii_bytes (s : string) : bytes := map (fun a => Z.of_nat (nat_of_ascii a)) (list_ascii_of_string s).

(* ------------------------------------------------------------------ messages and Python values *)
(* the part of a response Message the server path looks at: code (None = not set), payload,
   Content-Format (stands for "options the handler set", passed through untouched), No-Response option, Observe option *)
Record msg := { m_code : option Z; m_payload : bytes; m_cf : option Z; m_nr : option Z; m_obs : option Z }.
Definition mk_msg (code : Z) (payload : bytes) : msg :=
  {| m_code := Some code; m_payload := payload; m_cf := None; m_nr := None; m_obs := None |}.
Definition set_obs (m : msg) (o : option Z) : msg :=
  {| m_code := m_code m; m_payload := m_payload m; m_cf := m_cf m; m_nr := m_nr m; m_obs := o |}.

(* what a Python callable can hand back where a Message is expected *)
Inductive value :=
| VMsg (m : msg)          (* an aiocoap.Message *)
| VNoResponse             (* the deprecated message.NoResponse sentinel *)
| VNone                   (* None *)
| VOther.                 (* any other object: str, int, bytes, dict, ... *)

(* result of calling e.to_message() on a RenderableError *)
Inductive tm_result := TMReturn (v : value) | TMRaises.
(* an exception (subclass of Exception) leaving the rendering coroutine *)
Inductive exc :=
| ERenderable (tm : tm_result)   (* isinstance(e, error.RenderableError); its to_message behaves like tm *)
| EOther.                        (* everything else: ValueError, KeyError, AssertionError, ResponseWrappingError, ... *)

(* ------------------------------------------------------------------ error.py: ConstructionRenderableError and its subclasses *)
Inductive cre_class :=
| E_BadRequest | E_Unauthorized | E_BadOption | E_Forbidden | E_NotFound | E_MethodNotAllowed | E_NotAcceptable
| E_RequestEntityIncomplete | E_Conflict | E_PreconditionFailed | E_RequestEntityTooLarge | E_UnsupportedContentFormat
| E_UnprocessableEntity | E_TooManyRequests | E_InternalServerError | E_NotImplemented | E_BadGateway
| E_ServiceUnavailable | E_GatewayTimeout | E_ProxyingNotSupported | E_HopLimitReached
| E_UnallowedMethod | E_UnsupportedMethod | E_NoRequestInterface | E_IncompleteException
| E_ConstructionRenderableError.
(* class attribute [code] (error.py:104-185, 213-233, 291-293; blockwise.py:56-57) *)
Definition cre_code (c : cre_class) : Z :=
  match c with
  | E_BadRequest => 128 | E_Unauthorized => 129 | E_BadOption => 130 | E_Forbidden => 131 | E_NotFound => 132
  | E_MethodNotAllowed => 133 | E_NotAcceptable => 134 | E_RequestEntityIncomplete => 136 | E_Conflict => 137
  | E_PreconditionFailed => 140 | E_RequestEntityTooLarge => 141 | E_UnsupportedContentFormat => 143
  | E_UnprocessableEntity => 150 | E_TooManyRequests => 157
  | E_InternalServerError => 160 | E_NotImplemented => 161 | E_BadGateway => 162 | E_ServiceUnavailable => 163
  | E_GatewayTimeout => 164 | E_ProxyingNotSupported => 165 | E_HopLimitReached => 168
  | E_UnallowedMethod => 133 | E_UnsupportedMethod => 133 | E_NoRequestInterface => 165 | E_IncompleteException => 136
  | E_ConstructionRenderableError => 160
  end.
(* class attribute [message] *)
Definition cre_default_text (c : cre_class) : bytes :=
  match c with
  | E_UnallowedMethod => ascii_bytes "Error: Method not allowed!"
  | E_UnsupportedMethod => ascii_bytes "Error: Method not recognized!"
  | E_NoRequestInterface => ascii_bytes "Error: No CoAP transport available for this scheme on any request interface."
  | _ => []
  end.
(* the [message] an instance carries: the constructor argument if given. [CText] = a str (already UTF-8 encoded here),
   [CNotStr] = an object without a working .encode("utf8") (bytes, int, ...) *)
Inductive cre_text := CDefault | CText (t : bytes) | CNotStr.
(* ConstructionRenderableError.to_message (error.py:93-96): Message(code=self.code, payload=self.message.encode("utf8")) *)
Definition cre_to_message (c : cre_class) (t : cre_text) : tm_result :=
  (* NoRequestInterface(RuntimeError, ...) never reaches ConstructionRenderableError.__init__: the argument is ignored *)
  match (match c with E_NoRequestInterface => CDefault | _ => t end) with
  | CDefault => TMReturn (VMsg (mk_msg (cre_code c) (cre_default_text c)))
  | CText b => TMReturn (VMsg (mk_msg (cre_code c) b))
  | CNotStr => TMRaises
  end.
Definition cre (c : cre_class) (t : cre_text) : exc := ERenderable (cre_to_message c t).

(* ------------------------------------------------------------------ what the rendering coroutine does with the pipes *)
(* one thing the coroutine run by run_driving_pipe can do: put a response on the request's pipe,
   end by raising, or end by returning *)
Inductive raction :=
| RAdd (v : value) (is_last : bool)   (* pipe.add_response(v, is_last) *)
| RRaise (e : exc)
| RReturn.

(* behaviour of the application code for one request *)
Inductive outcome :=
| Return (v : value)          (* render_<method> returns v *)
| Raise_ (e : exc)            (* render_<method> raises e *)
| Script (l : list raction).  (* a resource implementing render_to_pipe itself performs l *)

(* what an observable resource's add_observation does with the ServerObservation it is handed *)
Inductive obs_mode :=
| OAccept               (* serverobservation.accept(cb)   (resource.ObservableResource.add_observation) *)
| ODecline              (* returns without accepting *)
| OAcceptDeregister     (* accepts, then serverobservation.deregister() before the first response (early deregistration) *)
| ORaise (e : exc).     (* raises *)
Inductive rkind := Plain (methods : list Z)   (* resource.Resource subclass with render_<m> for the listed request codes *)
                 | Raw                        (* resource with its own render_to_pipe *)
                 | Observable (methods : list Z) (mode : obs_mode).   (* resource.ObservableResource / a Resource mixed with interfaces.ObservableResource *)
Definition site := list (list Z * rkind).     (* Site._resources: path (segments as numbers) -> resource *)

Record request := {
  r_id : Z;                 (* harness-side identity of the request *)
  r_remote : Z; r_token : bytes; r_mid : Z; r_con : bool;
  r_code : Z; r_path : list Z;
  r_nr : option Z;          (* No-Response option of the request *)
  r_obs : option Z;         (* Observe option of the request *)
  r_slow : bool;            (* handler first awaits something the environment completes later *)
  r_outcome : outcome }.

(* Resource.render (resource.py:114-144) for a resource with handlers for [methods] *)
Definition default_code (req_code : Z) : Z :=
  if (req_code =? GET) || (req_code =? FETCH) then CONTENT
  else if req_code =? DELETE then DELETED else CHANGED.
Inductive rendered := Responded (m : msg) | Raised (e : exc).
Definition fill_defaults (r : request) (m : msg) : msg :=
  {| m_code := Some (match m_code m with Some c => c | None => default_code (r_code r) end);
     m_payload := m_payload m; m_cf := m_cf m;
     m_nr := match m_nr m with Some n => Some n | None => r_nr r end; m_obs := m_obs m |}.
(* `if not response.code.is_response(): raise ValueError(...)` (resource.py:141-148, a9de195), after the default code is filled in *)
Definition checked (m : msg) : rendered :=
  if is_response (match m_code m with Some c => c | None => 0 end) then Responded m else Raised EOther.
Definition render (methods : list Z) (r : request) : rendered :=
  if negb (is_request (r_code r)) then Raised (cre E_UnsupportedMethod CDefault)
  else if negb (existsb (Z.eqb (r_code r)) methods) then Raised (cre E_UnallowedMethod CDefault)
  else match r_outcome r with
       | Raise_ e => Raised e
       | Return (VMsg m) => checked (fill_defaults r m)
       | Return VNoResponse =>          (* response = Message(no_response=26) *)
           checked (fill_defaults r {| m_code := None; m_payload := []; m_cf := None; m_nr := Some 26; m_obs := None |})
       | Return _ => Raised EOther      (* response.code -> AttributeError *)
       | Script _ => Raised EOther      (* not applicable to Plain resources *)
       end.

Fixpoint path_eqb (a b : list Z) : bool :=
  match a, b with [] , [] => true | x :: a', y :: b' => (x =? y) && path_eqb a' b' | _, _ => false end.
Fixpoint find_resource (s : site) (p : list Z) : option rkind :=
  match s with [] => None | (q, k) :: rest => if path_eqb q p then Some k else find_resource rest p end.

Definition respond_plain (methods : list Z) (r : request) : list raction :=
  match render methods r with
  | Responded m => [RAdd (VMsg m) true; RReturn]
  | Raised e => [RRaise e]
  end.
(* interfaces.ObservableResource._render_to_pipe (interfaces.py:488-553) up to the first response.
   Only Observe=0 takes this path; everything else is Resource._render_to_pipe. *)
Definition observing (r : request) : bool := match r_obs r with Some 0 => true | _ => false end.
Definition code_of_msg (m : msg) : Z := match m_code m with Some c => c | None => 0 end.
(* the observation is established: accepted, not deregistered early, first response successful — the first response then
   goes out non-final with Observe:0 and the coroutine waits for triggers (C08's business from there on) *)
Definition establishes (methods : list Z) (mode : obs_mode) (r : request) : bool :=
  match mode, render methods r with
  | OAccept, Responded m => is_successful (code_of_msg m)
  | _, _ => false
  end.
Definition respond_observable (methods : list Z) (mode : obs_mode) (r : request) : list raction :=
  match mode with
  | ORaise e => [RRaise e]                                 (* await self.add_observation(...) is outside the try *)
  | _ =>
    (* the finally block runs the cancellation callback only for accepted observations (195eca8): it never raises *)
    match render methods r with
    | Responded m =>
        if establishes methods mode r then [RAdd (VMsg (set_obs m (Some 0))) false]
        else [RAdd (VMsg m) true; RReturn]
    | Raised e => [RRaise e]
    end
  end.

(* Context._render_to_pipe (protocol.py:591-598), Site.render_to_pipe (resource.py:464-487),
   interfaces.Resource._render_to_pipe (interfaces.py:405-435; no Block options, small payloads):
   the list of things the coroutine does once the handler has got its turn *)
Definition respond (srv : option site) (r : request) : list raction :=
  match srv with
  | None => [RAdd (VMsg (mk_msg NOT_FOUND (ascii_bytes "not a server"))) true; RReturn]
  | Some s =>
    match find_resource s (r_path r) with
    | None => [RRaise (cre E_NotFound CDefault)]
    | Some Raw => match r_outcome r with Script l => l | _ => [RRaise EOther] end
    | Some (Plain methods) => respond_plain methods r
    | Some (Observable methods mode) =>
        if observing r then respond_observable methods mode r else respond_plain methods r
    end
  end.

(* does the request get as far as application code that may wait (the handler / the resource's render_to_pipe)? *)
Definition reaches_handler (srv : option site) (r : request) : bool :=
  match srv with
  | None => false
  | Some s => match find_resource s (r_path r) with
              | None => false
              | Some Raw => true
              | Some (Plain methods) => is_request (r_code r) && existsb (Z.eqb (r_code r)) methods
              | Some (Observable methods mode) =>
                  (match mode with ORaise _ => negb (observing r) | _ => true end)
                  && is_request (r_code r) && existsb (Z.eqb (r_code r)) methods
              end
  end.

(* error_to_message.on_event, exception branch (pipe.py:250-280): what is put on the requester's pipe *)
Inductive logrec := LogException | LogRenderFailed | LogDiscarded | LogTmError | LogLateResponse | LogUnmodelled.
Definition exception_to_value (e : exc) : value * list logrec :=
  match e with
  | ERenderable (TMReturn (VMsg m)) => (VMsg m, [])
  | ERenderable (TMReturn _) => (VMsg (mk_msg INTERNAL_SERVER_ERROR []), [LogRenderFailed])   (* not isinstance(msg, Message) -> ValueError *)
  | ERenderable TMRaises => (VMsg (mk_msg INTERNAL_SERVER_ERROR []), [LogRenderFailed])
  | EOther => (VMsg (mk_msg INTERNAL_SERVER_ERROR []), [LogException])
  end.

(* the decision table, end to end: the message that reaches the token manager as the final response
   (None only for resources with their own render_to_pipe that do not produce one) *)
Definition final_message (srv : option site) (r : request) : option msg :=
  match respond srv r with
  | RAdd (VMsg m) true :: _ => Some m
  | RRaise e :: _ => match fst (exception_to_value e) with VMsg m => Some m | _ => None end
  | _ => None
  end.

(* ------------------------------------------------------------------ the two Pipes of one incoming request *)
(* callbacks registered on them, by the place that registers them *)
Inductive cb :=
| TmOnEvent           (* TokenManager.process_request.on_event            (tokenmanager.py:134-166), on the request's pipe *)
| EndOnEnd            (* on_interest_end(on_end): del incoming_requests[key] (tokenmanager.py:168-177) *)
| EndRemoveInterest   (* on_interest_end(remove_interest) in error_to_message (pipe.py:283) *)
| EtmOnEvent          (* error_to_message.on_event                         (pipe.py:244-281), on the inner pipe *)
| EndTaskCancel.      (* on_interest_end(task.cancel) in run_driving_pipe  (pipe.py:231) *)
Definition cb_eqb (a b : cb) : bool :=
  match a, b with
  | TmOnEvent, TmOnEvent | EndOnEnd, EndOnEnd | EndRemoveInterest, EndRemoveInterest
  | EtmOnEvent, EtmOnEvent | EndTaskCancel, EndTaskCancel => true
  | _, _ => false
  end.
Definition cbs := option (list (cb * bool)).   (* Pipe._event_callbacks; None stands for False (ended) *)
Record pipes := {
  p_old : cbs;           (* the Pipe made by TokenManager.process_request, handed to the site *)
  p_next : cbs;          (* the Pipe made by error_to_message, receiving the coroutine's exception *)
  p_registered : bool;   (* key still in TokenManager.incoming_requests *)
  p_cancelled : bool }.  (* task.cancel() has been called on the rendering task *)
Definition set_old (p : pipes) (c : cbs) := {| p_old := c; p_next := p_next p; p_registered := p_registered p; p_cancelled := p_cancelled p |}.
Definition set_next (p : pipes) (c : cbs) := {| p_old := p_old p; p_next := c; p_registered := p_registered p; p_cancelled := p_cancelled p |}.
Definition set_registered (p : pipes) (b : bool) := {| p_old := p_old p; p_next := p_next p; p_registered := b; p_cancelled := p_cancelled p |}.
Definition set_cancelled (p : pipes) (b : bool) := {| p_old := p_old p; p_next := p_next p; p_registered := p_registered p; p_cancelled := b |}.

Inductive event := EvMsg (v : value) (is_last : bool) | EvExc (e : exc) | Tombstone.
Definition ev_is_last (e : event) : bool := match e with EvMsg _ l => l | _ => true end.
(* observable effects *)
Inductive action :=
| Send (m : msg) (is_last : bool)   (* token_interface.send_message(m, stop) *)
| Log (l : logrec).                 (* ERROR / WARNING records of interest *)

Definition any_interest (l : list (cb * bool)) : bool := existsb snd l.          (* Pipe._any_interest *)
Definition drop_cb (c : cb) (l : list (cb * bool)) := filter (fun x => negb (cb_eqb (fst x) c)) l.
Fixpoint remove_first (c : cb) (i : bool) (l : list (cb * bool)) : option (list (cb * bool)) :=   (* list.remove *)
  match l with
  | [] => None
  | (c', i') :: rest => if cb_eqb c c' && Bool.eqb i i' then Some rest
                        else match remove_first c i rest with Some r => Some ((c', i') :: r) | None => None end
  end.

(* result of running code that may raise: state, effects so far, raised? *)
Definition res := (pipes * list action * bool)%type.
Definition ok (p : pipes) (a : list action) : res := (p, a, false).

(* --- inner pipe (p_next) --- *)
(* Pipe._end on the inner pipe (pipe.py:162-166): tombstone to every remaining callback.
   Delivering a tombstone to error_to_message.on_event itself is outside the model (flagged LogUnmodelled; proved unreachable) *)
Definition next_end (p : pipes) : pipes * list action :=
  match p_next p with
  | None => (p, [])
  | Some l =>
      fold_left (fun (st : pipes * list action) (x : cb * bool) =>
                   let '(q, a) := st in
                   match fst x with
                   | EndTaskCancel => (set_cancelled q true, a)
                   | _ => (q, a ++ [Log LogUnmodelled])
                   end) l (set_next p None, [])
  end.
(* remove_interest(): Pipe._unregister_on_event(on_event) on the inner pipe (pipe.py:124-138) *)
Definition next_unregister_etm (p : pipes) : pipes * list action :=
  match p_next p with
  | None => (p, [])
  | Some l => let l' := drop_cb EtmOnEvent l in
              let p1 := set_next p (Some l') in
              if any_interest l' then (p1, []) else next_end p1
  end.

(* --- the request's pipe (p_old) --- *)
(* the callables passed to on_interest_end *)
Definition fire_end (c : cb) (p : pipes) : pipes * list action :=
  match c with
  | EndOnEnd => (set_registered p false, [])
  | EndRemoveInterest => next_unregister_etm p
  | EndTaskCancel => (set_cancelled p true, [])
  | _ => (p, [Log LogUnmodelled])
  end.
(* one callback of the request's pipe called with an event: (keep_calling, state, effects, raised) *)
Definition old_cb (c : cb) (ev : event) (p : pipes) : bool * res :=
  match c with
  | TmOnEvent =>
      match ev with
      | EvMsg (VMsg m) last => (negb last, ok p [Send m last])
      | EvMsg VNone last => (negb last, ok p [Log LogTmError])       (* ev.message is None: "Requests shouldn't receive errors ..." *)
      | EvMsg _ last => (false, (p, [], true))                       (* m.token = ... / message.mid -> AttributeError *)
      | _ => (false, ok p [Log LogTmError])
      end
  | EndOnEnd | EndRemoveInterest =>
      if ev_is_last ev then let '(q, a) := fire_end c p in (false, ok q a) else (true, ok p [])
  | _ => (false, ok p [Log LogUnmodelled])
  end.
(* Pipe._end on the request's pipe *)
Definition old_end (p : pipes) : res :=
  match p_old p with
  | None => ok p []
  | Some l =>
      fold_left (fun (st : res) (x : cb * bool) =>
                   let '(q, a, r) := st in
                   if r then st else
                   let '(_, (q', a', r')) := old_cb (fst x) Tombstone q in (q', a ++ a', r'))
                l (ok (set_old p None) [])
  end.
(* the loop of Pipe._add_event (pipe.py:186-196) over the snapshot [l] *)
Fixpoint old_loop (l : list (cb * bool)) (ev : event) (p : pipes) (acc : list action) : res * bool (* returned early *) :=
  match l with
  | [] => ((p, acc, false), false)
  | (c, i) :: rest =>
      let '(keep, (q, a, raised)) := old_cb c ev p in
      if raised then ((q, acc ++ a, true), true)
      else match p_old q with
           | None => ((q, acc ++ a, false), true)                     (* all interest was lost during the callback (checked first since 44c4a4c) *)
           | Some cur =>
               if keep then old_loop rest ev q (acc ++ a)
               else match remove_first c i cur with
                    | Some cur' => old_loop rest ev (set_old q (Some cur')) (acc ++ a)
                    | None => ((q, acc ++ a, true), true)             (* list.remove -> ValueError *)
                    end
           end
  end.
(* Pipe._add_event on the request's pipe (pipe.py:170-199) *)
Definition old_add_event (p : pipes) (ev : event) : res :=
  match p_old p with
  | None => ok p [Log (match ev with EvExc _ => LogDiscarded | _ => LogLateResponse end)]
  | Some l =>
      let '((q, a, raised), early) := old_loop l ev p [] in
      if early then (q, a, raised)
      else match p_old q with
           | Some cur => if any_interest cur then (q, a, false)
                         else let '(q', a', r') := old_end q in (q', a ++ a', r')
           | None => (q, a, false)
           end
  end.
(* stop(): Pipe._unregister_on_event(on_event) of the token manager's handler *)
Definition old_unregister_tm (p : pipes) : res :=
  match p_old p with
  | None => ok p []
  | Some l => let l' := drop_cb TmOnEvent l in
              let p1 := set_old p (Some l') in
              if any_interest l' then ok p1 [] else old_end p1
  end.

(* --- callbacks of the inner pipe called with an event --- *)
Definition next_cb (c : cb) (ev : event) (p : pipes) : bool * res :=
  match c with
  | EtmOnEvent =>
      match ev with
      | EvMsg VNone _ => let '(q, a, r) := old_add_event p (EvMsg (VMsg (mk_msg INTERNAL_SERVER_ERROR [])) true) in
                         (false, (q, Log LogException :: a, r))      (* message None, exception None: the else branch *)
      | EvMsg v last => (negb last, old_add_event p (EvMsg v last))
      | EvExc e => let '(v, logs) := exception_to_value e in
                   let '(q, a, r) := old_add_event p (EvMsg v true) in
                   (false, (q, map Log logs ++ a, r))
      | Tombstone => (false, ok p [Log LogUnmodelled])
      end
  | EndTaskCancel => if ev_is_last ev then (false, ok (set_cancelled p true) []) else (true, ok p [])
  | _ => (false, ok p [Log LogUnmodelled])
  end.
Fixpoint next_loop (l : list (cb * bool)) (ev : event) (p : pipes) (acc : list action) : res * bool :=
  match l with
  | [] => ((p, acc, false), false)
  | (c, i) :: rest =>
      let '(keep, (q, a, raised)) := next_cb c ev p in
      if raised then ((q, acc ++ a, true), true)
      else match p_next q with
           | None => ((q, acc ++ a, false), true)
           | Some cur =>
               if keep then next_loop rest ev q (acc ++ a)
               else match remove_first c i cur with
                    | Some cur' => next_loop rest ev (set_next q (Some cur')) (acc ++ a)
                    | None => ((q, acc ++ a, true), true)
                    end
           end
  end.
Definition next_add_event (p : pipes) (ev : event) : res :=
  match p_next p with
  | None => ok p [Log (match ev with EvExc _ => LogDiscarded | _ => LogLateResponse end)]
  | Some l =>
      let '((q, a, raised), early) := next_loop l ev p [] in
      if early then (q, a, raised)
      else match p_next q with
           | Some cur => if any_interest cur then (q, a, false)
                         else let '(q', a') := next_end q in (q', a ++ a', false)
           | None => (q, a, false)
           end
  end.

(* --- registration (Pipe.on_event, Pipe.on_interest_end) and the set-up sequence --- *)
Definition old_on_event (c : cb) (p : pipes) : pipes :=
  match p_old p with Some l => set_old p (Some (l ++ [(c, true)])) | None => p end.
Definition next_on_event (c : cb) (p : pipes) : pipes :=
  match p_next p with Some l => set_next p (Some (l ++ [(c, true)])) | None => p end.
Definition old_on_interest_end (c : cb) (p : pipes) : pipes :=
  match p_old p with
  | Some l => if any_interest l then set_old p (Some (l ++ [(c, false)])) else fst (fire_end c p)
  | None => fst (fire_end c p)
  end.
Definition next_on_interest_end (c : cb) (p : pipes) : pipes :=
  match p_next p with
  | Some l => if any_interest l then set_next p (Some (l ++ [(c, false)])) else fst (fire_end c p)
  | None => fst (fire_end c p)
  end.
(* TokenManager.process_request (tokenmanager.py:179-184) then Context.render_to_pipe (protocol.py:581-589):
   error_to_message (pipe.py:282-284) and run_driving_pipe (pipe.py:227-231) *)
Definition setup_pipes : pipes :=
  let p0 := {| p_old := Some []; p_next := Some []; p_registered := false; p_cancelled := false |} in
  let p1 := old_on_event TmOnEvent p0 in
  let p2 := old_on_interest_end EndOnEnd p1 in
  let p3 := set_registered p2 true in
  let p4 := next_on_event EtmOnEvent p3 in
  let p5 := old_on_interest_end EndRemoveInterest p4 in
  next_on_interest_end EndTaskCancel p5.

(* --- the coroutine's actions, and external stop() --- *)
(* one action: a raise out of add_response goes back into the coroutine (flag), a raise out of wrapped()'s
   except-handler ends the task with an unretrieved exception (flag as well) *)
Definition do_raction (p : pipes) (x : raction) : res :=
  match x with
  | RAdd v last => old_add_event p (EvMsg v last)
  | RRaise e => next_add_event p (EvExc e)        (* wrapped(): except Exception as e: pipe.add_exception(e) *)
  | RReturn => ok p []
  end.
(* a coroutine performing the list (it ends at the first RRaise / RReturn); effects, and how often something raised back *)
Fixpoint run_ractions (p : pipes) (l : list raction) : pipes * list action * Z :=
  match l with
  | [] => (p, [], 0)
  | x :: rest =>
      let '(q, a, raised) := do_raction p x in
      match x with
      | RAdd _ _ => let '(q', a', n) := run_ractions q rest in (q', a ++ a', (if raised then 1 else 0) + n)
      | _ => (q, a, if raised then 1 else 0)
      end
  end.

(* pipe-level inputs from both sides: the coroutine and the token manager's stop() *)
Inductive pinput := PCoro (x : raction) | PStop.
Definition pstep (p : pipes) (i : pinput) : pipes * list action :=
  match i with
  | PCoro x => let '(q, a, _) := do_raction p x in (q, a)
  | PStop => let '(q, a, _) := old_unregister_tm p in (q, a)
  end.
Fixpoint prun (p : pipes) (l : list pinput) : pipes * list action :=
  match l with
  | [] => (p, [])
  | i :: rest => let '(q, a) := pstep p i in let '(q', a') := prun q rest in (q', a ++ a')
  end.

Definition is_final_send (a : action) : bool := match a with Send _ true => true | _ => false end.
Definition is_send (a : action) : bool := match a with Send _ _ => true | _ => false end.
Definition count_final (l : list action) : nat := length (filter is_final_send l).
