(* Python-flavoured prelude: exception monad, unbounded ints, bytes as list Z.
   No proofs here (see PyLemmas.v) so that models still evaluate when a proof breaks. *)
From Coq Require Export ZArith List Bool.
Export ListNotations.
Open Scope Z_scope.

Inductive exn :=
| IndexError | ValueError | OverflowError | StructError | UnicodeDecodeError | KeyError
| AssertionError | TypeError | AttributeError | OutOfFuel
| UnparsableMessage | BadRequest | DecodeError | ProtectionInvalid | ReplayError
| ContextUnavailable | NotFound | NotImplementedError | RuntimeError | StopIteration | ZeroDivisionError
| LibraryShutdown | NetworkError | ConRetransmitsExceeded | MessageError | ConToMulticast
| ResourceChanged | UnexpectedBlock1Option | UnexpectedBlock2 | MissingBlock2Option | NotObservable | ObservationCancelled
| MalformedUrlError | IncompleteUrlError | AnonymousHost | InvalidPathError
| UnsupportedMethod | MethodNotAllowed | NoResource | RequestEntityIncomplete | ContinueException
| CloseConnection | OtherError (n : Z).

Inductive M (A : Type) := Ok (a : A) | Raise (e : exn).
Arguments Ok {A} a.
Arguments Raise {A} e.
Definition bind {A B} (m : M A) (f : A -> M B) : M B :=
  match m with Ok a => f a | Raise e => Raise e end.
Notation "x <- m ;; k" := (bind m (fun x => k))
  (at level 61, m at next level, right associativity).
Notation "' p <- m ;; k" := (bind m (fun p => k))
  (at level 61, p pattern, m at next level, right associativity).
Definition is_ok {A} (m : M A) : bool := match m with Ok _ => true | Raise _ => false end.
Definition massert (b : bool) : M unit := if b then Ok tt else Raise AssertionError.

Notation bytes := (list Z) (only parsing).
Definition blen {A} (b : list A) : Z := Z.of_nat (length b).
Definition byte_ok (x : Z) : bool := (0 <=? x) && (x <? 256).
Definition bytes_ok (b : bytes) : bool := forallb byte_ok b.
(* b[i] for i >= 0 (negative indices are never used by the translated code) *)
Definition bget (b : bytes) (i : Z) : M Z :=
  if (i <? 0) || (blen b <=? i) then Raise IndexError else Ok (nth (Z.to_nat i) b 0).
(* b[i:], b[:i], b[i:j] for non-negative i, j (Python clamps at the end) *)
Definition bfrom {A} (b : list A) (i : Z) : list A := skipn (Z.to_nat i) b.
Definition bto {A} (b : list A) (i : Z) : list A := firstn (Z.to_nat i) b.
Definition bslice {A} (b : list A) (i j : Z) : list A := skipn (Z.to_nat i) (firstn (Z.to_nat j) b).
Fixpoint from_bytes_big_acc (acc : Z) (b : bytes) : Z :=
  match b with [] => acc | x :: r => from_bytes_big_acc (acc * 256 + x) r end.
Definition from_bytes_big := from_bytes_big_acc 0.
Fixpoint to_bytes_big_n (n : nat) (v : Z) : bytes :=
  match n with O => [] | S k => to_bytes_big_n k (v / 256) ++ [v mod 256] end.
Definition to_bytes_big (v n : Z) : M bytes :=
  if (v <? 0) || (2 ^ (8 * n) <=? v) then Raise OverflowError else Ok (to_bytes_big_n (Z.to_nat n) v).
(* int.bit_length() for v >= 0 *)
Definition bit_length (v : Z) : Z := if v <=? 0 then 0 else Z.log2 v + 1.
(* (v.bit_length() + 7) // 8 bytes, i.e. minimal big-endian encoding, empty for 0 *)
Definition to_minimum_bytes (v : Z) : bytes := to_bytes_big_n (Z.to_nat ((bit_length v + 7) / 8)) v.

Fixpoint list_eqb {A} (eqb : A -> A -> bool) (a b : list A) : bool :=
  match a, b with
  | [], [] => true
  | x :: a', y :: b' => eqb x y && list_eqb eqb a' b'
  | _, _ => false
  end.
Definition beqb := list_eqb Z.eqb.
