From Coq Require Export ZArith List Bool Lia ZifyBool.
Ltac Zify.zify_post_hook ::= Z.to_euclidean_division_equations.
(* settle the outermost [if b] of the goal by lia when possible, else split *)
Ltac decide_if :=
  match goal with
  | |- context [if ?b then _ else _] =>
      first [ replace b with true by lia | replace b with false by lia | destruct b eqn:? ]
  end.
Ltac inv H := inversion H; subst; clear H.
