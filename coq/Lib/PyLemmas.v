From Verif Require Import Lib.Py Lib.Tactics.
Open Scope Z_scope.

Lemma blen_nil {A} : blen (@nil A) = 0. Proof. reflexivity. Qed.
Lemma blen_cons {A} (x : A) l : blen (x :: l) = 1 + blen l.
Proof. unfold blen. cbn [length]. lia. Qed.
Lemma blen_app {A} (a b : list A) : blen (a ++ b) = blen a + blen b.
Proof. unfold blen. rewrite app_length. lia. Qed.
Lemma blen_nonneg {A} (l : list A) : 0 <= blen l. Proof. unfold blen; lia. Qed.
Lemma blen_0 {A} (l : list A) : blen l = 0 -> l = [].
Proof. destruct l; [reflexivity|]. rewrite blen_cons. pose proof (blen_nonneg l). lia. Qed.

Lemma bfrom_0 {A} (l : list A) : bfrom l 0 = l. Proof. reflexivity. Qed.
Lemma bfrom_app {A} (a b : list A) : bfrom (a ++ b) (blen a) = b.
Proof. unfold bfrom, blen. rewrite Nat2Z.id. rewrite skipn_app, skipn_all, Nat.sub_diag. reflexivity. Qed.
Lemma bto_app {A} (a b : list A) : bto (a ++ b) (blen a) = a.
Proof. unfold bto, blen. rewrite Nat2Z.id. rewrite firstn_app, firstn_all, Nat.sub_diag. cbn. apply app_nil_r. Qed.
Lemma bto_bfrom {A} (l : list A) i : bto l i ++ bfrom l i = l.
Proof. apply firstn_skipn. Qed.
Lemma blen_bfrom {A} (l : list A) i : 0 <= i <= blen l -> blen (bfrom l i) = blen l - i.
Proof. unfold blen, bfrom. intros H. rewrite skipn_length. lia. Qed.
Lemma blen_bto {A} (l : list A) i : 0 <= i <= blen l -> blen (bto l i) = i.
Proof. unfold blen, bto. intros H. rewrite firstn_length. lia. Qed.

Lemma bget_cons0 x l : bget (x :: l) 0 = Ok x.
Proof. unfold bget. rewrite blen_cons. pose proof (blen_nonneg l).
  replace ((0 <? 0) || (1 + blen l <=? 0)) with false by lia. reflexivity. Qed.
Lemma bget_ok b i : 0 <= i < blen b -> bget b i = Ok (nth (Z.to_nat i) b 0).
Proof. intros H. unfold bget. replace ((i <? 0) || (blen b <=? i)) with false by lia. reflexivity. Qed.

Lemma bytes_ok_app a b : bytes_ok (a ++ b) = bytes_ok a && bytes_ok b.
Proof. apply forallb_app. Qed.
Lemma bytes_ok_cons x l : bytes_ok (x :: l) = byte_ok x && bytes_ok l.
Proof. reflexivity. Qed.
Lemma bytes_ok_nth b i : bytes_ok b = true -> 0 <= nth i b 0 < 256.
Proof. revert i. induction b as [|x b IH]; intros i H; destruct i; cbn; try lia.
  - apply andb_prop in H as [H1 _]. unfold byte_ok in H1. lia.
  - apply IH. apply andb_prop in H as [_ H2]. exact H2. Qed.
Lemma bytes_ok_skipn n b : bytes_ok b = true -> bytes_ok (skipn n b) = true.
Proof. revert b; induction n as [|n IH]; intros [|x b] H; cbn [skipn]; auto. apply IH. apply andb_prop in H as [_ H2]. exact H2. Qed.
Lemma bytes_ok_firstn n b : bytes_ok b = true -> bytes_ok (firstn n b) = true.
Proof. revert b; induction n as [|n IH]; intros [|x b] H; cbn [firstn]; auto. apply andb_prop in H as [H1 H2].
  rewrite bytes_ok_cons, H1, IH by exact H2. reflexivity. Qed.

Lemma tb1 v : to_bytes_big_n 1 v = [v mod 256]. Proof. reflexivity. Qed.
Lemma tb2 v : to_bytes_big_n 2 v = [v / 256 mod 256; v mod 256]. Proof. reflexivity. Qed.
Lemma to_bytes_big_n_length n v : length (to_bytes_big_n n v) = n.
Proof. revert v; induction n as [|n IH]; intros v; cbn; [reflexivity|]. rewrite app_length, IH. cbn. lia. Qed.
Lemma to_bytes_big_n_ok n v : bytes_ok (to_bytes_big_n n v) = true.
Proof. revert v; induction n as [|n IH]; intros v; cbn; [reflexivity|].
  rewrite bytes_ok_app, IH. cbn. unfold byte_ok. lia. Qed.
Lemma from_bytes_big_acc_app acc a b :
  from_bytes_big_acc acc (a ++ b) = from_bytes_big_acc (from_bytes_big_acc acc a) b.
Proof. revert acc; induction a as [|x a IH]; intros acc; cbn; auto. Qed.
Lemma from_to_bytes_big n v acc : 0 <= v < 2 ^ (8 * Z.of_nat n) ->
  from_bytes_big_acc acc (to_bytes_big_n n v) = acc * 2 ^ (8 * Z.of_nat n) + v.
Proof.
  revert v acc; induction n as [|n IH]; intros v acc H.
  - cbn in *. lia.
  - cbn [to_bytes_big_n]. rewrite from_bytes_big_acc_app. cbn [from_bytes_big_acc].
    replace (8 * Z.of_nat (S n)) with (8 * Z.of_nat n + 8) in * by lia.
    rewrite Z.pow_add_r in * by lia. change (2 ^ 8) with 256 in *.
    rewrite IH by lia. lia.
Qed.
Lemma from_bytes_big_to v n : 0 <= n -> 0 <= v < 2 ^ (8 * n) ->
  from_bytes_big (to_bytes_big_n (Z.to_nat n) v) = v.
Proof. intros Hn H. unfold from_bytes_big. rewrite from_to_bytes_big; rewrite ?Z2Nat.id; lia. Qed.

Lemma list_eqb_Z_eq a b : beqb a b = true <-> a = b.
Proof. unfold beqb. revert b; induction a as [|x a IH]; intros [|y b]; cbn; split; try congruence; try discriminate.
  - intros H. apply andb_prop in H as [H1 H2]. apply Z.eqb_eq in H1. apply IH in H2. congruence.
  - intros H. injection H as -> ->. rewrite Z.eqb_refl. apply IH. reflexivity. Qed.
