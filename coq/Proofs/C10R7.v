(* C10 — round 7: the model's internal-error outputs of _retransmit (KeyError: exchange gone / backlog key gone at give-up) and of
   _continue_backlog (AssertionError: no backlog key for the remote) are unreachable from the initial state.
   Invariant XI: pending retransmission handle => exchange under its (peer, mid) holding exactly this handle; exchange => backlog key;
   at most one exchange per peer (NSTART = 1); backlogged messages are filed under their own peer. *)
From Verif Require Import Lib.Py Lib.Tactics Model.C10 Proofs.C10 Proofs.C10Acks Proofs.C10Live Proofs.C10Gone Proofs.C10R6.
Open Scope Z_scope.

(* ------------------------------------------------------------------ association lists, any value type *)
Section G.
  Context {K V : Type} (eqb : K -> K -> bool).
  Hypothesis eqb_ok : forall a b, eqb a b = true <-> a = b.
  Lemma g_refl a : eqb a a = true. Proof. apply eqb_ok. reflexivity. Qed.
  Lemma g_false a b : a <> b -> eqb a b = false.
  Proof. intros H. destruct (eqb a b) eqn:E; [apply eqb_ok in E; contradiction|reflexivity]. Qed.
  Lemma gget_adel (l : list (K * V)) k k' : aget eqb (adel eqb l k) k' = if eqb k k' then None else aget eqb l k'.
  Proof.
    induction l as [|[k0 v0] l IH]; cbn; [destruct (eqb k k'); reflexivity|]. destruct (eqb k0 k) eqn:E.
    - apply eqb_ok in E. subst k0. rewrite IH. destruct (eqb k k'); reflexivity.
    - cbn. destruct (eqb k0 k') eqn:E2; [|exact IH]. apply eqb_ok in E2. subst k0. rewrite g_false; [reflexivity|].
      intros ->. rewrite g_refl in E. discriminate.
  Qed.
  Lemma gget_areplace (l : list (K * V)) k v k' : aget eqb l k <> None ->
    aget eqb (areplace eqb l k v) k' = if eqb k k' then Some v else aget eqb l k'.
  Proof.
    induction l as [|[k0 v0] l IH]; cbn; [congruence|]. destruct (eqb k0 k) eqn:E; cbn.
    - intros _. apply eqb_ok in E. subst k0. destruct (eqb k k'); reflexivity.
    - intros H. rewrite (IH H). destruct (eqb k0 k') eqn:E2; [|reflexivity]. apply eqb_ok in E2. subst k0.
      rewrite g_false; [reflexivity|]. intros ->. rewrite g_refl in E. discriminate.
  Qed.
  Lemma gget_app (l : list (K * V)) k v k' :
    aget eqb (l ++ [(k, v)]) k' = match aget eqb l k' with Some x => Some x | None => if eqb k k' then Some v else None end.
  Proof. induction l as [|[k0 v0] l IH]; cbn; [reflexivity|]. destruct (eqb k0 k'); auto. Qed.
  Lemma gget_aset (l : list (K * V)) k v k' : aget eqb (aset eqb l k v) k' = if eqb k k' then Some v else aget eqb l k'.
  Proof.
    unfold aset, amem. destruct (aget eqb l k) eqn:E.
    - apply gget_areplace. congruence.
    - rewrite gget_app. destruct (eqb k k') eqn:E2.
      + apply eqb_ok in E2. subst k'. rewrite E. reflexivity.
      + destruct (aget eqb l k'); reflexivity.
  Qed.
  Lemma gmem_aset (l : list (K * V)) k v k' : amem eqb (aset eqb l k v) k' = eqb k k' || amem eqb l k'.
  Proof. unfold amem at 1. rewrite gget_aset. destruct (eqb k k'); reflexivity. Qed.
  Lemma gmem_adel (l : list (K * V)) k k' : amem eqb (adel eqb l k) k' = negb (eqb k k') && amem eqb l k'.
  Proof. unfold amem at 1. rewrite gget_adel. destruct (eqb k k'); reflexivity. Qed.
End G.

Lemma zz_ok a b : zz_eqb a b = true <-> a = b.
Proof. split; [apply zz_eqb_eq|intros ->; apply zz_eqb_refl]. Qed.
Lemma z_ok a b : Z.eqb a b = true <-> a = b. Proof. apply Z.eqb_eq. Qed.

Notation exl := (list ((Z * Z) * (monitor * Z))).
Notation bkl := (list (Z * list (remote * wire * monitor))).

(* ------------------------------------------------------------------ the invariant *)
Definition XIc (E : exl) (B : bkl) (T : list timer) : Prop :=
  (forall t r m to c, In t T -> kind t = Retransmit r m to c -> exists mon, aget zz_eqb E (rpeer r, mid m) = Some (mon, tid t)) /\
  (forall p M v, aget zz_eqb E (p, M) = Some v -> amem Z.eqb B p = true) /\
  (forall p M M', aget zz_eqb E (p, M) <> None -> aget zz_eqb E (p, M') <> None -> M = M') /\
  (forall p bl, In (p, bl) B -> forall r m mon, In (r, m, mon) bl -> rpeer r = p).
Definition XI (s : st) : Prop := XIc (exch s) (backlogs s) (rtimers s).
Definition noexE (E : exl) (p : Z) : Prop := forall M, aget zz_eqb E (p, M) = None.
Definition noex (s : st) (p : Z) : Prop := noexE (exch s) p.

Lemma XI_ext s s' : exch s' = exch s -> backlogs s' = backlogs s -> rtimers s' = rtimers s -> XI s -> XI s'.
Proof. unfold XI. intros -> -> ->. auto. Qed.

Lemma has_exchange_noex s p : has_exchange s p = false -> noex s p.
Proof.
  unfold has_exchange, noex, noexE. intros H M. destruct (aget zz_eqb (exch s) (p, M)) eqn:E; [|reflexivity]. exfalso.
  apply aget_in in E as (k' & Hin & He). apply zz_eqb_eq in He. subst k'.
  assert (existsb (fun kv => fst (fst kv) =? p) (exch s) = true) by (apply existsb_exists; eexists; split; [exact Hin|cbn; apply Z.eqb_refl]).
  congruence.
Qed.

(* removing an exchange together with its handle *)
Lemma XIc_del E B T p M mon h : XIc E B T -> aget zz_eqb E (p, M) = Some (mon, h) ->
  XIc (adel zz_eqb E (p, M)) B (cancel T h) /\ noexE (adel zz_eqb E (p, M)) p.
Proof.
  intros (X1 & X2 & X3 & X4) Hg. split; [split; [|split; [|split]]|].
  - intros t r m to c Hin Hk. apply cancel_in in Hin as [Hin Hne]. destruct (X1 _ _ _ _ _ Hin Hk) as [mon' Hm]. exists mon'.
    rewrite (gget_adel _ zz_ok). destruct (zz_eqb (p, M) (rpeer r, mid m)) eqn:Ez; [|exact Hm].
    apply zz_eqb_eq in Ez. rewrite <- Ez in Hm. rewrite Hg in Hm. inv Hm. contradiction.
  - intros p' M' v Hv. rewrite (gget_adel _ zz_ok) in Hv. destruct (zz_eqb _ _); [discriminate|]. eapply X2; eauto.
  - intros p' M1 M2 H1 H2. rewrite (gget_adel _ zz_ok) in H1, H2.
    destruct (zz_eqb (p, M) (p', M1)); [congruence|]. destruct (zz_eqb (p, M) (p', M2)); [congruence|]. eapply X3; eauto.
  - exact X4.
  - intros M'. rewrite (gget_adel _ zz_ok). destruct (zz_eqb (p, M) (p, M')) eqn:Ez; [reflexivity|].
    destruct (aget zz_eqb E (p, M')) eqn:E'; [|reflexivity]. exfalso.
    assert (M = M') by (apply (X3 p); congruence). subst M'. rewrite zz_eqb_refl in Ez. discriminate.
Qed.

(* a new exchange for a peer that has none, with a new retransmission handle *)
Lemma XIc_add E B T r m mon id dd to c : XIc E B T -> noexE E (rpeer r) -> amem Z.eqb B (rpeer r) = true ->
  XIc (aset zz_eqb E (rpeer r, mid m) (mon, id)) B (T ++ [{| due := dd; tid := id; kind := Retransmit r m to c |}]).
Proof.
  intros (X1 & X2 & X3 & X4) Hno Hb. split; [|split; [|split]].
  - intros t r' m' to' c' Hin Hk. apply in_app_or in Hin as [Hin|[<-|[]]].
    + destruct (X1 _ _ _ _ _ Hin Hk) as [mon' Hm]. exists mon'. rewrite (gget_aset _ zz_ok).
      destruct (zz_eqb (rpeer r, mid m) (rpeer r', mid m')) eqn:Ez; [|exact Hm]. apply zz_eqb_eq in Ez. inv Ez.
      rewrite <- H0 in Hm. rewrite Hno in Hm. discriminate.
    + cbn in Hk. inv Hk. exists mon. cbn. rewrite (gget_aset _ zz_ok), zz_eqb_refl. reflexivity.
  - intros p M v Hv. rewrite (gget_aset _ zz_ok) in Hv. destruct (zz_eqb (rpeer r, mid m) (p, M)) eqn:Ez; [|eapply X2; eauto].
    apply zz_eqb_eq in Ez. inv Ez. exact Hb.
  - intros p M1 M2 H1 H2. rewrite (gget_aset _ zz_ok) in H1, H2.
    destruct (zz_eqb (rpeer r, mid m) (p, M1)) eqn:E1; destruct (zz_eqb (rpeer r, mid m) (p, M2)) eqn:E2.
    + apply zz_eqb_eq in E1, E2. congruence.
    + apply zz_eqb_eq in E1. inv E1. rewrite Hno in H2. congruence.
    + apply zz_eqb_eq in E2. inv E2. rewrite Hno in H1. congruence.
    + eapply X3; eauto.
  - exact X4.
Qed.

Lemma XIc_bk_new E B T p : XIc E B T -> XIc E (aset Z.eqb B p []) T.
Proof.
  intros (X1 & X2 & X3 & X4). split; [exact X1|split; [|split; [exact X3|]]].
  - intros p' M v Hv. rewrite (gmem_aset _ z_ok). rewrite (X2 _ _ _ Hv). apply orb_true_r.
  - intros p' bl Hin. apply in_aset in Hin as [Hin|[-> _]]; [eapply X4; eauto|]. intros ? ? ? [].
Qed.
Lemma XIc_bk_set E B T p bl : XIc E B T -> (forall r m mon, In (r, m, mon) bl -> rpeer r = p) -> XIc E (aset Z.eqb B p bl) T.
Proof.
  intros (X1 & X2 & X3 & X4) Hbl. split; [exact X1|split; [|split; [exact X3|]]].
  - intros p' M v Hv. rewrite (gmem_aset _ z_ok). rewrite (X2 _ _ _ Hv). apply orb_true_r.
  - intros p' bl' Hin. apply in_aset in Hin as [Hin|[-> Hk]]; [eapply X4; eauto|].
    assert (p' = p) by (destruct Hk as [Hk|Hk]; [apply Z.eqb_eq in Hk|]; auto). subst p'. exact Hbl.
Qed.
Lemma XIc_bk_del E B T p : XIc E B T -> noexE E p -> XIc E (adel Z.eqb B p) T.
Proof.
  intros (X1 & X2 & X3 & X4) Hno. split; [exact X1|split; [|split; [exact X3|]]].
  - intros p' M v Hv. rewrite (gmem_adel _ z_ok). rewrite (X2 _ _ _ Hv). destruct (p =? p') eqn:Ep; [|reflexivity].
    apply Z.eqb_eq in Ep. subst p'. rewrite Hno in Hv. discriminate.
  - intros p' bl Hin. apply in_adel in Hin. eapply X4; eauto.
Qed.
Lemma XIc_sub E B T T' : XIc E B T -> incl T' T -> XIc E B T'.
Proof. intros (X1 & X2 & X3 & X4) Hi. split; [|auto]. intros. eapply X1; eauto. Qed.
Lemma XIc_forget E B T x : XIc E B T -> (forall r m to c, kind x <> Retransmit r m to c) -> XIc E B (T ++ [x]).
Proof.
  intros (X1 & X2 & X3 & X4) Hx. split; [|auto]. intros t r m to c Hin Hk. apply in_app_or in Hin as [Hin|[<-|[]]]; [eauto|].
  exfalso. eapply Hx; eauto.
Qed.

(* ------------------------------------------------------------------ the invariant through every function *)
Lemma XI_store s r m : XI s -> XI (_store_response_for_duplicates s r m).
Proof.
  unfold _store_response_for_duplicates. intros H. destruct (mtype m); auto; destruct (amem zz_eqb (recent s) (rpeer r, mid m)); auto.
Qed.
Lemma XI_add_exchange s r m mon : XI s -> noex s (rpeer r) -> XI (_add_exchange s r m mon).
Proof.
  unfold _add_exchange, call_later_r, XI, noex. intros H Hno. destruct (amem Z.eqb (backlogs s) (rpeer r)) eqn:Eb; cbn.
  - apply XIc_add; auto.
  - apply XIc_add; [apply XIc_bk_new; exact H|exact Hno|]. rewrite (gmem_aset _ z_ok), Z.eqb_refl. reflexivity.
Qed.
Lemma XI_send_initially s r m mon : XI s -> (mtype m = CON -> noex s (rpeer r)) -> XI (fst (_send_initially s r m mon)).
Proof.
  unfold _send_initially. cbn [fst]. intros H Hc. apply XI_store. destruct (mtype m); auto. apply XI_add_exchange; auto.
Qed.
Lemma XI_noex_of_nomem s p : XI s -> amem Z.eqb (backlogs s) p = false -> noex s p.
Proof.
  intros (_ & X2 & _) Hb M. destruct (aget zz_eqb (exch s) (p, M)) eqn:E; [|reflexivity]. rewrite (X2 _ _ _ E) in Hb. discriminate.
Qed.
Lemma XI_tail s1 r1 build mt md mon rq : XI s1 ->
  (forall md1, mtype (build (select_mtype mt r1 rq) md1) = select_mtype mt r1 rq) ->
  XI (fst (fst (send_message_tail s1 r1 build mt md mon rq))).
Proof.
  intros H Hbuild. unfold send_message_tail. destruct (mtype_eqb _ CON && is_multicast r1); [exact H|].
  set (q := match md with Some v => (s1, v) | None => _next_message_id s1 end).
  assert (Hq : XI (fst q)) by (subst q; destruct md; cbn [fst _next_message_id]; exact H).
  destruct q as [s2 md1]. cbn [fst] in Hq.
  destruct (amem Z.eqb (backlogs s2) (rpeer r1)) eqn:Eb.
  - destruct (mtype_eqb (select_mtype mt r1 rq) CON) eqn:Et; cbn [andb].
    + cbn [fst]. unfold XI. cbn. apply XIc_bk_set; [exact Hq|].
      intros r m mn Hin. apply in_app_or in Hin as [Hin|[Hin|[]]]; [|inv Hin; reflexivity].
      destruct (aget Z.eqb (backlogs s2) (rpeer r1)) as [bl|] eqn:Eg; [|destruct Hin].
      apply aget_in in Eg as (k' & Hi & Hk). apply Z.eqb_eq in Hk. subst k'. destruct Hq as (_ & _ & _ & X4). eapply X4; eauto.
    + assert (Hf : XI (fst (_send_initially s2 r1 (build (select_mtype mt r1 rq) md1) mon))).
      { apply XI_send_initially; [exact Hq|]. rewrite Hbuild. intros Hc. rewrite Hc in Et. discriminate. }
      destruct (_send_initially s2 r1 (build (select_mtype mt r1 rq) md1) mon). exact Hf.
  - rewrite andb_false_r.
    assert (Hf : XI (fst (_send_initially s2 r1 (build (select_mtype mt r1 rq) md1) mon))).
    { apply XI_send_initially; [exact Hq|]. intros _. apply XI_noex_of_nomem; assumption. }
    destruct (_send_initially s2 r1 (build (select_mtype mt r1 rq) md1) mon). exact Hf.
Qed.

Lemma XI_send_message s r a mon rq s' o e : send_message s r a mon rq = (s', o, e) -> XI s -> XI s'.
Proof.
  unfold send_message. intros H HX.
  assert (Ht : forall s1 r1 bld mt md q, (forall md1, mtype (bld (select_mtype mt r1 q) md1) = select_mtype mt r1 q) ->
     send_message_tail s1 r1 bld mt md mon q = (s', o, e) -> XI s1 -> XI s').
  { intros s1 r1 bld mt md q Hb Hq H1. pose proof (XI_tail s1 r1 bld mt md mon q H1 Hb) as Hf. rewrite Hq in Hf. exact Hf. }
  destruct (is_response (a_code a)); [|eapply Ht; [|exact H|exact HX]; reflexivity].
  destruct (aget pk_eqb (piggy s) (rpeer r, a_token a)) as [[pmid hh]|].
  - destruct (no_response_of a); (eapply Ht; [|exact H|exact HX]; reflexivity).
  - destruct (no_response_of a); [inv H; exact HX|eapply Ht; [|exact H|exact HX]; reflexivity].
Qed.
Lemma XI_send_response s r req c rnr pl s' o : send_response s r req c rnr pl = (s', o) -> XI s -> XI s'.
Proof.
  unfold send_response. intros H HR.
  match type of H with context [send_message ?s ?r ?a ?m ?q] => destruct (send_message s r a m q) as [[s1 o1] e] eqn:E1 end.
  inv H. eapply XI_send_message; eauto.
Qed.
Lemma XI_tm_process_request s r m s' o : tm_process_request s r m = (s', o) -> XI s -> XI s'.
Proof.
  unfold tm_process_request. intros H HR.
  set (q := match aget ik_eqb (incoming s) (token m, rpeer r) with Some sv => _ | None => (s, []) end) in H.
  assert (Hq : XI (fst q)) by (subst q; destruct (aget ik_eqb _ _); exact HR).
  destruct q as [s1 o1]. cbn [fst] in Hq. dlet H s2 o2 E. injection H as <- <-.
  destruct (negb _); [eapply XI_send_response; eauto|]. destruct (negb _); [eapply XI_send_response; eauto|].
  destruct (path m =? 0); [inv E; exact Hq|]. destruct (path m =? 1); eapply XI_send_response; eauto.
Qed.
Lemma XI_handler_respond s k c rnr pl s' o : handler_respond s k c rnr pl = (s', o) -> XI s -> XI s'.
Proof.
  unfold handler_respond. intros H HR. destruct (find_srv (incoming s) k) as [[key sv]|]; [|inv H; exact HR].
  dlet H s2 o2 E. injection H as <- <-. apply XI_send_response in E; [exact E|exact HR].
Qed.
Lemma XI_fail_request s q e : XI s -> XI (fst (fail_request s q e)).
Proof. unfold fail_request. intros H. destruct (find_req _ _); exact H. Qed.
Lemma XI_run_monitor s mon : XI s -> XI (fst (run_monitor s mon)).
Proof. destruct mon; cbn [run_monitor]; [apply XI_fail_request|auto]. Qed.
Lemma XI_tm_request s pe mt ob s' o : tm_request s pe mt ob = (s', o) -> XI s -> XI s'.
Proof.
  unfold tm_request, next_token_. intros H HR. cbv zeta in H.
  match type of H with context [send_message ?s ?r ?a ?m ?q] => destruct (send_message s r a m q) as [[s3 o3] e] eqn:E end.
  apply XI_send_message in E; [|exact HR]. destruct e as [e|]; [|inv H; exact E].
  pose proof (XI_fail_request s3 (next_req s) e E) as Hf. destruct (fail_request s3 (next_req s) e) as [s4 o4]. inv H. exact Hf.
Qed.
Lemma XI_tm_process_response s r m : XI s -> XI (fst (fst (tm_process_response s r m))).
Proof.
  unfold tm_process_response. intros H.
  match goal with |- context [aget ok_eqb (outgoing s) ?k] => destruct (aget ok_eqb (outgoing s) k) as [[q ob]|] end; cbn [fst]; [|exact H].
  destruct (negb _); exact H.
Qed.

Lemma XI_continue_loop bl : forall s p, XI s -> (forall r m mon, In (r, m, mon) bl -> rpeer r = p) ->
  XI (fst (_continue_backlog_loop s p bl)).
Proof.
  induction bl as [|[[r m] mon] bl IH]; intros s p H Hbl; cbn [_continue_backlog_loop].
  - destruct (has_exchange s p) eqn:Eh; cbn [fst]; unfold XI; cbn.
    + apply XIc_bk_set; [exact H|exact Hbl].
    + apply XIc_bk_del; [exact H|]. apply has_exchange_noex. exact Eh.
  - destruct (has_exchange s p) eqn:Eh.
    + cbn [fst]. unfold XI. cbn. apply XIc_bk_set; [exact H|exact Hbl].
    + assert (H1 : XI (fst (_send_initially s r m mon))).
      { apply XI_send_initially; [exact H|]. intros _. rewrite (Hbl r m mon (or_introl eq_refl)). apply has_exchange_noex. exact Eh. }
      destruct (_send_initially s r m mon) as [s1 o1]. cbn [fst] in H1.
      specialize (IH s1 p H1 (fun r' m' mon' Hin => Hbl r' m' mon' (or_intror Hin))).
      destruct (_continue_backlog_loop s1 p bl) as [s2 o2]. exact IH.
Qed.
Lemma XI_continue_backlog s p : XI s -> XI (fst (_continue_backlog s p)).
Proof.
  unfold _continue_backlog. intros H. destruct (aget Z.eqb (backlogs s) p) as [bl|] eqn:Eg; [|exact H].
  apply XI_continue_loop; [exact H|]. apply aget_in in Eg as (k' & Hi & Hk). apply Z.eqb_eq in Hk. subst k'.
  destruct H as (_ & _ & _ & X4). eapply X4; eauto.
Qed.
Lemma XI_remove_exchange s r m : XI s -> XI (fst (_remove_exchange s r m)).
Proof.
  unfold _remove_exchange. intros H. destruct (aget zz_eqb (exch s) (rpeer r, mid m)) as [[mon h]|] eqn:Eg; [|exact H].
  set (s1 := cancel_r _ h). assert (H1 : XI s1) by (subst s1; unfold XI; cbn; eapply XIc_del; eauto).
  set (q := match mtype m with RST => run_monitor s1 mon | _ => (s1, []) end).
  assert (Hq : XI (fst q)) by (subst q; destruct (mtype m); try exact H1; apply XI_run_monitor; exact H1).
  destruct q as [s2 o1]. cbn [fst] in Hq.
  pose proof (XI_continue_backlog s2 (rpeer r) Hq) as H3. destruct (_continue_backlog s2 (rpeer r)) as [s3 o2]. exact H3.
Qed.
Lemma XI_retransmit s r m to c : XI s -> XI (fst (_retransmit s r m to c)).
Proof.
  unfold _retransmit. intros H. destruct (aget zz_eqb (exch s) (rpeer r, mid m)) as [[mon h]|] eqn:Eg; [|exact H].
  destruct (XIc_del _ _ _ _ _ _ _ H Eg) as [H1 Hno].
  assert (Hb : amem Z.eqb (backlogs s) (rpeer r) = true) by (destruct H as (_ & X2 & _); eapply X2; eauto).
  destruct (c <? MAX_RETRANSMIT).
  - unfold call_later_r. cbn [fst]. unfold XI. cbn. apply XIc_add; assumption.
  - cbn [backlogs cancel_r set_rtimers set_exch]. rewrite Hb. unfold tm_dispatch_error. cbn [fst]. unfold XI. cbn.
    apply XIc_bk_del; assumption.
Qed.
Lemma XI_dedup s r m : XI s -> BInv s -> XI (fst (fst (_deduplicate_message s r m))).
Proof.
  unfold _deduplicate_message. intros H HB. destruct (aget zz_eqb (recent s) (rpeer r, mid m)) as [stored|] eqn:Eg.
  - destruct (mtype m); try exact H. destruct stored as [[r' m']|]; [|exact H].
    assert (Hf : XI (fst (_send_initially s r' m' MonResp))).
    { apply XI_send_initially; [exact H|]. intros Hc. exfalso. apply aget_in in Eg as (k' & Hin & _). destruct HB as (_ & _ & H3).
      apply H3 in Hin as [Hr _]. cbn in Hr. rewrite Hc in Hr. discriminate. }
    destruct (_send_initially s r' m' MonResp). exact Hf.
  - unfold call_later_r. cbn [fst]. unfold XI. cbn. apply XIc_forget; [exact H|]. cbn. discriminate.
Qed.
Lemma XI_process_request s r m s' o : _process_request s r m = (s', o) -> XI s -> XI s'.
Proof.
  unfold _process_request. intros H HX. eapply XI_tm_process_request; [exact H|].
  destruct (mtype m); try exact HX. unfold call_later_a. cbn [piggy set_atimers].
  destruct (aget pk_eqb (piggy s) (rpeer r, token m)) as [[pm old]|]; exact HX.
Qed.
Lemma XI_send_reply s r w : XI s -> mtype w <> CON -> XI (fst (_send_initially s r w MonResp)).
Proof. intros H Hn. apply XI_send_initially; [exact H|]. intros Hc. contradiction. Qed.

Lemma XI_dispatch_message s r m s' o : dispatch_message s r m = (s', o) -> XI s -> BInv s -> XI s'.
Proof.
  unfold dispatch_message. intros H HX HB.
  set (p0 := if is_request (code m) then _deduplicate_message s r m else (s, [], false)) in H.
  assert (H0 : XI (fst (fst p0))) by (subst p0; destruct (is_request (code m)); [apply XI_dedup; assumption|exact HX]).
  destruct p0 as [[s0 o0] dup]. cbn [fst] in H0. destruct dup. { inv H. exact H0. }
  set (p1 := match mtype m with ACK | RST => _remove_exchange s0 r m | _ => (s0, []) end) in H.
  assert (H1 : XI (fst p1)) by (subst p1; destruct (mtype m); try exact H0; apply XI_remove_exchange; exact H0).
  destruct p1 as [s1 o1]. cbn [fst] in H1. dlet H s2 o2 E. injection H as <- <-.
  destruct (code m =? EMPTY).
  { destruct (mtype m); try (inv E; exact H1; fail). unfold _process_ping in E.
    pose proof (XI_send_reply s1 (as_response_address r) (empty_msg RST (mid m)) H1) as Hf. rewrite E in Hf. apply Hf. discriminate. }
  destruct (is_request (code m)).
  { destruct (mtype m); try (inv E; exact H1; fail); eapply XI_process_request; eauto. }
  destruct (is_response (code m)); [|inv E; exact H1].
  assert (Hgo : forall t, (let '(s', o, success) := tm_process_response s1 r m in
      if success then match t with CON => let '(s'', o') := _send_empty_ack s' r (mid m) in (s'', o ++ o') | _ => (s', o) end
      else if mtype_eqb t CON && negb (is_multicast_locally r)
           then let '(s'', o') := _send_initially s' (as_response_address r) (empty_msg RST (mid m)) MonResp in (s'', o ++ o')
           else (s', o)) = (s2, o2) -> XI s2).
  { intros t Ht. pose proof (XI_tm_process_response s1 r m H1) as Hx. destruct (tm_process_response s1 r m) as [[sx ox] success]. cbn [fst] in Hx.
    destruct success.
    - destruct t; try (inv Ht; exact Hx; fail). unfold _send_empty_ack in Ht.
      pose proof (XI_send_reply sx (as_response_address r) (empty_msg ACK (mid m)) Hx) as Hf.
      destruct (_send_initially sx (as_response_address r) (empty_msg ACK (mid m)) MonResp) as [s'' o'']. inv Ht. apply Hf. discriminate.
    - destruct (mtype_eqb t CON && negb (is_multicast_locally r)); [|inv Ht; exact Hx].
      pose proof (XI_send_reply sx (as_response_address r) (empty_msg RST (mid m)) Hx) as Hf.
      destruct (_send_initially sx (as_response_address r) (empty_msg RST (mid m)) MonResp) as [s'' o'']. inv Ht. apply Hf. discriminate. }
  destruct (mtype m); [apply (Hgo CON); exact E|apply (Hgo NON); exact E|apply (Hgo ACK); exact E|inv E; exact H1].
Qed.

Lemma XI_cancel_r s id : XI s -> XI (cancel_r s id).
Proof. unfold XI. cbn. intros H. eapply XIc_sub; [exact H|]. intros t Ht. apply cancel_in in Ht. tauto. Qed.

Lemma XI_step s e s' o : step s e = (s', o) -> XI s -> BInv s -> XI s'.
Proof.
  destruct e as [r m|k c rnr pl|pe mt ob| |dd]; cbn [step]; intros H HX HB.
  - eapply XI_dispatch_message; eauto.
  - eapply XI_handler_respond; eauto.
  - eapply XI_tm_request; eauto.
  - destruct (next_timer s) as [[[|] t]|] eqn:En; [| |inv H; exact HX].
    + destruct (kind t) as [rr tk|rr mm to cc|pp md]; try (inv H; exact HX; fail).
      unfold on_timeout in H. cbn [piggy set_now cancel_a set_atimers] in H.
      destruct (aget pk_eqb (piggy s) (rpeer rr, tk)) as [[pm hh]|]; [|inv H; exact HX].
      unfold _send_empty_ack in H.
      match type of H with _send_initially ?x ?rx ?w ?mm = _ => pose proof (XI_send_reply x rx w) as Hf; rewrite H in Hf end.
      apply Hf; [exact HX|discriminate].
    + pose proof (XI_cancel_r s (tid t) HX) as H1. unfold run_timer in H. destruct (kind t) as [rr tk|rr mm to cc|pp md].
      * inv H. exact H1.
      * match type of H with _retransmit ?x _ _ _ _ = _ => pose proof (XI_retransmit x rr mm to cc) as Hf; rewrite H in Hf end.
        apply Hf. exact H1.
      * inv H. exact H1.
  - inv H. exact HX.
Qed.
Lemma XI_run es : forall s s' os, run s es = (s', os) -> XI s -> BInv s -> XI s'.
Proof.
  induction es as [|e es IH]; intros s s' os H HX HB; cbn [run] in H; [inv H; exact HX|].
  destruct (step s e) as [s1 o] eqn:E1. destruct (run s1 es) as [s2 os2] eqn:E2. inv H.
  eapply IH; [exact E2|eapply XI_step; eauto|]. apply step_ok in E1; [tauto|exact HB].
Qed.
Lemma XI_init m0 t0 : XI (init m0 t0).
Proof. unfold XI, XIc, init. cbn. repeat split; intros; try contradiction; try discriminate; congruence. Qed.

(* ------------------------------------------------------------------ outputs: no LoopException *)
Definition isle (o : output) : bool := match o with LoopException _ => true | _ => false end.
Definition NoLE (o : list output) : Prop := existsb isle o = false.
Lemma NoLE_app a b : NoLE a -> NoLE b -> NoLE (a ++ b).
Proof. unfold NoLE. intros Ha Hb. rewrite existsb_app, Ha, Hb. reflexivity. Qed.
Lemma NoLE_in o : NoLE o -> forall e, ~ In (LoopException e) o.
Proof.
  unfold NoLE. intros H e Hin. assert (existsb isle o = true) by (apply existsb_exists; eexists; split; [exact Hin|reflexivity]). congruence.
Qed.
Ltac si := match goal with |- context [_send_initially ?x ?r ?w ?m] =>
  let H := fresh in pose proof (proj1 (send_initially_out x r w m)) as H; destruct (_send_initially x r w m); cbn [snd] in H; subst end.

Lemma le_tail s1 r1 build mt md mon rq : NoLE (snd (fst (send_message_tail s1 r1 build mt md mon rq))).
Proof.
  unfold send_message_tail. destruct (_ && is_multicast r1); [reflexivity|].
  destruct (match md with Some v => (s1, v) | None => _next_message_id s1 end) as [s2 md1].
  destruct (_ && amem Z.eqb (backlogs s2) (rpeer r1)); [reflexivity|]. si. reflexivity.
Qed.
Lemma le_send_message s r a mon rq : NoLE (snd (fst (send_message s r a mon rq))).
Proof.
  unfold send_message. destruct (is_response (a_code a)); [|apply le_tail].
  destruct (aget pk_eqb (piggy s) (rpeer r, a_token a)) as [[pmid hh]|]; destruct (no_response_of a); try apply le_tail. reflexivity.
Qed.
Lemma le_send_response s r req c rnr pl : NoLE (snd (send_response s r req c rnr pl)).
Proof.
  unfold send_response.
  match goal with |- context [send_message ?s ?r ?a ?m ?q] => pose proof (le_send_message s r a m q) as H; destruct (send_message s r a m q) as [[s1 o1] e] end.
  exact H.
Qed.
Lemma le_fail_request s q e : NoLE (snd (fail_request s q e)).
Proof. unfold fail_request. destruct (find_req _ _); reflexivity. Qed.
Lemma le_run_monitor s mon : NoLE (snd (run_monitor s mon)).
Proof. destruct mon; cbn [run_monitor]; [apply le_fail_request|reflexivity]. Qed.
Lemma le_tm_process_request s r m : NoLE (snd (tm_process_request s r m)).
Proof.
  unfold tm_process_request.
  set (q := match aget ik_eqb (incoming s) (token m, rpeer r) with Some sv => _ | None => (s, []) end).
  assert (Hq : NoLE (snd q)) by (subst q; destruct (aget ik_eqb _ _); reflexivity).
  destruct q as [s1 o1]. cbn [snd] in Hq.
  match goal with |- context [let '(a, b) := ?X in _] => assert (Hx : NoLE (snd X)); [|destruct X as [s2 o2]; cbn [snd] in *; apply NoLE_app; assumption] end.
  destruct (negb _); [apply le_send_response|]. destruct (negb _); [apply le_send_response|].
  destruct (path m =? 0); [reflexivity|]. destruct (path m =? 1); apply le_send_response.
Qed.
Lemma le_handler_respond s k c rnr pl : NoLE (snd (handler_respond s k c rnr pl)).
Proof.
  unfold handler_respond. destruct (find_srv (incoming s) k) as [[key sv]|]; [|reflexivity].
  match goal with |- context [send_response ?a ?b ?c ?d ?e ?f] => pose proof (le_send_response a b c d e f) as H; destruct (send_response a b c d e f) end. exact H.
Qed.
Lemma le_tm_process_response s r m : NoLE (snd (fst (tm_process_response s r m))).
Proof.
  unfold tm_process_response.
  match goal with |- context [aget ok_eqb (outgoing s) ?k] => destruct (aget ok_eqb (outgoing s) k) as [[q ob]|] end; reflexivity.
Qed.
Lemma le_fail_all l p e : NoLE (fail_all l p e).
Proof. induction l as [|[[a b] [q c]] l IH]; cbn; [reflexivity|]. destruct (oz_eqb b (Some p)); [cbn|]; exact IH. Qed.
Lemma le_cancel_all l p : NoLE (cancel_all l p).
Proof. induction l as [|[[a b] sv] l IH]; cbn; [reflexivity|]. destruct (b =? p); [cbn|]; exact IH. Qed.
Lemma le_tm_dispatch_error s p e : NoLE (snd (tm_dispatch_error s p e)).
Proof. unfold tm_dispatch_error. cbn [snd]. apply NoLE_app; [apply le_fail_all|apply le_cancel_all]. Qed.
Lemma le_tm_request s pe mt ob : NoLE (snd (tm_request s pe mt ob)).
Proof.
  unfold tm_request, next_token_. cbv zeta.
  match goal with |- context [send_message ?s ?r ?a ?m ?q] => pose proof (le_send_message s r a m q) as H; destruct (send_message s r a m q) as [[s3 o3] [e|]] end; [|exact H].
  pose proof (le_fail_request s3 (next_req s) e) as H2. destruct (fail_request s3 (next_req s) e). apply NoLE_app; assumption.
Qed.
Lemma le_dedup s r m : NoLE (snd (fst (_deduplicate_message s r m))).
Proof.
  unfold _deduplicate_message. destruct (aget zz_eqb (recent s) (rpeer r, mid m)) as [stored|]; [|reflexivity].
  destruct (mtype m); try reflexivity. destruct stored as [[r' m']|]; [|reflexivity]. si. reflexivity.
Qed.
Lemma le_continue_loop bl : forall s p, NoLE (snd (_continue_backlog_loop s p bl)).
Proof.
  induction bl as [|[[r m] mon] bl IH]; intros s p; cbn [_continue_backlog_loop]; destruct (has_exchange s p); try reflexivity.
  si. specialize (IH s0 p). destruct (_continue_backlog_loop s0 p bl). exact IH.
Qed.
Lemma le_process_request s r m : NoLE (snd (_process_request s r m)).
Proof. unfold _process_request. apply le_tm_process_request. Qed.

(* the two places that depend on the invariant *)
Lemma le_remove_exchange s r m : XI s -> NoLE (snd (_remove_exchange s r m)).
Proof.
  unfold _remove_exchange. intros H. destruct (aget zz_eqb (exch s) (rpeer r, mid m)) as [[mon h]|] eqn:Eg; [|reflexivity].
  assert (Hb : amem Z.eqb (backlogs s) (rpeer r) = true) by (destruct H as (_ & X2 & _); eapply X2; eauto).
  set (s1 := cancel_r _ h). assert (Hb1 : amem Z.eqb (backlogs s1) (rpeer r) = true) by exact Hb.
  set (q := match mtype m with RST => run_monitor s1 mon | _ => (s1, []) end).
  assert (Hq : NoLE (snd q) /\ backlogs (fst q) = backlogs s1).
  { subst q. destruct (mtype m); try (split; reflexivity). split; [apply le_run_monitor|].
    destruct mon; cbn [run_monitor]; [|reflexivity]. unfold fail_request. destruct (find_req _ _); reflexivity. }
  destruct q as [s2 o1]. cbn [fst snd] in Hq. destruct Hq as [Hq1 Hq2].
  unfold _continue_backlog. unfold amem in Hb1. rewrite Hq2. destruct (aget Z.eqb (backlogs s1) (rpeer r)) as [bl|]; [|discriminate].
  pose proof (le_continue_loop bl s2 (rpeer r)) as H3. destruct (_continue_backlog_loop s2 (rpeer r) bl). apply NoLE_app; assumption.
Qed.
Lemma le_retransmit s r m to c h0 mon0 : XI s -> aget zz_eqb (exch s) (rpeer r, mid m) = Some (mon0, h0) -> NoLE (snd (_retransmit s r m to c)).
Proof.
  unfold _retransmit. intros H Eg. rewrite Eg.
  assert (Hb : amem Z.eqb (backlogs s) (rpeer r) = true) by (destruct H as (_ & X2 & _); eapply X2; eauto).
  destruct (c <? MAX_RETRANSMIT); [reflexivity|]. cbn [backlogs cancel_r set_rtimers set_exch]. rewrite Hb. apply le_tm_dispatch_error.
Qed.

Lemma le_dispatch_message s r m : XI s -> BInv s -> NoLE (snd (dispatch_message s r m)).
Proof.
  unfold dispatch_message. intros HX HB.
  set (p0 := if is_request (code m) then _deduplicate_message s r m else (s, [], false)).
  assert (H0 : XI (fst (fst p0)) /\ NoLE (snd (fst p0))).
  { subst p0. destruct (is_request (code m)); [split; [apply XI_dedup; assumption|apply le_dedup]|split; [exact HX|reflexivity]]. }
  destruct p0 as [[s0 o0] dup]. cbn [fst snd] in H0. destruct H0 as [H0 L0]. destruct dup; [exact L0|].
  set (p1 := match mtype m with ACK | RST => _remove_exchange s0 r m | _ => (s0, []) end).
  assert (L1 : NoLE (snd p1)) by (subst p1; destruct (mtype m); try reflexivity; apply le_remove_exchange; exact H0).
  destruct p1 as [s1 o1]. cbn [snd] in L1.
  match goal with |- context [let '(a, b) := ?X in _] => assert (Hx : NoLE (snd X)); [|destruct X as [s2 o2]; cbn [snd] in *; repeat apply NoLE_app; assumption] end.
  assert (Hsi : forall sx rx w, NoLE (snd (_send_initially sx rx w MonResp))) by (intros; rewrite (proj1 (send_initially_out _ _ _ _)); reflexivity).
  destruct (code m =? EMPTY). { destruct (mtype m); try reflexivity; apply Hsi. }
  destruct (is_request (code m)). { destruct (mtype m); try reflexivity; apply le_process_request. }
  destruct (is_response (code m)); [|reflexivity].
  assert (Hgo : forall t, NoLE (snd (let '(s', o, success) := tm_process_response s1 r m in
      if success then match t with CON => let '(s'', o') := _send_empty_ack s' r (mid m) in (s'', o ++ o') | _ => (s', o) end
      else if mtype_eqb t CON && negb (is_multicast_locally r)
           then let '(s'', o') := _send_initially s' (as_response_address r) (empty_msg RST (mid m)) MonResp in (s'', o ++ o')
           else (s', o)))).
  { intros t. pose proof (le_tm_process_response s1 r m) as Hx. destruct (tm_process_response s1 r m) as [[sx ox] success]. cbn [fst snd] in Hx.
    destruct success.
    - destruct t; try exact Hx. unfold _send_empty_ack.
      pose proof (Hsi sx (as_response_address r) (empty_msg ACK (mid m))) as Hf.
      destruct (_send_initially sx (as_response_address r) (empty_msg ACK (mid m)) MonResp). apply NoLE_app; assumption.
    - destruct (mtype_eqb t CON && negb (is_multicast_locally r)); [|exact Hx].
      pose proof (Hsi sx (as_response_address r) (empty_msg RST (mid m))) as Hf.
      destruct (_send_initially sx (as_response_address r) (empty_msg RST (mid m)) MonResp). apply NoLE_app; assumption. }
  destruct (mtype m); [apply (Hgo CON)|apply (Hgo NON)|apply (Hgo ACK)|reflexivity].
Qed.

Lemma le_step s e : XI s -> BInv s -> AInv s -> NoLE (snd (step s e)).
Proof.
  intros HX HB HA. destruct e as [r m|k c rnr pl|pe mt ob| |dd]; cbn [step].
  - apply le_dispatch_message; assumption.
  - apply le_handler_respond.
  - apply le_tm_request.
  - destruct (next_timer s) as [[[|] t]|] eqn:En; [| |reflexivity].
    + pose proof (next_timer_a_in _ _ En) as Hin. destruct HA as (A1 & _). destruct (A1 t Hin) as (_ & _ & r & tok & pm & Hk & Hg).
      rewrite Hk. unfold on_timeout. cbn [piggy set_now cancel_a set_atimers]. rewrite Hg. unfold _send_empty_ack.
      rewrite (proj1 (send_initially_out _ _ _ _)). reflexivity.
    + pose proof (next_timer_r_in _ _ En) as Hin. unfold run_timer. destruct (kind t) as [rr tk|rr mm to cc|pp md] eqn:Ek; try reflexivity.
      destruct HX as (X1 & HX'). destruct (X1 _ _ _ _ _ Hin Ek) as [mon Hm].
      eapply le_retransmit; [|cbn; exact Hm]. apply XI_cancel_r. split; assumption.
  - reflexivity.
Qed.

Lemma le_run es : forall s s' os, run s es = (s', os) -> XI s -> BInv s -> AInv s -> NoLE (outputs_of os).
Proof.
  induction es as [|e es IH]; intros s s' os H HX HB HA; cbn [run] in H; [inv H; reflexivity|].
  pose proof (le_step s e HX HB HA) as L1.
  destruct (step s e) as [s1 o] eqn:E1. destruct (run s1 es) as [s2 os2] eqn:E2. inv H.
  unfold outputs_of. cbn [map concat snd]. apply NoLE_app; [exact L1|].
  eapply IH; [exact E2|eapply XI_step; eauto| |eapply AInv_step; eauto]. apply step_ok in E1; [tauto|exact HB].
Qed.

(* ------------------------------------------------------------------ exported statements *)
(* the invariant holds in every state reachable from the initial state *)
Theorem exchange_invariant es m0 t0 s os : run (init m0 t0) es = (s, os) -> XI s.
Proof. intros H. eapply XI_run; [exact H|apply XI_init|apply BInv_init]. Qed.

(* _retransmit never raises KeyError: whenever a retransmission handle is the next to fire, its exchange is still registered under the
   message's (peer, mid) with exactly this handle, and the peer's backlog key exists (needed at give-up) *)
Theorem retransmit_keyerror_unreachable es m0 t0 s os t r m to c : run (init m0 t0) es = (s, os) ->
  next_timer s = Some (false, t) -> kind t = Retransmit r m to c ->
  (exists mon, aget zz_eqb (exch s) (rpeer r, mid m) = Some (mon, tid t)) /\ amem Z.eqb (backlogs s) (rpeer r) = true /\
  forall e, ~ In (LoopException e) (snd (step s Fire)).
Proof.
  intros Hrun En Hk. pose proof (exchange_invariant _ _ _ _ _ Hrun) as HX.
  pose proof (next_timer_r_in _ _ En) as Hin. pose proof HX as (X1 & X2 & _). destruct (X1 _ _ _ _ _ Hin Hk) as [mon Hm].
  split; [eauto|]. split; [eapply X2; eauto|]. apply NoLE_in. apply le_step; [exact HX| |].
  - eapply run_ok; [exact Hrun|apply BInv_init].
  - eapply AInv_run; [exact Hrun|apply AInv_init].
Qed.

(* _continue_backlog never raises AssertionError: every active exchange's peer has a backlog key, in every reachable state, and an
   ACK / RST that removes an exchange continues that backlog without an internal error *)
Theorem continue_backlog_assertion_unreachable es m0 t0 s os : run (init m0 t0) es = (s, os) ->
  (forall p M v, aget zz_eqb (exch s) (p, M) = Some v -> aget Z.eqb (backlogs s) p <> None) /\
  (forall r m e, ~ In (LoopException e) (snd (_remove_exchange s r m))) /\
  (forall r m e, ~ In (LoopException e) (snd (step s (Recv r m)))).
Proof.
  intros Hrun. pose proof (exchange_invariant _ _ _ _ _ Hrun) as HX. split; [|split].
  - intros p M v Hv. destruct HX as (_ & X2 & _). specialize (X2 _ _ _ Hv). unfold amem in X2. destruct (aget Z.eqb (backlogs s) p); congruence.
  - intros r m. apply NoLE_in. apply le_remove_exchange. exact HX.
  - intros r m. apply NoLE_in. apply le_step; [exact HX| |].
    + eapply run_ok; [exact Hrun|apply BInv_init].
    + eapply AInv_run; [exact Hrun|apply AInv_init].
Qed.

(* all three internal-error outputs of the model (on_timeout KeyError — round 6 —, _retransmit KeyError, _continue_backlog
   AssertionError) and hence every LoopException output: never produced, from the initial state, for every event history *)
Theorem no_loop_exception es m0 t0 s os : run (init m0 t0) es = (s, os) -> forall e, ~ In (LoopException e) (outputs_of os).
Proof. intros Hrun. apply NoLE_in. eapply le_run; [exact Hrun|apply XI_init|apply BInv_init|apply AInv_init]. Qed.

(* NSTART = 1: at most one exchange per peer in every reachable state *)
Theorem one_exchange_per_peer es m0 t0 s os p M M' : run (init m0 t0) es = (s, os) ->
  aget zz_eqb (exch s) (p, M) <> None -> aget zz_eqb (exch s) (p, M') <> None -> M = M'.
Proof. intros Hrun. pose proof (exchange_invariant _ _ _ _ _ Hrun) as (_ & _ & X3 & _). apply X3. Qed.

(* ------------------------------------------------------------------ non-vacuity (vm_compute) *)
Definition p1 : remote := {| rpeer := 1; rlocal := 0 |}.
Definition h_two : list event := [Request 1 (Some CON) false; Request 1 (Some CON) false].
Definition h_ack : list event := h_two ++ [Recv p1 (empty_msg ACK 10)].
Definition h_giveup : list event := h_two ++ [Fire; Fire; Fire; Fire; Fire].
Definition is_fail (o : output) : bool := match o with Fail _ _ => true | _ => false end.
Definition is_send_mid (M : Z) (o : output) : bool := match o with Send _ w => mid w =? M | _ => false end.

(* exchange_invariant / one_exchange_per_peer: after two CON requests to one peer there is one exchange (mid 10), the second message
   waits in the peer's backlog, one retransmission handle is pending *)
Example exchange_invariant_nonvacuous :
  let s := fst (run (init 10 20) h_two) in
  (map fst (exch s), map (fun kv => (fst kv, length (snd kv))) (backlogs s), length (rtimers s)) = ([(1, 10)], [(1, 1%nat)], 1%nat).
Proof. vm_compute. reflexivity. Qed.
(* retransmit_keyerror_unreachable: the next handle to fire is that retransmission handle and the exchange holds exactly it *)
Example retransmit_keyerror_unreachable_nonvacuous :
  let s := fst (run (init 10 20) h_two) in
  match next_timer s with
  | Some (false, t) => match kind t with
                       | Retransmit r m _ _ => match aget zz_eqb (exch s) (rpeer r, mid m) with Some (_, h) => h =? tid t | None => false end
                       | _ => false end
  | _ => false
  end = true.
Proof. vm_compute. reflexivity. Qed.
(* ... and the give-up branch of _retransmit is reached (fifth firing): both requests fail, no exchange / backlog / handle is left *)
Example retransmit_giveup_nonvacuous :
  let '(s, os) := run (init 10 20) h_giveup in
  (length (filter is_fail (outputs_of os)), length (filter (is_send_mid 10) (outputs_of os)), exch s, backlogs s, rtimers s, existsb isle (outputs_of os))
  = (2%nat, 5%nat, [], [], [], false).
Proof. vm_compute. reflexivity. Qed.
(* continue_backlog_assertion_unreachable: the ACK for mid 10 removes the exchange and _continue_backlog sends the waiting mid 11 *)
Example continue_backlog_assertion_unreachable_nonvacuous :
  let '(s, os) := run (init 10 20) h_ack in
  (map fst (exch s), length (filter (is_send_mid 11) (outputs_of os)), existsb isle (outputs_of os)) = ([(1, 11)], 1%nat, false).
Proof. vm_compute. reflexivity. Qed.
(* no_loop_exception: the statement is about non-empty output lists *)
Example no_loop_exception_nonvacuous :
  (length (outputs_of (snd (run (init 10 20) (h_ack ++ [Fire; Fire; Fire; Fire; Fire])))) ?= 3)%nat = Gt.
Proof. vm_compute. reflexivity. Qed.
