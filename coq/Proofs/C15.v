(* C15 — signalling rules and the statements used by Props/C15.v. *)
From Verif Require Import Lib.Py Lib.Tactics Lib.PyLemmas Gen.options_ext Gen.tcp_framing Model.C15.
From Verif Require Export Proofs.C15Framing Proofs.C15Codec Proofs.C15Conn.
Open Scope Z_scope.

(* ---------------------------------------------------------------- the Abort frames the endpoint writes *)
Lemma serialize_abort_texts :
  serialize (abort_msg txt_overly_large None) = Ok (abort_frame txt_overly_large) /\
  serialize (abort_msg txt_failed_to_parse None) = Ok (abort_frame txt_failed_to_parse) /\
  serialize (abort_msg txt_no_csm None) = Ok (abort_frame txt_no_csm) /\
  serialize (abort_msg txt_unknown_critical_option None) = Ok (abort_frame txt_unknown_critical_option) /\
  serialize (abort_msg txt_unknown_signalling_code None) = Ok (abort_frame txt_unknown_signalling_code).
Proof. repeat split; vm_compute; reflexivity. Qed.

Lemma abort_none c t : serialize (abort_msg t None) = Ok (abort_frame t) ->
  abort c t None = (set_closed c, [Write (abort_frame t); Close], true).
Proof. intros H. unfold abort. rewrite H. reflexivity. Qed.

(* ---------------------------------------------------------------- CSM gate, empty messages, Release/Abort, Ping (message level) *)
Lemma csm_gate_message c m : remote_settings c = None -> is_signalling (code m) = false ->
  handle_message c m = (set_closed c, [Write (abort_frame txt_no_csm); Close], Return).
Proof.
  intros Hs Hc. unfold handle_message. rewrite Hc, Hs.
  rewrite abort_none by apply serialize_abort_texts. reflexivity.
Qed.

Lemma empty_ignored c m s : remote_settings c = Some s -> code m = 0 -> handle_message c m = (c, [], Continue).
Proof. intros Hs Hc. unfold handle_message, dispatch_incoming. rewrite Hc, Hs. reflexivity. Qed.

Lemma dispatch_exact c m s : remote_settings c = Some s -> is_signalling (code m) = false -> code m <> 0 ->
  handle_message c m = (c, [if is_response (code m) then Response m else Request m], Continue).
Proof.
  intros Hs Hc H0. unfold handle_message, dispatch_incoming. rewrite Hc, Hs.
  replace (code m =? 0) with false by lia. destruct (is_response (code m)); reflexivity.
Qed.

Lemma serialize_pong tok : blen tok <= 8 ->
  serialize {| code := PONG; token := tok; opts := []; payload := [] |} = Ok ([blen tok; PONG] ++ tok).
Proof.
  intros H. unfold serialize. unfold option_list. cbn [opts payload token code fold_left options_encode options_encode_from bind app blen length].
  change (encode_length (blen (@nil Z))) with (Ok (0, @nil Z)). cbn [bind].
  replace (blen tok >? 8) with false by lia. change (Z.shiftl 0 4) with 0. rewrite Z.lor_0_l.
  cbn [app]. rewrite app_nil_r. reflexivity.
Qed.

Lemma ping_pong c m : code m = PING -> has_critical (opts m) = false -> blen (token m) <= 8 ->
  process_signaling c m = (c, [Write ([blen (token m); PONG] ++ token m)], SOk).
Proof.
  intros Hc Hn Ht. unfold process_signaling. rewrite Hc. change (PING =? CSM) with false. cbv iota.
  change ((PING =? PING) || (PING =? PONG) || (PING =? RELEASE) || (PING =? ABORT)) with true. cbv iota.
  rewrite Hn. change (PING =? PING) with true. cbv iota.
  unfold send_message. rewrite serialize_pong by exact Ht. reflexivity.
Qed.

Lemma release_abort_close c m : code m = RELEASE \/ code m = ABORT -> has_critical (opts m) = false ->
  handle_message c m =
  (set_closed c, [DispatchError (if code m =? RELEASE then PeerReleased else PeerAborted); Close], Return).
Proof.
  intros Hc Hn. unfold handle_message, process_signaling.
  destruct Hc as [Hc|Hc]; rewrite Hc; cbn -[has_critical]; rewrite Hn; reflexivity.
Qed.

Lemma pong_ignored c m : code m = PONG -> has_critical (opts m) = false ->
  handle_message c m = (c, [], if closed c then Return else Continue).
Proof.
  intros Hc Hn. unfold handle_message, process_signaling. rewrite Hc.
  cbn -[has_critical]. rewrite Hn. reflexivity.
Qed.

(* ---------------------------------------------------------------- Abort + close on the error conditions *)
(* oversize announcement: as soon as the header is readable *)
Lemma abort_on_oversize c d a t l : header (spool c ++ d) = Some (a, t, l) -> a + t + l > my_max_message_size c ->
  data_received c d = (set_closed (feed c d), [Write (abort_frame txt_overly_large); Close]).
Proof.
  intros Hh Hbig. unfold data_received. rewrite data_received_ctl_loop'. unfold loop'.
  cbn [data_received_loop]. rewrite loop_body_view. unfold view_body, view_of.
  change (spool (feed c d)) with (spool c ++ d). rewrite Hh.
  change (my_max_message_size (feed c d)) with (my_max_message_size c).
  replace (a + t + l >? my_max_message_size c) with true by lia.
  rewrite abort_none by apply serialize_abort_texts. reflexivity.
Qed.

(* a complete first frame that does not parse *)
Lemma abort_on_unparsable c d f r : view_of (my_max_message_size c) (spool c ++ d) = VFrame f r ->
  decode_message f = Raise UnparsableMessage ->
  data_received c d = (set_closed (feed c d), [Write (abort_frame txt_failed_to_parse); Close]).
Proof.
  intros V Hdec. unfold data_received. rewrite data_received_ctl_loop'. unfold loop'.
  cbn [data_received_loop]. rewrite loop_body_view. unfold view_body.
  change (spool (feed c d)) with (spool c ++ d). change (my_max_message_size (feed c d)) with (my_max_message_size c).
  rewrite V. unfold frame_step. rewrite Hdec.
  rewrite abort_none by apply serialize_abort_texts. reflexivity.
Qed.

Lemma tkl_above_8_unparsable f a t l : header f = Some (a, t, l) -> t > 8 -> decode_message f = Raise UnparsableMessage.
Proof.
  intros Hh Ht. unfold decode_message. rewrite extract_message_size_spec, Hh. cbn [bind].
  replace (t >? 8) with true by lia. reflexivity.
Qed.

(* unknown critical option in Ping / Pong / Release / Abort: Abort, close, and nothing else — the message's
   own action (Pong, release handling) does not happen and the method returns *)
Lemma critical_option_aborts c m :
  code m = PING \/ code m = PONG \/ code m = RELEASE \/ code m = ABORT -> has_critical (opts m) = true ->
  handle_message c m = (set_closed c, [Write (abort_frame txt_unknown_critical_option); Close], Return).
Proof.
  intros Hc Hn. unfold handle_message, process_signaling.
  destruct Hc as [Hc|[Hc|[Hc|Hc]]]; rewrite Hc; cbn -[has_critical abort]; rewrite Hn;
    rewrite abort_none by apply serialize_abort_texts; reflexivity.
Qed.

Lemma unknown_signalling_code_aborts c m : is_signalling (code m) = true ->
  code m <> CSM -> code m <> PING -> code m <> PONG -> code m <> RELEASE -> code m <> ABORT ->
  handle_message c m = (set_closed c, [Write (abort_frame txt_unknown_signalling_code); Close], Return).
Proof.
  intros Hs H1 H2 H3 H4 H5. unfold handle_message, process_signaling. rewrite Hs.
  replace (code m =? CSM) with false by (unfold CSM in *; lia).
  replace ((code m =? PING) || (code m =? PONG) || (code m =? RELEASE) || (code m =? ABORT)) with false
    by (unfold PING, PONG, RELEASE, ABORT in *; lia).
  rewrite abort_none by apply serialize_abort_texts. reflexivity.
Qed.

(* ---------------------------------------------------------------- statements in the form used by Props/C15.v *)
Lemma extract_length_roundtrip : forall n tkl rest, 0 <= n < 65805 + 2 ^ 32 -> 0 <= tkl < 16 ->
  extract_message_size ((Z.lor (Z.shiftl (fst (rfc8323_len n)) 4) tkl :: snd (rfc8323_len n)) ++ rest)
  = Ok (Some (2 + blen (snd (rfc8323_len n)), tkl, n)).
Proof. intros. rewrite extract_message_size_spec. f_equal. apply length_roundtrip; assumption. Qed.

Lemma stream_processed_as_messages : forall ms c bs,
  Forall (fun m => msg_ok m = true) ms -> Forall (fun m => fits (my_max_message_size c) m = true) ms ->
  frames ms = Ok bs -> spool c = [] ->
  let '(c1, o1) := data_received c bs in let '(c2, o2) := process_messages c ms in
  o1 = o2 /\ set_spool c1 [] = set_spool c2 [].
Proof.
  intros ms c bs Hok Hfit Hfr Hsp.
  pose proof (stream_refines ms (feed c bs) bs Hok Hfit Hfr ltac:(cbn; rewrite Hsp; reflexivity)) as H.
  unfold data_received. rewrite data_received_ctl_loop'.
  destruct (loop' (feed c bs)) as [[c1 o1] k].
  replace (feed c bs) with (set_spool c bs) in H by (unfold feed; rewrite Hsp; reflexivity).
  rewrite process_messages_spool in H. destruct (process_messages c ms) as [c2 o2]. split; [exact (proj1 H)|exact (proj1 (proj2 H))].
Qed.

(* ---------------------------------------------------------------- unknown critical option in a CSM: Abort with Bad-CSM-Option *)
Lemma to_minimum_bytes_short n : 0 <= n < 2 ^ 64 -> blen (to_minimum_bytes n) <= 8.
Proof.
  intros Hn. unfold to_minimum_bytes, blen. rewrite to_bytes_big_n_length.
  assert (Hb : 0 <= bit_length n <= 64).
  { unfold bit_length. destruct (n <=? 0) eqn:E; [lia|].
    assert (Z.log2 n < 64) by (apply Z.log2_lt_pow2; lia). pose proof (Z.log2_nonneg n). lia. }
  rewrite Z2Nat.id by lia. lia.
Qed.

Lemma serialize_abort_bad n : 0 <= n < 2 ^ 64 ->
  exists b, serialize (abort_msg txt_option_not_supported (Some n)) = Ok b.
Proof.
  intros Hn. pose proof (to_minimum_bytes_short n Hn) as Hv. pose proof (blen_nonneg (to_minimum_bytes n)) as Hv0.
  unfold serialize, abort_msg. cbn [opts payload token code].
  unfold option_list. cbn [fold_left insert_opt].
  unfold options_encode. cbn [options_encode_from].
  change (write_extended_field_value (2 - 0)) with (Ok (2, @nil Z)). cbn [bind].
  unfold write_extended_field_value at 1.
  assert (E : (blen (to_minimum_bytes n) >=? 0) && (blen (to_minimum_bytes n) <? 13) = true) by lia. rewrite E. cbn [bind].
  set (od := [Z.shiftl (Z.land 2 15) 4 + Z.land (blen (to_minimum_bytes n)) 15] ++ [] ++ [] ++ to_minimum_bytes n ++ []).
  change (match txt_option_not_supported with [] => [] | _ :: _ => 255 :: txt_option_not_supported end) with (255 :: txt_option_not_supported).
  set (data := od ++ 255 :: txt_option_not_supported).
  assert (Hd : 0 <= blen data < 65805 + 2 ^ 32).
  { unfold data, od, blen in *. cbn [app]. rewrite app_nil_r. cbn [length]. rewrite app_length. cbn [length].
    change (length txt_option_not_supported) with 20%nat. change (2 ^ 32) with 4294967296. lia. }
  rewrite encode_length_rfc8323 by exact Hd. cbn [bind]. destruct (rfc8323_len (blen data)) as [len ext].
  change (blen (@nil Z) >? 8) with false. cbv iota. eexists. reflexivity.
Qed.

Lemma csm_critical_aborts : forall os c st n v, In (n, v) os -> is_critical n = true ->
  (forall n' v', In (n', v') os -> 0 <= n' < 2 ^ 64) ->
  exists st' b n1, process_csm_options c st os = (set_closed c, st', [Write b; Close], true) /\
    is_critical n1 = true /\ serialize (abort_msg txt_option_not_supported (Some n1)) = Ok b.
Proof.
  induction os as [|[n0 v0] r IH]; intros c st n v Hin Hcrit Hb; [destruct Hin|].
  assert (Hcn : forall k, is_critical k = true -> (k =? 2) = false /\ (k =? 4) = false).
  { intros k Hk. unfold is_critical in Hk. split; destruct (Z.eqb_spec k 2), (Z.eqb_spec k 4); subst; try reflexivity; discriminate. }
  cbn [process_csm_options].
  destruct (is_critical n0) eqn:Hc0.
  - destruct (Hcn n0 Hc0) as [-> ->].
    destruct (serialize_abort_bad n0 (Hb n0 v0 (or_introl eq_refl))) as [b Hser].
    unfold abort. rewrite Hser. exists st, b, n0. repeat split; auto.
  - assert (Hin' : In (n, v) r) by (destruct Hin as [Heq|Hin]; [inv Heq; congruence|exact Hin]).
    assert (Hb' : forall n' v', In (n', v') r -> 0 <= n' < 2 ^ 64) by (intros; eapply Hb; right; eauto).
    destruct (n0 =? 2); [apply (IH c _ n v Hin' Hcrit Hb')|].
    destruct (n0 =? 4); [apply (IH c _ n v Hin' Hcrit Hb')|].
    apply (IH c st n v Hin' Hcrit Hb').
Qed.

(* a CSM with an unknown critical option: Abort carrying Bad-CSM-Option, close, return; the CSM has been
   received (the settings are set), but nothing after it is processed *)
Lemma csm_critical_option_aborts c m n v : code m = CSM -> In (n, v) (opts m) -> is_critical n = true ->
  (forall n' v', In (n', v') (opts m) -> 0 <= n' < 2 ^ 64) ->
  exists c1 b n1, handle_message c m = (c1, [Write b; Close], Return) /\ closed c1 = true /\
    remote_settings c1 <> None /\ is_critical n1 = true /\
    serialize (abort_msg txt_option_not_supported (Some n1)) = Ok b.
Proof.
  intros Hc Hin Hcrit Hb. unfold handle_message, process_signaling. rewrite Hc.
  change (is_signalling CSM) with true. change (CSM =? CSM) with true. cbv iota.
  destruct (csm_critical_aborts (opts m) c
    match remote_settings c with Some s => s | None => {| max_message_size := None; block_wise_transfer := false |} end
    n v Hin Hcrit Hb) as (st' & b & n1 & Hp & Hn1 & Hser).
  rewrite Hp. exists (set_settings (set_closed c) (Some st')), b, n1. cbn. repeat split; auto. discriminate.
Qed.
