(* C09 — proofs about the stack model (Model/C09Stack.v): per-request accounting of final responses over all scripts,
   the response of a request is its own, the other requests' entries are untouched *)
From Verif Require Import Lib.Py Lib.Tactics Model.C09 Model.C09Stack Proofs.C09.
Open Scope Z_scope.

Definition eid (e : entry) : Z := r_id (e_req e).
Definition ids (s : state) : list Z := map eid (s_incoming s).
(* every registered rendering has its pipes in the set-up state (ended ones are dropped), ids are unique *)
Definition Inv (s : state) : Prop := NoDup (ids s) /\ Forall (fun e => e_pipes e = live) (s_incoming s).
Definition unf (id : Z) (l : list entry) : bool := existsb (fun e => (eid e =? id) && negb (e_finished e)) l.
Definition unfinished (s : state) (id : Z) : bool := unf id (s_incoming s).
Definition req_ids (evs : list sevent) : list Z := flat_map (fun ev => match ev with Req r => [r_id r] | _ => [] end) evs.
(* request ids in the script are new *)
Definition fresh (s : state) (evs : list sevent) : Prop := NoDup (req_ids evs) /\ forall i, In i (req_ids evs) -> ~ In i (ids s).
Definition b2n (b : bool) : nat := if b then 1%nat else 0%nat.

(* ---------------------------------------------------------------- the message layer does not touch the renderings *)
Lemma send_initially_incoming s w : s_incoming (fst (send_initially s w)) = s_incoming s.
Proof. unfold send_initially. destruct (w_type w =? T_CON); reflexivity. Qed.
Lemma send_message_incoming s r m : s_incoming (fst (send_message s r m)) = s_incoming s.
Proof.
  assert (Hplain: s_incoming (fst (let t := if r_con r then T_CON else T_NON in
        let mid := s_mid s in let s1 := set_mid s (Z.land 65535 (1 + mid)) in let w := mk_wire r t mid m in
        if (t =? T_CON) && has_backlog s1 (r_remote r) then (append_backlog s1 (r_remote r) w, []) else send_initially s1 w)) = s_incoming s).
  { cbv zeta. match goal with |- context [if ?c then _ else _] => destruct c end; [reflexivity|].
    rewrite send_initially_incoming. reflexivity. }
  unfold send_message. destruct (negb (is_response (code_of m))); [exact Hplain|].
  destruct (lookup_piggy (key_of r) (s_piggy s)) as [[mid due]|].
  - destruct (suppressed m); rewrite send_initially_incoming; reflexivity.
  - destruct (suppressed m); [reflexivity|exact Hplain].
Qed.
Lemma perform_incoming : forall acts s r, s_incoming (fst (fst (perform s r acts))) = s_incoming s.
Proof.
  induction acts as [|[m l|l] acts IH]; intros s r; cbn [perform]; [reflexivity| |].
  - pose proof (send_message_incoming s r (tm_fill r m)) as H. destruct (send_message s r (tm_fill r m)) as [s1 w]. cbn in H.
    specialize (IH s1 r). destruct (perform s1 r acts) as [[s2 w2] l2]. cbn in *. congruence.
  - specialize (IH s r). destruct (perform s r acts) as [[s2 w2] l2]. exact IH.
Qed.
Lemma step_tick_incoming s us : s_incoming (fst (step_tick s us)) = s_incoming s.
Proof. unfold step_tick. destruct (fire_piggy (s_now s + us) (s_piggy s)). reflexivity. Qed.
Lemma continue_backlog_incoming s remote : s_incoming (fst (continue_backlog s remote)) = s_incoming s.
Proof.
  unfold continue_backlog. destruct (has_active s remote); [reflexivity|].
  destruct (find_backlog remote (s_backlog s)) as [[|w rest]|]; try reflexivity.
  rewrite send_initially_incoming. reflexivity.
Qed.
Lemma step_ack_incoming s remote : s_incoming (fst (step_ack s remote)) = s_incoming s.
Proof.
  unfold step_ack. destruct (remove_first_active remote (s_active s)); [|reflexivity].
  rewrite continue_backlog_incoming. reflexivity.
Qed.

(* ---------------------------------------------------------------- list facts about the table of renderings *)
Lemma ids_remove_id i l : map eid (remove_id i l) = filter (fun x => negb (x =? i)) (map eid l).
Proof.
  unfold remove_id, eid. induction l as [|e l IH]; [reflexivity|]. cbn [filter map].
  destruct (r_id (e_req e) =? i); cbn [negb filter map]; rewrite IH; reflexivity.
Qed.
Lemma ids_replace_id i e' l : eid e' = i -> map eid (replace_id i e' l) = map eid l.
Proof.
  unfold replace_id, eid. intros H. induction l as [|e l IH]; [reflexivity|]. cbn [map]. rewrite IH. f_equal.
  destruct (r_id (e_req e) =? i) eqn:E; [|reflexivity]. lia.
Qed.
Lemma NoDup_filter_Z (f : Z -> bool) l : NoDup l -> NoDup (filter f l).
Proof.
  induction 1 as [|x l Hx Hl IH]; cbn; [constructor|]. destruct (f x); [|exact IH].
  constructor; [|exact IH]. intros Hin. apply filter_In in Hin. tauto.
Qed.
Lemma NoDup_snoc (x : Z) l : NoDup l -> ~ In x l -> NoDup (l ++ [x]).
Proof.
  induction 1 as [|y l Hy Hl IH]; intros Hx; cbn; [constructor; [intros []|constructor]|].
  constructor.
  - intros Hin. apply in_app_or in Hin as [Hin|[<-|[]]]; [tauto|]. apply Hx. left. reflexivity.
  - apply IH. intros Hin. apply Hx. right. exact Hin.
Qed.
Lemma in_remove_id i e l : In e (remove_id i l) -> In e l /\ eid e <> i.
Proof. unfold remove_id. intros H. apply filter_In in H as [H1 H2]. split; [exact H1|]. unfold eid. lia. Qed.
Lemma Forall_remove_id (P : entry -> Prop) i l : Forall P l -> Forall P (remove_id i l).
Proof. intros H. apply Forall_forall. intros e He. apply in_remove_id in He as [He _]. revert e He. apply Forall_forall. exact H. Qed.
Lemma Forall_replace_id (P : entry -> Prop) i e' l : Forall P l -> P e' -> Forall P (replace_id i e' l).
Proof. unfold replace_id. intros H He. induction H; cbn [map]; constructor; auto. destruct (r_id (e_req x) =? i); auto. Qed.

Lemma unf_cons id e l : unf id (e :: l) = ((eid e =? id) && negb (e_finished e)) || unf id l.
Proof. reflexivity. Qed.
Lemma remove_id_cons i e l : remove_id i (e :: l) = if eid e =? i then remove_id i l else e :: remove_id i l.
Proof. unfold remove_id, eid. cbn [filter]. destruct (r_id (e_req e) =? i); reflexivity. Qed.
Lemma replace_id_cons i e' e l : replace_id i e' (e :: l) = (if eid e =? i then e' else e) :: replace_id i e' l.
Proof. reflexivity. Qed.
Lemma find_by_id_cons id e l : find_by_id id (e :: l) = if eid e =? id then Some e else find_by_id id l.
Proof. reflexivity. Qed.

Lemma unf_remove_same id l : unf id (remove_id id l) = false.
Proof.
  induction l as [|e l IH]; [reflexivity|]. rewrite remove_id_cons. destruct (eid e =? id) eqn:E; [exact IH|].
  rewrite unf_cons, E, IH. reflexivity.
Qed.
Lemma unf_remove_other i id l : i <> id -> unf id (remove_id i l) = unf id l.
Proof.
  intros Hn. induction l as [|e l IH]; [reflexivity|]. rewrite remove_id_cons. destruct (eid e =? i) eqn:E.
  - rewrite unf_cons, IH. replace (eid e =? id) with false by lia. reflexivity.
  - rewrite !unf_cons, IH. reflexivity.
Qed.
Lemma unf_replace_same id e' l : eid e' = id -> e_finished e' = true -> unf id (replace_id id e' l) = false.
Proof.
  intros H1 H2. induction l as [|e l IH]; [reflexivity|]. rewrite replace_id_cons, unf_cons, IH, orb_false_r.
  destruct (eid e =? id) eqn:E; [rewrite H2; apply andb_false_r|rewrite E; reflexivity].
Qed.
Lemma unf_replace_other i id e' l : i <> id -> eid e' = i -> unf id (replace_id i e' l) = unf id l.
Proof.
  intros Hn He. induction l as [|e l IH]; [reflexivity|]. rewrite replace_id_cons, !unf_cons, IH. f_equal.
  destruct (eid e =? i) eqn:E; [|reflexivity].
  replace (eid e' =? id) with false by lia. replace (eid e =? id) with false by lia. reflexivity.
Qed.
Lemma unf_app id l e : unf id (l ++ [e]) = unf id l || ((eid e =? id) && negb (e_finished e)).
Proof. unfold unf. rewrite existsb_app. cbn [existsb]. rewrite orb_false_r. reflexivity. Qed.
Lemma unf_not_in id l : ~ In id (map eid l) -> unf id l = false.
Proof.
  induction l as [|e l IH]; intros H; [reflexivity|]. cbn [map In] in H. rewrite unf_cons, IH by tauto.
  replace (eid e =? id) with false by (assert (eid e <> id) by tauto; lia). reflexivity.
Qed.
Lemma find_by_id_some id l e : find_by_id id l = Some e -> In e l /\ eid e = id.
Proof.
  induction l as [|x l IH]; [discriminate|]. rewrite find_by_id_cons. destruct (eid x =? id) eqn:E.
  - intros H; inversion H; subst. split; [left; reflexivity|lia].
  - intros H. destruct (IH H). split; [right|]; assumption.
Qed.
Lemma find_by_id_unf id l e : NoDup (map eid l) -> find_by_id id l = Some e -> unf id l = negb (e_finished e).
Proof.
  induction l as [|x l IH]; [discriminate|]. intros Hnd. cbn [map] in Hnd. inversion Hnd as [|? ? Hx Hl]; subst.
  rewrite find_by_id_cons, unf_cons. destruct (eid x =? id) eqn:E.
  - intros H; inversion H; subst. cbn [andb].
    rewrite unf_not_in; [apply orb_false_r|]. replace id with (eid e) by lia. exact Hx.
  - intros H. cbn [andb orb]. apply IH; assumption.
Qed.
Lemma find_by_id_none id l : find_by_id id l = None -> unf id l = false.
Proof.
  induction l as [|x l IH]; [reflexivity|]. rewrite find_by_id_cons, unf_cons. destruct (eid x =? id) eqn:E; [discriminate|].
  intros H. cbn [andb orb]. apply IH. exact H.
Qed.
Lemma find_by_key_some k l e : find_by_key k l = Some e -> In e l /\ key_eqb k (key_of (e_req e)) = true.
Proof.
  induction l as [|x l IH]; [discriminate|]. cbn [find_by_key]. destruct (key_eqb k (key_of (e_req x))) eqn:E.
  - intros H; inversion H; subst. split; [left; reflexivity|exact E].
  - intros H. destruct (IH H). split; [right|]; assumption.
Qed.
Lemma unf_le_remove i id l : unf id (remove_id i l) = true -> unf id l = true.
Proof.
  destruct (Z.eq_dec i id) as [->|Hn]; [rewrite unf_remove_same; discriminate|].
  rewrite unf_remove_other by exact Hn. auto.
Qed.

(* ---------------------------------------------------------------- sends of one rendering *)
Lemma finals_for_tag id j (l : list (msg * bool)) :
  finals_for id (map (fun x => (j, fst x, snd x)) l) = if j =? id then map fst (filter snd l) else [].
Proof.
  induction l as [|[m last] l IH]; cbn; [destruct (j =? id); reflexivity|].
  unfold finals_for in IH. rewrite IH. destruct (j =? id); [|reflexivity]. destruct last; reflexivity.
Qed.
Lemma finals_for_app id a b : finals_for id (a ++ b) = finals_for id a ++ finals_for id b.
Proof. unfold finals_for. apply flat_map_app. Qed.
Lemma sends_of_cons a acts : sends_of (a :: acts) = (match a with Send m l => [(m, l)] | _ => [] end) ++ sends_of acts.
Proof. reflexivity. Qed.
Lemma sends_of_finals acts : length (filter snd (sends_of acts)) = count_final acts.
Proof.
  unfold count_final. induction acts as [|a acts IH]; [reflexivity|].
  rewrite sends_of_cons, filter_app, app_length, IH. destruct a as [m [|]|l]; reflexivity.
Qed.
Lemma entry_sends_bound srv e : e_pipes e = live -> (length (filter snd (entry_sends srv e)) <= 1)%nat.
Proof.
  intros H. unfold entry_sends. rewrite H. pose proof (run_ractions_live (respond srv (e_req e))) as Hl.
  destruct (run_ractions live (respond srv (e_req e))) as [[q a] n]. rewrite sends_of_finals. tauto.
Qed.

(* ---------------------------------------------------------------- one rendering gets to run *)
Lemma run_entry_incoming srv s e : e_pipes e = live ->
  s_incoming (fst (run_entry srv s e)) = remove_id (eid e) (s_incoming s) \/
  s_incoming (fst (run_entry srv s e)) = replace_id (eid e) {| e_req := e_req e; e_pipes := live; e_finished := true |} (s_incoming s).
Proof.
  intros H. unfold run_entry. rewrite H. pose proof (run_ractions_live (respond srv (e_req e))) as Hl.
  destruct (run_ractions live (respond srv (e_req e))) as [[q a] n]. destruct Hl as (_ & _ & _ & Hreg).
  match goal with |- context [perform ?s0 ?r0 a] => pose proof (perform_incoming a s0 r0) as Hp; destruct (perform s0 r0 a) as [[s2 w] l] end.
  cbn in *. rewrite Hp. destruct (p_registered q) eqn:E; [right|left]; [rewrite (Hreg eq_refl)|]; reflexivity.
Qed.
Lemma run_entry_inv srv s e : Inv s -> e_pipes e = live -> Inv (fst (run_entry srv s e)).
Proof.
  intros [H1 H2] He. unfold Inv, ids. destruct (run_entry_incoming srv s e He) as [-> | ->].
  - rewrite ids_remove_id. split; [apply NoDup_filter_Z; exact H1|apply Forall_remove_id; exact H2].
  - rewrite ids_replace_id by reflexivity. split; [exact H1|]. apply Forall_replace_id; [exact H2|reflexivity].
Qed.
Lemma run_entry_ids srv s e i : e_pipes e = live -> In i (ids (fst (run_entry srv s e))) -> In i (ids s).
Proof.
  intros He. unfold ids. destruct (run_entry_incoming srv s e He) as [-> | ->].
  - rewrite ids_remove_id. intros H. apply filter_In in H. tauto.
  - rewrite ids_replace_id by reflexivity. auto.
Qed.
Lemma run_entry_unf_same srv s e : e_pipes e = live -> unfinished (fst (run_entry srv s e)) (eid e) = false.
Proof.
  intros He. unfold unfinished. destruct (run_entry_incoming srv s e He) as [-> | ->].
  - apply unf_remove_same.
  - apply unf_replace_same; reflexivity.
Qed.
Lemma run_entry_unf_other srv s e id : e_pipes e = live -> eid e <> id ->
  unfinished (fst (run_entry srv s e)) id = unfinished s id.
Proof.
  intros He Hn. unfold unfinished. destruct (run_entry_incoming srv s e He) as [-> | ->].
  - apply unf_remove_other. exact Hn.
  - apply unf_replace_other; [exact Hn|reflexivity].
Qed.
Lemma find_remove_other i id l : i <> id -> find_by_id id (remove_id i l) = find_by_id id l.
Proof.
  intros Hn. induction l as [|x l IH]; [reflexivity|]. rewrite remove_id_cons. destruct (eid x =? i) eqn:E.
  - rewrite find_by_id_cons. replace (eid x =? id) with false by lia. exact IH.
  - rewrite !find_by_id_cons, IH. reflexivity.
Qed.
Lemma find_replace_other i id e' l : i <> id -> eid e' = i -> find_by_id id (replace_id i e' l) = find_by_id id l.
Proof.
  intros Hn He. induction l as [|x l IH]; [reflexivity|]. rewrite replace_id_cons, !find_by_id_cons, IH.
  destruct (eid x =? i) eqn:E; [|reflexivity].
  replace (eid e' =? id) with false by lia. replace (eid x =? id) with false by lia. reflexivity.
Qed.
Lemma run_entry_find_other srv s e id : e_pipes e = live -> eid e <> id ->
  find_by_id id (s_incoming (fst (run_entry srv s e))) = find_by_id id (s_incoming s).
Proof.
  intros He Hn. destruct (run_entry_incoming srv s e He) as [-> | ->].
  - apply find_remove_other. exact Hn.
  - apply find_replace_other; [exact Hn|reflexivity].
Qed.

(* ---------------------------------------------------------------- one step *)
(* the state after the first half of step_req: piggy-back registration, override of a rendering with the same key, new entry *)
Definition after_register (s : state) (r : request) : state :=
  let k := key_of r in
  let s1 := if r_con r then set_piggy s (remove_piggy k (s_piggy s) ++ [(k, (r_mid r, s_now s + EMPTY_ACK_DELAY))]) else s in
  let s2 := match find_by_key k (s_incoming s1) with
            | Some old => let '(_, acts, _) := old_unregister_tm (e_pipes old) in
                          fst (fst (perform (set_incoming s1 (remove_id (r_id (e_req old)) (s_incoming s1))) (e_req old) acts))
            | None => s1
            end in
  set_incoming s2 (s_incoming s2 ++ [{| e_req := r; e_pipes := setup_pipes; e_finished := false |}]).
Definition new_entry (r : request) : entry := {| e_req := r; e_pipes := setup_pipes; e_finished := false |}.

Lemma step_req_unfold srv s r :
  fst (step_req srv s r) =
  if r_slow r && reaches_handler srv r then after_register s r else fst (run_entry srv (after_register s r) (new_entry r)).
Proof.
  unfold step_req, after_register, new_entry.
  set (s1 := if r_con r then _ else s).
  destruct (find_by_key (key_of r) (s_incoming s1)) as [old|].
  - destruct (old_unregister_tm (e_pipes old)) as [[q acts] b].
    destruct (perform _ (e_req old) acts) as [[s' w] l]. cbn [fst].
    destruct (r_slow r && reaches_handler srv r); [reflexivity|].
    destruct (run_entry srv _ _) as [s4 [[w4 l4] n4]]. reflexivity.
  - destruct (r_slow r && reaches_handler srv r); [reflexivity|].
    destruct (run_entry srv _ _) as [s4 [[w4 l4] n4]]. reflexivity.
Qed.

Lemma after_register_incoming s r :
  exists l, s_incoming (after_register s r) = l ++ [new_entry r] /\
            (l = s_incoming s \/ exists old, find_by_key (key_of r) (s_incoming s) = Some old /\ l = remove_id (eid old) (s_incoming s)).
Proof.
  unfold after_register. cbv zeta.
  set (s1 := if r_con r then _ else s).
  assert (H1: s_incoming s1 = s_incoming s) by (subst s1; destruct (r_con r); reflexivity).
  clearbody s1.
  destruct (find_by_key (key_of r) (s_incoming s1)) as [old|] eqn:E; rewrite H1 in E.
  - destruct (old_unregister_tm (e_pipes old)) as [[q acts] b].
    match goal with |- context [perform ?s0 ?r0 acts] => pose proof (perform_incoming acts s0 r0) as Hp end.
    eexists. split; [cbn [s_incoming set_incoming]; rewrite Hp; cbn [s_incoming set_incoming]; rewrite H1; reflexivity|].
    right. exists old. split; [exact E|reflexivity].
  - eexists. split; [cbn [s_incoming set_incoming]; rewrite H1; reflexivity|]. left. reflexivity.
Qed.

Lemma after_register_inv s r : Inv s -> ~ In (r_id r) (ids s) -> Inv (after_register s r).
Proof.
  intros [H1 H2] Hf. destruct (after_register_incoming s r) as (l & E & Hl). unfold Inv, ids. rewrite E.
  assert (Hl': NoDup (map eid l) /\ Forall (fun e => e_pipes e = live) l /\ ~ In (r_id r) (map eid l)).
  { destruct Hl as [->|(old & _ & ->)]; [auto|]. rewrite ids_remove_id. repeat split.
    - apply NoDup_filter_Z. exact H1.
    - apply Forall_remove_id. exact H2.
    - intros H. apply filter_In in H. apply Hf. tauto. }
  destruct Hl' as (A & B & C). rewrite map_app. split.
  - apply NoDup_snoc; assumption.
  - apply Forall_app. split; [exact B|]. constructor; [reflexivity|constructor].
Qed.

Lemma Inv_incoming s s' : s_incoming s' = s_incoming s -> Inv s -> Inv s'.
Proof. unfold Inv, ids. intros ->. auto. Qed.
Lemma live_setup : setup_pipes = live. Proof. reflexivity. Qed.
Lemma in_ids_app l e i : In i (map eid (l ++ [e])) -> In i (map eid l) \/ i = eid e.
Proof. rewrite map_app. intros H. apply in_app_or in H as [H|[<-|[]]]; auto. Qed.

Lemma after_register_ids s r i : In i (ids (after_register s r)) -> In i (ids s) \/ i = r_id r.
Proof.
  unfold ids. destruct (after_register_incoming s r) as (l & -> & Hl). intros H. apply in_ids_app in H as [H|H]; [|right; exact H].
  left. destruct Hl as [->|(old & _ & ->)]; [exact H|]. rewrite ids_remove_id in H. apply filter_In in H. tauto.
Qed.
Lemma after_register_unf_other s r id : r_id r <> id -> unfinished (after_register s r) id = true -> unfinished s id = true.
Proof.
  unfold unfinished. destruct (after_register_incoming s r) as (l & -> & Hl). intros Hn. rewrite unf_app.
  change (eid (new_entry r)) with (r_id r). replace (r_id r =? id) with false by lia. rewrite andb_false_l, orb_false_r.
  destruct Hl as [->|(old & _ & ->)]; [auto|]. apply unf_le_remove.
Qed.

Lemma tagged_finals_le srv e j id : e_pipes e = live ->
  (length (finals_for id (map (fun x => (j, fst x, snd x)) (entry_sends srv e))) <= b2n (Z.eqb j id))%nat.
Proof.
  intros He. rewrite finals_for_tag. destruct (j =? id); [|cbn; lia].
  cbn [b2n]. rewrite map_length. apply entry_sends_bound. exact He.
Qed.

Definition count_id (id : Z) (l : list Z) : nat := length (filter (Z.eqb id) l).

Lemma step_bound srv s ev id : Inv s -> (forall r, ev = Req r -> ~ In (r_id r) (ids s)) ->
  Inv (fst (step srv s ev)) /\
  (forall i, In i (ids (fst (step srv s ev))) -> In i (ids s) \/ exists r, ev = Req r /\ i = r_id r) /\
  (length (finals_for id (step_sends srv s ev)) + b2n (unfinished (fst (step srv s ev)) id)
     <= b2n (unfinished s id) + count_id id (req_ids [ev]))%nat.
Proof.
  intros HI Hf. destruct ev as [r|j|us|remote].
  - (* Req *)
    specialize (Hf r eq_refl).
    assert (HIa: Inv (after_register s r)) by (apply after_register_inv; assumption).
    assert (Hlive: e_pipes (new_entry r) = live) by reflexivity.
    cbn [step]. replace (fst (step_req srv s r)) with
      (if r_slow r && reaches_handler srv r then after_register s r else fst (run_entry srv (after_register s r) (new_entry r)))
      by (symmetry; apply step_req_unfold).
    cbn [step_sends req_ids flat_map app]. unfold count_id. cbn [filter].
    destruct (r_slow r && reaches_handler srv r).
    + split; [exact HIa|]. split.
      { intros i Hi. apply after_register_ids in Hi as [Hi|Hi]; [left; exact Hi|right; exists r; auto]. }
      cbn [finals_for flat_map length]. destruct (id =? r_id r) eqn:E.
      * cbn [length]. destruct (unfinished (after_register s r) id), (unfinished s id); cbn; lia.
      * cbn [length]. destruct (unfinished (after_register s r) id) eqn:U; [|cbn; lia].
        rewrite (after_register_unf_other s r id) by (try lia; exact U). cbn. lia.
    + split; [apply run_entry_inv; assumption|]. split.
      { intros i Hi. apply run_entry_ids in Hi; [|exact Hlive]. apply after_register_ids in Hi as [Hi|Hi]; [left; exact Hi|right; exists r; auto]. }
      change {| e_req := r; e_pipes := setup_pipes; e_finished := false |} with (new_entry r).
      pose proof (tagged_finals_le srv (new_entry r) (r_id r) id Hlive) as Hle.
      destruct (id =? r_id r) eqn:E.
      * replace (r_id r =? id) with true in Hle by lia. assert (id = eid (new_entry r)) as -> by (unfold eid, new_entry; cbn; lia).
        rewrite run_entry_unf_same by exact Hlive. cbn [length b2n] in *. lia.
      * replace (r_id r =? id) with false in Hle by lia.
        rewrite run_entry_unf_other by (try exact Hlive; unfold eid, new_entry; cbn; lia).
        destruct (unfinished (after_register s r) id) eqn:U; [|cbn [length b2n] in *; lia].
        rewrite (after_register_unf_other s r id) by (try lia; exact U). cbn [length b2n] in *. lia.
  - (* Done *)
    cbn [step step_sends req_ids flat_map]. unfold step_done, count_id. cbn [filter length app].
    destruct (find_by_id j (s_incoming s)) as [e|] eqn:Ef.
    + destruct (find_by_id_some _ _ _ Ef) as (Hin & Hid).
      assert (Hlive: e_pipes e = live) by (destruct HI as [_ HF]; rewrite Forall_forall in HF; apply HF; exact Hin).
      destruct (e_finished e) eqn:Efin.
      * cbn [fst]. split; [exact HI|]. split; [auto|]. cbn. lia.
      * split; [apply run_entry_inv; assumption|]. split.
        { intros i Hi. left. eapply run_entry_ids; eauto. }
        pose proof (tagged_finals_le srv e j id Hlive) as Hle.
        destruct (j =? id) eqn:E.
        -- assert (id = eid e) as -> by lia. rewrite run_entry_unf_same by exact Hlive.
           unfold unfinished. rewrite (find_by_id_unf _ _ e) by (try (destruct HI; assumption); rewrite <- Hid in Ef; exact Ef).
           rewrite Efin. cbn [negb b2n] in *. lia.
        -- rewrite run_entry_unf_other by (try exact Hlive; lia). cbn [b2n] in Hle. lia.
    + cbn [fst]. split; [exact HI|]. split; [auto|]. cbn. lia.
  - (* Tick *)
    cbn [step step_sends req_ids flat_map]. unfold count_id. cbn [filter length].
    pose proof (step_tick_incoming s us) as H. destruct (step_tick s us) as [s' w]. cbn [fst] in *.
    split; [eapply Inv_incoming; eauto|]. split; [unfold ids; rewrite H; auto|]. unfold unfinished. rewrite H. cbn. lia.
  - (* Ack *)
    cbn [step step_sends req_ids flat_map]. unfold count_id. cbn [filter length].
    pose proof (step_ack_incoming s remote) as H. destruct (step_ack s remote) as [s' w]. cbn [fst] in *.
    split; [eapply Inv_incoming; eauto|]. split; [unfold ids; rewrite H; auto|]. unfold unfinished. rewrite H. cbn. lia.
Qed.

Lemma run_cons_fst srv s ev rest : fst (run srv s (ev :: rest)) = fst (run srv (fst (step srv s ev)) rest).
Proof. cbn [run]. destruct (step srv s ev) as [s1 o]. cbn [fst]. destruct (run srv s1 rest) as [s2 os]. reflexivity. Qed.
Lemma req_ids_cons ev rest : req_ids (ev :: rest) = req_ids [ev] ++ req_ids rest.
Proof. unfold req_ids. cbn [flat_map]. rewrite app_nil_r. reflexivity. Qed.
Lemma count_id_app id a b : count_id id (a ++ b) = (count_id id a + count_id id b)%nat.
Proof. unfold count_id. rewrite filter_app, app_length. reflexivity. Qed.

Lemma fresh_step srv s ev rest : Inv s -> fresh s (ev :: rest) ->
  (forall r, ev = Req r -> ~ In (r_id r) (ids s)) /\ fresh (fst (step srv s ev)) rest.
Proof.
  intros HI [Hnd Hni]. rewrite req_ids_cons in Hnd, Hni.
  assert (H1: forall r, ev = Req r -> ~ In (r_id r) (ids s)).
  { intros r ->. apply Hni. cbn. left. reflexivity. }
  split; [exact H1|]. split.
  - destruct ev; cbn in Hnd; try exact Hnd. inversion Hnd; assumption.
  - intros i Hi Hin. destruct (step_bound srv s ev 0 HI H1) as (_ & Hids & _).
    apply Hids in Hin as [Hin|(r & -> & ->)].
    + apply (Hni i); [apply in_or_app; right; exact Hi|exact Hin].
    + cbn in Hnd. inversion Hnd as [|? ? Hx _]; subst. apply Hx. exact Hi.
Qed.

Lemma finals_bound srv : forall evs s id, Inv s -> fresh s evs ->
  (length (finals_for id (run_sends srv s evs)) + b2n (unfinished (fst (run srv s evs)) id)
     <= b2n (unfinished s id) + count_id id (req_ids evs))%nat.
Proof.
  induction evs as [|ev rest IH]; intros s id HI Hf.
  - cbn. lia.
  - destruct (fresh_step srv s ev rest HI Hf) as (H1 & Hf').
    destruct (step_bound srv s ev id HI H1) as (HI' & _ & Hb).
    specialize (IH (fst (step srv s ev)) id HI' Hf').
    cbn [run_sends]. rewrite finals_for_app, app_length, run_cons_fst, req_ids_cons, count_id_app. lia.
Qed.

Lemma unf_in id l : unf id l = true -> In id (map eid l).
Proof.
  induction l as [|e l IH]; [discriminate|]. rewrite unf_cons. intros H. apply orb_prop in H as [H|H].
  - left. apply andb_prop in H as [H _]. lia.
  - right. apply IH. exact H.
Qed.
Lemma count_id_nodup id l : NoDup l -> (count_id id l <= 1)%nat.
Proof.
  unfold count_id. induction 1 as [|x l Hx Hl IH]; cbn; [lia|]. destruct (id =? x) eqn:E; [|exact IH].
  cbn. assert (filter (Z.eqb id) l = []) as ->; [|cbn; lia].
  assert (x = id) as -> by lia. clear -Hx. induction l as [|y l IH]; [reflexivity|]. cbn.
  destruct (id =? y) eqn:E; [exfalso; apply Hx; left; lia|]. apply IH. intros H. apply Hx. right. exact H.
Qed.
Lemma count_id_not_in id l : ~ In id l -> count_id id l = 0%nat.
Proof.
  unfold count_id. induction l as [|y l IH]; intros H; [reflexivity|]. cbn.
  destruct (id =? y) eqn:E; [exfalso; apply H; left; lia|]. apply IH. intros Hin. apply H. right. exact Hin.
Qed.

(* MAIN (stack): in every run, from every well-formed state, a request is given at most one final response *)
Lemma at_most_one_final srv evs s id : Inv s -> fresh s evs ->
  (length (finals_for id (run_sends srv s evs)) <= 1)%nat.
Proof.
  intros HI Hf. pose proof (finals_bound srv evs s id HI Hf) as H. destruct Hf as [Hnd Hni].
  destruct (unfinished s id) eqn:U.
  - rewrite count_id_not_in in H; [cbn in H; lia|]. intros Hin. apply (Hni id Hin). apply unf_in. exact U.
  - pose proof (count_id_nodup id _ Hnd). cbn [b2n] in H. lia.
Qed.
Lemma init_inv mid0 : Inv (init_state mid0).
Proof. split; constructor. Qed.
Lemma init_fresh mid0 evs : NoDup (req_ids evs) -> fresh (init_state mid0) evs.
Proof. intros H. split; [exact H|]. intros i _ []. Qed.

(* ---------------------------------------------------------------- the response of a request is its own *)
Lemma sends_of_logs logs : sends_of (map Log logs) = [].
Proof. induction logs as [|l logs IH]; [reflexivity|]. cbn [map]. rewrite sends_of_cons. exact IH. Qed.
Lemma sends_of_app a b : sends_of (a ++ b) = sends_of a ++ sends_of b.
Proof. unfold sends_of. apply flat_map_app. Qed.
Lemma sends_of_filter acts : sends_of (filter is_send acts) = sends_of acts.
Proof.
  induction acts as [|a acts IH]; [reflexivity|]. destruct a as [m l|l]; cbn [filter is_send].
  - rewrite !sends_of_cons, IH. reflexivity.
  - rewrite sends_of_cons, IH. reflexivity.
Qed.
Lemma entry_sends_own srv e : e_pipes e = live -> finalising srv (e_req e) ->
  entry_sends srv e = match final_message srv (e_req e) with Some m => [(m, true)] | None => [] end.
Proof.
  intros He Hn. unfold entry_sends. rewrite He. destruct (coroutine_final_once srv (e_req e) Hn) as (m & acts & n & -> & -> & Hf).
  rewrite <- sends_of_filter, Hf. reflexivity.
Qed.
(* when a handler gets to finish, exactly the final message of its own request is handed to the message layer — whatever
   else is in flight, whatever the clock, the pending ACKs and the backlog are *)
Lemma done_sends_own srv s id e : Inv s -> find_by_id id (s_incoming s) = Some e -> e_finished e = false ->
  finalising srv (e_req e) ->
  step_sends srv s (Done id) = match final_message srv (e_req e) with Some m => [(id, m, true)] | None => [] end.
Proof.
  intros [_ HF] Ef Efin Hn. cbn [step_sends]. rewrite Ef, Efin.
  destruct (find_by_id_some _ _ _ Ef) as (Hin & _). rewrite Forall_forall in HF.
  rewrite entry_sends_own by (auto). destruct (final_message srv (e_req e)); reflexivity.
Qed.
Lemma req_sends_own srv s r : (r_slow r && reaches_handler srv r) = false -> finalising srv r ->
  step_sends srv s (Req r) = match final_message srv r with Some m => [(r_id r, m, true)] | None => [] end.
Proof.
  intros Hs Hn. cbn [step_sends]. rewrite Hs. rewrite entry_sends_own by (auto; reflexivity). cbn [e_req].
  destruct (final_message srv r); reflexivity.
Qed.

(* ---------------------------------------------------------------- frame: what other requests do leaves a rendering alone *)
Lemma eid_inj l a b : NoDup (map eid l) -> In a l -> In b l -> eid a = eid b -> a = b.
Proof.
  induction l as [|x l IH]; intros Hnd Ha Hb E; [destruct Ha|]. cbn [map] in Hnd. inversion Hnd as [|? ? Hx Hl]; subst.
  destruct Ha as [->|Ha], Hb as [->|Hb]; auto.
  - exfalso. apply Hx. rewrite E. apply in_map. exact Hb.
  - exfalso. apply Hx. rewrite <- E. apply in_map. exact Ha.
Qed.
Lemma find_by_id_app id l e x : find_by_id id l = Some e -> find_by_id id (l ++ [x]) = Some e.
Proof.
  induction l as [|y l IH]; [discriminate|]. cbn [app]. rewrite !find_by_id_cons. destruct (eid y =? id); auto.
Qed.
Definition unrelated (s : state) (id : Z) (e : entry) (ev : sevent) : Prop :=
  match ev with
  | Req r => r_id r <> id /\ key_eqb (key_of r) (key_of (e_req e)) = false /\ ~ In (r_id r) (ids s)
  | Done j => j <> id
  | _ => True
  end.
Lemma after_register_find s r id e : Inv s -> find_by_id id (s_incoming s) = Some e ->
  key_eqb (key_of r) (key_of (e_req e)) = false ->
  find_by_id id (s_incoming (after_register s r)) = Some e.
Proof.
  intros [Hnd _] Ef Hk. destruct (after_register_incoming s r) as (l & -> & Hl). apply find_by_id_app.
  destruct Hl as [->|(old & Hold & ->)]; [exact Ef|].
  rewrite find_remove_other; [exact Ef|].
  destruct (find_by_id_some _ _ _ Ef) as (Hin & Hid). destruct (find_by_key_some _ _ _ Hold) as (Hino & Hko).
  intros Heq. assert (old = e) by (eapply eid_inj; eauto; lia). subst old. congruence.
Qed.
Lemma step_frame srv s ev id e : Inv s -> find_by_id id (s_incoming s) = Some e -> unrelated s id e ev ->
  find_by_id id (s_incoming (fst (step srv s ev))) = Some e /\ finals_for id (step_sends srv s ev) = [].
Proof.
  intros HI Ef Hu. destruct ev as [r|j|us|remote]; cbn [unrelated] in Hu.
  - destruct Hu as (Hid & Hk & Hfr).
    assert (Hlive: e_pipes (new_entry r) = live) by reflexivity.
    cbn [step]. rewrite step_req_unfold. cbn [step_sends].
    pose proof (after_register_find s r id e HI Ef Hk) as Ha.
    destruct (r_slow r && reaches_handler srv r).
    + split; [exact Ha|reflexivity].
    + split.
      * rewrite run_entry_find_other; [exact Ha|exact Hlive|exact Hid].
      * rewrite finals_for_tag. replace (r_id r =? id) with false by lia. reflexivity.
  - cbn [step step_sends]. unfold step_done. destruct (find_by_id j (s_incoming s)) as [e'|] eqn:Ej; [|split; [exact Ef|reflexivity]].
    destruct (e_finished e'); [split; [exact Ef|reflexivity]|].
    destruct (find_by_id_some _ _ _ Ej) as (Hin & Hj).
    assert (Hlive: e_pipes e' = live) by (destruct HI as [_ HF]; rewrite Forall_forall in HF; apply HF; exact Hin).
    split.
    + rewrite run_entry_find_other; [exact Ef|exact Hlive|lia].
    + rewrite finals_for_tag. replace (j =? id) with false by lia. reflexivity.
  - cbn [step step_sends]. pose proof (step_tick_incoming s us) as H. destruct (step_tick s us) as [s' w]. cbn [fst] in *.
    rewrite H. split; [exact Ef|reflexivity].
  - cbn [step step_sends]. pose proof (step_ack_incoming s remote) as H. destruct (step_ack s remote) as [s' w]. cbn [fst] in *.
    rewrite H. split; [exact Ef|reflexivity].
Qed.

(* ---------------------------------------------------------------- exactly one, over whole scripts *)
Lemma finals_none_after srv evs s id : Inv s -> fresh s evs -> unfinished s id = false -> ~ In id (req_ids evs) ->
  finals_for id (run_sends srv s evs) = [].
Proof.
  intros HI Hf U Hn. pose proof (finals_bound srv evs s id HI Hf) as H. rewrite U, count_id_not_in in H by exact Hn.
  destruct (finals_for id (run_sends srv s evs)); [reflexivity|cbn in H; lia].
Qed.
Lemma find_in_ids id l e : find_by_id id l = Some e -> In id (map eid l).
Proof. intros H. destruct (find_by_id_some _ _ _ H) as (Hin & <-). apply in_map. exact Hin. Qed.

(* a slow request in flight: whatever unrelated things happen (other requests arriving, finishing or failing, time
   passing, ACKs), when its handler gets to finish it receives exactly its own final response, and nothing afterwards *)
Lemma in_flight_exactly_one srv : forall mid s e m post,
  let id := eid e in
  Inv s -> fresh s (mid ++ Done id :: post) ->
  find_by_id id (s_incoming s) = Some e -> e_finished e = false ->
  finalising srv (e_req e) -> final_message srv (e_req e) = Some m ->
  Forall (fun ev => match ev with
                    | Req r => key_eqb (key_of r) (key_of (e_req e)) = false
                    | Done j => j <> id
                    | _ => True end) mid ->
  finals_for id (run_sends srv s (mid ++ Done id :: post)) = [m].
Proof.
  induction mid as [|ev mid IH]; intros s e m post id HI Hf Ef Efin Hn Hm Hmid.
  - cbn [app run_sends]. rewrite finals_for_app, (done_sends_own srv s id e HI Ef Efin Hn), Hm.
    destruct (fresh_step srv s (Done id) post HI Hf) as (H1 & Hf').
    destruct (step_bound srv s (Done id) id HI H1) as (HI' & _ & _).
    rewrite finals_none_after; [cbn; rewrite Z.eqb_refl; reflexivity|exact HI'|exact Hf'| |].
    + cbn [step]. unfold step_done. rewrite Ef, Efin. apply run_entry_unf_same.
      destruct HI as [_ HF]. rewrite Forall_forall in HF. apply HF. apply (find_by_id_some _ _ _ Ef).
    + destruct Hf as [_ Hni]. intros Hin. apply (Hni id); [cbn; exact Hin|]. eapply find_in_ids; eauto.
  - inversion Hmid as [|? ? Hev Hmid']; subst.
    destruct (fresh_step srv s ev (mid ++ Done id :: post) HI Hf) as (H1 & Hf').
    destruct (step_bound srv s ev id HI H1) as (HI' & _ & _).
    assert (Hu: unrelated s id e ev).
    { destruct ev as [r|j|us|remote]; cbn; auto. split; [|split; [exact Hev|apply H1; reflexivity]].
      intros Heq. apply (H1 r eq_refl). rewrite Heq. eapply find_in_ids; eauto. }
    destruct (step_frame srv s ev id e HI Ef Hu) as (Ef' & Hs).
    cbn [app run_sends]. rewrite finals_for_app, Hs. cbn [app].
    apply (IH (fst (step srv s ev)) e m post); auto.
Qed.
(* ... and the same from the arrival of the request on *)
Lemma exactly_one_final srv s r mid m post :
  Inv s -> fresh s (Req r :: mid ++ Done (r_id r) :: post) ->
  finalising srv r -> final_message srv r = Some m ->
  Forall (fun ev => match ev with
                    | Req r' => key_eqb (key_of r') (key_of r) = false
                    | Done j => j <> r_id r
                    | _ => True end) mid ->
  finals_for (r_id r) (run_sends srv s (Req r :: mid ++ Done (r_id r) :: post)) = [m].
Proof.
  intros HI Hf Hn Hm Hmid.
  destruct (fresh_step srv s (Req r) (mid ++ Done (r_id r) :: post) HI Hf) as (H1 & Hf').
  destruct (step_bound srv s (Req r) (r_id r) HI H1) as (HI' & _ & _).
  specialize (H1 r eq_refl).
  cbn [run_sends]. rewrite finals_for_app.
  assert (Hlive: e_pipes (new_entry r) = live) by reflexivity.
  destruct (r_slow r && reaches_handler srv r) eqn:Hs.
  - (* deferred: nothing yet, the entry is in flight *)
    cbn [step_sends]. rewrite Hs. cbn [finals_for flat_map app].
    assert (Ef: find_by_id (r_id r) (s_incoming (fst (step srv s (Req r)))) = Some (new_entry r)).
    { cbn [step]. rewrite step_req_unfold, Hs. destruct (after_register_incoming s r) as (l & -> & Hl).
      assert (Hni: ~ In (r_id r) (map eid l)).
      { destruct Hl as [->|(old & _ & ->)]; [exact H1|]. rewrite ids_remove_id. intros H. apply filter_In in H. apply H1. tauto. }
      clear -Hni. induction l as [|x l IH]; cbn [app].
      - rewrite find_by_id_cons. change (eid (new_entry r)) with (r_id r). rewrite Z.eqb_refl. reflexivity.
      - rewrite find_by_id_cons. cbn [map In] in Hni. replace (eid x =? r_id r) with false by (assert (eid x <> r_id r) by tauto; lia).
        apply IH. tauto. }
    apply (in_flight_exactly_one srv mid (fst (step srv s (Req r))) (new_entry r) m post); auto.
  - (* answered at once; the later Done finds nothing to do *)
    rewrite (req_sends_own srv s r Hs Hn), Hm.
    rewrite finals_none_after; [cbn; rewrite Z.eqb_refl; reflexivity|exact HI'|exact Hf'| |].
    + cbn [step]. rewrite step_req_unfold, Hs. apply (run_entry_unf_same srv (after_register s r) (new_entry r) Hlive).
    + destruct Hf as [Hnd _]. cbn in Hnd. inversion Hnd; assumption.
Qed.

(* ---------------------------------------------------------------- from the message layer to the wire *)
Definition on_wire_for (r : request) (w : wire) : Prop :=
  w_rid w = r_id r /\ w_remote w = r_remote r /\ w_token w = r_token r.
Lemma find_backlog_append remote w l :
  find_backlog remote (backlog_append remote w l) = option_map (fun b => b ++ [w]) (find_backlog remote l).
Proof.
  induction l as [|[q b] l IH]; [reflexivity|]. cbn [backlog_append find_backlog].
  destruct (q =? remote) eqn:Eq; cbn [find_backlog]; rewrite Eq; [reflexivity|exact IH].
Qed.
(* the common tail of send_message: own message id, type from the request, NSTART backlog *)
Definition send_plain (s : state) (r : request) (m : msg) : state * list wire :=
  let t := if r_con r then T_CON else T_NON in
  let mid := s_mid s in
  let s1 := set_mid s (Z.land 65535 (1 + mid)) in
  let w := mk_wire r t mid m in
  if (t =? T_CON) && has_backlog s1 (r_remote r) then (append_backlog s1 (r_remote r) w, []) else send_initially s1 w.
Lemma send_message_unfold s r m :
  send_message s r m =
  if negb (is_response (code_of m)) then send_plain s r m
  else match lookup_piggy (key_of r) (s_piggy s) with
       | Some (mid, _) =>
           let s1 := set_piggy s (remove_piggy (key_of r) (s_piggy s)) in
           if suppressed m then send_initially s1 (empty_ack (r_remote r) mid) else send_initially s1 (mk_wire r T_ACK mid m)
       | None => if suppressed m then (s, []) else send_plain s r m
       end.
Proof. reflexivity. Qed.
Lemma send_plain_cases s r m :
  let '(s', out) := send_plain s r m in
  let w := mk_wire r (if r_con r then T_CON else T_NON) (s_mid s) m in
  (out = [w] \/ (out = [] /\ r_con r = true /\ has_backlog s (r_remote r) = true /\
                 find_backlog (r_remote r) (s_backlog s') = option_map (fun b => b ++ [w]) (find_backlog (r_remote r) (s_backlog s)))).
Proof.
  unfold send_plain. destruct (r_con r) eqn:Ec.
  - change (T_CON =? T_CON) with true. cbn [andb].
    match goal with |- context [has_backlog ?s1 _] => change (has_backlog s1 (r_remote r)) with (has_backlog s (r_remote r)) end.
    destruct (has_backlog s (r_remote r)) eqn:Eb.
    + right. split; [reflexivity|]. split; [reflexivity|]. split; [reflexivity|].
      unfold append_backlog. cbn [s_backlog set_backlog set_mid]. apply find_backlog_append.
    + left. unfold send_initially. cbn. reflexivity.
  - left. unfold send_initially. cbn. reflexivity.
Qed.
Lemma send_message_cases s r m : is_response (code_of m) = true ->
  let '(s', out) := send_message s r m in
  match lookup_piggy (key_of r) (s_piggy s) with
  | Some (mid, _) =>
      lookup_piggy (key_of r) (s_piggy s') = None /\
      out = [if suppressed m then empty_ack (r_remote r) mid else mk_wire r T_ACK mid m]
  | None =>
      if suppressed m then s' = s /\ out = []
      else let w := mk_wire r (if r_con r then T_CON else T_NON) (s_mid s) m in
           (out = [w] \/ (out = [] /\ r_con r = true /\ has_backlog s (r_remote r) = true /\
                          find_backlog (r_remote r) (s_backlog s') = option_map (fun b => b ++ [w]) (find_backlog (r_remote r) (s_backlog s))))
  end.
Proof.
  intros Hresp. rewrite send_message_unfold, Hresp. cbn [negb].
  destruct (lookup_piggy (key_of r) (s_piggy s)) as [[mid due]|] eqn:E.
  - assert (Hrm: forall l, lookup_piggy (key_of r) (remove_piggy (key_of r) l) = None).
    { induction l as [|[k v] l IH]; [reflexivity|]. unfold remove_piggy in *. cbn [filter fst].
      destruct (key_eqb (key_of r) k) eqn:Ek; cbn [negb]; [exact IH|]. cbn [lookup_piggy]. rewrite Ek. exact IH. }
    destruct (suppressed m); cbn; split; auto; apply Hrm.
  - destruct (suppressed m); [split; reflexivity|]. apply send_plain_cases.
Qed.
(* FINDING C09:non-response-code-sent: a returned Message whose code is not a response code skips the whole response branch:
   no piggy-backing, no No-Response suppression; it goes out (or is queued) as a CON/NON of our own with the request's token *)
Lemma send_message_non_response s r m : is_response (code_of m) = false -> send_message s r m = send_plain s r m.
Proof. intros H. rewrite send_message_unfold, H. reflexivity. Qed.

(* every response, whoever produced it (handler, error renderer, 4.04 / 4.05 / 5.00 built from exceptions), goes to the
   message layer with the request's No-Response option filled in if it had none *)
Lemma perform_send s r m last :
  perform s r [Send m last] = let '(s', w) := send_message s r (tm_fill r m) in (s', w ++ [], []).
Proof. cbn [perform]. destruct (send_message s r (tm_fill r m)). reflexivity. Qed.
Lemma tm_fill_spec r m :
  m_code (tm_fill r m) = m_code m /\ m_payload (tm_fill r m) = m_payload m /\ m_cf (tm_fill r m) = m_cf m /\
  m_nr (tm_fill r m) = match m_nr m with Some n => Some n | None => r_nr r end.
Proof. repeat split. Qed.

(* an observation being established hands its first response to the message layer as a non-final one (no final response:
   the request stays registered, notifications follow — C08) *)
Lemma entry_sends_established s e methods mode : e_pipes e = live ->
  find_resource s (r_path (e_req e)) = Some (Observable methods mode) -> observing (e_req e) = true ->
  establishes methods mode (e_req e) = true ->
  exists m, render methods (e_req e) = Responded m /\ entry_sends (Some s) e = [(set_obs m (Some 0), false)].
Proof.
  intros He Hf Ho Hs. destruct (observable_established s (e_req e) methods mode Hf Ho Hs) as (m & Hr & _ & _ & Hrun).
  exists m. split; [exact Hr|]. unfold entry_sends. rewrite He, Hrun. reflexivity.
Qed.
