(* C18 — proofs about the shutdown slice (Model/C18.v). *)
From Verif Require Import Lib.Py Lib.Tactics Model.C18.
Open Scope Z_scope.

(* ------------------------------------------------------------------------------------------------
   Vocabulary *)
Definition olist (s : tmst) : list oreq := match outgoing s with Some l => l | None => [] end.
Definition ilist (s : tmst) : list ireq := match incoming s with Some l => l | None => [] end.

(* the state a context is in after Context.shutdown has returned *)
Definition Down (s : st) : Prop :=
  exchanges (mm s) = None /\ outgoing (tm s) = None /\ incoming (tm s) = None /\
  timers (mm s) = [] /\ piggys (mm s) = [] /\ transport_down (mm s) = true.

(* events that can still reach a context after shutdown: the transport is closed, so no datagram arrives
   (udp6.py:481 closes the socket before shutdown yields), and Context.shutdown is not called twice *)
Definition in_scope (e : event) : bool :=
  match e with Recv _ | Shutdown => false | _ => true end.

(* what a shut-down context may still produce: the immediate failure of a request submitted afterwards *)
Definition quiet (o : output) : bool :=
  match o with
  | OFail _ LibraryShutdown => true
  | OObsEnd _ NotObservable => true
  | _ => false
  end.
Definition is_send (o : output) : bool := match o with OSend _ => true | _ => false end.
Definition is_exc (o : output) : bool := match o with OExc _ => true | _ => false end.

Lemma quiet_not_send o : quiet o = true -> is_send o = false /\ is_exc o = false.
Proof. destruct o; cbn; try discriminate; auto. Qed.

(* the outcome shutdown gives to an outstanding request *)
Definition shutdown_outcome (o : oreq) : list output :=
  if o_first o then [OObsEnd (o_q o) LibraryShutdown]
  else OFail (o_q o) LibraryShutdown :: (if o_observe o then [OObsEnd (o_q o) NotObservable] else []).

Lemma request_run_shutdown t o : snd (request_run t o (EvExc LibraryShutdown)) = shutdown_outcome o.
Proof. unfold request_run, shutdown_outcome. destruct (o_first o); reflexivity. Qed.

(* ------------------------------------------------------------------------------------------------
   cancel and friends only touch [timers] *)
Lemma cancel_fields s id :
  exchanges (cancel s id) = exchanges s /\ piggys (cancel s id) = piggys s /\ forgets (cancel s id) = forgets s /\
  recents (cancel s id) = recents s /\ next_tid (cancel s id) = next_tid s /\ now (cancel s id) = now s /\
  backlogs (cancel s id) = backlogs s /\ transport_down (cancel s id) = transport_down s /\ message_id (cancel s id) = message_id s.
Proof. unfold cancel; cbn. repeat split. Qed.

Definition same_but_timers (a b : mmst) : Prop :=
  exchanges a = exchanges b /\ piggys a = piggys b /\ forgets a = forgets b /\ recents a = recents b /\
  next_tid a = next_tid b /\ now a = now b /\ backlogs a = backlogs b /\ transport_down a = transport_down b /\
  message_id a = message_id b /\ uniform a = uniform b.

Lemma fold_cancel_same {A} (f : A -> Z) (l : list A) s :
  same_but_timers (fold_left (fun a x => cancel a (f x)) l s) s.
Proof.
  revert s. induction l as [|x l IH]; intro s; cbn [fold_left].
  - unfold same_but_timers; repeat split.
  - specialize (IH (cancel s (f x))). unfold same_but_timers in *. cbn in *. tauto.
Qed.

Lemma cancel_timers_incl s id t : In t (timers (cancel s id)) -> In t (timers s).
Proof. unfold cancel; cbn. intro H. apply filter_In in H. tauto. Qed.

Lemma fold_cancel_removes {A} (f : A -> Z) (l : list A) s t :
  In t (timers (fold_left (fun a x => cancel a (f x)) l s)) -> In t (timers s) /\ ~ In (t_id t) (map f l).
Proof.
  revert s. induction l as [|x l IH]; intro s; cbn [fold_left map].
  - intro H; split; [exact H | intros []].
  - intro H. apply IH in H. destruct H as [H1 H2]. unfold cancel in H1; cbn in H1. apply filter_In in H1.
    destruct H1 as [H1 H3]. split; [exact H1|]. intros [E|E]; [|tauto].
    rewrite E in H3. rewrite Z.eqb_refl in H3. discriminate.
Qed.

(* ------------------------------------------------------------------------------------------------
   Theorem 1: the Shutdown step *)
Lemma tm_shutdown_incoming_spec s :
  incoming (fst (tm_shutdown_incoming s)) = None /\ outgoing (fst (tm_shutdown_incoming s)) = outgoing s /\
  snd (tm_shutdown_incoming s) = map (fun i => OHCancel (i_h i)) (ilist s).
Proof. unfold tm_shutdown_incoming, ilist. destruct (incoming s) eqn:E; cbn; auto. Qed.

Lemma tm_shutdown_outgoing_spec t s :
  outgoing (fst (tm_shutdown_outgoing t s)) = None /\ incoming (fst (tm_shutdown_outgoing t s)) = incoming s /\
  snd (tm_shutdown_outgoing t s) = flat_map shutdown_outcome (olist s).
Proof.
  unfold tm_shutdown_outgoing, olist. destruct (outgoing s) eqn:E; cbn; auto.
  repeat split. apply flat_map_ext. intro o. apply request_run_shutdown.
Qed.

(* which timers were armed by whom: every cancellable timer belongs to an exchange or to a piggy-back opportunity *)
Definition timers_owned (s : mmst) : Prop :=
  forall t, In t (timers s) ->
    In (t_id t) (map x_timer (match exchanges s with Some xs => xs | None => [] end)) \/ In (t_id t) (map p_timer (piggys s)).

Lemma mm_shutdown_spec s xs : exchanges s = Some xs -> timers_owned s ->
  let s' := fst (mm_shutdown s) in
  snd (mm_shutdown s) = [] /\ exchanges s' = None /\ piggys s' = [] /\ timers s' = [] /\ transport_down s' = true /\
  forgets s' = forgets s /\ recents s' = recents s /\ next_tid s' = next_tid s /\ now s' = now s.
Proof.
  intros E Own. unfold mm_shutdown. rewrite E. cbv zeta. cbn [fst snd].
  set (s1 := mm_set_exchanges (fold_left (fun a x => cancel a (x_timer x)) xs s) None).
  set (s2 := fold_left (fun a p => cancel a (p_timer p)) (piggys s1) s1).
  pose proof (fold_cancel_same x_timer xs s) as S1.
  pose proof (fold_cancel_same p_timer (piggys s1) s1) as S2. fold s2 in S2.
  destruct S1 as (S1a & S1b & S1c & S1d & S1e & S1f & S1g & S1h & S1i & S1j).
  destruct S2 as (S2a & S2b & S2c & S2d & S2e & S2f & S2g & S2h & S2i & S2j).
  assert (P1 : piggys s1 = piggys s) by (unfold s1; cbn; exact S1b).
  assert (X1 : exchanges s1 = None) by reflexivity.
  assert (X2 : forgets s1 = forgets s) by (unfold s1; cbn; exact S1c).
  assert (X3 : recents s1 = recents s) by (unfold s1; cbn; exact S1d).
  assert (X4 : next_tid s1 = next_tid s) by (unfold s1; cbn; exact S1e).
  assert (X5 : now s1 = now s) by (unfold s1; cbn; exact S1f).
  assert (T : timers s2 = []).
  { destruct (timers s2) as [|t ts] eqn:T; [reflexivity|exfalso].
    assert (I : In t (timers s2)) by (rewrite T; left; reflexivity).
    unfold s2 in I. apply fold_cancel_removes in I. destruct I as [I1 I2].
    unfold s1 in I1. cbn in I1. apply fold_cancel_removes in I1. destruct I1 as [I1 I3].
    destruct (Own t I1) as [O|O]; [rewrite E in O; tauto|]. rewrite P1 in I2. tauto. }
  cbn [exchanges piggys timers transport_down forgets recents next_tid now mm_set_transport_down mm_set_piggys].
  repeat split; congruence.
Qed.

Lemma shutdown_step s xs : exchanges (mm s) = Some xs -> timers_owned (mm s) ->
  let s' := fst (shutdown s) in let out := snd (shutdown s) in
  Down s' /\
  out = map (fun i => OHCancel (i_h i)) (ilist (tm s)) ++ flat_map shutdown_outcome (olist (tm s)) ++ [OShutdownDone] /\
  forgets (mm s') = forgets (mm s) /\ recents (mm s') = recents (mm s) /\ next_tid (mm s') = next_tid (mm s).
Proof.
  intros E Own. unfold shutdown.
  destruct (tm_shutdown_incoming (tm s)) as [tm1 o1] eqn:E1.
  destruct (tm_shutdown_outgoing (now (mm s)) tm1) as [tm2 o2] eqn:E2.
  destruct (mm_shutdown (mm s)) as [mm1 o3] eqn:E3.
  pose proof (tm_shutdown_incoming_spec (tm s)) as A. rewrite E1 in A. cbn in A. destruct A as (A1 & A2 & A3).
  pose proof (tm_shutdown_outgoing_spec (now (mm s)) tm1) as B. rewrite E2 in B. cbn in B. destruct B as (B1 & B2 & B3).
  pose proof (mm_shutdown_spec (mm s) xs E Own) as C. rewrite E3 in C. cbn in C.
  destruct C as (C1 & C2 & C3 & C4 & C5 & C6 & C7 & C8 & C9).
  subst o3. cbn [fst snd tm mm].
  split; [unfold Down; cbn; repeat split; congruence|].
  split; [|auto].
  rewrite A3, B3. unfold olist. rewrite A2. reflexivity.
Qed.

(* ------------------------------------------------------------------------------------------------
   Theorem 3: a request submitted after shutdown *)
Lemma request_after_shutdown s q r mt observe : outgoing (tm s) = None ->
  tm_request s q r mt observe = (s, OFail q LibraryShutdown :: (if observe then [OObsEnd q NotObservable] else [])).
Proof. intro H. unfold tm_request. rewrite H. reflexivity. Qed.

(* ------------------------------------------------------------------------------------------------
   The deduplication entries and their expiry timers: each pending pop-timer still finds its key *)
Definition fkey (f : forget) : Z * Z := (f_remote f, f_mid f).
Definition rkey (e : recent) : Z * Z := (r_remote e, r_mid e).
Definition G (s : mmst) : Prop :=
  NoDup (map fkey (forgets s)) /\ incl (map fkey (forgets s)) (map rkey (recents s)).

Lemma recent_is_key r mid e : recent_is r mid e = true <-> rkey e = (r, mid).
Proof. unfold recent_is, rkey. split.
  - intro H. apply andb_true_iff in H. destruct H as [A B]. apply Z.eqb_eq in A. apply Z.eqb_eq in B. congruence.
  - intro H. inversion H. rewrite !Z.eqb_refl. reflexivity. Qed.
Lemma existsb_recent r mid l : existsb (recent_is r mid) l = true <-> In (r, mid) (map rkey l).
Proof. rewrite existsb_exists, in_map_iff. split.
  - intros (e & I & H). exists e. split; [apply recent_is_key; exact H|exact I].
  - intros (e & H & I). exists e. split; [exact I|apply recent_is_key; exact H]. Qed.

Lemma earliest_In l i : earliest l = Some i -> In i l.
Proof.
  revert i. induction l as [|a l IH]; cbn; [discriminate|]. intros i H.
  destruct (earliest l) as [j|] eqn:E.
  - destruct (key_lt (item_key j) (item_key a)); inversion H; subst; auto.
  - inversion H; subst; auto.
Qed.

Lemma NoDup_map_neq {A B} (f : A -> B) (l : list A) a b :
  NoDup (map f l) -> In a l -> In b l -> a <> b -> f a <> f b.
Proof.
  induction l as [|x l IH]; cbn; [tauto|]. intros ND Ia Ib Hne. inversion ND as [|? ? Hx ND']; subst.
  destruct Ia as [->|Ia], Ib as [->|Ib].
  - congruence.
  - intro E. apply Hx. rewrite E. apply in_map. exact Ib.
  - intro E. apply Hx. rewrite <- E. apply in_map. exact Ia.
  - auto.
Qed.
Lemma NoDup_map_filter {A B} (f : A -> B) p (l : list A) : NoDup (map f l) -> NoDup (map f (filter p l)).
Proof.
  induction l as [|x l IH]; cbn; [auto|]. intro ND. inversion ND as [|? ? Hx ND']; subst.
  destruct (p x); cbn; [constructor|]; auto.
  intro I. apply Hx. apply in_map_iff in I. destruct I as (y & E & I). apply filter_In in I.
  apply in_map_iff. exists y. tauto.
Qed.

Lemma filter_len_le {A} (p : A -> bool) l : (length (filter p l) <= length l)%nat.
Proof. induction l as [|x l IH]; cbn; [lia|]. destruct (p x); cbn; lia. Qed.

(* the pop-timer of entry f fires *)
Lemma forget_fires s f t : G s -> In f (forgets s) ->
  let mm0 := mm_set_now (mm_set_forgets s (filter (fun g => negb (f_id g =? f_id f)) (forgets s))) t in
  snd (forget_recent mm0 (f_remote f) (f_mid f)) = [] /\ G (fst (forget_recent mm0 (f_remote f) (f_mid f))) /\
  timers (fst (forget_recent mm0 (f_remote f) (f_mid f))) = timers s /\
  exchanges (fst (forget_recent mm0 (f_remote f) (f_mid f))) = exchanges s /\
  piggys (fst (forget_recent mm0 (f_remote f) (f_mid f))) = piggys s /\
  transport_down (fst (forget_recent mm0 (f_remote f) (f_mid f))) = transport_down s /\
  (length (forgets (fst (forget_recent mm0 (f_remote f) (f_mid f)))) < length (forgets s))%nat.
Proof.
  intros [ND INC] If. cbv zeta. unfold forget_recent. cbn [recents mm_set_now mm_set_forgets].
  assert (K : In (f_remote f, f_mid f) (map rkey (recents s))) by (apply INC; apply (in_map fkey); exact If).
  apply existsb_recent in K. rewrite K. cbn [fst snd].
  split; [reflexivity|]. split; [|cbn; repeat split].
  - unfold G. cbn [forgets recents mm_set_recents mm_set_now mm_set_forgets]. split.
    + apply NoDup_map_filter. exact ND.
    + intros k Hk. apply in_map_iff in Hk. destruct Hk as (g & Eg & Ig). apply filter_In in Ig. destruct Ig as [Ig Hid].
      assert (g <> f) by (intro; subst g; rewrite Z.eqb_refl in Hid; discriminate).
      assert (Hk : fkey g <> fkey f) by (apply NoDup_map_neq with (l := forgets s); auto).
      assert (In k (map rkey (recents s))) as Hin by (apply INC; rewrite <- Eg; apply in_map; exact Ig).
      apply in_map_iff in Hin. destruct Hin as (e & Ee & Ie). apply in_map_iff. exists e. split; [exact Ee|].
      apply filter_In. split; [exact Ie|]. destruct (recent_is (f_remote f) (f_mid f) e) eqn:R; [|reflexivity].
      apply recent_is_key in R. exfalso. apply Hk. rewrite Eg, <- Ee, R. reflexivity.
  - (* the fired timer itself is gone *)
    clear - If. induction (forgets s) as [|g l IH]; [destruct If|]. cbn [filter].
    destruct If as [->|If].
    + rewrite Z.eqb_refl. cbn [negb]. pose proof (filter_len_le (fun g => negb (f_id g =? f_id f)) l). cbn [length]. lia.
    + specialize (IH If). destruct (negb (f_id g =? f_id f)); cbn [length]; lia.
Qed.

(* ------------------------------------------------------------------------------------------------
   Theorem 2: after shutdown, no in-scope event makes the context send, raise, deliver or start anything *)
Lemma pending_down s : timers s = [] -> pending s = map DForget (forgets s).
Proof. intro H. unfold pending. rewrite H. reflexivity. Qed.

Lemma run_item_down s i : Down s -> G (mm s) -> In i (pending (mm s)) ->
  snd (run_item s i) = [] /\ Down (fst (run_item s i)) /\ G (mm (fst (run_item s i))) /\
  (length (forgets (mm (fst (run_item s i)))) < length (forgets (mm s)))%nat.
Proof.
  intros D Gs I. destruct D as (D1 & D2 & D3 & D4 & D5 & D6).
  rewrite (pending_down _ D4) in I. apply in_map_iff in I. destruct I as (f & <- & If).
  unfold run_item.
  pose proof (forget_fires (mm s) f (Z.max (now (mm s)) (f_due f)) Gs If) as H. cbv zeta in H.
  destruct (forget_recent _ (f_remote f) (f_mid f)) as [mm1 o] eqn:E. cbn [fst snd] in *.
  destruct H as (H1 & H2 & H3 & H4 & H5 & H6 & H7). subst o.
  split; [reflexivity|]. split; [|split; [exact H2|exact H7]].
  unfold Down; cbn [tm mm]. repeat split; congruence.
Qed.

Lemma fire_down s : Down s -> G (mm s) ->
  snd (fire s) = [] /\ Down (fst (fire s)) /\ G (mm (fst (fire s))).
Proof.
  intros D Gs. unfold fire. destruct (earliest (pending (mm s))) as [i|] eqn:E; [|cbn; auto].
  apply earliest_In in E. pose proof (run_item_down s i D Gs E). tauto.
Qed.

Lemma advance_down fuel : forall s target, Down s -> G (mm s) ->
  snd (advance_to fuel s target) = [] /\ Down (fst (advance_to fuel s target)) /\ G (mm (fst (advance_to fuel s target))).
Proof.
  induction fuel as [|fuel IH]; intros s target D Gs; cbn [advance_to]; [cbn; auto|].
  assert (Idle : forall t, Down {| tm := tm s; mm := mm_set_now (mm s) t |} /\ G (mm {| tm := tm s; mm := mm_set_now (mm s) t |})).
  { intro t. destruct D as (D1 & D2 & D3 & D4 & D5 & D6). split; [unfold Down; cbn; repeat split; assumption|exact Gs]. }
  destruct (earliest (pending (mm s))) as [i|] eqn:E; [|cbn [fst snd]; split; [reflexivity|apply Idle]].
  destruct (fst (item_key i) <=? target); [|cbn [fst snd]; split; [reflexivity|apply Idle]].
  apply earliest_In in E. pose proof (run_item_down s i D Gs E) as (R1 & R2 & R3 & _).
  destruct (run_item s i) as [s1 o1]. cbn [fst snd] in *. subst o1.
  specialize (IH s1 target R2 R3). destruct (advance_to fuel s1 target) as [s2 o2]. cbn [fst snd] in *. tauto.
Qed.

Lemma step_down s e : Down s -> G (mm s) -> in_scope e = true ->
  forallb quiet (snd (step s e)) = true /\ Down (fst (step s e)) /\ G (mm (fst (step s e))).
Proof.
  intros D Gs Sc. pose proof D as (D1 & D2 & D3 & D4 & D5 & D6).
  destruct e; try discriminate Sc; cbn [step].
  - pose proof (fire_down s D Gs) as (A & B & C). rewrite A. auto.
  - pose proof (advance_down ADVANCE_FUEL s (now (mm s) + d) D Gs) as (A & B & C). rewrite A. auto.
  - rewrite (request_after_shutdown s q r mt observe D2). cbn [fst snd]. split; [destruct observe; reflexivity|auto].
  - unfold client_cancel. rewrite D2. cbn. destruct s; auto.
  - cbn. split; [reflexivity|]. split; [unfold Down; cbn; repeat split; assumption|exact Gs].
  - destruct (find _ (resolving (tm s))) as [[[[q0 r] mt] ob]|]; [|cbn; auto].
    rewrite request_after_shutdown by exact D2. cbn [fst snd]. split; [destruct ob; reflexivity|].
    split; [unfold Down; cbn; repeat split; assumption|exact Gs].
  - unfold handler_respond. rewrite D3. cbn. auto.
  - unfold handler_respond. rewrite D3. cbn. auto.
  - unfold dispatch_error. rewrite D1. cbn. auto.
Qed.

Lemma run_down : forall es s, Down s -> G (mm s) -> forallb in_scope es = true ->
  forallb (forallb quiet) (snd (run s es)) = true /\ Down (fst (run s es)) /\ G (mm (fst (run s es))).
Proof.
  induction es as [|e es IH]; intros s D Gs Sc; cbn [run]; [cbn; auto|].
  cbn [forallb] in Sc. apply andb_true_iff in Sc. destruct Sc as [Se Ses].
  pose proof (step_down s e D Gs Se) as (A & B & C). destruct (step s e) as [s1 o]. cbn [fst snd] in *.
  specialize (IH s1 B C Ses). destruct (run s1 es) as [s2 os]. cbn [fst snd forallb] in *. rewrite A. tauto.
Qed.

(* "leaves nothing running": the only timers left are deduplication expiries; each Fire consumes one, none re-arms *)
Lemma timers_run_out : forall n s, Down s -> G (mm s) -> (length (forgets (mm s)) <= n)%nat ->
  pending (mm (fst (run s (repeat Fire n)))) = [].
Proof.
  induction n as [|n IH]; intros s D Gs L; cbn [repeat run].
  - cbn. destruct D as (_ & _ & _ & D4 & _). rewrite (pending_down _ D4).
    destruct (forgets (mm s)); [reflexivity|cbn in L; lia].
  - cbn [step]. unfold fire. destruct (earliest (pending (mm s))) as [i|] eqn:E.
    + apply earliest_In in E. pose proof (run_item_down s i D Gs E) as (R1 & R2 & R3 & R4).
      destruct (run_item s i) as [s1 o1]. cbn [fst snd] in *.
      assert (L1 : (length (forgets (mm s1)) <= n)%nat) by lia.
      specialize (IH s1 R2 R3 L1). destruct (run s1 (repeat Fire n)). exact IH.
    + assert (L1 : (length (forgets (mm s)) <= n)%nat).
      { destruct D as (_ & _ & _ & D4 & _). rewrite (pending_down _ D4) in E.
        destruct (forgets (mm s)) as [|f l]; [cbn; lia|]. cbn in E. destruct (earliest (map DForget l)); [destruct (key_lt _ _)|]; discriminate. }
      specialize (IH s D Gs L1). destruct (run s (repeat Fire n)). exact IH.
Qed.


Lemma NoDup_app_intro_one {A} (l : list A) a : NoDup l -> ~ In a l -> NoDup (l ++ [a]).
Proof.
  induction l as [|x l IH]; cbn; intros ND NI; [constructor; [intros []|constructor]|].
  inversion ND as [|? ? Hx ND']; subst. constructor.
  - intro I. apply in_app_or in I. destruct I as [I|[I|[]]]; [tauto|]. subst. tauto.
  - apply IH; tauto.
Qed.

(* ------------------------------------------------------------------------------------------------
   G holds in every reachable state: only _deduplicate_message adds a (key, pop-timer) pair, only the pop-timer
   removes it; everything else leaves [forgets] and the key set of [recents] alone *)
Definition FR (a b : mmst) : Prop := forgets b = forgets a /\ map rkey (recents b) = map rkey (recents a).
Lemma FR_refl a : FR a a. Proof. split; reflexivity. Qed.
Lemma FR_trans a b c : FR a b -> FR b c -> FR a c.
Proof. intros [A1 A2] [B1 B2]. split; congruence. Qed.
Lemma G_FR a b : G a -> FR a b -> G b.
Proof. intros [A1 A2] [B1 B2]. unfold G. rewrite B1, B2. auto. Qed.
Ltac fr := unfold FR; cbn; split; reflexivity.

Lemma FR_cancel s id : FR s (cancel s id). Proof. fr. Qed.
Lemma FR_call_later s d k : FR s (fst (call_later s d k)). Proof. fr. Qed.
Lemma FR_del_backlog s r : FR s (del_backlog s r). Proof. fr. Qed.
Lemma FR_set_backlog_items s r l : FR s (set_backlog_items s r l). Proof. fr. Qed.
Lemma FR_next_mid s : FR s (fst (_next_message_id s)). Proof. fr. Qed.
Lemma FR_fold_cancel {A} (f : A -> Z) l s : FR s (fold_left (fun a x => cancel a (f x)) l s).
Proof. pose proof (fold_cancel_same f l s) as H. unfold same_but_timers in H. split; [tauto|]. f_equal. tauto. Qed.

Lemma FR_store s m : FR s (_store_response_for_duplicates s m).
Proof.
  unfold _store_response_for_duplicates. destruct (negb (is_ack_or_rst (m_type m))); [apply FR_refl|].
  split; [reflexivity|]. cbn. rewrite map_map. apply map_ext. intro e.
  destruct (recent_is (m_remote m) (m_mid m) e); reflexivity.
Qed.

Lemma FR_add_exchange s m mon : FR s (fst (_add_exchange s m mon)).
Proof.
  unfold _add_exchange, _schedule_retransmit, call_later.
  destruct (has_backlog s (m_remote m)); cbn; destruct (exchanges s); fr.
Qed.

Lemma FR_send_initially s m mon : FR s (fst (_send_initially s m mon)).
Proof.
  unfold _send_initially. destruct (m_type m).
  - pose proof (FR_add_exchange s m mon) as H. destruct (_add_exchange s m mon) as [s1 o1]. cbn [fst] in H.
    destruct o1; cbn [fst]; [|exact H]. eapply FR_trans; [exact H|apply FR_store].
  - cbn [fst]. apply FR_store.
  - cbn [fst]. apply FR_store.
  - cbn [fst]. apply FR_store.
Qed.
Lemma FR_send_empty_ack s r mid : FR s (fst (_send_empty_ack s r mid)).
Proof. apply FR_send_initially. Qed.
Lemma FR_process_ping s m : FR s (fst (_process_ping s m)).
Proof. apply FR_send_initially. Qed.

Lemma FR_continue_backlog_loop fuel : forall s r, FR s (fst (_continue_backlog_loop fuel s r)).
Proof.
  induction fuel as [|fuel IH]; intros s r; cbn [_continue_backlog_loop]; [apply FR_refl|].
  destruct (exchanges s) as [xs|]; [|apply FR_refl].
  destruct (has_exchange xs r); [apply FR_refl|].
  destruct (backlog_items s r) as [[|[m mon] rest]|]; cbn [fst]; [apply FR_del_backlog| |apply FR_refl].
  pose proof (FR_send_initially (set_backlog_items s r rest) m mon) as H1.
  destruct (_send_initially (set_backlog_items s r rest) m mon) as [s1 o1]. cbn [fst] in H1.
  specialize (IH s1 r). destruct (_continue_backlog_loop fuel s1 r) as [s2 o2]. cbn [fst] in *.
  eapply FR_trans; [apply FR_set_backlog_items|]. eapply FR_trans; eassumption.
Qed.
Lemma FR_continue_backlog s r : FR s (fst (_continue_backlog s r)).
Proof. unfold _continue_backlog. destruct (backlog_items s r); [apply FR_continue_backlog_loop|apply FR_refl]. Qed.

Lemma FR_send_message s mt code tok obs r rt mon : FR s (fst (send_message s mt code tok obs r rt mon)).
Proof.
  unfold send_message.
  set (first := if is_response code then _ else _).
  assert (H1 : FR s (fst (fst first))).
  { unfold first. destruct (is_response code); [|apply FR_refl].
    destruct (find (piggy_is r tok) (piggys s)); [|apply FR_refl]. cbn [fst]. fr. }
  destruct first as [[s1 mt1] mid1]. cbn [fst] in H1.
  set (second := match mid1 with Some i => _ | None => _ end).
  assert (H2 : FR s1 (fst second)).
  { unfold second. destruct mid1; [apply FR_refl|apply FR_next_mid]. }
  destruct second as [s2 mid2]. cbn [fst] in H2.
  match goal with |- context [if ?c then _ else _] => destruct c end.
  - destruct (exchanges s2); [destruct (backlog_items s2 r)|]; cbn [fst];
      eapply FR_trans; try eassumption; try (eapply FR_trans; [eassumption|]); try apply FR_refl; apply FR_set_backlog_items.
  - eapply FR_trans; [eassumption|]. eapply FR_trans; [eassumption|]. apply FR_send_initially.
Qed.

Lemma FR_piggyback s m : FR s (_process_request_piggyback s m).
Proof.
  unfold _process_request_piggyback. destruct (m_type m); try apply FR_refl.
  unfold call_later. cbn.
  match goal with |- context [find ?p ?l] => destruct (find p l) end; fr.
Qed.

Lemma FR_on_timeout s r tok : FR s (fst (on_timeout s r tok)).
Proof.
  unfold on_timeout. destruct (find (piggy_is r tok) (piggys s)); [|apply FR_refl].
  eapply FR_trans; [|apply FR_send_empty_ack]. fr.
Qed.

Lemma FR_mm_shutdown s : FR s (fst (mm_shutdown s)).
Proof.
  unfold mm_shutdown. destruct (exchanges s) as [xs|]; [|apply FR_refl]. cbv zeta. cbn [fst].
  set (s1 := mm_set_exchanges (fold_left (fun a x => cancel a (x_timer x)) xs s) None).
  assert (H1 : FR s s1) by (eapply FR_trans; [apply (FR_fold_cancel x_timer xs s)|fr]).
  pose proof (FR_fold_cancel p_timer (piggys s1) s1) as H2.
  eapply FR_trans; [exact H1|]. eapply FR_trans; [exact H2|]. fr.
Qed.

(* insertion of a fresh key together with its pop-timer *)
Lemma G_dedup s m : G s -> G (fst (fst (_deduplicate_message s m))).
Proof.
  intro Gs. unfold _deduplicate_message.
  destruct (find (recent_is (m_remote m) (m_mid m)) (recents s)) as [e|] eqn:F.
  - destruct (m_type m); cbn [fst]; try exact Gs. destruct (r_stored e); cbn [fst]; [|exact Gs].
    pose proof (FR_send_initially s m0 MonNone) as H. destruct (_send_initially s m0 MonNone). cbn [fst] in *.
    eapply G_FR; eassumption.
  - cbn [fst]. destruct Gs as [ND INC]. unfold G, call_later_forget. cbn.
    assert (NI : ~ In (m_remote m, m_mid m) (map rkey (recents s))).
    { intro I. apply existsb_recent in I. apply existsb_exists in I. destruct I as (e & Ie & He).
      pose proof (find_none _ _ F e Ie). congruence. }
    rewrite !map_app. cbn [map]. change (fkey {| f_due := now s + EXCHANGE_LIFETIME; f_id := next_tid s; f_remote := m_remote m; f_mid := m_mid m |}) with (m_remote m, m_mid m). change (rkey {| r_remote := m_remote m; r_mid := m_mid m; r_stored := None |}) with (m_remote m, m_mid m). split.
    + apply NoDup_app_intro_one; [exact ND|]. intro I. apply NI. apply INC. exact I.
    + intros k Hk. apply in_app_or in Hk. apply in_or_app. destruct Hk as [Hk|Hk]; [left; apply INC; exact Hk|right; exact Hk].
Qed.


Lemma FR_remove_exchange s m : FR (mm s) (mm (fst (_remove_exchange s m))).
Proof.
  unfold _remove_exchange. destruct (exchanges (mm s)) as [xs|]; [|apply FR_refl].
  destruct (find (exchange_is (m_remote m) (m_mid m)) xs) as [x|]; [|apply FR_refl].
  set (mm1 := cancel _ (x_timer x)).
  assert (H1 : FR (mm s) mm1) by (unfold mm1; fr).
  destruct (match m_type m with RST => call_monitor (now mm1) (tm s) (x_mon x) | _ => (tm s, []) end) as [tm1 o1].
  pose proof (FR_continue_backlog mm1 (m_remote m)) as H2. destruct (_continue_backlog mm1 (m_remote m)) as [mm2 o2].
  cbn [fst mm] in *. exact (FR_trans _ _ _ H1 H2).
Qed.

Lemma FR_handler_respond s h code last obs lg : FR (mm s) (mm (fst (handler_respond s h code last obs lg))).
Proof.
  unfold handler_respond. destruct (incoming (tm s)) as [l|]; [|apply FR_refl].
  destruct (find (fun i => i_h i =? h) l) as [i|]; [|apply FR_refl].
  pose proof (FR_send_message (mm s) None code (i_tok i) obs (i_remote i) (Some (i_type i)) (MonSrv h)) as H.
  destruct (send_message _ _ _ _ _ _ _ _) as [mm1 out]. exact H.
Qed.

Lemma FR_dispatch_error s e r : FR (mm s) (mm (fst (dispatch_error s e r))).
Proof.
  unfold dispatch_error. destruct (exchanges (mm s)) as [xs|]; [|apply FR_refl].
  destruct (tm_dispatch_error _ _ _ _) as [tm1 o1]. cbn [fst mm].
  eapply FR_trans; [|apply FR_del_backlog]. eapply FR_trans; [|apply FR_fold_cancel]. fr.
Qed.

Lemma FR_retransmit s m timeout count : FR (mm s) (mm (fst (_retransmit s m timeout count))).
Proof.
  unfold _retransmit. destruct (exchanges (mm s)) as [xs|]; [|apply FR_refl].
  destruct (find (exchange_is (m_remote m) (m_mid m)) xs) as [x|]; [|apply FR_refl].
  set (mm1 := cancel _ (x_timer x)). assert (H1 : FR (mm s) mm1) by (unfold mm1; fr).
  destruct (count <? MAX_RETRANSMIT).
  - unfold _schedule_retransmit, call_later. cbn [fst mm]. eapply FR_trans; [exact H1|]. fr.
  - destruct (has_backlog mm1 (m_remote m)); [|exact H1].
    destruct (tm_dispatch_error _ _ _ _) as [tm1 o]. cbn [fst mm]. eapply FR_trans; [exact H1|apply FR_del_backlog].
Qed.

Lemma G_run_item s i : G (mm s) -> In i (pending (mm s)) -> G (mm (fst (run_item s i))).
Proof.
  intros Gs I. unfold pending in I. apply in_app_or in I. destruct I as [I|I]; apply in_map_iff in I; destruct I as (x & <- & Ix).
  - unfold run_item. set (mm0 := mm_set_now _ _). assert (H0 : FR (mm s) mm0) by (unfold mm0; fr).
    destruct (t_kind x).
    + pose proof (FR_retransmit {| tm := tm s; mm := mm0 |} m timeout count) as H. cbn [mm] in H.
      eapply G_FR; [exact Gs|]. exact (FR_trans _ _ _ H0 H).
    + pose proof (FR_on_timeout mm0 r tok) as H. destruct (on_timeout mm0 r tok) as [mm1 o]. cbn [fst mm] in *.
      eapply G_FR; [exact Gs|]. exact (FR_trans _ _ _ H0 H).
  - unfold run_item.
    pose proof (forget_fires (mm s) x (Z.max (now (mm s)) (f_due x)) Gs Ix) as H. cbv zeta in H.
    destruct (forget_recent _ (f_remote x) (f_mid x)) as [mm1 o]. cbn [fst snd mm] in *. tauto.
Qed.

Lemma G_fire s : G (mm s) -> G (mm (fst (fire s))).
Proof.
  intro Gs. unfold fire. destruct (earliest (pending (mm s))) as [i|] eqn:E; [|exact Gs].
  apply G_run_item; [exact Gs|apply earliest_In; exact E].
Qed.
Lemma G_advance fuel : forall s target, G (mm s) -> G (mm (fst (advance_to fuel s target))).
Proof.
  induction fuel as [|fuel IH]; intros s target Gs; cbn [advance_to]; [exact Gs|].
  destruct (earliest (pending (mm s))) as [i|] eqn:E; [|exact Gs].
  destruct (fst (item_key i) <=? target); [|exact Gs].
  pose proof (G_run_item s i Gs (earliest_In _ _ E)) as H. destruct (run_item s i) as [s1 o1]. cbn [fst] in H.
  specialize (IH s1 target H). destruct (advance_to fuel s1 target) as [s2 o2]. exact IH.
Qed.

Lemma G_dispatch_message s m : G (mm s) -> G (mm (fst (dispatch_message s m))).
Proof.
  intro Gs. unfold dispatch_message.
  set (d := if is_request (m_code m) then _deduplicate_message (mm s) m else (mm s, [], false)).
  assert (H1 : G (fst (fst d))).
  { unfold d. destruct (is_request (m_code m)); [apply G_dedup; exact Gs|exact Gs]. }
  destruct d as [[mm1 o1] dup]. cbn [fst] in H1. destruct dup; [exact H1|].
  set (s1 := {| tm := tm s; mm := mm1 |}).
  set (r2 := if is_ack_or_rst (m_type m) then _remove_exchange s1 m else (s1, [])).
  assert (H2 : G (mm (fst r2))).
  { unfold r2. destruct (is_ack_or_rst (m_type m)); [|exact H1]. eapply G_FR; [exact H1|apply (FR_remove_exchange s1 m)]. }
  destruct r2 as [s2 o2]. cbn [fst] in H2.
  match goal with |- G (mm (fst (let '(s3, o3) := ?X in _))) => assert (H3 : G (mm (fst X))); [|destruct X as [s3 o3]; exact H3] end.
  destruct ((m_code m =? EMPTY) && mtype_eqb (m_type m) CON).
  { pose proof (FR_process_ping (mm s2) m) as H. destruct (_process_ping (mm s2) m). cbn [fst mm] in *. eapply G_FR; eassumption. }
  destruct ((m_code m =? EMPTY) && is_ack_or_rst (m_type m)); [exact H2|].
  destruct (is_request (m_code m) && negb (is_ack_or_rst (m_type m))).
  { destruct (tm_process_request (tm s2) m). cbn [fst mm]. eapply G_FR; [exact H2|apply FR_piggyback]. }
  destruct (is_response (m_code m) && negb (mtype_eqb (m_type m) RST)); [|exact H2].
  destruct (tm_process_response (now (mm s2)) (tm s2) m) as [[tm3 o] success].
  destruct success; destruct (m_type m); cbn [fst mm]; try exact H2.
  - pose proof (FR_send_empty_ack (mm s2) (m_remote m) (m_mid m)) as H. destruct (_send_empty_ack _ _ _). cbn [fst mm] in *. eapply G_FR; eassumption.
  - match goal with |- context [_send_initially ?a ?b ?c] => pose proof (FR_send_initially a b c) as H; destruct (_send_initially a b c) end.
    cbn [fst mm] in *. eapply G_FR; eassumption.
Qed.

Lemma G_step s e : G (mm s) -> G (mm (fst (step s e))).
Proof.
  intro Gs. destruct e; cbn [step].
  - apply G_dispatch_message; exact Gs.
  - apply G_fire; exact Gs.
  - apply G_advance; exact Gs.
  - unfold tm_request. destruct (outgoing (tm s)); [|exact Gs]. destruct (next_token (tm s)) as [tm1 tok].
    match goal with |- context [send_message ?a ?b ?c ?d ?e ?f ?g ?h] => pose proof (FR_send_message a b c d e f g h) as H; destruct (send_message a b c d e f g h) end.
    cbn [fst mm] in *. eapply G_FR; eassumption.
  - destruct (client_cancel (tm s) q). exact Gs.
  - exact Gs.
  - destruct (find _ (resolving (tm s))) as [[[[q0 r] mt] ob]|]; [|exact Gs].
    unfold tm_request. cbn [tm mm]. destruct (outgoing _); [|exact Gs]. destruct (next_token _) as [tm1 tok].
    match goal with |- context [send_message ?a ?b ?c ?d ?e ?f ?g ?h] => pose proof (FR_send_message a b c d e f g h) as H; destruct (send_message a b c d e f g h) end.
    cbn [fst mm] in *. eapply G_FR; eassumption.
  - eapply G_FR; [exact Gs|apply FR_handler_respond].
  - eapply G_FR; [exact Gs|apply FR_handler_respond].
  - eapply G_FR; [exact Gs|apply FR_dispatch_error].
  - unfold shutdown. destruct (tm_shutdown_incoming (tm s)) as [tm1 o1]. destruct (tm_shutdown_outgoing _ tm1) as [tm2 o2].
    pose proof (FR_mm_shutdown (mm s)) as H. destruct (mm_shutdown (mm s)) as [mm1 o3]. cbn [fst mm] in *. eapply G_FR; eassumption.
Qed.

Lemma G_run : forall es s, G (mm s) -> G (mm (fst (run s es))).
Proof.
  induction es as [|e es IH]; intros s Gs; cbn [run]; [exact Gs|].
  pose proof (G_step s e Gs) as H. destruct (step s e) as [s1 o]. cbn [fst] in H.
  specialize (IH s1 H). destruct (run s1 es). exact IH.
Qed.
Lemma G_init u m t : G (mm (init u m t)).
Proof. unfold G; cbn. split; [constructor|intros ? []]. Qed.

(* the composed statement for every history from a fresh context; [timers_owned] at the moment of shutdown is the
   one hypothesis not yet proved to be an invariant of every reachable state (see notes/C18.md) *)
Theorem shutdown_at_any_moment_partial : forall u m t before after xs,
  let s := fst (run (init u m t) before) in
  exchanges (mm s) = Some xs -> timers_owned (mm s) -> forallb in_scope after = true ->
  let s' := fst (step s Shutdown) in
  snd (step s Shutdown) = map (fun i => OHCancel (i_h i)) (ilist (tm s)) ++ flat_map shutdown_outcome (olist (tm s)) ++ [OShutdownDone] /\
  forallb (forallb quiet) (snd (run s' after)) = true /\
  pending (mm (fst (run (fst (run s' after)) (repeat Fire (length (forgets (mm (fst (run s' after))))))))) = [].
Proof.
  intros u m t before after xs s E Own Sc s'.
  pose proof (shutdown_step s xs E Own) as (D & O & F1 & F2 & F3).
  assert (Gs : G (mm s)) by (apply G_run; apply G_init).
  assert (Gs' : G (mm s')).
  { unfold s'. cbn [step]. destruct Gs as [A B]. unfold G. rewrite F1, F2. auto. }
  pose proof (run_down after s' D Gs' Sc) as (Q & D2 & G2).
  split; [exact O|]. split; [exact Q|]. apply timers_run_out; auto.
Qed.

(* ------------------------------------------------------------------------------------------------
   Theorem: contexts are independent — the other context's state and outputs are exactly those of running alone *)
Lemma run2_independent : forall es a b,
  fst (fst (run2 (a, b) es)) = fst (run a (events_of false es)) /\
  snd (fst (run2 (a, b) es)) = fst (run b (events_of true es)).
Proof.
  induction es as [|[c e] es IH]; intros a b; [cbn; auto|].
  cbn [run2 step2 fst snd]. destruct c; cbn [fst snd].
  - destruct (step b e) as [b' o] eqn:E. specialize (IH a b'). destruct (run2 (a, b') es) as [p2 os].
    unfold events_of in *. cbn [filter fst snd Bool.eqb map run]. rewrite E.
    destruct (run b' (map snd (filter (fun ce => Bool.eqb (fst ce) true) es))). cbn [fst snd] in *. exact IH.
  - destruct (step a e) as [a' o] eqn:E. specialize (IH a' b). destruct (run2 (a', b) es) as [p2 os].
    unfold events_of in *. cbn [filter fst snd Bool.eqb map run]. rewrite E.
    destruct (run a' (map snd (filter (fun ce => Bool.eqb (fst ce) false) es))). cbn [fst snd] in *. exact IH.
Qed.

(* outputs too: the sub-list of steps addressed to one context is that context's own output trace *)
Fixpoint outputs_of (c : bool) (es : list (bool * event)) (os : list (list output)) : list (list output) :=
  match es, os with
  | ce :: es', o :: os' => if Bool.eqb (fst ce) c then o :: outputs_of c es' os' else outputs_of c es' os'
  | _, _ => []
  end.
Lemma run2_outputs : forall es a b,
  outputs_of false es (snd (run2 (a, b) es)) = snd (run a (events_of false es)) /\
  outputs_of true es (snd (run2 (a, b) es)) = snd (run b (events_of true es)).
Proof.
  induction es as [|[c e] es IH]; intros a b; [cbn; auto|].
  cbn [run2 step2 fst snd]. destruct c; cbn [fst snd].
  - destruct (step b e) as [b' o] eqn:E. specialize (IH a b'). destruct (run2 (a, b') es) as [p2 os].
    unfold events_of in *. cbn [filter fst snd Bool.eqb map run outputs_of]. rewrite E.
    destruct (run b' (map snd (filter (fun ce => Bool.eqb (fst ce) true) es))). cbn [fst snd] in *.
    destruct IH as [I1 I2]. split; [exact I1|f_equal; exact I2].
  - destruct (step a e) as [a' o] eqn:E. specialize (IH a' b). destruct (run2 (a', b) es) as [p2 os].
    unfold events_of in *. cbn [filter fst snd Bool.eqb map run outputs_of]. rewrite E.
    destruct (run a' (map snd (filter (fun ce => Bool.eqb (fst ce) false) es))). cbn [fst snd] in *.
    destruct IH as [I1 I2]. split; [f_equal; exact I1|exact I2].
Qed.

(* ------------------------------------------------------------------------------------------------
   F13 (repaired in /repo by 9f0e20f): without cancelling the empty-ACK timers, a timer of the shut-down context
   fires and sends (on the real udp6 transport: raises AttributeError inside the event loop) *)
Definition f13_history : list event :=
  [Recv {| m_type := CON; m_code := GET; m_mid := 100; m_token := 7; m_obs := None; m_remote := 1 |}].
Lemma f13_refuted :
  let s := fst (run (init 2000000 0 0) f13_history) in
  let s' := fst (shutdown_f13 s) in
  In OShutdownDone (snd (shutdown_f13 s)) /\
  snd (fire s') = [OSend {| m_type := ACK; m_code := EMPTY; m_mid := 100; m_token := 0; m_obs := None; m_remote := 1 |}] /\
  snd (fire (fst (shutdown s))) = [].
Proof. vm_compute. repeat split. right; left; reflexivity. Qed.

(* the run-time check [orphans] decides [timers_owned] *)
Lemma orphans_zero s : orphans s = 0 -> timers_owned s.
Proof.
  unfold orphans, timers_owned. intros H t It.
  assert (L : filter (fun t => negb (existsb (fun x => x_timer x =? t_id t) (match exchanges s with Some xs => xs | None => [] end)
          || existsb (fun p => p_timer p =? t_id t) (piggys s))) (timers s) = []).
  { destruct (filter _ (timers s)); [reflexivity|cbn in H; lia]. }
  pose proof (proj2 (filter_In (fun t => negb (existsb (fun x => x_timer x =? t_id t) (match exchanges s with Some xs => xs | None => [] end)
          || existsb (fun p => p_timer p =? t_id t) (piggys s))) t (timers s))) as F. rewrite L in F.
  destruct (existsb (fun x => x_timer x =? t_id t) (match exchanges s with Some xs => xs | None => [] end)) eqn:E1.
  - left. apply existsb_exists in E1. destruct E1 as (x & Ix & Hx). apply Z.eqb_eq in Hx. rewrite <- Hx. apply in_map. exact Ix.
  - destruct (existsb (fun p => p_timer p =? t_id t) (piggys s)) eqn:E2.
    + right. apply existsb_exists in E2. destruct E2 as (p & Ip & Hp). apply Z.eqb_eq in Hp. rewrite <- Hp. apply in_map. exact Ip.
    + exfalso. apply F. split; [exact It|reflexivity].
Qed.

(* ------------------------------------------------------------------------------------------------
   a concrete busy history (non-vacuity of the hypotheses of the shutdown theorems) *)
Definition busy_history : list event :=
  [ ClientRequest 1 1 CON true;                                                              (* observation, established below *)
    Recv {| m_type := CON; m_code := GET; m_mid := 100; m_token := 7; m_obs := Some 0; m_remote := 1 |};   (* handler 0, empty-ACK timer *)
    ClientRequest 2 1 CON false;                                                             (* queued behind request 1 (NSTART) *)
    Recv {| m_type := ACK; m_code := 69; m_mid := 0; m_token := 1; m_obs := Some 4; m_remote := 1 |};     (* first notification; releases request 2 *)
    Recv {| m_type := NON; m_code := GET; m_mid := 200; m_token := 8; m_obs := None; m_remote := 2 |};    (* handler 1 *)
    ClientRequest 3 2 NON false;                                                             (* awaiting a response, no exchange *)
    ClientRequest 4 1 CON true;                                                              (* backlog behind request 2 *)
    Advance 100000;                                                                          (* empty ACK for handler 0 *)
    HandlerRespond 0 69 false (Some 1) false;                                                      (* separate CON response: exchange with a server-side monitor; queued behind request 2 *)
    Recv {| m_type := CON; m_code := GET; m_mid := 101; m_token := 9; m_obs := None; m_remote := 3 |} ].  (* handler 2, empty-ACK timer pending *)
Definition busy_state : st := fst (run (init 2000000 0 0) busy_history).
Lemma busy_state_facts :
  exists xs, exchanges (mm busy_state) = Some xs /\ xs <> [] /\ orphans (mm busy_state) = 0 /\
  length (olist (tm busy_state)) = 4%nat /\ length (ilist (tm busy_state)) = 3%nat /\ length (piggys (mm busy_state)) = 1%nat /\
  length (timers (mm busy_state)) = 2%nat /\ length (forgets (mm busy_state)) = 3%nat /\ backlogs (mm busy_state) <> [] /\
  snd (step busy_state Shutdown) =
    [OHCancel 0; OHCancel 1; OHCancel 2; OObsEnd 1 LibraryShutdown; OFail 2 LibraryShutdown; OFail 3 LibraryShutdown;
     OFail 4 LibraryShutdown; OObsEnd 4 NotObservable; OShutdownDone].
Proof. vm_compute. eexists. repeat split; try reflexivity; discriminate. Qed.
Lemma busy_state_owned : timers_owned (mm busy_state).
Proof. apply orphans_zero. vm_compute. reflexivity. Qed.
Lemma reachable_G es u m t : G (mm (fst (run (init u m t) es))).
Proof. apply G_run. apply G_init. Qed.
Lemma down_nonvacuous : Down (fst (step busy_state Shutdown)) /\ G (mm (fst (step busy_state Shutdown))) /\
  forgets (mm (fst (step busy_state Shutdown))) <> [].
Proof.
  destruct busy_state_facts as (xs & E & _).
  pose proof (shutdown_step busy_state xs E busy_state_owned) as (D & _ & F1 & F2 & _).
  split; [exact D|]. split.
  - pose proof (reachable_G busy_history 2000000 0 0) as [A B]. unfold G. cbn [step]. rewrite F1, F2. split; assumption.
  - cbn [step]. rewrite F1. vm_compute. discriminate.
Qed.
