(* C03 — the TransportTuning formulas translated from numbers/constants.py (Gen/c03_constants.v) and the class table of
   error.py: defaults are the RFC 7252 values, the derived spans are the RFC formulas for every tuning, and the give-up
   instant of the retransmission model lies within MAX_TRANSMIT_WAIT as computed by the translated code. *)
From Coq Require Import ZArith QArith Lia List String.
From Verif Require Import Gen.c03_constants Model.C03 Model.C03const Proofs.C03struct Proofs.C03main.
Import ListNotations.
Open Scope Z_scope.

(* ACK_TIMEOUT 2 s, ACK_RANDOM_FACTOR 1.5, MAX_RETRANSMIT 4, MAX_TRANSMIT_SPAN 45 s, MAX_TRANSMIT_WAIT 93 s, PROCESSING_DELAY 2 s,
   MAX_RTT 202 s, EXCHANGE_LIFETIME 247 s, MAX_LATENCY 100 s, EMPTY_ACK_DELAY 0.1 s, OBSERVATION_RESET_TIME 128, NSTART 1;
   every one a whole number of microseconds *)
Lemma defaults_match_rfc :
  derived_us default_transport_tuning =
  [(2000000, 1); (1500000, 1); (4, 1); (45000000, 1); (93000000, 1); (2000000, 1); (202000000, 1); (247000000, 1);
   (100000000, 1); (100000, 1); (128, 1); (1, 1)].
Proof. vm_compute. reflexivity. Qed.

Lemma derived_formulas : forall t : transport_tuning,
  (MAX_TRANSMIT_SPAN t == tt_ACK_TIMEOUT t * inject_Z (2 ^ tt_MAX_RETRANSMIT t - 1) * tt_ACK_RANDOM_FACTOR t)%Q /\
  (MAX_TRANSMIT_WAIT t == tt_ACK_TIMEOUT t * inject_Z (2 ^ (tt_MAX_RETRANSMIT t + 1) - 1) * tt_ACK_RANDOM_FACTOR t)%Q /\
  (PROCESSING_DELAY t == tt_ACK_TIMEOUT t)%Q /\
  (MAX_RTT t == inject_Z 2 * tt_MAX_LATENCY t + tt_ACK_TIMEOUT t)%Q /\
  (EXCHANGE_LIFETIME t == MAX_TRANSMIT_SPAN t + MAX_RTT t)%Q.
Proof. intros t. repeat split; reflexivity. Qed.

(* seconds (Q) of a microsecond count *)
Definition q_of_us (us : Z) : Q := Qmake us 1000000.

Lemma giveup_within_MAX_TRANSMIT_WAIT : forall tn t, wf_tuning tn -> range tn t ->
  (q_of_us (t * (2 ^ (MAX_RETRANSMIT tn + 1) - 1)) <= MAX_TRANSMIT_WAIT (tt_of tn))%Q /\
  (q_of_us (t * (2 ^ MAX_RETRANSMIT tn - 1)) <= MAX_TRANSMIT_SPAN (tt_of tn))%Q.
Proof.
  intros tn t Hwf Hr. destruct (within_max_transmit_wait tn t Hwf Hr) as [H1 H2].
  destruct Hwf as (HA & Hd & Hn & HR).
  unfold MAX_TRANSMIT_WAIT, MAX_TRANSMIT_SPAN, tt_of, q_of_us, Qle. cbn [tt_ACK_TIMEOUT tt_ACK_RANDOM_FACTOR tt_MAX_RETRANSMIT Qmult Qnum Qden inject_Z].
  rewrite !Pos2Z.inj_mul, !Z2Pos.id by lia. split; nia.
Qed.

Open Scope string_scope.
Lemma error_classes :
  is_subclass "ConRetransmitsExceeded" "TimeoutError" = true /\ is_subclass "ConRetransmitsExceeded" "NetworkError" = true /\
  is_subclass "TimeoutError" "NetworkError" = true /\ is_subclass "MessageError" "NetworkError" = true /\
  is_subclass "NetworkError" "Error" = true /\ is_subclass "MessageError" "TimeoutError" = false.
Proof. vm_compute. repeat split; reflexivity. Qed.
