(* C10 — round 6: a message that is not a duplicate has no piggy-back opportunity recorded under its (peer, message ID), in every
   reachable state — which discharges the hypothesis [cnt (rpeer r) (mid m) (piggy s) = 0] of the exactly-once theorems.
   Reason: an opportunity lives at most EMPTY_ACK_DELAY (0.1 s), the deduplication entry of the request that created it EXCHANGE_LIFETIME
   (247 s), and the loop fires handles in order of their due time. *)
From Verif Require Import Lib.Py Lib.Tactics Model.C10 Proofs.C10 Proofs.C10Acks Proofs.C10Live Proofs.C10Gone.
Open Scope Z_scope.

(* ------------------------------------------------------------------ association lists keyed by (peer, mid) *)
Notation rcl := (list ((Z * Z) * option (remote * wire))).
Lemma zz_eqb_refl k : zz_eqb k k = true.
Proof. destruct k. unfold zz_eqb. cbn. rewrite !Z.eqb_refl. reflexivity. Qed.
Lemma zz_eqb_false a b : a <> b -> zz_eqb a b = false.
Proof. intros H. destruct (zz_eqb a b) eqn:E; [apply zz_eqb_eq in E; contradiction|reflexivity]. Qed.
Lemma zget_adel (l : rcl) k k' : aget zz_eqb (adel zz_eqb l k) k' = if zz_eqb k k' then None else aget zz_eqb l k'.
Proof.
  induction l as [|[k0 v0] l IH]; cbn; [destruct (zz_eqb k k'); reflexivity|]. destruct (zz_eqb k0 k) eqn:E.
  - apply zz_eqb_eq in E. subst k0. rewrite IH. destruct (zz_eqb k k'); reflexivity.
  - cbn. destruct (zz_eqb k0 k') eqn:E2; [|exact IH]. apply zz_eqb_eq in E2. subst k0. rewrite zz_eqb_false; [reflexivity|].
    intros ->. rewrite zz_eqb_refl in E. discriminate.
Qed.
Lemma zget_areplace (l : rcl) k v k' : (aget zz_eqb (areplace zz_eqb l k v) k' = None) <-> (aget zz_eqb l k' = None).
Proof.
  induction l as [|[k0 v0] l IH]; cbn; [tauto|]. destruct (zz_eqb k0 k) eqn:E; cbn.
  - destruct (zz_eqb k0 k'); [split; discriminate|tauto].
  - destruct (zz_eqb k0 k'); [split; discriminate|exact IH].
Qed.
Lemma zget_app (l : rcl) k v k' : aget zz_eqb (l ++ [(k, v)]) k' = match aget zz_eqb l k' with Some x => Some x | None => if zz_eqb k k' then Some v else None end.
Proof. induction l as [|[k0 v0] l IH]; cbn; [reflexivity|]. destruct (zz_eqb k0 k'); auto. Qed.
(* assignment to a present key keeps the key set; to an absent key adds exactly that key *)
Lemma zget_aset_present (l : rcl) k v k' : amem zz_eqb l k = true -> (aget zz_eqb (aset zz_eqb l k v) k' = None <-> aget zz_eqb l k' = None).
Proof. intros H. unfold aset. rewrite H. apply zget_areplace. Qed.
Lemma zget_aset_absent (l : rcl) k v k' : aget zz_eqb l k = None ->
  (aget zz_eqb (aset zz_eqb l k v) k' = None <-> (aget zz_eqb l k' = None /\ k' <> k)).
Proof.
  intros H. unfold aset, amem. rewrite H. rewrite zget_app. destruct (aget zz_eqb l k') eqn:E.
  - split; [discriminate|intros [? _]; discriminate].
  - destruct (zz_eqb k k') eqn:E2.
    + apply zz_eqb_eq in E2. split; [discriminate|intros [_ Hn]; congruence].
    + split; [intros _; split; [reflexivity|]|reflexivity]. intros ->. rewrite zz_eqb_refl in E2. discriminate.
Qed.

(* ------------------------------------------------------------------ the Forget handles among the other handles *)
Definition is_forget (t : timer) : bool := match kind t with Forget _ _ => true | _ => false end.
Definition forgets (l : list timer) : list timer := filter is_forget l.
Definition isf (p md : Z) (t : timer) : bool := match kind t with Forget p' md' => (p' =? p) && (md' =? md) | _ => false end.
Definition nforget (p md : Z) (l : list timer) : nat := length (filter (isf p md) (forgets l)).
(* [a] is obtained from [b] by removing elements *)
Definition sub (a b : list timer) : Prop := incl a b /\ forall g, (length (filter g a) <= length (filter g b))%nat.
Lemma sub_refl a : sub a a. Proof. split; [apply incl_refl|auto]. Qed.
Lemma sub_trans a b c : sub a b -> sub b c -> sub a c.
Proof. intros [A1 A2] [B1 B2]. split; [eapply incl_tran; eauto|]. intros g. specialize (A2 g). specialize (B2 g). lia. Qed.
Lemma filter_filter_le {A} (g h : A -> bool) l : (length (filter g (filter h l)) <= length (filter g l))%nat.
Proof. induction l as [|x l IH]; cbn; [lia|]. destruct (h x); cbn; destruct (g x); cbn; lia. Qed.
Lemma sub_filter h l : sub (filter h l) l.
Proof. split; [intros x Hx; apply filter_In in Hx; tauto|intros g; apply filter_filter_le]. Qed.
Lemma forgets_cancel l id : forgets (cancel l id) = cancel (forgets l) id.
Proof.
  unfold forgets, cancel. induction l as [|x l IH]; cbn; [reflexivity|].
  destruct (negb (tid x =? id)) eqn:E1; destruct (is_forget x) eqn:E2; cbn; rewrite ?E1, ?E2; cbn; rewrite IH; reflexivity.
Qed.
Lemma forgets_snoc l x : forgets (l ++ [x]) = if is_forget x then forgets l ++ [x] else forgets l.
Proof. unfold forgets. rewrite filter_app. cbn. destruct (is_forget x); [reflexivity|apply app_nil_r]. Qed.

(* ------------------------------------------------------------------ functions that neither register / forget a message ID nor touch opportunities *)
Definition RF (s s' : st) : Prop :=
  piggy s' = piggy s /\ atimers s' = atimers s /\ (forall k, aget zz_eqb (recent s') k = None <-> aget zz_eqb (recent s) k = None) /\
  sub (forgets (rtimers s')) (forgets (rtimers s)).
Lemma RF_refl s : RF s s. Proof. unfold RF. repeat split; auto; apply sub_refl. Qed.
Lemma RF_trans a b c : RF a b -> RF b c -> RF a c.
Proof.
  intros (A1 & A2 & A3 & A4) (B1 & B2 & B3 & B4). split; [congruence|]. split; [congruence|]. split; [|eapply sub_trans; eauto].
  intros k. rewrite B3. apply A3.
Qed.
Ltac rf := unfold RF; cbn; repeat split; auto; try apply sub_refl.

Lemma RF_store s r m : RF s (_store_response_for_duplicates s r m).
Proof.
  unfold _store_response_for_duplicates. destruct (mtype m); try apply RF_refl; destruct (amem zz_eqb (recent s) (rpeer r, mid m)) eqn:E; try apply RF_refl;
    (unfold RF; cbn; split; [reflexivity|split; [reflexivity|split; [intros k; apply zget_aset_present; exact E|apply sub_refl]]]).
Qed.
Lemma RF_add_exchange s r m mon : RF s (_add_exchange s r m mon).
Proof.
  unfold _add_exchange, call_later_r. destruct (amem _ _ _); unfold RF; cbn; (split; [reflexivity|split; [reflexivity|split; [tauto|]]]);
    rewrite forgets_snoc; cbn; apply sub_refl.
Qed.
Lemma RF_send_initially s r m mon : RF s (fst (_send_initially s r m mon)).
Proof.
  unfold _send_initially. cbn [fst]. destruct (mtype m); try apply RF_store. eapply RF_trans; [apply RF_add_exchange|apply RF_store].
Qed.
Lemma RF_fail_request s q e : RF s (fst (fail_request s q e)).
Proof. unfold fail_request. destruct (find_req _ _); cbn [fst]; [rf; tauto|apply RF_refl]. Qed.
Lemma RF_run_monitor s mon : RF s (fst (run_monitor s mon)).
Proof. destruct mon; cbn [run_monitor]; [apply RF_fail_request|apply RF_refl]. Qed.
Lemma RF_tail s1 r1 build mt md mon rq : RF s1 (fst (fst (send_message_tail s1 r1 build mt md mon rq))).
Proof.
  unfold send_message_tail. destruct (mtype_eqb _ CON && is_multicast r1); [apply RF_refl|].
  set (q := match md with Some v => (s1, v) | None => _next_message_id s1 end).
  assert (Hq : RF s1 (fst q)) by (subst q; destruct md; cbn [fst _next_message_id]; [apply RF_refl|rf; tauto]).
  destruct q as [s2 md1]. cbn [fst] in Hq.
  destruct (mtype_eqb _ CON && amem Z.eqb (backlogs s2) (rpeer r1)).
  - cbn [fst]. eapply RF_trans; [exact Hq|rf; tauto].
  - pose proof (RF_send_initially s2 r1 (build (select_mtype mt r1 rq) md1) mon) as Hf.
    destruct (_send_initially s2 r1 (build (select_mtype mt r1 rq) md1) mon). cbn [fst] in *. eapply RF_trans; eauto.
Qed.
Lemma RF_tm_process_response s r m : RF s (fst (fst (tm_process_response s r m))).
Proof.
  unfold tm_process_response.
  match goal with |- context [aget ok_eqb (outgoing s) ?k] => destruct (aget ok_eqb (outgoing s) k) as [[q ob]|] end; cbn [fst]; [|apply RF_refl].
  destruct (negb _); [rf; tauto|apply RF_refl].
Qed.
Lemma RF_tm_dispatch_error s p e : RF s (fst (tm_dispatch_error s p e)).
Proof. unfold tm_dispatch_error. cbn [fst]. rf; tauto. Qed.
Lemma RF_continue_loop bl : forall s p, RF s (fst (_continue_backlog_loop s p bl)).
Proof.
  induction bl as [|[[r m] mon] bl IH]; intros s p; cbn [_continue_backlog_loop].
  - destruct (has_exchange s p); rf; tauto.
  - destruct (has_exchange s p); [rf; tauto|].
    pose proof (RF_send_initially s r m mon) as H1. destruct (_send_initially s r m mon) as [s1 o1]. cbn [fst] in H1.
    specialize (IH s1 p). destruct (_continue_backlog_loop s1 p bl) as [s2 o2]. cbn [fst] in *. eapply RF_trans; eauto.
Qed.
Lemma RF_continue_backlog s p : RF s (fst (_continue_backlog s p)).
Proof. unfold _continue_backlog. destruct (aget Z.eqb (backlogs s) p); [apply RF_continue_loop|apply RF_refl]. Qed.
Lemma RF_cancel_r s id : RF s (cancel_r s id).
Proof. unfold RF. cbn. split; [reflexivity|split; [reflexivity|split; [tauto|]]]. rewrite forgets_cancel. apply sub_filter. Qed.
Lemma RF_remove_exchange s r m : RF s (fst (_remove_exchange s r m)).
Proof.
  unfold _remove_exchange. destruct (aget zz_eqb (exch s) (rpeer r, mid m)) as [[mon h]|]; [|apply RF_refl].
  set (s1 := cancel_r _ h). assert (H1 : RF s s1) by (subst s1; eapply RF_trans; [|apply RF_cancel_r]; rf; tauto).
  set (q := match mtype m with RST => run_monitor s1 mon | _ => (s1, []) end).
  assert (Hq : RF s1 (fst q)) by (subst q; destruct (mtype m); try apply RF_refl; apply RF_run_monitor).
  destruct q as [s2 o1]. cbn [fst] in Hq.
  pose proof (RF_continue_backlog s2 (rpeer r)) as H3. destruct (_continue_backlog s2 (rpeer r)) as [s3 o2]. cbn [fst] in *.
  eapply RF_trans; [exact H1|eapply RF_trans; eauto].
Qed.
Lemma RF_retransmit s r m to c : RF s (fst (_retransmit s r m to c)).
Proof.
  unfold _retransmit. destruct (aget zz_eqb (exch s) (rpeer r, mid m)) as [[mon h]|]; [|apply RF_refl].
  set (s1 := cancel_r _ h). assert (H1 : RF s s1) by (subst s1; eapply RF_trans; [|apply RF_cancel_r]; rf; tauto).
  destruct (c <? MAX_RETRANSMIT).
  - unfold call_later_r. cbn [fst]. eapply RF_trans; [exact H1|]. unfold RF. cbn. split; [reflexivity|split; [reflexivity|split; [tauto|]]].
    rewrite forgets_snoc. cbn. apply sub_refl.
  - destruct (amem Z.eqb (backlogs s1) (rpeer r)); [|exact H1].
    eapply RF_trans; [exact H1|]. eapply RF_trans; [|apply RF_tm_dispatch_error]. rf; tauto.
Qed.

(* ------------------------------------------------------------------ the invariant *)
Definition bound (RC : rcl) (p md : Z) : nat := match aget zz_eqb RC (p, md) with None => 0%nat | Some _ => 1%nat end.
Definition RIc (P : pgl) (T : list timer) (RC : rcl) (RT : list timer) : Prop :=
  (* R1 an opportunity's (peer, mid) is registered for deduplication *)
  (forall k pm h, aget pk_eqb P k = Some (pm, h) -> aget zz_eqb RC (fst k, pm) <> None) /\
  (* R2 its empty-ACK handle is due strictly before the handle that will forget that registration *)
  (forall k pm h t f, aget pk_eqb P k = Some (pm, h) -> In t T -> tid t = h -> In f (forgets RT) -> isf (fst k) pm f = true -> due t < due f) /\
  (* R4 at most one pending Forget handle per registered (peer, mid), none for an unregistered one *)
  (forall p md, (length (filter (isf p md) (forgets RT)) <= bound RC p md)%nat) /\
  (* PU one opportunity per (peer, token) *)
  NoDup (map fst P).
Definition RI (s : st) : Prop := RIc (piggy s) (atimers s) (recent s) (rtimers s).

Lemma RI_RF s s' : RF s s' -> RI s -> RI s'.
Proof.
  unfold RI. intros (F1 & F2 & F3 & [F4 F5]) (R1 & R2 & R4 & PU). rewrite F1, F2. split; [|split; [|split; [|exact PU]]].
  - intros k pm h Hg Hn. apply F3 in Hn. eapply R1; eauto.
  - intros k pm h t f Hg Ht Hh Hf Hi. eapply R2; eauto.
  - intros p md. specialize (R4 p md). specialize (F5 (isf p md)). unfold bound in *.
    destruct (aget zz_eqb (recent s') (p, md)) eqn:E1; destruct (aget zz_eqb (recent s) (p, md)) eqn:E2; try lia.
    exfalso. pose proof (proj1 (F3 (p, md)) E1). congruence.
Qed.

Lemma NoDup_adel (l : pgl) k : NoDup (map fst l) -> NoDup (map fst (adel pk_eqb l k)).
Proof.
  induction l as [|[k0 v0] l IH]; cbn; [auto|]. intros H. inv H. destruct (pk_eqb k0 k); cbn; auto. constructor; auto.
  intros Hin. apply H2. apply in_map_iff in Hin as ([k1 v1] & Hk & Hin). apply in_adel in Hin. apply in_map_iff. exists (k1, v1). auto.
Qed.
Lemma aget_none_notin (l : pgl) k : aget pk_eqb l k = None -> ~ In k (map fst l).
Proof.
  induction l as [|[k0 v0] l IH]; cbn; [tauto|]. destruct (pk_eqb k0 k) eqn:E; [discriminate|]. intros H [Hk|Hk]; [subst; rewrite pk_eqb_refl in E; discriminate|exact (IH H Hk)].
Qed.
Lemma in_aget_nodup (l : pgl) k v : NoDup (map fst l) -> In (k, v) l -> aget pk_eqb l k = Some v.
Proof.
  induction l as [|[k0 v0] l IH]; cbn; [tauto|]. intros H [Hk|Hk]; inv H.
  - inv Hk. rewrite pk_eqb_refl. reflexivity.
  - destruct (pk_eqb k0 k) eqn:E; [|auto]. apply pk_eqb_eq in E. subst k0. exfalso. apply H2. apply in_map_iff. exists (k, v). auto.
Qed.

Lemma RIc_remove P T RC RT k h : RIc P T RC RT -> RIc (adel pk_eqb P k) (cancel T h) RC RT.
Proof.
  intros (R1 & R2 & R4 & PU). split; [|split; [|split; [exact R4|apply NoDup_adel; exact PU]]].
  - intros k' pm h' Hg. assert (k <> k') by (intros ->; rewrite aget_adel_same in Hg; discriminate). rewrite aget_adel_other in Hg by assumption. eauto.
  - intros k' pm h' t f Hg Ht Hh Hf Hi. assert (k <> k') by (intros ->; rewrite aget_adel_same in Hg; discriminate). rewrite aget_adel_other in Hg by assumption.
    apply cancel_in in Ht as [Ht _]. eapply R2; eauto.
Qed.

Lemma RIc_add P T RC RT key md sq nw delay kd :
  RIc P T RC RT -> aget pk_eqb P key = None -> (forall t, In t T -> tid t <> sq) -> (forall k pm h, aget pk_eqb P k = Some (pm, h) -> h <> sq) ->
  aget zz_eqb RC (fst key, md) <> None -> (forall f, In f (forgets RT) -> isf (fst key) md f = true -> nw + delay < due f) ->
  RIc (aset pk_eqb P key (md, sq)) (T ++ [{| due := nw + delay; tid := sq; kind := kd |}]) RC RT.
Proof.
  intros (R1 & R2 & R4 & PU) Hn HT HP Hreg Hdue. split; [|split; [|split; [exact R4|]]].
  - intros k pm h Hg. destruct (pk_eqb key k) eqn:E.
    + apply pk_eqb_eq in E. subst k. rewrite aget_aset_same in Hg. inv Hg. exact Hreg.
    + rewrite aget_aset_other in Hg by (intros Hq; rewrite Hq, pk_eqb_refl in E; discriminate). eauto.
  - intros k pm h t f Hg Ht Hh Hf Hi. destruct (pk_eqb key k) eqn:E.
    + apply pk_eqb_eq in E. subst k. rewrite aget_aset_same in Hg. inv Hg. apply in_app_or in Ht as [Ht|[<-|[]]].
      * exfalso. eapply HT; eauto.
      * cbn. auto.
    + rewrite aget_aset_other in Hg by (intros Hq; rewrite Hq, pk_eqb_refl in E; discriminate).
      apply in_app_or in Ht as [Ht|[<-|[]]]; [eapply R2; eauto|]. cbn in Hh. exfalso. eapply HP; eauto.
  - unfold aset, amem. rewrite Hn. rewrite map_app. cbn. apply NoDup_snoc; [exact PU|apply aget_none_notin; exact Hn].
Qed.

Lemma filter_none {A} (g : A -> bool) l : length (filter g l) = 0%nat -> forall x, In x l -> g x = false.
Proof. induction l as [|y l IH]; cbn; [tauto|]. destruct (g y) eqn:E; cbn; [discriminate|]. intros H x [<-|Hx]; auto. Qed.
Lemma isf_forget p md f : isf p md f = true -> is_forget f = true.
Proof. unfold isf, is_forget. destruct (kind f); auto; discriminate. Qed.

Lemma RIc_register P T RC RT key dd ti :
  RIc P T RC RT -> aget zz_eqb RC key = None ->
  RIc P T (aset zz_eqb RC key None) (RT ++ [{| due := dd; tid := ti; kind := Forget (fst key) (snd key) |}]) /\
  (forall f, In f (forgets (RT ++ [{| due := dd; tid := ti; kind := Forget (fst key) (snd key) |}])) -> isf (fst key) (snd key) f = true -> due f = dd).
Proof.
  intros (R1 & R2 & R4 & PU) Hn. unfold RIc. rewrite !forgets_snoc. cbn [is_forget kind].
  assert (Hzero : forall f, In f (forgets RT) -> isf (fst key) (snd key) f = false).
  { apply filter_none. specialize (R4 (fst key) (snd key)). unfold bound in R4. rewrite <- surjective_pairing, Hn in R4. lia. }
  split; [split; [|split; [|split; [|exact PU]]]|].
  - intros k pm h Hg Hq. apply zget_aset_absent in Hq; [|exact Hn]. destruct Hq as [Hq _]. eapply R1; eauto.
  - intros k pm h t f Hg Ht Hh Hf Hi. apply in_app_or in Hf as [Hf|[<-|[]]]; [eapply R2; eauto|].
    exfalso. unfold isf in Hi. cbn in Hi. apply andb_true_iff in Hi as [E1 E2]. apply Z.eqb_eq in E1, E2.
    apply (R1 _ _ _ Hg). rewrite <- E1, <- E2, <- surjective_pairing. exact Hn.
  - intros p md. rewrite filter_app, app_length. cbn. specialize (R4 p md). unfold bound in *.
    destruct ((fst key =? p) && (snd key =? md)) eqn:E.
    + apply andb_true_iff in E as [E1 E2]. apply Z.eqb_eq in E1, E2. subst p md. rewrite <- surjective_pairing in *. rewrite Hn in R4.
      unfold aset, amem. rewrite Hn, zget_app, Hn, zz_eqb_refl. cbn. lia.
    + cbn. destruct (aget zz_eqb (aset zz_eqb RC key None) (p, md)) eqn:E1.
      * destruct (aget zz_eqb RC (p, md)); lia.
      * apply zget_aset_absent in E1; [|exact Hn]. destruct E1 as [E1 _]. rewrite E1 in R4. lia.
  - intros f Hf Hi. apply in_app_or in Hf as [Hf|[<-|[]]]; [rewrite (Hzero f Hf) in Hi; discriminate|reflexivity].
Qed.

Lemma filter_cancel_drop (g : timer -> bool) l f : In f l -> g f = true -> (length (filter g (cancel l (tid f))) + 1 <= length (filter g l))%nat.
Proof.
  unfold cancel. induction l as [|x l IH]; cbn; [tauto|]. intros [<-|Hin] Hg.
  - rewrite Z.eqb_refl. cbn. rewrite Hg. cbn. pose proof (filter_filter_le g (fun t => negb (tid t =? tid x)) l). lia.
  - specialize (IH Hin Hg). destruct (negb (tid x =? tid f)); cbn; destruct (g x); cbn; lia.
Qed.

Lemma RIc_forget P T RC RT f p md : RIc P T RC RT -> In f RT -> kind f = Forget p md ->
  (forall t, In t T -> due f <= due t) -> (forall k pm h, aget pk_eqb P k = Some (pm, h) -> exists t, In t T /\ tid t = h) ->
  RIc P T (adel zz_eqb RC (p, md)) (cancel RT (tid f)).
Proof.
  intros (R1 & R2 & R4 & PU) Hin Hk Hmin HA2.
  assert (Hff : In f (forgets RT)) by (apply filter_In; split; [exact Hin|unfold is_forget; rewrite Hk; reflexivity]).
  assert (Hisf : isf p md f = true) by (unfold isf; rewrite Hk, !Z.eqb_refl; reflexivity).
  unfold RIc. rewrite forgets_cancel. split; [|split; [|split; [|exact PU]]].
  - intros k pm h Hg. rewrite zget_adel. destruct (zz_eqb (p, md) (fst k, pm)) eqn:E; [|eapply R1; eauto].
    exfalso. apply zz_eqb_eq in E. injection E as E1 E2. destruct (HA2 _ _ _ Hg) as (t & Ht & Hh).
    pose proof (R2 k pm h t f Hg Ht Hh Hff) as Hlt. rewrite <- E1, <- E2 in Hlt. specialize (Hlt Hisf). specialize (Hmin t Ht). lia.
  - intros k pm h t f' Hg Ht Hh Hf Hi. apply cancel_in in Hf as [Hf _]. eapply R2; eauto.
  - intros p' md'. specialize (R4 p' md'). unfold bound in *. rewrite zget_adel. destruct (zz_eqb (p, md) (p', md')) eqn:E.
    + apply zz_eqb_eq in E. injection E as <- <-. pose proof (filter_cancel_drop (isf p md) (forgets RT) f Hff Hisf).
      destruct (aget zz_eqb RC (p, md)); lia.
    + pose proof (filter_filter_le (isf p' md') (fun t => negb (tid t =? tid f)) (forgets RT)) as Hle. unfold cancel. lia.
Qed.

(* ------------------------------------------------------------------ the invariant through every function *)
Lemma RI_send_message s r a mon rq s' o e : send_message s r a mon rq = (s', o, e) -> RI s -> RI s'.
Proof.
  unfold send_message. intros H HR.
  assert (Ht : forall s1 r1 bld mt md q, send_message_tail s1 r1 bld mt md mon q = (s', o, e) -> RI s1 -> RI s').
  { intros s1 r1 bld mt md q Hq H1. eapply RI_RF; [|exact H1]. pose proof (RF_tail s1 r1 bld mt md mon q) as Hf. rewrite Hq in Hf. exact Hf. }
  destruct (is_response (a_code a)); [|eapply Ht; eauto].
  destruct (aget pk_eqb (piggy s) (rpeer r, a_token a)) as [[pmid hh]|].
  - assert (H1 : RI (cancel_a (set_piggy s (adel pk_eqb (piggy s) (rpeer r, a_token a))) hh)) by (unfold RI; cbn; apply RIc_remove; exact HR).
    destruct (no_response_of a); eapply Ht; eauto.
  - destruct (no_response_of a); [inv H; exact HR|eapply Ht; eauto].
Qed.
Lemma RI_send_response s r req c rnr pl s' o : send_response s r req c rnr pl = (s', o) -> RI s -> RI s'.
Proof.
  unfold send_response. intros H HR.
  match type of H with context [send_message ?s ?r ?a ?m ?q] => destruct (send_message s r a m q) as [[s1 o1] e] eqn:E1 end.
  inv H. eapply RI_send_message; eauto.
Qed.
Lemma RI_tm_process_request s r m s' o : tm_process_request s r m = (s', o) -> RI s -> RI s'.
Proof.
  unfold tm_process_request. intros H HR.
  set (q := match aget ik_eqb (incoming s) (token m, rpeer r) with Some sv => _ | None => (s, []) end) in H.
  assert (Hq : RI (fst q)) by (subst q; destruct (aget ik_eqb _ _); exact HR).
  destruct q as [s1 o1]. cbn [fst] in Hq. dlet H s2 o2 E. injection H as <- <-.
  destruct (negb _); [eapply RI_send_response; eauto|]. destruct (negb _); [eapply RI_send_response; eauto|].
  destruct (path m =? 0); [inv E; exact Hq|]. destruct (path m =? 1); eapply RI_send_response; eauto.
Qed.
Lemma RI_handler_respond s k c rnr pl s' o : handler_respond s k c rnr pl = (s', o) -> RI s -> RI s'.
Proof.
  unfold handler_respond. intros H HR. destruct (find_srv (incoming s) k) as [[key sv]|]; [|inv H; exact HR].
  dlet H s2 o2 E. injection H as <- <-. apply RI_send_response in E; [exact E|exact HR].
Qed.
Lemma RI_tm_request s pe mt ob s' o : tm_request s pe mt ob = (s', o) -> RI s -> RI s'.
Proof.
  unfold tm_request, next_token_. intros H HR. cbv zeta in H.
  match type of H with context [send_message ?s ?r ?a ?m ?q] => destruct (send_message s r a m q) as [[s3 o3] e] eqn:E end.
  apply RI_send_message in E; [|exact HR]. destruct e as [e|]; [|inv H; exact E].
  pose proof (RF_fail_request s3 (next_req s) e) as Hf. destruct (fail_request s3 (next_req s) e) as [s4 o4]. inv H. eapply RI_RF; eauto.
Qed.

(* arming needs the request's (peer, mid) registered, with its Forget handle due later than the empty-ACK handle *)
Definition registered (s : st) (r : remote) (m : wire) : Prop :=
  aget zz_eqb (recent s) (rpeer r, mid m) <> None /\
  forall f, In f (forgets (rtimers s)) -> isf (rpeer r) (mid m) f = true -> now s + EMPTY_ACK_DELAY < due f.
Lemma RI_process_request s r m s' o : _process_request s r m = (s', o) -> RI s -> AInv s -> (mtype m = CON -> registered s r m) -> RI s'.
Proof.
  unfold _process_request. intros H HR HA Hreg. destruct (mtype m); try (eapply RI_tm_process_request; eauto; fail).
  destruct (Hreg eq_refl) as [Hr1 Hr2]. eapply RI_tm_process_request; [exact H|].
  destruct HA as (A1 & A2 & A3 & A4).
  assert (Hlt : forall k pm h, aget pk_eqb (piggy s) k = Some (pm, h) -> h < seq s).
  { intros k pm h Hg. destruct (A2 _ _ _ Hg) as (t & Hin & <-). apply A1. exact Hin. }
  unfold call_later_a. cbn [piggy set_atimers].
  destruct (aget pk_eqb (piggy s) (rpeer r, token m)) as [[pm old]|] eqn:Eg; unfold RI; cbn [piggy atimers recent rtimers set_piggy cancel_a set_atimers].
  - rewrite cancel_snoc by (cbn; specialize (Hlt _ _ _ Eg); lia).
    apply (RIc_add _ _ _ _ (rpeer r, token m)); [apply RIc_remove; exact HR|apply aget_adel_same| | |exact Hr1|exact Hr2].
    + intros t Ht. apply cancel_in in Ht as [Ht _]. destruct (A1 t Ht) as (_ & Hts & _). lia.
    + intros k pm' h Hg. assert ((rpeer r, token m) <> k) by (intros <-; rewrite aget_adel_same in Hg; discriminate).
      rewrite aget_adel_other in Hg by assumption. specialize (Hlt _ _ _ Hg). lia.
  - apply (RIc_add _ _ _ _ (rpeer r, token m)); [exact HR|exact Eg| | |exact Hr1|exact Hr2].
    + intros t Ht. destruct (A1 t Ht) as (_ & Hts & _). lia.
    + intros k pm' h Hg. specialize (Hlt _ _ _ Hg). lia.
Qed.

Lemma RI_dispatch_message s r m s' o : dispatch_message s r m = (s', o) -> RI s -> AInv s -> RI s'.
Proof.
  unfold dispatch_message. intros H HR HA.
  (* deduplication: a duplicate changes nothing relevant; a new message ID is registered with its Forget handle *)
  assert (H0 : forall s0 o0 dup, (if is_request (code m) then _deduplicate_message s r m else (s, [], false)) = (s0, o0, dup) ->
     RI s0 /\ AInv s0 /\ (dup = false -> is_request (code m) = true -> registered s0 r m)).
  { intros s0 o0 dup Hd. destruct (is_request (code m)) eqn:Erq; [|inv Hd; split; [exact HR|split; [exact HA|discriminate]]].
    pose proof (frame_dedup s r m) as Hfr. rewrite Hd in Hfr. cbn [fst] in Hfr. split; [|split; [eapply AInv_frame; eauto|]].
    - unfold _deduplicate_message in Hd. destruct (aget zz_eqb (recent s) (rpeer r, mid m)) as [stored|] eqn:Eg.
      + assert (Hrf : RF s s0).
        { destruct (mtype m); try (inv Hd; apply RF_refl; fail). destruct stored as [[r' m']|]; [|inv Hd; apply RF_refl].
          pose proof (RF_send_initially s r' m' MonResp) as Hf. destruct (_send_initially s r' m' MonResp). inv Hd. exact Hf. }
        eapply RI_RF; eauto.
      + unfold call_later_r in Hd. inv Hd. unfold RI. cbn. exact (proj1 (RIc_register _ _ _ _ (rpeer r, mid m) _ _ HR Eg)).
    - intros -> _. unfold _deduplicate_message in Hd. destruct (aget zz_eqb (recent s) (rpeer r, mid m)) as [stored|] eqn:Eg.
      + exfalso. destruct (mtype m); try (inv Hd; fail). destruct stored as [[r' m']|]; [|inv Hd]. destruct (_send_initially s r' m' MonResp). inv Hd.
      + unfold call_later_r in Hd. inv Hd. unfold registered. cbn. split.
        * unfold aset, amem. rewrite Eg, zget_app, Eg, zz_eqb_refl. discriminate.
        * intros f Hf Hi. rewrite (proj2 (RIc_register _ _ _ _ (rpeer r, mid m) (now s + EXCHANGE_LIFETIME) (seq s) HR Eg) f Hf Hi).
          unfold EMPTY_ACK_DELAY, EXCHANGE_LIFETIME. lia. }
  destruct (if is_request (code m) then _deduplicate_message s r m else (s, [], false)) as [[s0 o0] dup] eqn:Ed.
  destruct (H0 _ _ _ eq_refl) as (HR0 & HA0 & Hreg0). destruct dup. { inv H. exact HR0. }
  set (p1 := match mtype m with ACK | RST => _remove_exchange s0 r m | _ => (s0, []) end) in H.
  assert (H1 : RF s0 (fst p1) /\ frame s0 (fst p1) /\ (mtype m = CON -> fst p1 = s0)).
  { subst p1. destruct (mtype m); cbn [fst]; try (split; [apply RF_refl|split; [apply frame_refl|auto]]);
      (split; [apply RF_remove_exchange|split; [apply frame_remove_exchange|discriminate]]). }
  destruct p1 as [s1 o1]. cbn [fst] in H1. destruct H1 as (Hrf1 & Hfr1 & Hcon1).
  assert (HR1 : RI s1) by (eapply RI_RF; eauto). assert (HA1 : AInv s1) by (eapply AInv_frame; eauto).
  dlet H s2 o2 E. injection H as <- <-.
  assert (Hsi : forall sx rx w, RI sx -> RI (fst (_send_initially sx rx w MonResp))) by (intros; eapply RI_RF; [apply RF_send_initially|assumption]).
  destruct (code m =? EMPTY).
  { destruct (mtype m); try (inv E; exact HR1; fail). unfold _process_ping in E. specialize (Hsi s1 (as_response_address r) (empty_msg RST (mid m)) HR1). rewrite E in Hsi. exact Hsi. }
  destruct (is_request (code m)) eqn:Erq.
  { destruct (mtype m) eqn:Et; try (inv E; exact HR1; fail).
    - eapply RI_process_request; [exact E|exact HR1|exact HA1|]. intros _. rewrite (Hcon1 eq_refl). apply Hreg0; reflexivity.
    - eapply RI_process_request; [exact E|exact HR1|exact HA1|]. rewrite Et. discriminate. }
  destruct (is_response (code m)); [|inv E; exact HR1].
  assert (Hgo : forall t, (let '(s', o, success) := tm_process_response s1 r m in
      if success then match t with CON => let '(s'', o') := _send_empty_ack s' r (mid m) in (s'', o ++ o') | _ => (s', o) end
      else if mtype_eqb t CON && negb (is_multicast_locally r)
           then let '(s'', o') := _send_initially s' (as_response_address r) (empty_msg RST (mid m)) MonResp in (s'', o ++ o')
           else (s', o)) = (s2, o2) -> RI s2).
  { intros t Ht. pose proof (RF_tm_process_response s1 r m) as Hf. destruct (tm_process_response s1 r m) as [[sx ox] success]. cbn [fst] in Hf.
    assert (HRx : RI sx) by (eapply RI_RF; eauto).
    destruct success.
    - destruct t; try (inv Ht; exact HRx; fail). unfold _send_empty_ack in Ht.
      specialize (Hsi sx (as_response_address r) (empty_msg ACK (mid m)) HRx). destruct (_send_initially sx (as_response_address r) (empty_msg ACK (mid m)) MonResp) as [s'' o''].
      inv Ht. exact Hsi.
    - destruct (mtype_eqb t CON && negb (is_multicast_locally r)); [|inv Ht; exact HRx].
      specialize (Hsi sx (as_response_address r) (empty_msg RST (mid m)) HRx). destruct (_send_initially sx (as_response_address r) (empty_msg RST (mid m)) MonResp) as [s'' o''].
      inv Ht. exact Hsi. }
  destruct (mtype m); [apply (Hgo CON); exact E|apply (Hgo NON); exact E|apply (Hgo ACK); exact E|inv E; exact HR1].
Qed.

Lemma RI_step s e s' o : step s e = (s', o) -> RI s -> AInv s -> RI s'.
Proof.
  destruct e as [r m|k c rnr pl|pe mt ob| |dd]; cbn [step]; intros H HR HA.
  - eapply RI_dispatch_message; eauto.
  - eapply RI_handler_respond; eauto.
  - eapply RI_tm_request; eauto.
  - destruct (next_timer s) as [[[|] t]|] eqn:En; [| |inv H; exact HR].
    + (* an empty-ACK handle fires: its opportunity is consumed *)
      pose proof (next_timer_a_in _ _ En) as Hin. destruct HA as (A1 & _). destruct (A1 t Hin) as (_ & _ & rr & tk & pm & Hk & Hg).
      rewrite Hk in H. unfold on_timeout in H. cbn [piggy set_now cancel_a set_atimers] in H. rewrite Hg in H. unfold _send_empty_ack in H.
      match type of H with _send_initially ?x ?rx ?w ?mm = _ => pose proof (RF_send_initially x rx w mm) as Hf; rewrite H in Hf; cbn [fst] in Hf end.
      eapply RI_RF; [exact Hf|]. unfold RI. cbn. apply RIc_remove. exact HR.
    + (* a retransmission or Forget handle fires *)
      pose proof (next_timer_r_in _ _ En) as Hin. pose proof (next_timer_le _ _ _ En) as Hle.
      unfold run_timer in H. destruct (kind t) as [rr tk|rr mm to cc|pp md] eqn:Ek.
      * inv H. eapply RI_RF; [|exact HR]. eapply RF_trans; [apply (RF_cancel_r s (tid t))|]. unfold RF. cbn. repeat split; auto; apply sub_refl.
      * match type of H with _retransmit ?x _ _ _ _ = _ => pose proof (RF_retransmit x rr mm to cc) as Hf; rewrite H in Hf; cbn [fst] in Hf end.
        eapply RI_RF; [exact Hf|]. eapply RI_RF; [|exact HR]. eapply RF_trans; [apply (RF_cancel_r s (tid t))|]. unfold RF. cbn. repeat split; auto; apply sub_refl.
      * inv H. unfold RI. cbn. destruct HA as (_ & A2 & _). eapply RIc_forget; eauto.
  - inv H. exact HR.
Qed.
Lemma RI_run es : forall s s' os, run s es = (s', os) -> RI s -> AInv s -> RI s'.
Proof.
  induction es as [|e es IH]; intros s s' os H HR HA; cbn [run] in H; [inv H; exact HR|].
  destruct (step s e) as [s1 o] eqn:E1. destruct (run s1 es) as [s2 os2] eqn:E2. inv H.
  eapply IH; [exact E2|eapply RI_step; eauto|eapply AInv_step; eauto].
Qed.
Lemma RI_init m0 t0 : RI (init m0 t0).
Proof. unfold RI, RIc, init. cbn. repeat split; try (intros; discriminate); try (intros; contradiction); [intros; cbn; lia|constructor]. Qed.

(* in every reachable state, a (peer, mid) that is not registered for deduplication has no opportunity recorded under it *)
Lemma RI_fresh s p M : RI s -> aget zz_eqb (recent s) (p, M) = None -> cnt p M (piggy s) = 0%nat.
Proof.
  intros (R1 & _ & _ & PU) Hn. unfold cnt. destruct (filter (counts p M) (piggy s)) as [|[k [pm h]] l] eqn:E; [reflexivity|]. exfalso.
  assert (Hin : In (k, (pm, h)) (filter (counts p M) (piggy s))) by (rewrite E; left; reflexivity).
  apply filter_In in Hin as [Hin Hc]. unfold counts in Hc. cbn in Hc. apply andb_true_iff in Hc as [E1 E2]. apply Z.eqb_eq in E1, E2.
  apply in_aget_nodup in Hin; [|exact PU]. apply (R1 _ _ _ Hin). rewrite E1, E2. exact Hn.
Qed.
Theorem fresh_no_opportunity es m0 t0 s os p M : run (init m0 t0) es = (s, os) ->
  aget zz_eqb (recent s) (p, M) = None -> cnt p M (piggy s) = 0%nat.
Proof. intros H. apply RI_fresh. eapply RI_run; [exact H|apply RI_init|apply AInv_init]. Qed.

(* the exactly-once theorems without the hypothesis [cnt ... = 0] *)
Theorem con_request_acked_exactly_once' pre m0 t0 s os0 r m s1 o1 post s' os :
  run (init m0 t0) pre = (s, os0) -> mtype m = CON -> is_request (code m) = true ->
  aget zz_eqb (recent s) (rpeer r, mid m) = None -> aget pk_eqb (piggy s) (rpeer r, token m) = None ->
  dispatch_message s r m = (s1, o1) -> run s1 post = (s', os) ->
  Forall (ev_ok (rpeer r) (mid m)) post -> Forall (ev_live (rpeer r) (token m)) post ->
  let n := acks (rpeer r) (mid m) (o1 ++ outputs_of os) in
  (n <= 1)%nat /\ (now s + EMPTY_ACK_DELAY < now s' -> n = 1%nat).
Proof.
  intros Hpre Ht Hrq Hf Ho3 Hd Hrun Hok Hlv.
  exact (con_request_acked_exactly_once pre m0 t0 s os0 r m s1 o1 post s' os Hpre Ht Hrq Hf Ho3 (fresh_no_opportunity _ _ _ _ _ _ _ Hpre Hf) Hd Hrun Hok Hlv).
Qed.
Theorem non_request_never_acked' pre m0 t0 s os0 r m s1 o1 es s' os :
  run (init m0 t0) pre = (s, os0) -> mtype m = NON -> is_request (code m) = true ->
  aget zz_eqb (recent s) (rpeer r, mid m) = None ->
  dispatch_message s r m = (s1, o1) -> run s1 es = (s', os) -> Forall (ev_ok (rpeer r) (mid m)) es ->
  acks (rpeer r) (mid m) (o1 ++ outputs_of os) = 0%nat.
Proof.
  intros Hpre Ht Hrq Hf Hd Hrun Hok.
  assert (HB : BInv s) by (eapply run_ok; [exact Hpre|apply BInv_init]).
  exact (non_request_never_acked s r m s1 o1 es s' os HB Ht Hrq Hf (fresh_no_opportunity _ _ _ _ _ _ _ Hpre Hf) Hd Hrun Hok).
Qed.

Theorem con_response_timing' pre m0 t0 s os0 r m s1 o1 es1 s2 os1 :
  run (init m0 t0) pre = (s, os0) ->
  mtype m = CON -> path m = 0 -> 1 <= code m <= 7 ->
  aget zz_eqb (recent s) (rpeer r, mid m) = None -> aget pk_eqb (piggy s) (rpeer r, token m) = None ->
  dispatch_message s r m = (s1, o1) -> run s1 es1 = (s2, os1) ->
  let k0 := next_srv s in let d := now s + EMPTY_ACK_DELAY in
  Forall (strict r m k0) es1 -> Forall (ev_ok (rpeer r) (mid m)) es1 ->
  In (StartHandler k0) o1 /\
  (now s2 < d ->
     acks (rpeer r) (mid m) (o1 ++ outputs_of os1) = 0%nat /\
     forall c rnr pl s3 o3, is_response c = true -> handler_respond s2 k0 c rnr pl = (s3, o3) ->
       let eff := match rnr with Some v => Some v | None => nr m end in
       let a := {| a_mtype := None; a_code := c; a_token := token m; a_nr := eff; a_obs := None; a_payload := pl |} in
       (find_srv (incoming s2) k0 = None /\ o3 = []) \/
       (no_response_of a = false /\ o3 = [Send (as_response_address r) (mk_wire a ACK (mid m))]) \/
       (no_response_of a = true /\ o3 = [Send (as_response_address r) (empty_msg ACK (mid m))])) /\
  ((1 <= acks (rpeer r) (mid m) (o1 ++ outputs_of os1))%nat -> d <= now s2).
Proof.
  intros Hpre Ht Hp Hc Hf Ho3 Hd Hrun.
  exact (con_response_timing pre m0 t0 s os0 r m s1 o1 es1 s2 os1 Hpre Ht Hp Hc Hf Ho3 (fresh_no_opportunity _ _ _ _ _ _ _ Hpre Hf) Hd Hrun).
Qed.

(* the model's internal-error output of on_timeout (KeyError: the handle's opportunity is gone) is unreachable: in every reachable state
   the next empty-ACK handle to fire still has its opportunity *)
Theorem on_timeout_keyerror_unreachable es m0 t0 s os t : run (init m0 t0) es = (s, os) -> next_timer s = Some (true, t) ->
  exists r tok pm, kind t = EmptyAck r tok /\ aget pk_eqb (piggy s) (rpeer r, tok) = Some (pm, tid t) /\
                   forall e, ~ In (LoopException e) (snd (step s Fire)).
Proof.
  intros Hrun En. assert (HA : AInv s) by (eapply AInv_run; [exact Hrun|apply AInv_init]).
  pose proof (next_timer_a_in _ _ En) as Hin. destruct HA as (A1 & _). destruct (A1 t Hin) as (_ & _ & r & tok & pm & Hk & Hg).
  exists r, tok, pm. split; [exact Hk|]. split; [exact Hg|].
  intros e. cbn [step]. rewrite En, Hk. unfold on_timeout. cbn [piggy set_now cancel_a set_atimers]. rewrite Hg. unfold _send_empty_ack.
  match goal with |- context [_send_initially ?x ?rx ?w ?mm] => pose proof (send_initially_out x rx w mm) as [Ho _]; rewrite Ho end.
  intros [H|[]]. discriminate.
Qed.

Theorem con_separate_response' pre m0 t0 s os0 r m s1 o1 es1 s2 os1 :
  run (init m0 t0) pre = (s, os0) ->
  mtype m = CON -> path m = 0 -> 1 <= code m <= 7 ->
  aget zz_eqb (recent s) (rpeer r, mid m) = None -> aget pk_eqb (piggy s) (rpeer r, token m) = None ->
  dispatch_message s r m = (s1, o1) -> run s1 es1 = (s2, os1) ->
  let k0 := next_srv s in let d := now s + EMPTY_ACK_DELAY in
  Forall (strict r m k0) es1 -> Forall (ev_ok (rpeer r) (mid m)) es1 ->
  (acks (rpeer r) (mid m) (o1 ++ outputs_of os1) = 0%nat /\ now s2 <= d) \/
  (In (Send (as_response_address r) (empty_msg ACK (mid m))) (outputs_of os1) /\ d <= now s2 /\
   forall c rnr pl s3 o3, is_response c = true -> handler_respond s2 k0 c rnr pl = (s3, o3) ->
     let eff := match rnr with Some v => Some v | None => nr m end in
     let a := {| a_mtype := None; a_code := c; a_token := token m; a_nr := eff; a_obs := None; a_payload := pl |} in
     let t := select_mtype None (as_response_address r) (Some (mtype m)) in
     (find_srv (incoming s2) k0 = None /\ o3 = []) \/
     (no_response_of a = true /\ o3 = []) \/
     (no_response_of a = false /\
      (o3 = [Send (as_response_address r) (mk_wire a t (next_mid s2))] \/ (o3 = [] /\ t = CON /\ amem Z.eqb (backlogs s2) (rpeer r) = true)))).
Proof.
  intros Hpre Ht Hp Hc Hf Ho3 Hd Hrun.
  exact (con_separate_response pre m0 t0 s os0 r m s1 o1 es1 s2 os1 Hpre Ht Hp Hc Hf Ho3 (fresh_no_opportunity _ _ _ _ _ _ _ Hpre Hf) Hd Hrun).
Qed.
