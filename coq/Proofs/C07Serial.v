(* C07 — order theory of the RFC 7641 section 3.4 freshness test, over the expression translated from protocol.py *)
From Verif Require Import Lib.Py Lib.Tactics Gen.protocol_is_recent.
Open Scope Z_scope.

Definition W : Z := 16777216.   (* 2^24 *)
Definition HW : Z := 8388608.   (* 2^23 *)
Lemma pow23 : 2 ^ 23 = HW. Proof. reflexivity. Qed.
Lemma pow24 : 2 ^ 24 = W. Proof. reflexivity. Qed.

(* RFC 7641 section 3.4, verbatim:  (V1 < V2 and V2 - V1 < 2^23) or (V1 > V2 and V1 - V2 > 2^23) or (T2 > T1 + 128 seconds) *)
Definition serial_lt (v1 v2 : Z) : Prop := (v1 < v2 /\ v2 - v1 < 2 ^ 23) \/ (v1 > v2 /\ v1 - v2 > 2 ^ 23).
Definition rfc_fresh (v1 t1 v2 t2 reset : Z) : Prop := serial_lt v1 v2 \/ t2 > t1 + reset.

(* closed constant expressions of the translated code (2**23, 1 << 23, ...) are evaluated before the arithmetic *)
Ltac numeral v := match v with Z0 => idtac | Zpos _ => idtac | Zneg _ => idtac end.
Ltac eval_consts :=
  repeat match goal with
  | |- context [?a ^ ?b] => let v := eval vm_compute in (a ^ b) in numeral v; change (a ^ b) with v
  | |- context [Z.shiftl ?a ?b] => let v := eval vm_compute in (Z.shiftl a b) in numeral v; change (Z.shiftl a b) with v
  end.

Lemma is_recent_spec : forall v1 v2 t1 t2 reset, is_recent v1 v2 t1 t2 reset = true <-> rfc_fresh v1 t1 v2 t2 reset.
Proof.
  intros. unfold is_recent, rfc_fresh, serial_lt. eval_consts. lia.
Qed.

Lemma is_recent_false_spec : forall v1 v2 t1 t2 reset, is_recent v1 v2 t1 t2 reset = false <-> ~ rfc_fresh v1 t1 v2 t2 reset.
Proof. intros. rewrite <- is_recent_spec. destruct (is_recent v1 v2 t1 t2 reset); split; congruence. Qed.

(* a duplicate is never fresh unless the reset time has passed *)
Lemma duplicate_stale : forall v t1 t2 reset, t2 <= t1 + reset -> is_recent v v t1 t2 reset = false.
Proof. intros. apply is_recent_false_spec. unfold rfc_fresh, serial_lt. lia. Qed.

Lemma serial_lt_irrefl : forall v, ~ serial_lt v v.
Proof. unfold serial_lt. intros. lia. Qed.

Lemma serial_lt_asym : forall a b, serial_lt a b -> ~ serial_lt b a.
Proof. unfold serial_lt. intros a b. rewrite pow23. unfold HW. lia. Qed.

(* position of a 24-bit value inside the half-window that starts at [base] *)
Definition off (base v : Z) : Z := (v - base) mod W.
Definition in_range (v : Z) : Prop := 0 <= v < W.
Definition in_window (base v : Z) : Prop := in_range v /\ off base v < HW.

(* inside one half-window serial comparison is the strict total order of the offsets *)
Lemma serial_lt_window : forall base a b, in_window base a -> in_window base b ->
  (serial_lt a b <-> off base a < off base b).
Proof.
  unfold in_window, in_range, off, serial_lt. intros base a b [Ha Ha'] [Hb Hb']. rewrite pow23. unfold HW, W in *. lia.
Qed.

Lemma off_inj : forall base a b, in_range a -> in_range b -> off base a = off base b -> a = b.
Proof. unfold in_range, off, W. intros. lia. Qed.

Lemma serial_lt_trans_window : forall base a b c, in_window base a -> in_window base b -> in_window base c ->
  serial_lt a b -> serial_lt b c -> serial_lt a c.
Proof.
  intros base a b c Ha Hb Hc H1 H2.
  rewrite (serial_lt_window base) in * by assumption. lia.
Qed.

Lemma serial_lt_total_window : forall base a b, in_window base a -> in_window base b ->
  serial_lt a b \/ a = b \/ serial_lt b a.
Proof.
  intros base a b Ha Hb. rewrite !(serial_lt_window base) by assumption.
  destruct (Z.lt_trichotomy (off base a) (off base b)) as [H|[H|H]]; auto.
  right; left. destruct Ha, Hb. eapply off_inj; eauto.
Qed.

(* wrap-around: the successor of 2^24 - 1 is 0, and it is fresh *)
Lemma wrap_is_fresh : forall t1 t2 reset, is_recent (W - 1) 0 t1 t2 reset = true.
Proof. intros. apply is_recent_spec. left. unfold serial_lt, W. rewrite pow23. unfold HW. lia. Qed.

(* exactly half the number space apart: neither direction is fresh (RFC 1982's undefined case) *)
Lemma half_apart_incomparable : forall v, 0 <= v < HW -> ~ serial_lt v (v + HW) /\ ~ serial_lt (v + HW) v.
Proof. unfold serial_lt. rewrite pow23. unfold HW. intros. lia. Qed.
