(* C08 — "latest state sent" over whole histories: whenever the render task of a live registration is idle, the notification it
   produced last was rendered at the resource's current version (i.e. at or after the last trigger); a render in progress that
   has no newer trigger pending was started at the current version.  With nothing of the registration waiting in the backlog
   (fairness), the FIFO invariant of C08Wire lifts this to the last datagram on the wire. *)
From Verif Require Import Lib.Py Lib.Tactics Model.C08 Proofs.C08 Proofs.C08Silent Proofs.C08Ends Proofs.C08Observe Proofs.C08Wire.
Open Scope Z_scope.

Definition lastp (g : Z) (s : state) : option msg := hd_error (gfilter g (s_prod s)).
(* a rendered notification (m_pk = 1) carries the version the resource has now *)
Definition lastfresh (g : Z) (s : state) : Prop := forall m, lastp g s = Some m -> m_pk m = 1 -> m_pv m = s_version s.
Definition QV (s : state) (g0 : reg) : Prop :=
  -1 <= g_next g0 /\
  match g_phase g0 with
  | PWait => g_trig g0 = None /\ 0 <= g_next g0 /\ lastfresh (g_gid g0) s
  | PFirst v | PNotif v => g_trig g0 = None -> v = s_version s
  end.
Definition LV (s : state) : Prop := forall g0, In g0 (s_regs s) -> QV s g0.
Definition LVx (x : Z) (s : state) : Prop := forall g0, In g0 (s_regs s) -> g_gid g0 <> x -> QV s g0.

(* ------------------------------------------------------------------ frame *)
Record LF (s s' : state) : Prop := {
  lf_ver : s_version s' = s_version s;
  lf_regs : forall g0, In g0 (s_regs s') -> In g0 (s_regs s);
  lf_prod : forall g, 0 <= g -> lastp g s' = lastp g s }.
Lemma LF_refl s : LF s s. Proof. constructor; auto. Qed.
Lemma LF_trans s1 s2 s3 : LF s1 s2 -> LF s2 s3 -> LF s1 s3.
Proof. intros [A1 A2 A3] [B1 B2 B3]. constructor; [congruence | auto |]. intros g Hg. rewrite B3, A3; auto. Qed.
Lemma LF_same s s' : s_regs s' = s_regs s -> s_prod s' = s_prod s -> s_version s' = s_version s -> LF s s'.
Proof. intros E1 E2 E3. constructor; [exact E3 | rewrite E1; auto | intros; unfold lastp; rewrite E2; reflexivity]. Qed.
Lemma QV_frame s s' g0 : s_version s' = s_version s -> lastp (g_gid g0) s' = lastp (g_gid g0) s -> QV s g0 -> QV s' g0.
Proof. intros Ev El [H1 H2]. split; [exact H1|]. destruct (g_phase g0); rewrite ?Ev; auto.
  destruct H2 as (A & B & C). repeat split; auto. unfold lastfresh. rewrite El, Ev. exact C. Qed.
Lemma LV_LF s s' : LF s s' -> (forall g0, In g0 (s_regs s) -> 0 <= g_gid g0) -> LV s -> LV s'.
Proof. intros [A1 A2 A3] Hr H g0 Hg. apply A2 in Hg. apply (QV_frame s); auto. Qed.

Lemma si3 s m x rt : s_regs (send_initially s m x rt) = s_regs s /\ s_prod (send_initially s m x rt) = s_prod s /\
  s_version (send_initially s m x rt) = s_version s.
Proof. unfold send_initially, store_response_for_duplicates, send_via_transport, add_exchange, add_timer. destruct (m_mtype m); repeat split; reflexivity. Qed.
Lemma LF_send_initially s m x rt : LF s (send_initially s m x rt).
Proof. destruct (si3 s m x rt) as (A & B & C). apply LF_same; assumption. Qed.
(* send_message: one more produced message, nothing else that matters here *)
Lemma sm_fields s m c x : exists m', s_prod (send_message s m c x) = m' :: s_prod s /\ m_gid m' = m_gid m /\ m_pk m' = m_pk m /\ m_pv m' = m_pv m /\
  s_regs (send_message s m c x) = s_regs s /\ s_version (send_message s m c x) = s_version s.
Proof.
  unfold send_message. destruct (piggy_find s (m_remote m) (m_token m)) as [mid|].
  - match goal with |- context [send_initially ?a ?b ?c ?d] => destruct (si3 a b c d) as (A & B & C) end.
    eexists. rewrite A, B, C. repeat split; reflexivity.
  - destruct (if s_down s then NON else if c then CON else NON);
      try (match goal with |- context [send_initially ?a ?b ?c ?d] => destruct (si3 a b c d) as (A & B & C) end; eexists; rewrite A, B, C; repeat split; reflexivity).
    destruct (has_exchange _ _).
    + eexists. repeat split; reflexivity.
    + match goal with |- context [send_initially ?a ?b ?c ?d] => destruct (si3 a b c d) as (A & B & C) end. eexists. rewrite A, B, C. repeat split; reflexivity.
Qed.
Lemma lastp_cons_ne g s s' m : s_prod s' = m :: s_prod s -> m_gid m <> g -> lastp g s' = lastp g s.
Proof. intros E H. unfold lastp. rewrite E, gfilter_cons_ne by exact H. reflexivity. Qed.
Lemma lastp_cons_eq g s s' m : s_prod s' = m :: s_prod s -> m_gid m = g -> lastp g s' = Some m.
Proof. intros E H. unfold lastp. rewrite E, gfilter_cons_eq by exact H. reflexivity. Qed.
Lemma LF_send_other s m c x : m_gid m = -1 -> LF s (send_message s m c x).
Proof. intros Hm. destruct (sm_fields s m c x) as (m' & A & B & _ & _ & C & D). constructor; [exact D | rewrite C; auto|].
  intros g Hg. apply (lastp_cons_ne g s _ m' A). lia. Qed.
Lemma LF_continue_backlog s r : LF s (continue_backlog s r).
Proof. unfold continue_backlog. destruct (has_exchange s r); [apply LF_refl|]. destruct (find _ (s_backlog s)) as [[m x]|]; [|apply LF_refl].
  eapply LF_trans; [|apply LF_send_initially]. apply LF_same; reflexivity. Qed.
Lemma LF_remove_reg s x : LF s (remove_reg s x).
Proof. constructor; [reflexivity | | reflexivity]. intros g0 H. unfold remove_reg in H. fsimpl. apply filter_In in H. tauto. Qed.
Lemma LF_stop s x : LF s (stop s x).
Proof. unfold stop. destruct (find_reg s x); [|apply LF_refl]. eapply LF_trans; [apply LF_remove_reg | apply LF_same; reflexivity]. Qed.
Lemma LF_fold_stop l : forall s, LF s (fold_left stop l s).
Proof. induction l as [|x l IH]; intros s; cbn [fold_left]; [apply LF_refl | eapply LF_trans; [apply LF_stop | apply IH]]. Qed.
Lemma LF_flush s : LF s (flush_cancels s).
Proof. unfold flush_cancels. assert (G : forall l s0, LF s0 (fold_left cancel_cb l s0)).
  { induction l as [|x l IH]; intros s0; cbn [fold_left]; [apply LF_refl|]. eapply LF_trans; [|apply IH]. apply LF_same; reflexivity. }
  eapply LF_trans; [apply G | apply LF_same; reflexivity]. Qed.
Lemma LF_plain s r tok con : LF s (plain s r tok con).
Proof. unfold plain. eapply LF_trans; [apply (LF_same s (log s (ORender (-1) (s_version s)))); reflexivity|].
  destruct (render_outcome _ _); apply LF_send_other; reflexivity. Qed.
Lemma LF_remove_exchange s r mid b : LF s (remove_exchange s r mid b).
Proof. unfold remove_exchange. destruct (find _ (s_exch s)) as [x|]; [|apply LF_refl].
  eapply LF_trans; [|apply LF_continue_backlog]. destruct b; [|apply LF_same; reflexivity].
  eapply LF_trans; [|apply LF_stop]. apply LF_same; reflexivity. Qed.
Lemma LF_dispatch_error s r : LF s (dispatch_error s r).
Proof. unfold dispatch_error. destruct (s_down s); [apply LF_refl|]. eapply LF_trans; [apply LF_fold_stop|]. apply LF_same; reflexivity. Qed.
Lemma LF_fire s k : LF s (fire s k).
Proof. destruct k as [r tok|m t c|r mid]; cbn [fire].
  - destruct (piggy_find s r tok); [|apply LF_refl]. eapply LF_trans; [|apply LF_send_initially]. apply LF_same; reflexivity.
  - unfold retransmit. destruct (c <? MAX_RETRANSMIT); [apply LF_same; reflexivity|].
    eapply LF_trans; [|apply LF_fold_stop]. apply LF_same; reflexivity.
  - apply LF_same; reflexivity. Qed.
Lemma LF_advance fuel : forall s t, LF s (advance fuel s t).
Proof. induction fuel as [|f IH]; intros s t; cbn [advance]; [apply LF_refl|].
  destruct (min_timer (s_timers s)) as [tm|]; [|apply LF_refl]. destruct (t_due tm <=? t); [|apply LF_refl].
  eapply LF_trans; [|apply IH]. eapply LF_trans; [|apply LF_flush]. eapply LF_trans; [|apply LF_fire]. apply LF_same; reflexivity. Qed.

(* ------------------------------------------------------------------ the render task *)
(* [P]: an alternative that may hold of a registration instead of QV (used while woken tasks have not run yet) *)
Definition LVP (P : reg -> Prop) (s : state) : Prop := forall g0, In g0 (s_regs s) -> QV s g0 \/ P g0.
Definition LVxP (P : reg -> Prop) (x : Z) (s : state) : Prop := forall g0, In g0 (s_regs s) -> g_gid g0 <> x -> QV s g0 \/ P g0.
Lemma LV_LVP s : LV s <-> LVP (fun _ => False) s.
Proof. split; intros H g0 Hg; [left; apply H; exact Hg | destruct (H g0 Hg) as [Q|[]]; exact Q]. Qed.

Lemma emit_eff s g code o pk pv : let s' := emit s g code o pk pv in
  s_regs s' = s_regs s /\ s_version s' = s_version s /\ exists m, s_prod s' = m :: s_prod s /\ m_gid m = g_gid g /\ m_pk m = pk /\ m_pv m = pv.
Proof. unfold emit. destruct (sm_fields s (mkmsg (g_remote g) NON 0 (g_token g) code o pk pv (g_gid g)) (g_con g) (g_gid g)) as (m & A & B & C & D & E & F).
  cbn. split; [exact E | split; [exact F | exists m; auto]]. Qed.
Lemma LVx_same3 P x s s' : s_regs s' = s_regs s -> s_prod s' = s_prod s -> s_version s' = s_version s -> LVxP P x s -> LVxP P x s'.
Proof. intros E1 E2 E3 H g0 Hg Hne. rewrite E1 in Hg. destruct (H g0 Hg Hne) as [Q|Q]; [left | right; exact Q].
  apply (QV_frame s); [exact E3 | unfold lastp; rewrite E2; reflexivity | exact Q]. Qed.
Lemma LVx_emit P s g g2 code o pk pv : g_gid g2 = g_gid g -> LVxP P (g_gid g) s -> LVxP P (g_gid g) (emit s g2 code o pk pv).
Proof. intros Eg H g0 Hg Hne. destruct (emit_eff s g2 code o pk pv) as (A & B & m & C & D & _). rewrite A in Hg.
  destruct (H g0 Hg Hne) as [Q|Q]; [left | right; exact Q].
  apply (QV_frame s); [exact B | apply (lastp_cons_ne _ s _ m C); congruence | exact Q]. Qed.
Lemma put_LV P s x g' : LVxP P x s -> g_gid g' = x -> QV s g' -> LVP P (put_reg s g').
Proof. intros H Eg Q g0 Hg. unfold put_reg in Hg. fsimpl. apply in_map_iff in Hg as [y [Hy Hi]].
  assert (F : forall g1, QV s g1 -> QV (put_reg s g') g1) by (intros g1; apply QV_frame; reflexivity).
  destruct (g_gid y =? g_gid g') eqn:E; subst g0; [left; apply F; exact Q|].
  destruct (H y Hi ltac:(lia)) as [Q1|Q1]; [left; apply F; exact Q1 | right; exact Q1]. Qed.
Lemma remove_LV P s x : LVxP P x s -> LVP P (remove_reg s x).
Proof. intros H g0 Hg. unfold remove_reg in Hg. fsimpl. apply filter_In in Hg as [Hg Hne].
  destruct (H g0 Hg ltac:(lia)) as [Q|Q]; [left | right; exact Q]. apply (QV_frame s); [reflexivity | reflexivity | exact Q]. Qed.
Lemma LV_same3 P s s' : s_regs s' = s_regs s -> s_prod s' = s_prod s -> s_version s' = s_version s -> LVP P s -> LVP P s'.
Proof. intros E1 E2 E3 H g0 Hg. rewrite E1 in Hg. destruct (H g0 Hg) as [Q|Q]; [left | right; exact Q].
  apply (QV_frame s); [exact E3 | unfold lastp; rewrite E2; reflexivity | exact Q]. Qed.
Lemma LV_to_LVx P x s : LVP P s -> LVxP P x s. Proof. intros H g0 Hg _. apply H. exact Hg. Qed.
Lemma LVP_LF P s s' : LF s s' -> (forall g0, In g0 (s_regs s) -> 0 <= g_gid g0) -> LVP P s -> LVP P s'.
Proof. intros [A1 A2 A3] Hr H g0 Hg. apply A2 in Hg. destruct (H g0 Hg) as [Q|Q]; [left | right; exact Q]. apply (QV_frame s); auto. Qed.

Definition Lpre (s : state) (g : reg) : Prop := -1 <= g_next g /\ (g_trig g = None -> 0 <= g_next g /\ lastfresh (g_gid g) s).
Definition res_fresh (s : state) (res : rres) : Prop := match res with RResp _ pk pv => pk = 1 -> pv = s_version s | RRaise _ _ _ => True end.

Lemma after_response_LV P cont s g res : LVxP P (g_gid g) s -> -1 <= g_next g -> (g_trig g = None -> res_fresh s res) ->
  (forall s1 g1, LVxP P (g_gid g) s1 -> g_gid g1 = g_gid g -> g_trig g1 = g_trig g -> Lpre s1 g1 -> LVP P (cont s1 g1)) ->
  LVP P (after_response cont s g res).
Proof.
  intros H Hn Hr Hc. unfold after_response. destruct res as [code pk pv|code pk pv].
  - destruct (g_late g || negb (successful code)).
    + apply (LV_same3 P (remove_reg (emit s g code None pk pv) (g_gid g))); try reflexivity. apply remove_LV. apply LVx_emit; auto.
    + set (g1 := set_next g (g_next g + 1)). destruct (emit_eff s g1 code (Some (g_next g1)) pk pv) as (A & B & m & C & D & E & F).
      apply Hc; [apply (LVx_emit P s g g1); auto | reflexivity | reflexivity|].
      split; [cbn; lia|]. intros Ht. split; [cbn; lia|]. intros m' Hm' Hpk.
      rewrite (lastp_cons_eq _ s _ m C D) in Hm'. inversion Hm'; subst m'. rewrite F, B. apply (Hr Ht). congruence.
  - apply remove_LV. apply (LVx_emit P (cancel_cb s (g_gid g)) g g); [reflexivity|]. apply (LVx_same3 P _ s); auto.
Qed.
Lemma run_loop_idle_LV P f s g : g_trig g = None -> LVxP P (g_gid g) s -> Lpre s g -> LVP P (run_loop (S f) s g).
Proof. intros Ht H [P1 P2]. cbn [run_loop]. rewrite Ht. destruct (P2 Ht) as [P3 P4].
  apply (put_LV P s (g_gid g)); auto. split; [exact P1 | cbn [g_phase set_phase]; auto]. Qed.
Lemma run_loop_LV P f s g : LVxP P (g_gid g) s -> Lpre s g -> LVP P (run_loop (S (S f)) s g).
Proof.
  intros H Pp. destruct (g_trig g) as [tv|] eqn:Et; [|apply run_loop_idle_LV; auto].
  cbn [run_loop]. rewrite Et. destruct Pp as [P1 _].
  set (g1 := set_trig g None (g_late g)).
  assert (Hc : forall s1 g2, LVxP P (g_gid g1) s1 -> g_gid g2 = g_gid g1 -> g_trig g2 = g_trig g1 -> Lpre s1 g2 -> LVP P (run_loop (S f) s1 g2)).
  { intros s1 g2 A B C D. apply run_loop_idle_LV; [rewrite C; reflexivity | rewrite B; exact A | exact D]. }
  destruct tv as [|code k].
  - set (s1 := log s _). assert (H1 : LVxP P (g_gid g1) s1) by (apply (LVx_same3 P _ s); auto).
    destruct (s_gate s1).
    + apply (put_LV P s1 (g_gid g)); auto. split; [exact P1|]. cbn [g_phase set_phase]. intros _. reflexivity.
    + apply after_response_LV; auto. intros _. destruct (s_mode s1); cbn; auto.
  - apply after_response_LV; auto. intros _. cbn. intros; lia.
Qed.
Lemma first_render_done_LV P s g res : LVxP P (g_gid g) s -> (g_trig g = None -> res_fresh s res) -> LVP P (first_render_done s g res).
Proof.
  intros H Hr. unfold first_render_done. destruct res as [code pk pv|code pk pv].
  - destruct (negb (successful code)).
    + apply (LV_same3 P (remove_reg (emit s g code None pk pv) (g_gid g))); try reflexivity. apply remove_LV. apply LVx_emit; auto.
    + set (g1 := set_next g 0). destruct (emit_eff s g1 code (Some 0) pk pv) as (A & B & m & C & D & E & F).
      apply (run_loop_LV P 0 _ g1); [apply (LVx_emit P s g g1); auto|].
      split; [cbn; lia|]. intros Ht. split; [cbn; lia|]. intros m' Hm' Hpk.
      rewrite (lastp_cons_eq _ s _ m C D) in Hm'. inversion Hm'; subst m'. rewrite F, B. apply (Hr Ht). congruence.
  - apply remove_LV. apply (LVx_emit P (cancel_cb s (g_gid g)) g g); [reflexivity|]. apply (LVx_same3 P _ s); auto.
Qed.
Lemma render_outcome_fresh s : res_fresh s (render_outcome (s_mode s) (s_version s)).
Proof. destruct (s_mode s); cbn; auto. Qed.
Lemma accept_LV P s r tok con : LVP P s -> LVP P (accept s r tok con).
Proof.
  intros H. unfold accept.
  set (g := mkreg r tok (s_gidctr s) con PWait (-1) None false).
  match goal with |- context [if s_gate ?x then _ else _] => set (s2 := x) end.
  assert (H2 : LVxP P (g_gid g) s2).
  { intros g0 Hg Hne. assert (Hg' : In g0 (s_regs s ++ [g])) by exact Hg. apply in_app_iff in Hg' as [Hg'|[<-|[]]]; [|exfalso; apply Hne; reflexivity].
    destruct (H g0 Hg') as [Q|Q]; [left | right; exact Q]. apply (QV_frame s); [reflexivity | reflexivity | exact Q]. }
  assert (E : s_gate s2 = s_gate s /\ s_mode s2 = s_mode s /\ s_version s2 = s_version s) by (repeat split; reflexivity).
  destruct E as (E1 & E2 & E3). destruct (s_gate s2).
  - apply (put_LV P s2 (g_gid g)); auto. split; [cbn; lia|]. cbn [g_phase set_phase]. intros _. reflexivity.
  - apply first_render_done_LV; auto. intros _. apply (render_outcome_fresh s2).
Qed.

(* ------------------------------------------------------------------ a state change: every observer is triggered *)
From Coq Require Import Permutation.
Lemma nth_split_Z (l : list Z) : forall i d, (i < length l)%nat -> l = firstn i l ++ nth i l d :: skipn (S i) l.
Proof. induction l as [|x l IH]; intros i d H; cbn in H; [lia|]. destruct i; cbn; [reflexivity|]. f_equal. apply IH. lia. Qed.
Lemma pick_order_perm perm : forall l, Permutation (pick_order perm l) l.
Proof.
  induction perm as [|p perm IH]; intros l; destruct l as [|x0 l0]; cbn [pick_order]; try apply Permutation_refl.
  set (l := x0 :: l0). set (i := Nat.modulo p (length l)).
  assert (Hi : (i < length l)%nat) by (apply Nat.mod_upper_bound; cbn; lia).
  assert (El : l = firstn i l ++ nth i l x0 :: skipn (S i) l) by (apply nth_split_Z; exact Hi).
  eapply Permutation_trans; [constructor; apply IH|]. eapply Permutation_trans; [apply Permutation_middle|]. rewrite <- El. apply Permutation_refl.
Qed.

Lemma regs_trigger s x tv l : NoDup (map g_gid (s_regs s)) ->
  s_regs (trigger s x tv l) = map (fun g0 => if g_gid g0 =? x then set_trig g0 (Some tv) (g_late g0 || l) else g0) (s_regs s).
Proof.
  intros Hn. unfold trigger. destruct (find_reg s x) as [g|] eqn:E.
  - apply find_reg_In in E as [Ei Eg]. unfold put_reg. fsimpl. apply map_ext_in. intros g' Hg'. cbn [g_gid set_trig]. rewrite Eg.
    destruct (g_gid g' =? x) eqn:Ex; [|reflexivity].
    assert (g' = g) by (apply (NoDup_map_inj g_gid (s_regs s)); auto; lia). subst g'. reflexivity.
  - rewrite <- (map_id (s_regs s)) at 1. apply map_ext_in. intros g' Hg'. destruct (g_gid g' =? x) eqn:Ex; [|reflexivity].
    exfalso. apply find_reg_None in E. apply E. replace x with (g_gid g') by lia. apply in_map. exact Hg'.
Qed.
Definition keeps (F : reg -> reg) : Prop := forall g0, g_gid (F g0) = g_gid g0 /\ g_phase (F g0) = g_phase g0 /\ g_next (F g0) = g_next g0 /\
  (g_trig g0 <> None -> g_trig (F g0) <> None).
Lemma trigger_all_char tv l order : forall s, NoDup (map g_gid (s_regs s)) ->
  let s' := fold_left (fun s gid => trigger s gid tv l) order s in
  s_prod s' = s_prod s /\ s_version s' = s_version s /\
  exists F, s_regs s' = map F (s_regs s) /\ keeps F /\ forall g0, In (g_gid g0) order -> g_trig (F g0) <> None.
Proof.
  induction order as [|x o IH]; intros s Hn; cbn [fold_left].
  - split; [reflexivity | split; [reflexivity|]]. exists (fun g => g). split; [rewrite map_id; reflexivity | split; [intros g0; repeat split; auto | intros g0 []]].
  - set (f1 := fun g0 => if g_gid g0 =? x then set_trig g0 (Some tv) (g_late g0 || l) else g0).
    assert (R1 : s_regs (trigger s x tv l) = map f1 (s_regs s)) by (apply regs_trigger; exact Hn).
    assert (K1 : keeps f1). { intros g0. unfold f1. destruct (g_gid g0 =? x); cbn; repeat split; auto. discriminate. }
    assert (Hn1 : NoDup (map g_gid (s_regs (trigger s x tv l)))).
    { rewrite R1, map_map. erewrite map_ext; [exact Hn|]. intros g0. apply K1. }
    assert (PV : s_prod (trigger s x tv l) = s_prod s /\ s_version (trigger s x tv l) = s_version s).
    { unfold trigger. destruct (find_reg s x); split; reflexivity. }
    destruct (IH (trigger s x tv l) Hn1) as (A & B & F2 & C & K2 & D). destruct PV as [PV1 PV2].
    split; [congruence | split; [congruence|]]. exists (fun g0 => F2 (f1 g0)). split; [rewrite C, R1, map_map; reflexivity | split].
    + intros g0. destruct (K1 g0) as (a1 & a2 & a3 & a4). destruct (K2 (f1 g0)) as (b1 & b2 & b3 & b4). repeat split; try congruence. auto.
    + intros g0 [Hx|Hi].
      * apply (K2 (f1 g0)). unfold f1. replace (g_gid g0 =? x) with true by lia. cbn. discriminate.
      * apply D. destruct (K1 g0) as (a1 & _). rewrite a1. exact Hi.
Qed.
Lemma trigger_burst_char order burst : forall s, NoDup (map g_gid (s_regs s)) ->
  let s' := trigger_burst order burst s in
  s_prod s' = s_prod s /\
  exists F, s_regs s' = map F (s_regs s) /\ keeps F /\ (burst <> [] -> forall g0, In (g_gid g0) order -> g_trig (F g0) <> None).
Proof.
  unfold trigger_burst. induction burst as [|tb bs IH]; intros s Hn; cbn [fold_left].
  - split; [reflexivity|]. exists (fun g => g). split; [rewrite map_id; reflexivity | split; [intros g0; repeat split; auto | intros H; exfalso; apply H; reflexivity]].
  - set (s0 := set_version s (s_version s + 1)).
    destruct (trigger_all_char (fst tb) (snd tb) order s0 Hn) as (A & B & F1 & C & K1 & D).
    set (s1 := fold_left (fun s2 gid => trigger s2 gid (fst tb) (snd tb)) order s0) in *.
    assert (Hn1 : NoDup (map g_gid (s_regs s1))).
    { rewrite C, map_map. erewrite map_ext; [exact Hn|]. intros g0. apply K1. }
    destruct (IH s1 Hn1) as (A2 & F2 & C2 & K2 & D2).
    split; [rewrite A2, A; reflexivity|]. exists (fun g0 => F2 (F1 g0)). split; [rewrite C2, C, map_map; reflexivity | split].
    + intros g0. destruct (K1 g0) as (a1 & a2 & a3 & a4). destruct (K2 (F1 g0)) as (b1 & b2 & b3 & b4). repeat split; try congruence. auto.
    + intros _ g0 Hi. apply (K2 (F1 g0)). apply D. exact Hi.
Qed.

(* entries of other registrations are not touched by a task's run *)
Definition others_kept (x : Z) (s s' : state) : Prop := forall g0, In g0 (s_regs s') -> g_gid g0 <> x -> In g0 (s_regs s).
Lemma ok_trans x s1 s2 s3 : others_kept x s1 s2 -> others_kept x s2 s3 -> others_kept x s1 s3.
Proof. intros A B g0 H Hn. apply A; [apply B|]; assumption. Qed.
Lemma ok_same x s s' : s_regs s' = s_regs s -> others_kept x s s'. Proof. intros E g0 H _. rewrite <- E. exact H. Qed.
Lemma ok_put s g : others_kept (g_gid g) s (put_reg s g).
Proof. intros g0 H Hn. unfold put_reg in H. fsimpl. apply in_map_iff in H as [y [Hy Hi]]. destruct (g_gid y =? g_gid g) eqn:E; subst g0; [tauto | exact Hi]. Qed.
Lemma ok_remove x s : others_kept x s (remove_reg s x).
Proof. intros g0 H _. unfold remove_reg in H. fsimpl. apply filter_In in H. tauto. Qed.
Lemma ok_emit x s g code o pk pv : others_kept x s (emit s g code o pk pv).
Proof. apply ok_same. apply (emit_eff s g code o pk pv). Qed.
Lemma ok_after_response cont s g res : (forall s1 g1, g_gid g1 = g_gid g -> others_kept (g_gid g) s1 (cont s1 g1)) ->
  others_kept (g_gid g) s (after_response cont s g res).
Proof. intros Hc. unfold after_response. destruct res as [code pk pv|code pk pv].
  - destruct (g_late g || negb (successful code)).
    + eapply ok_trans; [apply ok_emit|]. eapply ok_trans; [apply ok_remove | apply ok_same; reflexivity].
    + eapply ok_trans; [apply ok_emit | apply Hc; reflexivity].
  - eapply ok_trans; [apply (ok_same _ s (cancel_cb s (g_gid g))); reflexivity|]. eapply ok_trans; [apply ok_emit | apply ok_remove]. Qed.
Lemma ok_run_loop f : forall s g, others_kept (g_gid g) s (run_loop f s g).
Proof. induction f as [|f IH]; intros s g; cbn [run_loop]; [apply ok_put|].
  destruct (g_trig g) as [[|code k]|]; [| |apply (ok_put s (set_phase g PWait))].
  - set (s1 := log s _). eapply ok_trans; [apply (ok_same _ s s1); reflexivity|]. destruct (s_gate s1).
    + apply (ok_put s1 (set_phase (set_trig g None (g_late g)) (PNotif (s_version s1)))).
    + apply (ok_after_response (run_loop f) s1 (set_trig g None (g_late g))). intros s2 g2 E. rewrite <- E. apply IH.
  - apply (ok_after_response (run_loop f) s (set_trig g None (g_late g))). intros s2 g2 E. rewrite <- E. apply IH.
Qed.

(* the woken tasks run one after the other *)
Definition pend (l : list Z) (g0 : reg) : Prop := In (g_gid g0) l /\ g_trig g0 <> None /\ -1 <= g_next g0.
Lemma wake_LV l : forall s, NoDup l -> LVP (pend l) s -> (forall g0, In g0 (s_regs s) -> In (g_gid g0) l -> pend l g0) ->
  LV (wake l s).
Proof.
  unfold wake. induction l as [|x l IH]; intros s Hn H HM; cbn [fold_left].
  - intros g0 Hg. destruct (H g0 Hg) as [Q|[[] _]]. exact Q.
  - inv Hn. rename H2 into Hx. rename H3 into Hn.
    assert (Hweak : forall g0, pend (x :: l) g0 -> g_gid g0 <> x -> pend l g0).
    { intros g0 ([E|E] & B & C) Hne; [congruence | repeat split; assumption]. }
    destruct (find_reg s x) as [g|] eqn:E.
    + apply find_reg_In in E as [Ei Eg].
      destruct (HM g Ei ltac:(left; congruence)) as (_ & Ht & Hnx).
      assert (HL : LVxP (pend l) (g_gid g) s).
      { intros g0 Hg Hne. destruct (H g0 Hg) as [Q|Q]; [left; exact Q | right; apply Hweak; [exact Q | congruence]]. }
      assert (HP : Lpre s g) by (split; [exact Hnx | intros Hc; contradiction]).
      apply IH; [exact Hn | apply (run_loop_LV (pend l) 0 s g HL HP)|].
      intros g0 Hg Hin. assert (Hne : g_gid g0 <> g_gid g) by (intros Ec; apply Hx; rewrite Eg in Ec; rewrite <- Ec; exact Hin).
      pose proof (ok_run_loop 2 s g g0 Hg Hne) as Hold. apply Hweak; [apply HM; [exact Hold | right; exact Hin] | congruence].
    + apply IH; [exact Hn | |].
      * intros g0 Hg. destruct (H g0 Hg) as [Q|Q]; [left; exact Q | right; apply Hweak; [exact Q|]].
        intros Ec. apply find_reg_None in E. apply E. rewrite <- Ec. apply in_map. exact Hg.
      * intros g0 Hg Hin. apply Hweak; [apply HM; [exact Hg | right; exact Hin]|].
        intros Ec. apply Hx. rewrite <- Ec. exact Hin.
Qed.

(* ------------------------------------------------------------------ events *)
Lemma flush_same3 s : s_regs (flush_cancels s) = s_regs s /\ s_prod (flush_cancels s) = s_prod s /\ s_version (flush_cancels s) = s_version s.
Proof. unfold flush_cancels. fsimpl. assert (G : forall l s0, s_regs (fold_left cancel_cb l s0) = s_regs s0 /\ s_prod (fold_left cancel_cb l s0) = s_prod s0 /\ s_version (fold_left cancel_cb l s0) = s_version s0).
  { induction l as [|x l IH]; intros s0; cbn [fold_left]; [auto|]. destruct (IH (cancel_cb s0 x)) as (A & B & C). rewrite A, B, C. auto. }
  apply G. Qed.
Lemma LV_flush s : LV s -> LV (flush_cancels s).
Proof. intros H. destruct (flush_same3 s) as (A & B & C). apply LV_LVP. apply (LV_same3 _ s); auto. apply LV_LVP. exact H. Qed.
Definition Hpos (s : state) : Prop := forall g0, In g0 (s_regs s) -> 0 <= g_gid g0.
Lemma LV_LF2 s s' : LF s s' -> Hpos s -> LV s -> LV s' /\ Hpos s'.
Proof. intros F Hp H. split; [apply (LV_LF s); assumption|]. intros g0 Hg. apply Hp. apply (lf_regs _ _ F). exact Hg. Qed.
Lemma find_reg_of_In s g0 : NoDup (map g_gid (s_regs s)) -> In g0 (s_regs s) -> find_reg s (g_gid g0) = Some g0.
Proof. intros Hn Hg. destruct (find_reg s (g_gid g0)) as [g1|] eqn:E.
  - apply find_reg_In in E as [E1 E2]. f_equal. apply (NoDup_map_inj g_gid (s_regs s)); auto.
  - exfalso. apply find_reg_None in E. apply E. apply in_map. exact Hg. Qed.
Lemma fresh_of_version s md v : v = s_version s -> res_fresh s (render_outcome md v).
Proof. intros ->. destruct md; cbn; auto. Qed.

Lemma trigger_event_LV s perm burst : FI None s -> map g_gid (s_regs s) = s_observers s -> LV s -> LV (step s (ETrigger perm burst)).
Proof.
  intros HF Ho H. cbn [step]. apply LV_flush. destruct burst as [|b0 bs]; [exact H|].
  set (order := pick_order perm (s_observers s)). set (waiting := filter (is_waiting s) order).
  pose proof (g_nd s (proj1 HF)) as Hn.
  destruct (trigger_burst_char order (b0 :: bs) s Hn) as (A & F & C & K & D).
  set (s1 := trigger_burst order (b0 :: bs) s) in *.
  assert (Hord : forall g0, In g0 (s_regs s) -> In (g_gid g0) order).
  { intros g0 Hg. apply (Permutation_in _ (Permutation_sym (pick_order_perm perm (s_observers s)))). rewrite <- Ho. apply in_map. exact Hg. }
  assert (Hpend : forall g1, In g1 (s_regs s1) -> (In (g_gid g1) waiting -> pend waiting g1) /\ (~ In (g_gid g1) waiting -> QV s1 g1)).
  { intros g1 Hg1. rewrite C in Hg1. apply in_map_iff in Hg1 as [g0 [<- Hg0]]. destruct (K g0) as (k1 & k2 & k3 & k4).
    assert (Ht : g_trig (F g0) <> None) by (apply D; [discriminate | apply Hord; exact Hg0]).
    destruct (H g0 Hg0) as [Hnx _]. split.
    - intros Hi. repeat split; [exact Hi | exact Ht | lia].
    - intros Hni. split; [lia|]. rewrite k2. destruct (g_phase g0) eqn:Ep; try (intros Hc; contradiction).
      exfalso. apply Hni. rewrite k1. apply filter_In. split; [apply Hord; exact Hg0|]. unfold is_waiting. rewrite (find_reg_of_In s g0 Hn Hg0), Ep. reflexivity. }
  apply wake_LV.
  - apply NoDup_filter. apply (Permutation_NoDup (Permutation_sym (pick_order_perm perm (s_observers s)))). rewrite <- Ho. exact Hn.
  - intros g1 Hg1. destruct (Hpend g1 Hg1) as [P1 P2]. destruct (in_dec Z.eq_dec (g_gid g1) waiting); [right; auto | left; auto].
  - intros g1 Hg1 Hi. apply (Hpend g1 Hg1). exact Hi.
Qed.

Lemma step_LV s e : FI None s -> map g_gid (s_regs s) = s_observers s -> LV s -> LV (step s e).
Proof.
  intros HF Ho H. assert (Hp : Hpos s) by (intros g0 Hg; apply (g_rng s (proj1 HF)); exact Hg).
  destruct e; try (apply trigger_event_LV; assumption); cbn [step].
  - destruct (s_down s); [exact H|]. destruct (in_recent s r mid) as [st|].
    + destruct con; [|exact H]. destruct st as [m|]; [|exact H]. apply (LV_LF s); auto. apply LF_send_initially.
    + apply LV_flush.
      match goal with |- LV (process_request ?x _ _ _ _) => set (s2 := x) end.
      assert (H2 : LV s2 /\ Hpos s2) by (apply (LV_LF2 s); auto; subst s2; destruct con; apply LF_same; reflexivity).
      destruct H2 as [H2 Hp2]. unfold process_request.
      set (s3 := match find_key s2 r tok with Some g0 => stop s2 (g_gid g0) | None => s2 end).
      assert (H3 : LV s3 /\ Hpos s3) by (apply (LV_LF2 s2); auto; subst s3; destruct (find_key s2 r tok); [apply LF_stop | apply LF_refl]).
      destruct H3 as [H3 Hp3].
      assert (H4 : LV (flush_cancels s3) /\ Hpos (flush_cancels s3)) by (apply (LV_LF2 s3); auto; apply LF_flush).
      destruct H4 as [H4 Hp4].
      destruct obs as [[| |]|]; try (apply (LV_LF (flush_cancels s3)); auto; apply LF_plain).
      apply LV_LVP. apply accept_LV. apply LV_LVP. exact H4.
  - destruct (s_down s); [exact H|]. apply LV_flush. apply (LV_LF s); auto. apply LF_remove_exchange.
  - destruct (s_down s); [exact H|]. apply LV_flush. apply (LV_LF s); auto. apply LF_remove_exchange.
  - destruct (find_key s r tok) as [g|] eqn:E; [|exact H]. apply find_key_In in E as [E _].
    pose proof (H g E) as [Hnx Q].
    assert (HL : LVxP (fun _ => False) (g_gid g) s) by (apply LV_to_LVx; apply LV_LVP; exact H).
    destruct (g_phase g) eqn:Ep; [| exact H |]; apply LV_flush; apply LV_LVP.
    + apply first_render_done_LV; auto. intros Ht. apply fresh_of_version. apply Q. exact Ht.
    + apply after_response_LV; auto.
      * intros Ht. apply fresh_of_version. apply Q. exact Ht.
      * intros s1 g1 A B C D. apply (run_loop_LV _ 0); [rewrite B; exact A | exact D].
  - apply LV_LVP. apply (LV_same3 _ s); auto. apply LV_LVP. exact H.
  - apply LV_LVP. apply (LV_same3 _ s); auto. apply LV_LVP. exact H.
  - apply (LV_LF s); auto. eapply LF_trans; [apply (LF_advance (advance_fuel s) s (s_now s + dt)) | apply LF_same; reflexivity].
  - apply LV_flush. apply (LV_LF s); auto. apply LF_dispatch_error.
  - destruct (s_down s); [exact H|]. apply LV_flush. apply (LV_LF s); auto.
    eapply LF_trans; [apply (LF_fold_stop (map g_gid (s_regs s)) s) | apply LF_same; reflexivity].
Qed.

Lemma LV_init m : LV (init m). Proof. intros g0 []. Qed.
Lemma run_all : forall es s, FI None s -> InvA (abs s) -> s_cancelq s = [] -> LV s ->
  FI None (run s es) /\ InvA (abs (run s es)) /\ s_cancelq (run s es) = [] /\ LV (run s es).
Proof.
  induction es as [|e es IH]; intros s H1 H2 H3 H4; cbn; [auto|]. apply IH.
  - apply step_FI; exact H1.
  - eapply InvA_areach; [apply areach_step | exact H2].
  - apply cq_step; exact H3.
  - apply step_LV; auto. destruct H2 as [_ _ G _ _ _ _ _ _ _]. cbn [abs a_gids a_obs a_cq] in G. rewrite H3 in G. rewrite G.
    clear. induction (s_observers s) as [|x l IHl]; [reflexivity|]. cbn [filter memZ existsb negb]. f_equal. exact IHl.
Qed.

(* the last datagram transmitted for the first time for g *)
Definition last_wire (g : Z) (s : state) : option msg := hd_error (rev (wirel g s)).

(* Latest state sent, for every history and every LIVE registration g0 (an ended one is the property's "or the registration
   ended"). Fairness hypotheses: no render of g0 is in progress at the end (its task waits for a trigger) and nothing of g0
   waits in the backlog (the peer acknowledged what was sent before).  Then a datagram for g0 exists on the wire, and the last one,
   if it is a rendered notification (m_pk = 1; an explicit response, m_pk = 2, is whatever the application passed last), carries
   the resource's current version — the version after the last trigger, s_version being changed by ETrigger only. *)
Lemma latest_lemma : forall mid0 es g0, let s := run (init mid0) es in
  In g0 (s_regs s) -> g_phase g0 = PWait -> queuel (g_gid g0) s = [] ->
  g_trig g0 = None /\
  exists m, last_wire (g_gid g0) s = Some m /\ lastp (g_gid g0) s = Some m /\ (m_pk m = 1 -> m_pv m = s_version s).
Proof.
  intros mid0 es g0 s Hg Hp Hq.
  destruct (run_all es (init mid0) (FI_init mid0) (InvA_init mid0) eq_refl (LV_init mid0)) as (HF & _ & _ & HL). fold s in HF, HL.
  destruct (HL g0 Hg) as [Hnx Q]. rewrite Hp in Q. destruct Q as (Ht & Hn0 & Hfr). split; [exact Ht|].
  destruct HF as [HG Ho]. destruct (Ho g0 Hg) as [[R1 R2 R3 [R4 _] R5] _]. rewrite Hq, app_nil_r in R1.
  assert (Hne : gfilter (g_gid g0) (s_prod s) <> []).
  { intros E. unfold prodl in R4. rewrite E in R4. cbn in R4. unfold somes in R4. replace (Z.to_nat (g_next g0 + 1)) with (S (Z.to_nat (g_next g0))) in R4 by lia. discriminate. }
  destruct (gfilter (g_gid g0) (s_prod s)) as [|m rest] eqn:E; [congruence|].
  exists m. unfold last_wire. rewrite <- R1. unfold prodl. rewrite E, rev_involutive. split; [reflexivity|].
  assert (El : lastp (g_gid g0) s = Some m) by (unfold lastp; rewrite E; reflexivity). split; [exact El | apply Hfr; exact El].
Qed.
(* the history-level invariant itself, also for registrations whose render is in progress *)
Lemma latest_invariant : forall mid0 es, LV (run (init mid0) es).
Proof. intros. apply (run_all es (init mid0) (FI_init mid0) (InvA_init mid0) eq_refl (LV_init mid0)). Qed.
