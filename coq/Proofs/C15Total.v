(* C15 — totality: no exception other than UnparsableMessage leaves the parser, none leaves data_received. *)
From Verif Require Import Lib.Py Lib.Tactics Lib.PyLemmas Gen.options_ext Gen.tcp_framing Model.C15 Proofs.C15.
Open Scope Z_scope.

(* ---------------------------------------------------------------- extended fields *)
Lemma read_ext_total : forall nib raw, bytes_ok raw = true -> 0 <= nib ->
  (exists v r1, read_extended_field_value nib raw = Ok (v, r1) /\ 0 <= v <= 65804 /\ bytes_ok r1 = true /\
                (length r1 <= length raw)%nat) \/
  read_extended_field_value nib raw = Raise UnparsableMessage.
Proof.
  intros nib raw Hok Hn. unfold read_extended_field_value.
  destruct ((nib >=? 0) && (nib <? 13)) eqn:H1.
  { left. exists nib, raw. repeat split; auto; lia. }
  destruct (nib =? 13) eqn:H2.
  { destruct raw as [|e0 r]; [right; reflexivity|].
    rewrite blen_cons. pose proof (blen_nonneg r). replace (1 + blen r <? 1) with false by lia.
    rewrite bget_cons0. cbn [bind]. left. exists (e0 + 13), r.
    rewrite bytes_ok_cons in Hok. apply andb_prop in Hok as [He Hr]. unfold byte_ok in He.
    unfold bfrom. change (Z.to_nat 1) with 1%nat. cbn [skipn length]. repeat split; auto; lia. }
  destruct (nib =? 14) eqn:H3; [|right; reflexivity].
  destruct raw as [|e0 [|e1 r]]; [right; reflexivity|right; reflexivity|].
  rewrite !blen_cons. pose proof (blen_nonneg r). replace (1 + (1 + blen r) <? 2) with false by lia.
  left. exists (e0 * 256 + e1 + 269), r.
  rewrite !bytes_ok_cons in Hok. apply andb_prop in Hok as [He0 Hok]. apply andb_prop in Hok as [He1 Hr].
  unfold byte_ok in *. unfold bfrom, bto, from_bytes_big. change (Z.to_nat 2) with 2%nat.
  cbn [skipn firstn from_bytes_big_acc length]. repeat split; auto; try lia.
Qed.

Lemma option_value_total n raw : (exists v, option_value n raw = Ok v) \/ option_value n raw = Raise UnparsableMessage.
Proof.
  unfold option_value. destruct (format_of n).
  - destruct (utf8_valid raw); [left; eexists; reflexivity|right; reflexivity].
  - left; eexists; reflexivity.
  - left; eexists; reflexivity.
Qed.

(* ---------------------------------------------------------------- Options.decode *)
Lemma options_decode_loop_total : forall fuel num raw, bytes_ok raw = true -> 0 <= num -> (length raw < fuel)%nat ->
  (exists os p, options_decode_loop fuel num raw = Ok (os, p) /\
     Forall (fun o => 0 <= fst o <= num + 65804 * blen raw) os) \/
  options_decode_loop fuel num raw = Raise UnparsableMessage.
Proof.
  induction fuel as [|k IH]; intros num raw Hok Hnum Hf; [lia|].
  destruct raw as [|b0 rest]; [left; exists [], []; split; [reflexivity|constructor]|].
  rewrite options_decode_loop_cons.
  destruct (b0 =? 255). { left. exists [], rest. split; [reflexivity|constructor]. }
  rewrite bytes_ok_cons in Hok. apply andb_prop in Hok as [Hb0 Hrest]. unfold byte_ok in Hb0.
  assert (Hd0 : 0 <= Z.shiftr (Z.land b0 240) 4) by (apply Z.shiftr_nonneg, Z.land_nonneg; lia).
  assert (Hl0 : 0 <= Z.land b0 15) by (apply Z.land_nonneg; lia).
  destruct (read_ext_total _ rest Hrest Hd0) as [(d & r1 & E1 & Hd & Hr1 & L1)|E1]; rewrite E1; [|right; reflexivity].
  cbn [bind].
  destruct (read_ext_total _ r1 Hr1 Hl0) as [(l & r2 & E2 & Hl & Hr2 & L2)|E2]; rewrite E2; [|right; reflexivity].
  cbn [bind].
  destruct (blen r2 <? l) eqn:Hlen; [right; reflexivity|].
  destruct (option_value_total (num + d) (bto r2 l)) as [[v Ev]|Ev]; rewrite Ev; [|right; reflexivity].
  cbn [bind].
  assert (Hsk : (length (bfrom r2 l) <= length r2)%nat) by (unfold bfrom; rewrite skipn_length; lia).
  destruct (IH (num + d) (bfrom r2 l) (bytes_ok_skipn _ _ Hr2) ltac:(lia) ltac:(cbn [length] in Hf; lia))
    as [(os & p & E3 & Hos)|E3]; rewrite E3; [|right; reflexivity].
  cbn [bind]. left. exists ((num + d, v) :: os), p. split; [reflexivity|].
  assert (Hb : blen (bfrom r2 l) <= blen rest) by (unfold blen; lia).
  rewrite blen_cons. pose proof (blen_nonneg (bfrom r2 l)). pose proof (blen_nonneg rest).
  constructor.
  - cbn [fst]. nia.
  - eapply Forall_impl; [|exact Hos]. intros o Ho. cbv beta in *. nia.
Qed.

(* ---------------------------------------------------------------- _decode_message on a complete frame *)
Lemma decode_message_total f a t l : bytes_ok f = true -> header f = Some (a, t, l) -> a + t + l = blen f ->
  (exists m, decode_message f = Ok m /\ blen (token m) <= 8 /\
     Forall (fun o => 0 <= fst o <= 65804 * blen f) (opts m)) \/
  decode_message f = Raise UnparsableMessage.
Proof.
  intros Hok Hh Hlen. destruct (header_bounds f a t l Hok Hh) as (Ha & Ht & Hl & _).
  unfold decode_message. rewrite extract_message_size_spec, Hh. cbn [bind].
  destruct (t >? 8) eqn:Ht8; [right; reflexivity|].
  rewrite bget_ok by lia. cbn [bind].
  set (raw := bfrom f (a + t)).
  assert (Hrawok : bytes_ok raw = true) by (apply bytes_ok_skipn; exact Hok).
  destruct (options_decode_loop_total (S (length raw)) 0 raw Hrawok ltac:(lia) ltac:(lia)) as [(os & p & E & Hos)|E];
    unfold options_decode; fold raw; rewrite E; [|right; reflexivity].
  cbn [bind]. left. eexists. split; [reflexivity|]. cbn [token opts]. split.
  - unfold bslice, blen. rewrite skipn_length, firstn_length. lia.
  - eapply Forall_impl; [|exact Hos]. intros o Ho. cbv beta in *.
    assert (blen raw <= blen f) by (unfold raw, bfrom, blen; rewrite skipn_length; lia).
    pose proof (blen_nonneg raw). nia.
Qed.

(* ---------------------------------------------------------------- the signalling reactions do not raise *)
Lemma abort_none_esc c t : serialize (abort_msg t None) = Ok (abort_frame t) -> esc (snd (fst (abort c t None))) = false.
Proof. intros H. rewrite (abort_none c t H). reflexivity. Qed.

Lemma process_csm_options_no_esc : forall os c st, Forall (fun o => 0 <= fst o < 2 ^ 64) os ->
  let '(c1, s1, o, ok) := process_csm_options c st os in esc o = false.
Proof.
  induction os as [|[n v] r IH]; intros c st Hall; [reflexivity|].
  inversion Hall as [|? ? Hn Hr]; subst. cbn [fst] in Hn.
  cbn [process_csm_options]. destruct (n =? 2); [apply IH; exact Hr|]. destruct (n =? 4); [apply IH; exact Hr|].
  destruct (is_critical n); [|apply IH; exact Hr].
  destruct (serialize_abort_bad n Hn) as [b Hb]. unfold abort. rewrite Hb. reflexivity.
Qed.

Lemma process_signaling_no_esc c m : blen (token m) <= 8 -> Forall (fun o => 0 <= fst o < 2 ^ 64) (opts m) ->
  esc (snd (fst (process_signaling c m))) = false.
Proof.
  intros Ht Hall. unfold process_signaling. destruct (code m =? CSM).
  { pose proof (process_csm_options_no_esc (opts m) c
      match remote_settings c with Some s => s | None => {| max_message_size := None; block_wise_transfer := false |} end Hall) as H.
    destruct (process_csm_options c _ (opts m)) as [[[c1 s1] o] ok]. exact H. }
  destruct ((code m =? PING) || (code m =? PONG) || (code m =? RELEASE) || (code m =? ABORT)).
  { destruct (has_critical (opts m)).
    { rewrite abort_none by apply serialize_abort_texts. reflexivity. }
    destruct (code m =? PING).
    { unfold send_message. rewrite serialize_pong by exact Ht. reflexivity. }
    destruct (code m =? PONG); [reflexivity|]. destruct (code m =? RELEASE); reflexivity. }
  rewrite abort_none by apply serialize_abort_texts. reflexivity.
Qed.

Lemma frame_step_no_esc c f r a t l : bytes_ok f = true -> header f = Some (a, t, l) -> a + t + l = blen f ->
  blen f <= 2 ^ 40 ->
  match frame_step c f r with FStop _ o | FNext _ o => esc o = false end.
Proof.
  intros Hok Hh Hlen Hmax. unfold frame_step.
  destruct (decode_message_total f a t l Hok Hh Hlen) as [(m & E & Htok & Hopts)|E]; rewrite E.
  2:{ rewrite abort_none by apply serialize_abort_texts. reflexivity. }
  destruct (is_signalling (code m)).
  { assert (Hall : Forall (fun o => 0 <= fst o < 2 ^ 64) (opts m)).
    { eapply Forall_impl; [|exact Hopts]. intros o Ho. cbv beta in *.
      change (2 ^ 40) with 1099511627776 in Hmax. change (2 ^ 64) with 18446744073709551616. lia. }
    pose proof (process_signaling_no_esc (set_spool c r) m Htok Hall) as H.
    destruct (process_signaling (set_spool c r) m) as [[c1 o1] res]. cbn [fst snd] in H.
    destruct res; [destruct (closed c1); exact H| |exact H].
    rewrite esc_app, H. reflexivity. }
  destruct (remote_settings (set_spool c r)).
  - unfold dispatch_incoming. destruct (code m =? 0); [reflexivity|]. destruct (is_response (code m)); reflexivity.
  - rewrite abort_none by apply serialize_abort_texts. reflexivity.
Qed.

Lemma loop_no_esc : forall n c, (length (spool c) < n)%nat -> bytes_ok (spool c) = true ->
  my_max_message_size c <= 2 ^ 40 -> esc (snd (fst (loop' c))) = false.
Proof.
  induction n as [|n IH]; intros c Hn Hok Hmax; [lia|].
  rewrite (loop'_unfold c Hok). unfold view_body.
  destruct (view_of _ (spool c)) as [| |f r] eqn:V; [reflexivity| |].
  - rewrite abort_none by apply serialize_abort_texts. reflexivity.
  - destruct (view_frame_facts _ _ _ _ Hok V) as (_ & Hlen & Hfok & Hrok & a & t & l & Hh & Hfl & Hfm).
    pose proof (frame_step_no_esc c f r a t l Hfok Hh Hfl ltac:(lia)) as FE.
    pose proof (frame_step_post c f r) as FP.
    destruct (frame_step c f r) as [c1 o1|c1 o1]; [exact FE|].
    destruct FP as (_ & _ & F3 & F4 & _).
    specialize (IH c1 ltac:(rewrite F3; lia) ltac:(rewrite F3; exact Hrok) ltac:(rewrite F4; exact Hmax)).
    destruct (loop' c1) as [[c2 o2] k]. cbn [fst snd] in *. rewrite esc_app, FE, IH. reflexivity.
Qed.

(* for every connection state and every chunk of bytes, data_received produces outputs and a new state and
   no exception leaves it: every failure of the parser has been turned into Abort + close *)
Lemma data_received_no_esc c d : bytes_ok (spool c) = true -> bytes_ok d = true ->
  my_max_message_size c <= 2 ^ 40 -> existsb is_escaped (snd (data_received c d)) = false.
Proof.
  intros Hok Hd Hmax. unfold data_received. rewrite data_received_ctl_loop'.
  assert (Hok' : bytes_ok (spool (feed c d)) = true) by (cbn; rewrite bytes_ok_app, Hok, Hd; reflexivity).
  pose proof (loop_no_esc (S (length (spool (feed c d)))) (feed c d) ltac:(lia) Hok' Hmax) as H.
  destruct (loop' (feed c d)) as [[c1 o1] k]. exact H.
Qed.
