(* C13 — proofs, part 3 (round 5): the nonce of a request is used again for a response at most once over a whole history.
   unprotect hands on RequestIdentifiers with can_reuse_nonce = "no replay error when they were built"; protect(request_id=...)
   reuses the request's (kid, Partial IV) as nonce exactly when that flag is set, and clears it.  A reused nonce therefore
   belongs to a request accepted through the window check, and no request number is accepted twice (Proofs/C13replay.v). *)
From Verif Require Import Lib.Py Lib.Tactics Gen.oscore_replay Model.C12 Model.C13 Proofs.C12 Proofs.C13 Proofs.C13replay.
Open Scope Z_scope.

Lemma nsn_pend p d a : match new_sequence_number p d a with (p', _, _) => pend p' = pend p end.
Proof.
  unfold new_sequence_number. destruct (ssn p >=? MAX_SEQNO); [reflexivity|].
  unfold post_seqnoincrease. cbn [ssn persisted chunk limit set_ssn set_persisted set_chunk].
  destruct (ssn p + 1 >? persisted p); [|reflexivity].
  destruct (_store _ d a) as [d' died]. destruct died; [reflexivity|].
  match goal with |- context [if ?b then _ else _] => destruct b end; reflexivity.
Qed.
Lemma seq_loop_pend n : forall p d a acc, match seq_loop n p d a acc with (p', _, _, _) => pend p' = pend p end.
Proof.
  induction n as [|n IH]; intros p d a acc; cbn [seq_loop]; [reflexivity|].
  pose proof (nsn_pend p d a) as H. destruct (new_sequence_number p d a) as [[p1 d1] [v|e|]]; try exact H.
  specialize (IH p1 d1 a (v :: acc)). destruct (seq_loop n p1 d1 a (v :: acc)) as [[[p' d'] l] e]. congruence.
Qed.

(* identifiers that allow reuse come only from an acceptance through the window check *)
Lemma pend_of_true c r n : CtxInv c -> 0 <= seqno r ->
  pend_of c r (snd (unprotect_request c r)) = Some (n, true) ->
  snd (unprotect_request c r) = Accept /\ n = seqno r /\ window c <> None.
Proof.
  intros HI Hn. rewrite (unprotect_eq c r HI Hn). unfold pend_of, can_reuse_nonce, unprotect_spec.
  destruct HI as (Hs & Hw). destruct (window c) as [w|] eqn:Ew.
  - destruct Hw as (HIw & _). rewrite is_valid_eq, (is_valid_b_spec w _ HIw Hn).
    destruct (seen w (seqno r)).
    + destruct (echo_recovery c); [destruct (authentic r)|]; cbn; intros H; discriminate.
    + destruct (authentic r); cbn; intros H; [|discriminate]. injection H as <-. split; [reflexivity|]. split; [reflexivity|discriminate].
  - destruct (echo_recovery c) as [e|]; [|cbn; discriminate].
    destruct (authentic r); [|cbn; discriminate].
    destruct (opt_eqb (echo r) (Some e)); cbn; discriminate.
Qed.
Lemma unprotect_outcome p d a r : match unprotect p d a r with
  | (_, _, Val o) => o = snd (unprotect_request (uc p) r) | _ => True end.
Proof.
  unfold unprotect. destruct (unprotect_request (uc p) r) as [c' o]. cbn [snd].
  destruct (strikes (uc p) o); [|reflexivity].
  destruct (_replay_window_changed (set_uc p c') d a) as [[p2 d'] died]. destruct died; reflexivity.
Qed.

(* [A] numbers accepted so far, [R] request numbers whose nonce has been reused for a response so far *)
Definition PendOK (w : world) (A R : list Z) : Prop :=
  match w_proc w with
  | Some p => match pend p with Some (n, true) => In n A /\ ~ In n R | _ => True end
  | None => True
  end.
Definition RI (w : world) (A R : list Z) : Prop := PendOK w A R /\ (forall n, In n R -> In n A) /\ NoDup R.

Lemma PendOK_grow p A R B : (match pend p with Some (n, true) => In n A /\ ~ In n R | _ => True end) ->
  match pend p with Some (n, true) => In n (A ++ B) /\ ~ In n R | _ => True end.
Proof. destruct (pend p) as [[n [|]]|]; auto. intros [H1 H2]. split; [apply in_or_app; left; exact H1|exact H2]. Qed.

Lemma step_ri w ev A R : ROK w A -> ev_ok2 ev -> echo_cond w A ev -> RI w A R ->
  let '(w', o) := step w ev in RI w' (A ++ acc_of ev o) (R ++ reused_of o).
Proof.
  intros HR Hok Hecho (HPd & Hsub & Hnd).
  pose proof (step_rok w ev A HR Hok Hecho) as Hstep.
  assert (Hsub' : forall B n, In n R -> In n (A ++ B)) by (intros B n H; apply in_or_app; left; apply Hsub; exact H).
  destruct HR as (Hs & HD & HP). unfold step in *. unfold PendOK in HPd. unfold RI, PendOK.
  destruct (w_proc w) as [p|] eqn:Ep.
  - destruct ev as [a|n a|r a|a| |start lim echo|a|k|r k].
    + pose proof (nsn_pend p (w_disk w) a) as Hpe.
      destruct (new_sequence_number p (w_disk w) a) as [[p1 d1] [v|e|]]; cbn [reused_of acc_of w_proc mkw]; rewrite !app_nil_r;
        (split; [|split; [exact Hsub|exact Hnd]]); try exact I; rewrite Hpe; exact HPd.
    + pose proof (seq_loop_pend (Z.to_nat n) p (w_disk w) a []) as Hpe.
      destruct (seq_loop (Z.to_nat n) p (w_disk w) a []) as [[[p1 d1] l] e].
      destruct e; cbn [reused_of acc_of w_proc mkw]; rewrite !app_nil_r; (split; [|split; [exact Hsub|exact Hnd]]); try exact I; rewrite Hpe; exact HPd.
    + destruct HP as (Hsz & He & Hw & _).
      pose proof (WinOK_ctxinv (w_size w) A (uc p) Hs Hsz Hw) as HI.
      pose proof (unprotect_outcome p (w_disk w) a r) as Ho.
      destruct (unprotect p (w_disk w) a r) as [[p1 d1] [o|e|]]; cbn [reused_of w_proc mkw pend set_pend]; rewrite ?app_nil_r.
      * destruct Hstep as (_ & Hnew). split; [|split; [intros n Hn; apply Hsub'; exact Hn|exact Hnd]].
        destruct (pend_of (uc p) r o) as [[n [|]]|] eqn:Epo; try exact I.
        subst o. destruct (pend_of_true (uc p) r n HI Hok Epo) as (Hacc & -> & _). rewrite Hacc in *.
        cbn [acc_of] in *. split; [apply in_or_app; right; left; reflexivity|].
        intros Hin. apply (Hnew (seqno r)); [left; reflexivity|apply Hsub; exact Hin].
      * cbn [acc_of]. rewrite ?app_nil_r. split; [exact I|split; [exact Hsub|exact Hnd]].
      * cbn [acc_of]. rewrite ?app_nil_r. split; [exact I|split; [exact Hsub|exact Hnd]].
    + destruct (_destroy p (w_disk w) a) as [d' died].
      assert (Hno : acc_of (CleanStop a) (if died then ODied else OStopped) = [] /\ reused_of (if died then ODied else OStopped) = []) by (destruct died; auto).
      destruct Hno as [-> ->]. rewrite !app_nil_r. cbn [w_proc mkw]. split; [exact I|split; [exact Hsub|exact Hnd]].
    + cbn [reused_of acc_of w_proc mkw]. rewrite !app_nil_r. split; [exact I|split; [exact Hsub|exact Hnd]].
    + cbn [reused_of acc_of]. rewrite !app_nil_r. rewrite Ep. split; [exact HPd|split; [exact Hsub|exact Hnd]].
    + (* Respond *)
      destruct (pend p) as [[n [|]]|] eqn:Epe.
      * cbn [reused_of acc_of w_proc mkw pend set_pend]. rewrite app_nil_r. destruct HPd as [HinA HniR].
        split; [exact I|]. split.
        -- intros m Hm. apply in_app_or in Hm. destruct Hm as [Hm|[<-|[]]]; [apply Hsub; exact Hm|exact HinA].
        -- apply NoDup_app_single. split; assumption.
      * pose proof (nsn_pend p (w_disk w) a) as Hpe.
        destruct (new_sequence_number p (w_disk w) a) as [[p1 d1] [v|e|]]; cbn [reused_of acc_of w_proc mkw]; rewrite !app_nil_r;
          (split; [|split; [exact Hsub|exact Hnd]]); try exact I; rewrite Hpe, Epe; exact I.
      * pose proof (nsn_pend p (w_disk w) a) as Hpe.
        destruct (new_sequence_number p (w_disk w) a) as [[p1 d1] [v|e|]]; cbn [reused_of acc_of w_proc mkw]; rewrite !app_nil_r;
          (split; [|split; [exact Hsub|exact Hnd]]); try exact I; rewrite Hpe, Epe; exact I.
    + pose proof (nsn_fails_same p (w_disk w) k) as Hpe.
      destruct (new_sequence_number_fails p (w_disk w) k) as [[p1 d1] [v|e|]]; destruct Hpe as (_ & _ & Hpe & _);
        cbn [reused_of acc_of w_proc mkw]; rewrite !app_nil_r; (split; [|split; [exact Hsub|exact Hnd]]); try exact I; rewrite Hpe; exact HPd.
    + pose proof (unprotect_fails_cases p (w_disk w) k r) as Hc. cbv zeta in Hc.
      destruct (strikes (uc p) (snd (unprotect_request (uc p) r)) && wpers p).
      * rewrite Hc in *. cbn [reused_of acc_of w_proc mkw pend set_pend]. rewrite ?app_nil_r. split; [exact I|split; [exact Hsub|exact Hnd]].
      * rewrite Hc in *. clear Hc.
        destruct HP as (Hsz & He & Hw & _).
        pose proof (WinOK_ctxinv (w_size w) A (uc p) Hs Hsz Hw) as HI.
        pose proof (unprotect_outcome p (w_disk w) None r) as Ho.
        destruct (unprotect p (w_disk w) None r) as [[p1 d1] [o|e|]]; cbn [reused_of w_proc mkw pend set_pend]; rewrite ?app_nil_r.
        -- destruct Hstep as (_ & Hnew). split; [|split; [intros n Hn; apply Hsub'; exact Hn|exact Hnd]].
           destruct (pend_of (uc p) r o) as [[n [|]]|] eqn:Epo; try exact I.
           subst o. destruct (pend_of_true (uc p) r n HI Hok Epo) as (Hacc & -> & _). rewrite Hacc in *.
           cbn [acc_of] in *. split; [apply in_or_app; right; left; reflexivity|].
           intros Hin. apply (Hnew (seqno r)); [left; reflexivity|apply Hsub; exact Hin].
        -- cbn [acc_of]. rewrite ?app_nil_r. split; [exact I|split; [exact Hsub|exact Hnd]].
        -- cbn [acc_of]. rewrite ?app_nil_r. split; [exact I|split; [exact Hsub|exact Hnd]].
  - destruct ev as [a|n a|r a|a| |start lim echo|a|k|r k]; cbn [reused_of acc_of]; rewrite !app_nil_r;
      try (rewrite Ep; split; [exact I|split; [exact Hsub|exact Hnd]]).
    cbn [w_proc mkw load pend]. split; [exact I|split; [exact Hsub|exact Hnd]].
Qed.

Lemma run_ri evs : forall w A R, ROK w A -> Forall ev_ok2 evs -> fresh_echo_run w A evs -> NoDup A -> RI w A R ->
  let os := snd (run w evs) in
  NoDup (R ++ reused os) /\ (forall n, In n (R ++ reused os) -> In n (A ++ accepted evs os)).
Proof.
  induction evs as [|e r IH]; intros w A R HR Hok Hfr HndA HRI; cbn [run].
  - cbn. rewrite !app_nil_r. destruct HRI as (_ & Hsub & Hnd). auto.
  - inversion Hok as [|? ? He Hr]; subst. cbn [fresh_echo_run] in Hfr. destruct Hfr as (Hec & Hfr).
    pose proof (step_rok w e A HR He Hec) as Hs. pose proof (step_ri w e A R HR He Hec HRI) as Hri.
    destruct (step w e) as [w1 o]. cbn [fst snd] in *. destruct Hs as (HR1 & Hnew).
    assert (Hnd1 : NoDup (A ++ acc_of e o)).
    { destruct (acc_of e o) as [|x [|y l]] eqn:Ea.
      - rewrite app_nil_r. exact HndA.
      - apply NoDup_app_single. split; [exact HndA|]. apply Hnew. left; reflexivity.
      - exfalso. destruct e; cbn in Ea; try discriminate; (destruct o; try discriminate; destruct o; discriminate). }
    specialize (IH w1 _ _ HR1 Hr Hfr Hnd1 Hri).
    destruct (run w1 r) as [w2 os]. cbn [fst snd] in *. cbv zeta in IH.
    unfold reused in *. cbn [flat_map]. rewrite accepted_cons, !app_assoc. exact IH.
Qed.

Theorem reused_nodup w evs : ROK w [] -> w_proc w = None -> Forall ev_ok2 evs -> fresh_echo_run w [] evs ->
  NoDup (reused (snd (run w evs))) /\
  (forall n, In n (reused (snd (run w evs))) -> In n (accepted evs (snd (run w evs)))).
Proof.
  intros HR Hnone Hok Hfr.
  assert (HRI : RI w [] []) by (unfold RI, PendOK; rewrite Hnone; split; [exact I|split; [intros n []|constructor]]).
  exact (run_ri evs w [] [] HR Hok Hfr (NoDup_nil _) HRI).
Qed.
(* nothing is handed on for reuse while the replay state is unknown, and a rejected replay hands on nothing reusable *)
Theorem no_reuse_unless_window_accepts c r : CtxInv c -> 0 <= seqno r ->
  (window c = None \/ snd (unprotect_request c r) <> Accept) ->
  forall n, pend_of c r (snd (unprotect_request c r)) <> Some (n, true).
Proof.
  intros HI Hn Hcase n H. destruct (pend_of_true c r n HI Hn H) as (Hacc & _ & Hw). destruct Hcase; contradiction.
Qed.
