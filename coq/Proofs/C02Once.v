(* C02 — proofs. Part 2: every request completes at most once (budget argument over all event lists). *)
From Verif Require Import Lib.Py Lib.PyLemmas Lib.Tactics Gen.tokenmanager_next_token Model.C02 Proofs.C02.
Open Scope Z_scope.

(* ------------------------------------------------------------------ every request completes at most once *)
Definition is_completion (q : Z) (o : output) : bool :=
  match o with SetResult q' _ _ _ | SetException q' _ | Cancelled q' => q' =? q | _ => false end.
Definition ncomp (q : Z) (outs : list output) : nat := length (filter (is_completion q) outs).
(* 1 while the response future of q is (or will be created) pending, 0 once it is done *)
Definition fpend (c : creq) : nat := match cq_fut c with FPending => 1 | _ => 0 end.
Definition pend (s : st) (q : Z) : nat := match get_req s q with None => 1 | Some c => fpend c end.
(* the budget argument: completions emitted + what may still be emitted <= what could be emitted before *)
Definition budget_ok (s s' : st) (o : list output) : Prop := forall q, (ncomp q o + pend s' q <= pend s q)%nat.
Definition lb (q : Z) (c c' : creq) (o : list output) : Prop :=
  forall q', (ncomp q' o + (if Z.eqb q' q then fpend c' else 0) <= (if Z.eqb q' q then fpend c else 0))%nat.

Lemma ncomp_app : forall q a b, ncomp q (a ++ b) = (ncomp q a + ncomp q b)%nat.
Proof. intros. unfold ncomp. rewrite filter_app, app_length. reflexivity. Qed.
Lemma ncomp_nil : forall q, ncomp q [] = 0%nat. Proof. reflexivity. Qed.
Lemma ncomp_ml : forall q o, Forall ml_out o -> ncomp q o = 0%nat.
Proof. intros q o H. induction H as [|x l Hx Hl IH]; [reflexivity|]. unfold ncomp in *. cbn [filter].
  destruct x; cbn in Hx; try contradiction; cbn [is_completion]; exact IH. Qed.
Lemma budget_refl : forall s, budget_ok s s []. Proof. intros s q. cbn. lia. Qed.
Lemma budget_trans : forall s s1 s2 o1 o2, budget_ok s s1 o1 -> budget_ok s1 s2 o2 -> budget_ok s s2 (o1 ++ o2).
Proof. intros s s1 s2 o1 o2 H1 H2 q. specialize (H1 q). specialize (H2 q). rewrite ncomp_app. lia. Qed.
Lemma budget_frame : forall s s' o, reqs s' = reqs s -> (forall q, ncomp q o = 0%nat) -> budget_ok s s' o.
Proof. intros s s' o H1 H2 q. rewrite H2. unfold pend, get_req. rewrite H1. lia. Qed.
Lemma lb_refl : forall q c, lb q c c []. Proof. intros q c q'. cbn. lia. Qed.
Lemma lb_trans : forall q c c1 c2 o1 o2, lb q c c1 o1 -> lb q c1 c2 o2 -> lb q c c2 (o1 ++ o2).
Proof. intros q c c1 c2 o1 o2 H1 H2 q'. specialize (H1 q'). specialize (H2 q'). rewrite ncomp_app. lia. Qed.
Lemma lb_fut : forall q c c', cq_fut c' = cq_fut c -> lb q c c' [].
Proof. intros q c c' H q'. unfold fpend. rewrite H. cbn. lia. Qed.

Lemma run_lb : forall q c ev c' o stop keep, _run q c ev = (c', o, stop, keep) -> lb q c c' o.
Proof.
  intros q c ev c' o stop keep H q'. unfold _run in H.
  repeat dmatch; invpairs; unfold fpend, ncomp; cbn; repeat dmatch; cbn; try lia;
    repeat match goal with H : cq_fut _ = _ |- _ => rewrite H in * end; try discriminate; try lia.
Qed.
Lemma stop_interest_fut : forall c c' ks, _stop_interest c = (c', ks) -> cq_fut c' = cq_fut c.
Proof. intros c c' ks H. unfold _stop_interest, _end in H. repeat dmatch; invpairs; reflexivity. Qed.
Lemma end_fut : forall c c' ks, _end c = (c', ks) -> cq_fut c' = cq_fut c.
Proof. intros c c' ks H. unfold _end in H. repeat dmatch; invpairs; reflexivity. Qed.
Lemma process_lb : forall q c ev c' o ks keep, process q c ev = (c', o, ks, keep) -> lb q c c' o.
Proof.
  intros q c ev c' o ks keep H. unfold process in H.
  destruct (_run q c ev) as [[[c1 o1] stop] kp] eqn:R. apply run_lb in R.
  destruct stop; [|invpairs; exact R].
  destruct (_stop_interest c1) as [c2 k2] eqn:S. apply stop_interest_fut in S. invpairs.
  rewrite <- (app_nil_r o). eapply lb_trans; [exact R|apply lb_fut; exact S].
Qed.
Lemma call_cb_lb : forall q c x ev c' o ks keep, call_cb q c x ev = (c', o, ks, keep) -> lb q c c' o.
Proof.
  intros q c [|k] ev c' o ks keep H; cbn [call_cb] in H; [eapply process_lb; eauto|].
  destruct (pev_is_last ev); invpairs; apply lb_refl.
Qed.
Lemma loop_lb : forall q ev snap c c' o ks early, _add_event_loop q c snap ev = (c', o, ks, early) -> lb q c c' o.
Proof.
  intros q ev. induction snap as [|x rest IH]; intros c c' o ks early H; cbn [_add_event_loop] in H.
  - invpairs. apply lb_refl.
  - destruct (call_cb q c x ev) as [[[c1 o1] k1] keep] eqn:C. apply call_cb_lb in C.
    destruct keep.
    + destruct (_add_event_loop q c1 rest ev) as [[[c2 o2] k2] e2] eqn:L. apply IH in L. invpairs. eapply lb_trans; eauto.
    + destruct (cq_cbs c1).
      * destruct (_add_event_loop q _ rest ev) as [[[c2 o2] k2] e2] eqn:L. apply IH in L. invpairs.
        eapply lb_trans; [exact C|]. intros q'. specialize (L q'). exact L.
      * invpairs. exact C.
Qed.
Lemma pipe_add_event_lb : forall q c ev c' o ks, pipe_add_event q c ev = (c', o, ks) -> lb q c c' o.
Proof.
  intros q c ev c' o ks H. unfold pipe_add_event in H.
  destruct (cq_cbs c); [|invpairs; apply lb_refl].
  destruct (_add_event_loop q c l ev) as [[[c1 o1] k1] early] eqn:L. apply loop_lb in L.
  destruct early; [invpairs; exact L|].
  destruct (cq_cbs c1); [|invpairs; exact L].
  destruct (_any_interest l0); [invpairs; exact L|].
  destruct (_end c1) as [c2 k2] eqn:E. apply end_fut in E. invpairs.
  rewrite <- (app_nil_r o). eapply lb_trans; [exact L|apply lb_fut; exact E].
Qed.

Lemma get_req_upd : forall s q c q', get_req (upd_req s q c) q' = if q' =? q then Some c else get_req s q'.
Proof. intros. unfold get_req, upd_req. cbn. apply alookup_aset. exact Zeqb_spec. Qed.
Lemma get_req_pop_keys : forall ks s q, get_req (pop_keys s ks) q = get_req s q.
Proof. intros. unfold get_req. destruct (pop_keys_frame ks s) as (-> & _). reflexivity. Qed.

Lemma add_event_budget : forall s q ev s' o, _add_event s q ev = (s', o) -> budget_ok s s' o.
Proof.
  intros s q ev s' o H. unfold _add_event in H. destruct (get_req s q) as [c|] eqn:G; [|invpairs; apply budget_refl].
  destruct (pipe_add_event q c ev) as [[c' o'] ks] eqn:P. apply pipe_add_event_lb in P. invpairs.
  intros q'. specialize (P q'). unfold pend. rewrite get_req_pop_keys, get_req_upd.
  destruct (q' =? q) eqn:E; [apply Z.eqb_eq in E; subst q'; rewrite G; exact P|]. destruct (get_req s q'); lia.
Qed.

Lemma budget_ml : forall s s' o, reqs s' = reqs s -> Forall ml_out o -> budget_ok s s' o.
Proof. intros. apply budget_frame; [assumption|]. intros q. apply ncomp_ml. assumption. Qed.

Lemma run_stoppers_budget : forall e qs s s' o, run_stoppers s qs e = (s', o) -> budget_ok s s' o.
Proof.
  intros e. induction qs as [|q rest IH]; intros s s' o H; cbn [run_stoppers] in H; [invpairs; apply budget_refl|].
  destruct (add_exception s q e) as [s1 o1] eqn:A. apply add_event_budget in A.
  destruct (run_stoppers s1 rest e) as [s2 o2] eqn:R. apply IH in R. invpairs. eapply budget_trans; eauto.
Qed.
Lemma tm_dispatch_error_budget : forall s k r s' o, tm_dispatch_error s k r = (s', o) -> budget_ok s s' o.
Proof.
  intros s k r s' o H. unfold tm_dispatch_error in H. destruct (outgoing s); [|invpairs; apply budget_refl].
  eapply run_stoppers_budget; eauto.
Qed.
Lemma mm_dispatch_error_budget : forall s k r s' o, mm_dispatch_error s k r = (s', o) -> budget_ok s s' o.
Proof.
  intros s k r s' o H. unfold mm_dispatch_error in H. destruct (exchanges s); [|invpairs; apply budget_refl].
  destruct (tm_dispatch_error s k r) as [s1 o1] eqn:T.
  apply tm_dispatch_error_budget in T. invpairs. intros q. specialize (T q). exact T.
Qed.
Lemma budget_same_reqs : forall s s1 s' o, reqs s1 = reqs s -> budget_ok s1 s' o -> budget_ok s s' o.
Proof. intros s s1 s' o R H q. specialize (H q). unfold pend, get_req in *. rewrite R in H. exact H. Qed.
Lemma send_via_transport_budget : forall s r w s' o, _send_via_transport s r w = (s', o) -> budget_ok s s' o.
Proof.
  intros s r w s' o H. unfold _send_via_transport in H. destruct (refuses s r); [eapply mm_dispatch_error_budget; eauto|].
  invpairs. apply budget_frame; reflexivity.
Qed.
Lemma send_initially_budget : forall s r w m s' o, _send_initially s r w m = (s', o) -> budget_ok s s' o.
Proof.
  intros s r w m s' o H. unfold _send_initially in H. apply send_via_transport_budget in H.
  eapply budget_same_reqs; [|exact H]. destruct (w_mtype w =? CON); [destruct m|]; try reflexivity. apply add_exchange_frame.
Qed.
Lemma continue_loop_budget : forall r fuel s s' o x, _continue_backlog_loop fuel s r = (s', o, x) -> budget_ok s s' o.
Proof.
  intros r. induction fuel as [|f IH]; intros s s' o x H; cbn [_continue_backlog_loop] in H; [invpairs; apply budget_refl|].
  destruct (exchanges s); [|invpairs; apply budget_refl].
  destruct (alookup Z.eqb r (backlogs s)) as [bl|]; [|invpairs; apply budget_refl].
  destruct (has_exchange r l); [invpairs; apply budget_refl|].
  destruct bl as [|[w m] rest]; [invpairs; apply budget_frame; reflexivity|].
  destruct (_send_initially _ r w (Some m)) as [s1 o1] eqn:S. apply send_initially_budget in S.
  destruct (_continue_backlog_loop f s1 r) as [[s2 o2] x2] eqn:L. apply IH in L. invpairs.
  eapply budget_trans; [|exact L]. eapply budget_same_reqs; [|exact S]. reflexivity.
Qed.
Lemma continue_backlog_budget : forall s r s' o x, _continue_backlog s r = (s', o, x) -> budget_ok s s' o.
Proof.
  intros s r s' o x H. unfold _continue_backlog in H. destruct (alookup Z.eqb r (backlogs s)).
  - eapply continue_loop_budget; eauto.
  - invpairs. apply budget_frame; reflexivity.
Qed.
Lemma remove_exchange_budget : forall s r w s' o x, _remove_exchange s r w = (s', o, x) -> budget_ok s s' o.
Proof.
  intros s r w s' o x H. unfold _remove_exchange in H.
  destruct (exchanges s); [|invpairs; apply budget_refl].
  destruct (alookup rm_eqb (r, w_mid w) l); [|invpairs; apply budget_refl].
  destruct (if w_mtype w =? RST then _ else _) as [s2 o2] eqn:A.
  destruct (_continue_backlog s2 r) as [[s3 o3] x3] eqn:C. apply continue_backlog_budget in C. invpairs.
  eapply budget_trans; [|exact C].
  destruct (w_mtype w =? RST).
  - apply add_event_budget in A. intros q. specialize (A q). exact A.
  - invpairs. intros q. cbn. unfold pend, get_req. cbn. lia.
Qed.
Lemma process_response_budget : forall s r w b s' o, process_response s r w = (b, s', o) -> budget_ok s s' o.
Proof.
  intros s r w b s' o H. unfold process_response in H.
  destruct (outgoing s); [|invpairs; apply budget_frame; [reflexivity|reflexivity]].
  destruct (alookup key_eqb _ l); [|invpairs; apply budget_refl].
  destruct (add_response _ z w r _) as [s2 o2] eqn:A. apply add_event_budget in A. invpairs.
  intros q. specialize (A q). destruct (negb _); exact A.
Qed.
Lemma dispatch_message_budget : forall s r mcl w s' o, dispatch_message s r mcl w = (s', o) -> budget_ok s s' o.
Proof.
  intros s r mcl w s' o H. unfold dispatch_message in H.
  destruct (is_request (w_code w)). { invpairs. apply budget_frame; reflexivity. }
  destruct (if (w_mtype w =? ACK) || (w_mtype w =? RST) then _ else _) as [[s1 o1] x1] eqn:RE.
  assert (B1 : budget_ok s s1 o1).
  { destruct ((w_mtype w =? ACK) || (w_mtype w =? RST)); [eapply remove_exchange_budget; eauto|invpairs; apply budget_refl]. }
  destruct x1. { invpairs. exact B1. }
  destruct ((w_code w =? EMPTY) && (w_mtype w =? CON)).
  { destruct (_send_initially s1 r _ None) as [s2 o2] eqn:S. apply send_initially_budget in S. invpairs. eapply budget_trans; eauto. }
  destruct ((w_code w =? EMPTY) && ((w_mtype w =? ACK) || (w_mtype w =? RST))). { invpairs. exact B1. }
  destruct (is_response (w_code w) && _); [|invpairs; exact B1].
  destruct (process_response s1 r w) as [[b s2] o2] eqn:P. apply process_response_budget in P.
  destruct b.
  - destruct (w_mtype w =? CON).
    + destruct (_send_initially s2 r _ None) as [s3 o3] eqn:S. apply send_initially_budget in S. invpairs.
      eapply budget_trans; [exact B1|eapply budget_trans; eauto].
    + invpairs. eapply budget_trans; eauto.
  - destruct ((w_mtype w =? CON) && negb mcl).
    + destruct (_send_initially s2 r _ None) as [s3 o3] eqn:S. apply send_initially_budget in S. invpairs.
      eapply budget_trans; [exact B1|eapply budget_trans; eauto].
    + invpairs. eapply budget_trans; eauto.
Qed.
Lemma retransmit_budget : forall s r mid s' o, _retransmit s r mid = (s', o) -> budget_ok s s' o.
Proof.
  intros s r mid s' o H. unfold _retransmit in H. destruct (exchanges s); [|invpairs; apply budget_refl].
  destruct (alookup rm_eqb (r, mid) l); [|invpairs; apply budget_frame; reflexivity].
  destruct (ex_counter e <? 4).
  - apply send_via_transport_budget in H. eapply budget_same_reqs; [|exact H]. reflexivity.
  - destruct (amem Z.eqb r _); [|invpairs; apply budget_frame; reflexivity].
    apply tm_dispatch_error_budget in H. intros q. specialize (H q). exact H.
Qed.
Lemma tm_shutdown_loop_budget : forall fuel s s' o, tm_shutdown_loop fuel s = (s', o) -> budget_ok s s' o.
Proof.
  induction fuel as [|f IH]; intros s s' o H; cbn [tm_shutdown_loop] in H; [invpairs; apply budget_refl|].
  destruct (outgoing s) as [[|[k q] rest]|]; try (invpairs; apply budget_refl).
  destruct (add_exception _ q LibraryShutdown) as [s1 o1] eqn:A. apply add_event_budget in A.
  destruct (tm_shutdown_loop f s1) as [s2 o2] eqn:L. apply IH in L. invpairs.
  eapply budget_trans; [|exact L]. intros q'. specialize (A q'). exact A.
Qed.
Lemma shutdown_budget : forall s s' o, shutdown s = (s', o) -> budget_ok s s' o.
Proof.
  intros s s' o H. unfold shutdown in H. destruct (outgoing s); [|invpairs; apply budget_refl].
  destruct (tm_shutdown_loop (length l) s) as [s1 o1] eqn:L. apply tm_shutdown_loop_budget in L. invpairs.
  intros q. specialize (L q). exact L.
Qed.
Lemma send_message_budget : forall s r mt tok obs m s' o, send_message s r mt tok obs m = Ok (s', o) -> budget_ok s s' o.
Proof.
  intros s r mt tok obs m s' o H. unfold send_message in H.
  set (mt' := match mt with None => _ | Some _ => _ end) in H. clearbody mt'.
  destruct ((mt' =? CON) && is_multicast r); [discriminate|]. cbn [_next_message_id] in H.
  set (s1 := set_next_mid s _) in H. assert (R1 : reqs s1 = reqs s) by reflexivity. clearbody s1.
  set (w := {| w_mtype := mt' |}) in H. clearbody w.
  destruct ((mt' =? CON) && amem Z.eqb r _).
  - set (s2 := set_backlogs s1 _) in H. assert (R2 : reqs s2 = reqs s) by exact R1. clearbody s2.
    injection H as <- <-. apply budget_frame; [exact R2|reflexivity].
  - destruct (_send_initially s1 r w (Some m)) as [s2 o1] eqn:S. apply send_initially_budget in S.
    injection H as <- <-. intros q. specialize (S q). unfold pend, get_req in *. rewrite R1 in S. exact S.
Qed.
Lemma on_interest_end_pend : forall s q k q', pend (on_interest_end s q k) q' = pend s q'.
Proof.
  intros. unfold on_interest_end. destruct (get_req s q) as [c|] eqn:G; [|reflexivity].
  destruct (pipe_on_interest_end c k) as [c' ks] eqn:P. unfold pend. rewrite get_req_pop_keys, get_req_upd.
  destruct (q' =? q) eqn:E; [|reflexivity]. apply Z.eqb_eq in E. subst. rewrite G.
  unfold pipe_on_interest_end in P. repeat dmatch; invpairs; reflexivity.
Qed.
Lemma request_budget : forall s q r mt obs s' o, request s q r mt obs = (s', o) -> budget_ok s s' o.
Proof.
  intros s q r mt obs s' o H. unfold request in H.
  destruct (outgoing s). 2: { eapply add_event_budget; eauto. }
  destruct (next_token (tmst s)) as [[tm' tok]|e]; [|invpairs; apply budget_frame; reflexivity].
  destruct (send_message _ r mt tok obs q) as [[s3 o3]|e] eqn:SM.
  - apply send_message_budget in SM. invpairs. intros q'. specialize (SM q'). rewrite on_interest_end_pend in SM.
    unfold ncomp in *. cbn [filter is_completion]. exact SM.
  - destruct (add_exception _ q e) as [s3 o3] eqn:A. apply add_event_budget in A. invpairs.
    intros q'. specialize (A q'). rewrite on_interest_end_pend in A. unfold ncomp in *. cbn [filter is_completion]. exact A.
Qed.
Lemma new_request_budget : forall s q r mt obs s' o, new_request s q r mt obs = (s', o) -> budget_ok s s' o.
Proof.
  intros s q r mt obs s' o H. unfold new_request in H. destruct (get_req s q) eqn:G; [invpairs; apply budget_refl|].
  apply request_budget in H. intros q'. specialize (H q'). unfold pend in *. rewrite get_req_upd in H.
  destruct (q' =? q) eqn:E; [|exact H]. apply Z.eqb_eq in E. subst. rewrite G. exact H.
Qed.
Lemma cancel_budget : forall s q s' o, cancel s q = (s', o) -> budget_ok s s' o.
Proof.
  intros s q s' o H. unfold cancel in H. destruct (get_req s q) as [c|] eqn:G; [|invpairs; apply budget_refl].
  destruct (cq_fut c) eqn:F; try (invpairs; apply budget_refl).
  destruct (_stop_interest _) as [c' ks] eqn:S. apply stop_interest_fut in S. invpairs.
  intros q'. unfold pend. rewrite get_req_pop_keys, get_req_upd. unfold ncomp. cbn [filter is_completion].
  rewrite (Z.eqb_sym q q'). destruct (q' =? q) eqn:E.
  - apply Z.eqb_eq in E. subst. rewrite G. unfold fpend. rewrite S, F. cbn. lia.
  - cbn. destruct (get_req s q'); lia.
Qed.
Lemma obs_cancel_pend : forall s q q', pend (obs_cancel s q) q' = pend s q'.
Proof.
  intros. unfold obs_cancel. destruct (get_req s q) as [c|] eqn:G; [|reflexivity].
  destruct (cq_runner c); try reflexivity. destruct (cq_obs_cancelled c); [reflexivity|].
  unfold pend. rewrite get_req_upd. destruct (q' =? q) eqn:E; [|reflexivity]. apply Z.eqb_eq in E. subst. rewrite G. reflexivity.
Qed.
Lemma step_budget : forall s e s' o, step s e = (s', o) -> budget_ok s s' o.
Proof.
  intros s e s' o H. destruct e; cbn [step] in H.
  - eapply new_request_budget; eauto.
  - destruct (outgoing s); [eapply dispatch_message_budget; eauto|invpairs; apply budget_refl].
  - destruct (exchanges s); [|invpairs; apply budget_refl].
    destruct (next_timer l None) as [[[r mid] e]|]; [|invpairs; apply budget_refl].
    apply retransmit_budget in H. intros q. specialize (H q). exact H.
  - repeat dmatch; invpairs; apply budget_frame; reflexivity.
  - eapply mm_dispatch_error_budget; eauto.
  - eapply cancel_budget; eauto.
  - invpairs. intros q'. rewrite obs_cancel_pend. cbn. lia.
  - invpairs. apply budget_frame; reflexivity.
  - eapply shutdown_budget; eauto.
Qed.

Lemma run_budget : forall es s s' os, run s es = (s', os) -> budget_ok s s' (concat os).
Proof.
  induction es as [|e r IH]; intros s s' os H; cbn [run] in H; [invpairs; apply budget_refl|].
  destruct (step s e) as [s1 o] eqn:S. apply step_budget in S.
  destruct (run s1 r) as [s2 os'] eqn:R. apply IH in R. invpairs. cbn [concat]. eapply budget_trans; eauto.
Qed.
(* for every event list from every state: at most one of SetResult / SetException / Cancelled per request *)
Lemma complete_at_most_once_lemma : forall es s q, (ncomp q (concat (snd (run s es))) <= 1)%nat.
Proof.
  intros es s q. destruct (run s es) as [s' os] eqn:R. apply run_budget in R. specialize (R q). cbn [snd].
  assert (pend s q <= 1)%nat. { unfold pend, fpend. repeat dmatch; lia. } lia.
Qed.
(* once the response future of q is done, no later event completes it again *)
Lemma completed_stays_completed_lemma : forall es s q c, get_req s q = Some c -> cq_fut c <> FPending ->
  ncomp q (concat (snd (run s es))) = 0%nat.
Proof.
  intros es s q c G F. destruct (run s es) as [s' os] eqn:R. apply run_budget in R. specialize (R q). cbn [snd].
  unfold pend in R at 2. rewrite G in R. unfold fpend in R. destruct (cq_fut c); try contradiction; lia.
Qed.
