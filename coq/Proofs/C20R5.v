(* C20 — round 5: what a successful write sets (independent equations), declarative meaning of the lookup criteria,
   change notifications *)
From Coq Require Import String.
From Verif Require Import Lib.Py Lib.PyLemmas Lib.Tactics Model.C20Str Model.C20 Model.C20Spec Proofs.C20Dict Proofs.C20Up Proofs.C20 Proofs.C20More Proofs.C20RefA Proofs.C20Refine.
Open Scope Z_scope.

(* ------------------------------------------------------------------ dictionaries *)
Lemma sdget_ddel_other (q : query) k k' : k' <> k -> dget String.eqb (ddel String.eqb q k) k' = dget String.eqb q k'.
Proof. intros N. apply (dget_ddel_other String.eqb String.eqb_eq). exact N. Qed.
Lemma sdget_ddel_same (q : query) k : NoDup (map fst q) -> dget String.eqb (ddel String.eqb q k) k = None.
Proof. apply (dget_ddel_same String.eqb String.eqb_eq). Qed.
Lemma NoDup_sddel (q : query) k : NoDup (map fst q) -> NoDup (map fst (ddel String.eqb q k)).
Proof. apply (NoDup_ddel String.eqb String.eqb_eq). Qed.

Lemma dget_dict_update (d u : query) k : NoDup (map fst u) ->
  dget String.eqb (dict_update d u) k = match dget String.eqb u k with Some v => Some v | None => dget String.eqb d k end.
Proof.
  unfold dict_update. revert d. induction u as [|[k1 v1] u IH]; intros d ND; cbn [fold_left dget fst snd]; [reflexivity|].
  inv ND. rewrite IH by assumption. destruct (String.eqb k1 k) eqn:E.
  - apply String.eqb_eq in E. subst k1. rewrite (notin_dget_None String.eqb String.eqb_eq u k H1).
    apply (dget_dset_same String.eqb String.eqb_eq).
  - destruct (dget String.eqb u k); [reflexivity|]. apply (dget_dset_other String.eqb String.eqb_eq).
    intros ->. rewrite String.eqb_refl in E. discriminate.
Qed.

Lemma olist_eqb_eq a b : olist_eqb a b = true -> a = b.
Proof.
  unfold olist_eqb. revert b. induction a as [|x a IH]; intros [|y b]; cbn; intros H; try discriminate; [reflexivity|].
  apply andb_prop in H. destruct H as [H1 H2]. apply ostr_eqb_spec in H1. subst. f_equal. apply IH. exact H2.
Qed.

Lemma single_value (vs : list ostr) : (1 <? blen vs) = false -> vs = [] \/ exists v, vs = [v].
Proof.
  destruct vs as [|v [|w vs]]; intros H; [left; reflexivity|right; eauto|].
  exfalso. rewrite !blen_cons in H. pose proof (blen_nonneg vs). lia.
Qed.

Lemma existsb_false_forall {A} (f : A -> bool) l : existsb f l = false <-> forall x, In x l -> f x = false.
Proof.
  split.
  - intros H x Hin. destruct (f x) eqn:E; [|reflexivity]. assert (existsb f l = true) by (apply existsb_exists; eauto). congruence.
  - intros H. destruct (existsb f l) eqn:E; [|reflexivity]. apply existsb_exists in E. destruct E as (x & Hin & Fx). rewrite (H x Hin) in Fx. discriminate.
Qed.

(* ------------------------------------------------------------------ what a successful write sets *)
Definition lt_step (p : query) : M (query * option Z) :=
  if dmem String.eqb p "lt"
  then '(p1, v) <- pop_single_arg p "lt" ;;
       match v with
       | None => Raise BadRequest
       | Some s => match parse_int s with Some n => Ok (p1, Some n) | None => Raise BadRequest end
       end
  else Ok (p, None).
Definition base_step (p1 : query) : M (query * ostr) :=
  if dmem String.eqb p1 "base"
  then '(p2, b) <- pop_single_arg p1 "base" ;; match b with None => Raise BadRequest | Some _ => Ok (p2, b) end
  else Ok (p1, None).

Lemma lt_step_ok p p1 nl : lt_step p = Ok (p1, nl) ->
  (dget String.eqb p "lt" = None /\ p1 = p /\ nl = None) \/
  (exists s n, dget String.eqb p "lt" = Some [Some s] /\ parse_int s = Some n /\ p1 = ddel String.eqb p "lt" /\ nl = Some n).
Proof.
  unfold lt_step, bind, pop_single_arg, dmem. destruct (dget String.eqb p "lt") as [vs|] eqn:E; [|intros H; inv H; left; auto].
  destruct (1 <? blen vs) eqn:L; [discriminate|]. destruct (single_value vs L) as [->|[v ->]]; cbn [hd]; [discriminate|].
  destruct v as [s|]; [|discriminate]. destruct (parse_int s) as [n|] eqn:P; [|discriminate]. intros H; inv H. right. exists s, n. auto.
Qed.
Lemma base_step_ok p1 p2 nb : base_step p1 = Ok (p2, nb) ->
  (dget String.eqb p1 "base" = None /\ p2 = p1 /\ nb = None) \/
  (exists b, dget String.eqb p1 "base" = Some [Some b] /\ p2 = ddel String.eqb p1 "base" /\ nb = Some b).
Proof.
  unfold base_step, bind, pop_single_arg, dmem. destruct (dget String.eqb p1 "base") as [vs|] eqn:E; [|intros H; inv H; left; auto].
  destruct (1 <? blen vs) eqn:L; [discriminate|]. destruct (single_value vs L) as [->|[v ->]]; cbn [hd]; [discriminate|].
  destruct v as [b|]; [|discriminate]. intros H; inv H. right. exists b. auto.
Qed.

(* the shape of a successful update_params, step by step *)
Lemma update_params_success_form r remote p init t seq r' : update_params r remote p init t seq = UpOk r' ->
  exists p1 nl p2 nb,
    lt_step p = Ok (p1, nl) /\ base_step p1 = Ok (p2, nb) /\
    let r1 := match nl with Some n => if negb (r_lt r =? n) then set_lt r n else r | None => r end in
    let r2 := match nb with Some b => set_base r1 (if init || negb (String.eqb (r_base r1) b) then b else r_base r1) true | None => r1 end in
    exists r3,
      (if negb (r_base_explicit r2)
       then exists u, remote = Some u /\ r3 = (if init || negb (String.eqb (r_base r2) u) then set_base r2 u false else r2)
       else r3 = r2) /\
      r' = _set_timeout (if existsb (fun kv => negb (match dget String.eqb (r_params r3) (fst kv) with
                                                  | Some v => olist_eqb (snd kv) v | None => false end)) p2
                          then set_params r3 (dict_update (r_params r3) p2) else r3) t seq.
Proof.
  unfold update_params. fold (lt_step p).
  destruct (existsb _ p); [discriminate|]. destruct (existsb _ p); [discriminate|].
  destruct (if (init || negb (r_base_explicit r)) && negb (dmem String.eqb p "base") then _ else _) as [network_base|e] eqn:EN; [|discriminate].
  destruct (lt_step p) as [[p1 nl]|e] eqn:EL; [|discriminate]. fold (base_step p1).
  destruct (base_step p1) as [[p2 nb]|e] eqn:EB; [|discriminate].
  intros H. exists p1, nl, p2, nb. split; [reflexivity|split; [exact EB|]]. cbv zeta.
  match type of H with context [if negb (r_base_explicit ?x) then _ else _] => set (r2 := x) in * end.
  destruct (negb (r_base_explicit r2)) eqn:EX.
  - destruct network_base as [nbase|]; [|discriminate].
    assert (remote = Some nbase).
    { destruct ((init || negb (r_base_explicit r)) && negb (dmem String.eqb p "base")); [|discriminate]. destruct remote; inv EN. reflexivity. }
    subst remote. destruct (init || negb (String.eqb (r_base r2) nbase)) eqn:EC; inv H; eexists; (split; [exists nbase; split; [reflexivity|rewrite EC; reflexivity]|reflexivity]).
  - inv H. eexists. split; reflexivity.
Qed.

(* Independent statement of what a successful write sets, as equations over the request's parameters (no reference to the
   order of the checks): lifetime, base and its explicitness, the remaining parameters merged key by key. *)
Lemma write_sets_parameters : forall r remote p init t seq r', NoDup (map fst p) ->
  update_params r remote p init t seq = UpOk r' ->
  r_lt r' = match dget String.eqb p "lt" with
            | Some [Some s] => match parse_int s with Some n => n | None => r_lt r end
            | _ => r_lt r end /\
  (forall b, dget String.eqb p "base" = Some [Some b] -> r_base r' = b /\ r_base_explicit r' = true) /\
  (dget String.eqb p "base" = None -> r_base_explicit r' = r_base_explicit r /\
     (r_base_explicit r = false -> exists u, remote = Some u /\ r_base r' = u) /\
     (r_base_explicit r = true -> r_base r' = r_base r)) /\
  (forall k, k <> "lt"%string -> k <> "base"%string ->
     dget String.eqb (r_params r') k = match dget String.eqb p k with Some v => Some v | None => dget String.eqb (r_params r) k end) /\
  (dget String.eqb p "ep" = None /\ dget String.eqb p "d" = None).
Proof.
  intros r remote p init t seq r' ND H.
  assert (Hk : dget String.eqb p "ep" = None /\ dget String.eqb p "d" = None).
  { unfold update_params in H. destruct (existsb _ p) eqn:E1; [discriminate|]. clear H.
    assert (G : forall k, in_strs k ["ep"; "d"]%string = true -> dget String.eqb p k = None).
    { intros k Hk. apply (notin_dget_None String.eqb String.eqb_eq). intros Hin. apply in_map_iff in Hin. destruct Hin as ([k' v] & <- & Hin).
      assert (existsb (fun kv : string * list ostr => in_strs (fst kv) ["ep"; "d"]%string) p = true).
      { apply existsb_exists. exists (k', v). split; [exact Hin|exact Hk]. }
      congruence. }
    split; apply G; reflexivity. }
  destruct (update_params_success_form _ _ _ _ _ _ _ H) as (p1 & nl & p2 & nb & EL & EB & r3 & E3 & ->).
  cbv zeta in E3.
  set (r1 := match nl with Some n => if negb (r_lt r =? n) then set_lt r n else r | None => r end) in *.
  set (r2 := match nb with Some b => set_base r1 (if init || negb (String.eqb (r_base r1) b) then b else r_base r1) true | None => r1 end) in *.
  (* facts about r1, r2, r3 *)
  assert (R1 : r_base r1 = r_base r /\ r_base_explicit r1 = r_base_explicit r /\ r_params r1 = r_params r).
  { unfold r1. destruct nl as [n|]; [destruct (negb (r_lt r =? n))|]; auto. }
  destruct R1 as (R1b & R1e & R1p).
  assert (R2 : r_lt r2 = r_lt r1 /\ r_params r2 = r_params r1). { unfold r2. destruct nb; auto. }
  destruct R2 as (R2l & R2p).
  assert (R3 : r_lt r3 = r_lt r2 /\ r_params r3 = r_params r2 /\ r_base_explicit r3 = r_base_explicit r2).
  { destruct (negb (r_base_explicit r2)) eqn:EX.
    - destruct E3 as (u & _ & ->). destruct (init || negb (String.eqb (r_base r2) u)); cbn; auto.
      split; [reflexivity|split; [reflexivity|]]. apply negb_true_iff in EX. exact (eq_sym EX).
    - subst r3. auto. }
  destruct R3 as (R3l & R3p & R3e).
  set (rf := if existsb _ p2 then set_params r3 (dict_update (r_params r3) p2) else r3).
  assert (RF : r_lt rf = r_lt r3 /\ r_base rf = r_base r3 /\ r_base_explicit rf = r_base_explicit r3).
  { unfold rf. destruct (existsb _ p2); auto. }
  destruct RF as (RFl & RFb & RFe).
  change (r_lt (_set_timeout rf t seq)) with (r_lt rf). change (r_base (_set_timeout rf t seq)) with (r_base rf).
  change (r_base_explicit (_set_timeout rf t seq)) with (r_base_explicit rf). change (r_params (_set_timeout rf t seq)) with (r_params rf).
  (* the two pops *)
  assert (P1 : forall k, k <> "lt"%string -> dget String.eqb p1 k = dget String.eqb p k).
  { intros k N. destruct (lt_step_ok _ _ _ EL) as [(_ & -> & _)|(s & n & _ & _ & -> & _)]; [reflexivity|apply sdget_ddel_other; exact N]. }
  assert (ND1 : NoDup (map fst p1)).
  { destruct (lt_step_ok _ _ _ EL) as [(_ & -> & _)|(s & n & _ & _ & -> & _)]; [exact ND|apply NoDup_sddel; exact ND]. }
  assert (P2 : forall k, k <> "base"%string -> dget String.eqb p2 k = dget String.eqb p1 k).
  { intros k N. destruct (base_step_ok _ _ _ EB) as [(_ & -> & _)|(b & _ & -> & _)]; [reflexivity|apply sdget_ddel_other; exact N]. }
  assert (ND2 : NoDup (map fst p2)).
  { destruct (base_step_ok _ _ _ EB) as [(_ & -> & _)|(b & _ & -> & _)]; [exact ND1|apply NoDup_sddel; exact ND1]. }
  split; [|split; [|split; [|split; [|exact Hk]]]].
  - (* lt *)
    rewrite RFl, R3l, R2l. unfold r1. destruct (lt_step_ok _ _ _ EL) as [(E & _ & ->)|(s & n & E & Pn & _ & ->)]; rewrite E; [reflexivity|].
    rewrite Pn. destruct (negb (r_lt r =? n)) eqn:En; [reflexivity|]. apply negb_false_iff in En. lia.
  - (* base given *)
    intros b Eb. rewrite <- (P1 "base"%string) in Eb by discriminate.
    destruct (base_step_ok _ _ _ EB) as [(E & _ & _)|(b' & E & _ & ->)]; [congruence|]. rewrite E in Eb. inv Eb.
    assert (X : r_base_explicit r2 = true) by reflexivity. rewrite X in E3. cbn [negb] in E3. subst r3. rewrite RFb, RFe.
    split; [|reflexivity]. unfold r2. cbn [r_base set_base]. destruct (init || negb (String.eqb (r_base r1) b)) eqn:EC; [reflexivity|].
    apply orb_false_iff in EC. destruct EC as [_ EC]. apply negb_false_iff in EC. apply String.eqb_eq in EC. exact EC.
  - (* base not given *)
    intros Eb. rewrite <- (P1 "base"%string) in Eb by discriminate.
    destruct (base_step_ok _ _ _ EB) as [(_ & _ & ->)|(b' & E & _ & _)]; [|congruence].
    assert (X : r2 = r1) by reflexivity. rewrite X in *. rewrite RFe, R3e, RFb, R1e. split; [reflexivity|]. split.
    + intros Ex. rewrite R1e, Ex in E3. cbn [negb] in E3. destruct E3 as (u & -> & ->). exists u. split; [reflexivity|].
      destruct (init || negb (String.eqb (r_base r1) u)) eqn:EC; [reflexivity|].
      apply orb_false_iff in EC. destruct EC as [_ EC]. apply negb_false_iff in EC. apply String.eqb_eq in EC. exact EC.
    + intros Ex. rewrite R1e, Ex in E3. cbn [negb] in E3. subst r3. exact R1b.
  - (* other parameters *)
    intros k N1 N2. rewrite <- (P1 k N1), <- (P2 k N2). unfold rf.
    destruct (existsb _ p2) eqn:EE.
    + cbn [r_params set_params]. rewrite (dget_dict_update _ _ _ ND2). rewrite R3p, R2p, R1p. reflexivity.
    + rewrite R3p, R2p, R1p. destruct (dget String.eqb p2 k) as [v|] eqn:Ev; [|reflexivity].
      pose proof (dget_In String.eqb String.eqb_eq _ _ _ Ev) as Hin.
      assert (F := proj1 (existsb_false_forall _ _) EE (k, v) Hin). cbn [fst snd] in F. apply negb_false_iff in F.
      rewrite R3p, R2p, R1p in F. destruct (dget String.eqb (r_params r) k) as [v'|]; [|discriminate]. apply olist_eqb_eq in F. subst. reflexivity.
Qed.

Lemma query_add_nodup q k v : NoDup (map fst q) -> NoDup (map fst (query_add q k v)).
Proof.
  intros ND. unfold query_add. destruct (dget String.eqb q k) as [vs|] eqn:E.
  - apply (NoDup_dset String.eqb String.eqb_eq). exact ND.
  - rewrite map_app. cbn. apply NoDup_app_one; [exact ND|]. apply (dget_None_notin String.eqb String.eqb_eq). exact E.
Qed.
Lemma query_split_nodup qs : NoDup (map fst (query_split qs)).
Proof.
  unfold query_split. assert (G : forall acc, NoDup (map fst acc) ->
    NoDup (map fst (fold_left (fun acc s => let '(k, v) := split_eq s in query_add acc k v) qs acc))).
  { induction qs as [|s qs IH]; intros acc ND; cbn [fold_left]; [exact ND|]. apply IH. destruct (split_eq s) as [k v]. apply query_add_nodup. exact ND. }
  apply G. constructor.
Qed.

(* the same equations on the abstract directory: what the entry carries after a successful write *)
Lemma spec_write_sets_parameters : forall e remote p init t e', NoDup (map fst p) -> write_params e remote p init t = Ok e' ->
  e_key e' = e_key e /\ e_loc e' = e_loc e /\ e_links e' = e_links e /\ e_written e' = t /\
  e_lt e' = match dget String.eqb p "lt" with
            | Some [Some s] => match parse_int s with Some n => n | None => e_lt e end
            | _ => e_lt e end /\
  (forall b, dget String.eqb p "base" = Some [Some b] -> e_base e' = b /\ e_explicit e' = true) /\
  (dget String.eqb p "base" = None -> e_explicit e' = e_explicit e /\
     (e_explicit e = false -> exists u, remote = Some u /\ e_base e' = u) /\ (e_explicit e = true -> e_base e' = e_base e)) /\
  (forall k, k <> "lt"%string -> k <> "base"%string ->
     dget String.eqb (e_params e') k = match dget String.eqb p k with Some v => Some v | None => dget String.eqb (e_params e) k end).
Proof.
  intros e remote p init t e' ND H. unfold write_params in H.
  destruct (update_params (reg_of_entry e) remote p init t 0) as [r'|r' err] eqn:EU; inv H.
  pose proof (update_params_ok _ _ _ _ _ _ _ EU) as (A & B & C & _).
  destruct (write_sets_parameters _ _ _ _ _ _ _ ND EU) as (L & Bg & Bn & Pk & _).
  cbn [entry_of_reg e_key e_loc e_links e_written e_lt e_base e_explicit e_params].
  cbn [reg_of_entry r_key r_path r_links r_lt r_base r_base_explicit r_params] in *. auto 10.
Qed.

(* ------------------------------------------------------------------ declarative meaning of a lookup criterion *)
(* a criterion value against one (possibly valueless) attribute value: exact, or prefix when the criterion ends in "*" *)
Definition token_ok (m : matcher) (ox : ostr) : Prop :=
  match m with
  | MPrefix s => exists x, ox = Some x /\ String.prefix s x = true
  | MEq v => ox = v
  end.
(* for rt / if any of the whitespace-separated items of the value may match *)
Definition value_ok (m : matcher * bool) (ox : ostr) : Prop :=
  if snd m then exists xs tok, ox = Some xs /\ In tok (split_ws xs) /\ token_ok (fst m) (Some tok)
  else token_ok (fst m) ox.
(* the values a criterion is compared with: for an endpoint, its registration parameter of that name or that attribute of one of
   its (resolved) links; for href, the registration resource's path or a link target *)
Definition ep_candidate (c : crit) (r : reg) (ox : ostr) : Prop :=
  if c_href c then ox = Some (href r) \/ exists l, In l (get_based_links r) /\ ox = Some (l_href l)
  else (exists vs, dget String.eqb (r_params r) (c_key c) = Some vs /\ In ox vs) \/
       (exists l, In l (get_based_links r) /\ In (c_key c, ox) (l_attrs l)).
Definition res_candidate (c : crit) (e : reg) (l : link) (ox : ostr) : Prop :=
  if c_href c then ox = Some (l_href l) \/ ox = Some (href e)
  else In (c_key c, ox) (l_attrs l) \/ (exists vs, dget String.eqb (r_params e) (c_key c) = Some vs /\ In ox vs).

Lemma base_match_spec m ox : base_match m ox = true <-> token_ok m ox.
Proof.
  unfold base_match, token_ok. destruct m as [s|v].
  - destruct ox as [x|]; split.
    + intros H. exists x. auto.
    + intros (x' & E & H). inv E. exact H.
    + discriminate.
    + intros (x' & E & _). discriminate.
  - apply ostr_eqb_spec.
Qed.
Lemma matches_spec m ox : matches m ox = true <-> value_ok m ox.
Proof.
  unfold matches, value_ok. destruct (snd m); [|apply base_match_spec]. destruct ox as [xs|]; split.
  - intros H. apply existsb_exists in H. destruct H as (tok & Hin & Hm). exists xs, tok. split; [reflexivity|split; [exact Hin|apply base_match_spec; exact Hm]].
  - intros (xs' & tok & E & Hin & Hm). inv E. apply existsb_exists. exists tok. split; [exact Hin|apply base_match_spec; exact Hm].
  - discriminate.
  - intros (xs' & tok & E & _). discriminate.
Qed.
Lemma _link_matches_spec l k m : _link_matches l k m = true <-> exists ox, In (k, ox) (l_attrs l) /\ value_ok m ox.
Proof.
  unfold _link_matches. rewrite existsb_exists. split.
  - intros ([k' ox] & Hin & H). cbn [fst snd] in H. apply andb_prop in H. destruct H as [E H]. apply String.eqb_eq in E. subst k'.
    exists ox. split; [exact Hin|apply matches_spec; exact H].
  - intros (ox & Hin & H). exists (k, ox). split; [exact Hin|]. cbn [fst snd]. rewrite String.eqb_refl. apply matches_spec. exact H.
Qed.
Lemma params_match_spec r k m : params_match r k m = true <-> exists vs ox, dget String.eqb (r_params r) k = Some vs /\ In ox vs /\ value_ok m ox.
Proof.
  unfold params_match. destruct (dget String.eqb (r_params r) k) as [vs|]; split.
  - intros H. apply existsb_exists in H. destruct H as (ox & Hin & H). exists vs, ox. split; [reflexivity|split; [exact Hin|apply matches_spec; exact H]].
  - intros (vs' & ox & E & Hin & H). inv E. apply existsb_exists. exists ox. split; [exact Hin|apply matches_spec; exact H].
  - discriminate.
  - intros (vs' & ox & E & _). discriminate.
Qed.

Lemma ep_keep_spec c r : ep_keep c r = true <-> exists ox, ep_candidate c r ox /\ value_ok (c_m c) ox.
Proof.
  unfold ep_keep, ep_candidate. destruct (c_href c); rewrite orb_true_iff.
  - rewrite matches_spec, existsb_exists. split.
    + intros [H|(l & Hin & H)]; [exists (Some (href r)); split; [left; reflexivity|exact H]|].
      exists (Some (l_href l)). split; [right; exists l; auto|apply matches_spec; exact H].
    + intros (ox & [->|(l & Hin & ->)] & H); [left; exact H|right; exists l; split; [exact Hin|apply matches_spec; exact H]].
  - rewrite params_match_spec, existsb_exists. split.
    + intros [(vs & ox & E & Hin & H)|(l & Hin & H)]; [exists ox; split; [left; exists vs; auto|exact H]|].
      apply _link_matches_spec in H. destruct H as (ox & Ha & H). exists ox. split; [right; exists l; auto|exact H].
    + intros (ox & [(vs & E & Hin)|(l & Hin & Ha)] & H); [left; exists vs, ox; auto|].
      right. exists l. split; [exact Hin|apply _link_matches_spec; exists ox; auto].
Qed.
Lemma res_keep_spec c e l : res_keep c (e, l) = true <-> exists ox, res_candidate c e l ox /\ value_ok (c_m c) ox.
Proof.
  unfold res_keep, res_candidate. destruct (c_href c); rewrite orb_true_iff.
  - rewrite !matches_spec. split.
    + intros [H|H]; eexists; (split; [|exact H]); auto.
    + intros (ox & [->| ->] & H); auto.
  - rewrite _link_matches_spec, params_match_spec. split.
    + intros [(ox & Ha & H)|(vs & ox & E & Hin & H)]; exists ox; (split; [|exact H]); [left; exact Ha|right; exists vs; auto].
    + intros (ox & [Ha|(vs & E & Hin)] & H); [left; exists ox; auto|right; exists vs, ox; auto].
Qed.

(* the criteria of a query: one per value of every key other than page / count; "v*" is a prefix criterion; rt and if compare items *)
Lemma criteria_of_spec q c : In c (criteria_of q) <->
  exists k vs v, In (k, vs) q /\ is_paging k = false /\ In v vs /\
    c = {| c_key := k; c_m := (make_matcher v, in_strs k ["if"; "rt"]%string); c_href := String.eqb k "href" |}.
Proof.
  unfold criteria_of. rewrite in_flat_map. split.
  - intros ([k vs] & Hin & H). cbn [fst snd] in H. destruct (is_paging k) eqn:P; [contradiction|]. apply in_map_iff in H.
    destruct H as (v & <- & Hv). exists k, vs, v. auto.
  - intros (k & vs & v & Hin & P & Hv & ->). exists (k, vs). split; [exact Hin|]. cbn [fst snd]. rewrite P. apply in_map_iff. exists v. auto.
Qed.
Lemma make_matcher_spec v : make_matcher v = match v with
                                              | Some s => if ends_with_star s then MPrefix (drop_last s) else MEq (Some s)
                                              | None => MEq None end.
Proof. reflexivity. Qed.

(* ------------------------------------------------------------------ change notifications *)
Lemma filter_length_le {A} (f : A -> bool) l : (length (filter f l) <= length l)%nat.
Proof. induction l as [|x l IH]; cbn; [lia|]. destruct (f x); cbn; lia. Qed.
Lemma filter_shorter {A} (f : A -> bool) l : filter f l <> l -> (length (filter f l) < length l)%nat.
Proof.
  induction l as [|x l IH]; cbn; intros H; [congruence|]. destruct (f x) eqn:E; cbn.
  - assert (filter f l <> l) by congruence. specialize (IH H0). lia.
  - pose proof (filter_length_le f l). lia.
Qed.
Lemma drain_by_key st : Inv st -> by_key (drain st) = filter (Qd st (now st)) (by_key st).
Proof. intros I. unfold drain. apply by_key_fire_due; [exact I|apply pending_le]. Qed.
Lemma drain_count_nonneg st : Inv st -> 0 <= blen (by_key st) - blen (by_key (drain st)).
Proof. intros I. rewrite (drain_by_key st I). unfold blen. pose proof (filter_length_le (Qd st (now st)) (by_key st)). lia. Qed.
Lemma drain_count_pos st : Inv st -> by_key (drain st) <> by_key st -> 0 < blen (by_key st) - blen (by_key (drain st)).
Proof. intros I H. rewrite (drain_by_key st I) in *. unfold blen. pose proof (filter_shorter _ _ H). lia. Qed.

Lemma handle_err_unchanged st o st1 e : Inv st -> is_lookup o = false -> handle st o = (st1, Err e) -> st1 = st.
Proof.
  intros I NL H. destruct (handle_Inv _ _ _ _ I H) as (_ & _ & F). apply F. eapply handle_errors_4xx; eauto.
Qed.

(* whenever the set of listed registrations changes — registration, re-registration, removal, expiry — the change callbacks run *)
Lemma notified_when_listing_changes st o st' r : Inv st -> Settled st -> nonneg_time o -> step st o = (st', r) ->
  by_key st' <> by_key st -> 0 < notify_count st o.
Proof.
  intros I S NN. unfold step, notify_count. destruct (handle st o) as [st1 r1] eqn:EH. intros H; inv H. intros Hne.
  destruct (handle_Inv _ _ _ _ I EH) as (I1 & _ & F4).
  pose proof (drain_count_nonneg st1 I1) as NNeg.
  destruct o as [remote q b|path remote q b|path remote q b|path|path accept|q accept|q accept|dt].
  - destruct r as [loc| | |txt| |e|];
      try (exfalso; cbn [handle] in EH; unfold directory_render_post in EH; repeat break_match; inv EH; fail).
    + destruct (blen (by_key st1) =? blen (by_key st)); lia.
    + exfalso. apply Hne. assert (E1 : st1 = st) by (eapply handle_err_unchanged; [exact I| |exact EH]; reflexivity). rewrite E1, (drain_id st S). reflexivity.
  - assert (Ebk : by_key st1 = by_key st).
    { cbn [handle] in EH. destruct (lookup_path st path); [|inv EH; reflexivity]. unfold registration_render_post in EH.
      destruct (_ || _); [inv EH; reflexivity|]. destruct (_update_params st z remote q) as [st2 res] eqn:EU.
      destruct (_update_params_frame _ _ _ _ _ _ EU) as (Bk & _). destruct res; inv EH; exact Bk. }
    rewrite <- Ebk in Hne. pose proof (drain_count_pos st1 I1 Hne).
    assert (0 <= match r, lookup_path st path with Changed, Some id => if reg_changed (obj st id) (obj st1 id) then 1 else 0 | _, _ => 0 end).
    { destruct r; try lia. destruct (lookup_path st path); [|lia]. destruct (reg_changed _ _); lia. }
    lia.
  - assert (Ebk : by_key st1 = by_key st).
    { cbn [handle] in EH. destruct (lookup_path st path); [|inv EH; reflexivity]. unfold registration_render_put in EH.
      destruct (link_format_from_message b); [|inv EH; reflexivity]. destruct (_update_params st z remote q) as [st2 res] eqn:EU.
      destruct (_update_params_frame _ _ _ _ _ _ EU) as (Bk & _). destruct res; inv EH; [exact Bk|]. cbn [by_key set_obj]. exact Bk. }
    rewrite <- Ebk in Hne. pose proof (drain_count_pos st1 I1 Hne).
    assert (0 <= match r, lookup_path st path with Changed, Some id => (if reg_changed (obj st id) (obj st1 id) then 1 else 0) + 1 | _, _ => 0 end).
    { destruct r; try lia. destruct (lookup_path st path); [|lia]. destruct (reg_changed _ _); lia. }
    lia.
  - cbn [handle] in EH. destruct (lookup_path st path) as [tid|] eqn:EP.
    + destruct (lookup_indexed st path tid I EP) as [Hk _]. unfold registration_render_delete in EH.
      destruct (Inv_indexed_delete st tid _ I Hk) as [Ed _]. rewrite Ed in EH. inv EH. lia.
    + injection EH as <- <-. exfalso. apply Hne. rewrite (drain_id st S). reflexivity.
  - exfalso. apply Hne. cbn [handle] in EH. destruct (lookup_path st path); injection EH as <- <-; rewrite (drain_id st S); reflexivity.
  - exfalso. apply Hne. cbn [handle] in EH. injection EH as <- <-. rewrite (drain_id st S). reflexivity.
  - exfalso. apply Hne. cbn [handle] in EH. injection EH as <- <-. rewrite (drain_id st S). reflexivity.
  - cbn in NN. cbn [handle] in EH. injection EH as <- <-. rewrite (drain_id (advance st dt)) in * by (apply advance_Settled; assumption).
    assert (E : by_key (advance st dt) = filter (Qd st (now st + dt)) (by_key st)).
    { unfold advance. cbn [by_key with_now]. apply by_key_fire_due; [exact I|apply pending_le]. }
    rewrite E in *. unfold blen. pose proof (filter_shorter _ _ Hne). lia.
Qed.

Lemma listing_changes_notified_reachable : forall st o st' r, reachable st -> nonneg_time o -> step st o = (st', r) ->
  by_key st' <> by_key st -> 0 < notify_count st o.
Proof. intros st o st' r R NN H Hne. destruct (reachable_Inv st R) as [I S]. eapply notified_when_listing_changes; eauto. Qed.

(* ------------------------------------------------------------------ round 5b: every change of what the lookups show is announced *)
Definition vis (r : reg) := (r_path r, r_params r, r_base r, r_links r).
Lemma vis_links a b : vis a = vis b -> get_host_link a = get_host_link b /\ get_based_links a = get_based_links b.
Proof. destruct a, b. unfold vis. cbn. intros H. inv H. split; reflexivity. Qed.

Lemma list_eqb_eq {A} (eqb : A -> A -> bool) (spec : forall a b, eqb a b = true -> a = b) l1 l2 : list_eqb eqb l1 l2 = true -> l1 = l2.
Proof.
  revert l2. induction l1 as [|x l1 IH]; intros [|y l2]; cbn; intros H; try discriminate; [reflexivity|].
  apply andb_prop in H. destruct H as [H1 H2]. rewrite (spec _ _ H1), (IH _ H2). reflexivity.
Qed.
Lemma query_eqb_eq a b : query_eqb a b = true -> a = b.
Proof.
  apply list_eqb_eq. intros [k1 v1] [k2 v2] H. cbn [fst snd] in H. apply andb_prop in H. destruct H as [H1 H2].
  apply String.eqb_eq in H1. apply olist_eqb_eq in H2. subst. reflexivity.
Qed.
Lemma reg_unchanged_fields r r' : reg_changed r r' = false -> r_lt r = r_lt r' /\ r_base r = r_base r' /\ r_params r = r_params r'.
Proof.
  unfold reg_changed. intros H. apply orb_false_iff in H. destruct H as [H H3]. apply orb_false_iff in H. destruct H as [H1 H2].
  apply negb_false_iff in H1, H2, H3. apply String.eqb_eq in H2. apply query_eqb_eq in H3. split; [lia|auto].
Qed.

Lemma key_list_dec (a b : list (key * Z)) : {a = b} + {a <> b}.
Proof. repeat decide equality. Qed.

Lemma plain_lookups_of_vis st st' : by_key st' = by_key st ->
  (forall k id, In (k, id) (by_key st) -> vis (obj st' id) = vis (obj st id)) ->
  ep_lookup st' [] None = ep_lookup st [] None /\ res_lookup st' [] None = res_lookup st [] None.
Proof.
  intros Ebk V. rewrite !ep_lookup_plain, !res_lookup_plain. unfold get_endpoints. rewrite Ebk.
  assert (E1 : map get_host_link (map (fun kv : key * Z => obj st' (snd kv)) (by_key st)) = map get_host_link (map (fun kv : key * Z => obj st (snd kv)) (by_key st))).
  { rewrite !map_map. apply map_ext_in. intros [k id] H. cbn [snd]. apply (vis_links _ _ (V k id H)). }
  assert (E2 : flat_map get_based_links (map (fun kv : key * Z => obj st' (snd kv)) (by_key st)) = flat_map get_based_links (map (fun kv : key * Z => obj st (snd kv)) (by_key st))).
  { rewrite !flat_map_concat_map, !map_map. f_equal. apply map_ext_in. intros [k id] H. cbn [snd]. apply (vis_links _ _ (V k id H)). }
  rewrite E1, E2. split; reflexivity.
Qed.

Lemma drain_keeps_objects st : Inv st -> forall k id, In (k, id) (by_key (drain st)) -> obj (drain st) id = obj st id.
Proof. intros I k id H. unfold drain in *. destruct (fire_due_frame (length (objs st)) st (now st) I) as [A _]. apply (A _ _ H). Qed.

(* if no change callback runs during a step, both unfiltered lookups show afterwards exactly what they showed before *)
Lemma silent_step_shows_the_same st o st' r : Inv st -> Settled st -> nonneg_time o -> step st o = (st', r) ->
  notify_count st o = 0 -> ep_lookup st' [] None = ep_lookup st [] None /\ res_lookup st' [] None = res_lookup st [] None.
Proof.
  intros I S NN Hs N0.
  destruct (key_list_dec (by_key st') (by_key st)) as [Ebk|Ne].
  2:{ pose proof (notified_when_listing_changes st o st' r I S NN Hs Ne). lia. }
  apply plain_lookups_of_vis; [exact Ebk|]. intros k id Hin.
  unfold step in Hs. unfold notify_count in N0. destruct (handle st o) as [st1 r1] eqn:EH. injection Hs as <- <-.
  destruct (handle_Inv _ _ _ _ I EH) as (I1 & _ & _).
  pose proof (drain_count_nonneg st1 I1) as NNeg.
  assert (Same : st1 = st -> vis (obj (drain st1) id) = vis (obj st id)).
  { intros ->. rewrite (drain_id st S). reflexivity. }
  destruct o as [remote q b|path remote q b|path remote q b|path|path accept|q accept|q accept|dt].
  - destruct r1 as [loc| | |txt| |e|];
      try (exfalso; cbn [handle] in EH; unfold directory_render_post in EH; repeat break_match; inv EH; fail).
    + destruct (blen (by_key st1) =? blen (by_key st)); lia.
    + apply Same. eapply handle_err_unchanged; [exact I| |exact EH]. reflexivity.
  - cbn [handle] in EH. destruct (lookup_path st path) as [tid|] eqn:EP; [|injection EH as <- <-; apply Same; reflexivity].
    unfold registration_render_post in EH. destruct (_ || _); [injection EH as <- <-; apply Same; reflexivity|].
    destruct (_update_params st tid remote q) as [st2 res] eqn:EU. destruct (_update_params_frame _ _ _ _ _ _ EU) as (Bk & _ & Ob).
    destruct res as [e|]; injection EH as <- <-.
    + apply Same. destruct (lookup_path_In _ _ _ EP) as (p & Hp & _).
      destruct (_update_params_Inv st tid remote q st2 (Some e) I (ex_intro _ p Hp) EU) as (_ & _ & F & _).
      apply (F e eq_refl). rewrite (_update_params_err _ _ _ _ _ _ EU). reflexivity.
    + destruct (reg_changed (obj st tid) (obj st2 tid)) eqn:RC; [lia|].
      assert (Hd : In (k, id) (by_key (drain st2))) by (rewrite Ebk; exact Hin).
      rewrite (drain_keeps_objects st2 I1 k id Hd).
      destruct (Z.eq_dec id tid) as [->|Nid]; [|rewrite (Ob id Nid); reflexivity].
      destruct (reg_unchanged_fields _ _ RC) as (_ & Eb & Ep).
      unfold _update_params in EU. destruct (update_params (obj st tid) remote (query_split q) false (now st) (next_seq st)) as [r'|r' e'] eqn:EUP; inv EU.
      destruct (update_params_ok _ _ _ _ _ _ _ EUP) as (_ & Epath & Elinks & _).
      assert (Eo : obj {| objs := dset Z.eqb (objs st) tid r'; by_key := by_key st; by_path := by_path st; now := now st; next_id := next_id st;
                          next_seq := next_seq st + 1; loop_exceptions := loop_exceptions st |} tid = r').
      { unfold obj. cbn [objs]. rewrite (dget_dset_same Z.eqb Zeqb_spec). reflexivity. }
      rewrite Eo in *. unfold vis. rewrite Epath, Elinks, <- Eb, <- Ep. reflexivity.
  - cbn [handle] in EH. destruct (lookup_path st path) as [tid|] eqn:EP; [|injection EH as <- <-; apply Same; reflexivity].
    unfold registration_render_put in EH. destruct (link_format_from_message b) as [links|e]; [|injection EH as <- <-; apply Same; reflexivity].
    destruct (_update_params st tid remote q) as [st2 [e|]] eqn:EU; injection EH as <- <-.
    + apply Same. destruct (lookup_path_In _ _ _ EP) as (p & Hp & _).
      destruct (_update_params_Inv st tid remote q st2 (Some e) I (ex_intro _ p Hp) EU) as (_ & _ & F & _).
      apply (F e eq_refl). rewrite (_update_params_err _ _ _ _ _ _ EU). reflexivity.
    + destruct (reg_changed _ _); lia.
  - cbn [handle] in EH. destruct (lookup_path st path) as [tid|] eqn:EP; [|injection EH as <- <-; apply Same; reflexivity].
    destruct (lookup_indexed st path tid I EP) as [Hk _]. unfold registration_render_delete in EH.
    destruct (Inv_indexed_delete st tid _ I Hk) as [Ed _]. rewrite Ed in EH. injection EH as <- <-. lia.
  - cbn [handle] in EH. destruct (lookup_path st path); injection EH as <- <-; apply Same; reflexivity.
  - cbn [handle] in EH. injection EH as <- <-. apply Same. reflexivity.
  - cbn [handle] in EH. injection EH as <- <-. apply Same. reflexivity.
  - cbn in NN. cbn [handle] in EH. injection EH as <- <-.
    rewrite (drain_id (advance st dt)) in * by (apply advance_Settled; assumption).
    unfold advance in *. unfold obj. cbn [objs with_now by_key] in *.
    destruct (fire_due_frame (length (objs st)) st (now st + dt) I) as [A _].
    assert (Hd : In (k, id) (by_key (fire_due (length (objs st)) st (now st + dt)))) by (rewrite Ebk; exact Hin).
    destruct (A _ _ Hd) as [_ Eo]. unfold obj in Eo. rewrite Eo. reflexivity.
Qed.

Lemma lookup_changes_notified_reachable : forall st o st' r, reachable st -> nonneg_time o -> step st o = (st', r) ->
  (ep_lookup st' [] None <> ep_lookup st [] None \/ res_lookup st' [] None <> res_lookup st [] None) -> notify_count st o <> 0.
Proof.
  intros st o st' r R NN Hs Hd N0. destruct (reachable_Inv st R) as [I S].
  destruct (silent_step_shows_the_same st o st' r I S NN Hs N0) as [E1 E2]. destruct Hd as [Hd|Hd]; contradiction.
Qed.
