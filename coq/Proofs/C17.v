(* C17 — routing proofs: the lookup code generated from resource.py equals a functional specification
   (exact match, then scan of the proper non-empty prefixes from the longest down), which refines the
   declarative Route relation over the nested-site tree. *)
From Verif Require Import Lib.Py Lib.Tactics Model.C17Base Gen.resource_site Model.C17.
Open Scope Z_scope.
Open Scope list_scope.

(* ------------------------------------------------------------------ keys *)
Lemma list_eqb_eq : forall A (eqb : A -> A -> bool), (forall x y, eqb x y = true <-> x = y) ->
  forall a b, list_eqb eqb a b = true <-> a = b.
Proof.
  intros A eqb Heq. induction a as [|x a IH]; destruct b as [|y b]; simpl; split; intro H; try reflexivity; try discriminate.
  - apply andb_true_iff in H. destruct H as [H1 H2]. apply Heq in H1. apply IH in H2. subst. reflexivity.
  - inversion H; subst. apply andb_true_iff. split; [apply Heq; reflexivity | apply IH; reflexivity].
Qed.
Lemma path_eqb_eq : forall a b, path_eqb a b = true <-> a = b.
Proof. apply list_eqb_eq. apply String.eqb_eq. Qed.
Lemma path_eqb_refl : forall a, path_eqb a a = true.
Proof. intro a. apply path_eqb_eq. reflexivity. Qed.
Lemma path_eqb_neq : forall a b, path_eqb a b = false <-> a <> b.
Proof.
  intros a b. split; intro H.
  - intro E. apply path_eqb_eq in E. congruence.
  - destruct (path_eqb a b) eqn:E; [apply path_eqb_eq in E; contradiction | reflexivity].
Qed.
Lemma path_eqb_sym : forall a b, path_eqb a b = path_eqb b a.
Proof.
  intros a b. destruct (path_eqb a b) eqn:E.
  - apply path_eqb_eq in E. subst. symmetry. apply path_eqb_refl.
  - symmetry. apply path_eqb_neq. apply path_eqb_neq in E. congruence.
Qed.

(* ------------------------------------------------------------------ dict *)
Lemma dict_contains_spec : forall V (d : dict V) k, dict_contains k d = match dict_get_opt d k with Some _ => true | None => false end.
Proof. reflexivity. Qed.
Lemma dict_get_spec : forall V (d : dict V) k, dict_get d k = match dict_get_opt d k with Some v => Ok v | None => Raise KeyError end.
Proof. reflexivity. Qed.
Lemma dict_get_opt_map : forall V W (f : V -> W) (d : dict V) k, dict_get_opt (dict_map f d) k = option_map f (dict_get_opt d k).
Proof.
  intros V W f d k. induction d as [|[k' v] d IH]; simpl; [reflexivity|].
  destruct (path_eqb k' k); [reflexivity | apply IH].
Qed.
Lemma dict_get_opt_In : forall V (d : dict V) k v, dict_get_opt d k = Some v -> In (k, v) d.
Proof.
  intros V d k v. induction d as [|[k' v'] d IH]; simpl; [discriminate|].
  destruct (path_eqb k' k) eqn:E; intro H.
  - apply path_eqb_eq in E. inversion H; subst. left; reflexivity.
  - right. apply IH. exact H.
Qed.

(* ------------------------------------------------------------------ sequences *)
Lemma last_item_snoc : forall A (l : list A) x, last_item (l ++ [x]) = Ok x.
Proof. intros A l x. unfold last_item. rewrite rev_unit. reflexivity. Qed.
Lemma but_last_snoc : forall A (l : list A) x, but_last (l ++ [x]) = l.
Proof. intros A l x. unfold but_last. apply removelast_last. Qed.
Lemma truthy_length : forall A (l : list A), truthy l = negb (Nat.eqb (List.length l) 0).
Proof. intros A [|x l]; reflexivity. Qed.
Lemma firstn_S_snoc : forall A (d : A) (p : list A) k, (k < List.length p)%nat -> firstn (S k) p = firstn k p ++ [nth k p d].
Proof.
  intros A d p. induction p as [|x p IH]; intros k Hk; simpl in Hk; [lia|].
  destruct k as [|k]; [reflexivity|].
  change (firstn (S (S k)) (x :: p)) with (x :: firstn (S k) p). rewrite (IH k) by lia. reflexivity.
Qed.
Lemma skipn_cons_nth : forall A (d : A) (p : list A) k, (k < List.length p)%nat -> skipn k p = nth k p d :: skipn (S k) p.
Proof.
  intros A d p. induction p as [|x p IH]; intros k Hk; simpl in Hk; [lia|].
  destruct k as [|k]; [reflexivity|]. simpl. apply IH. lia.
Qed.
Lemma split_last : forall A (p : list A), p <> [] -> exists q x, p = q ++ [x].
Proof. intros A p H. destruct (exists_last H) as [q [x E]]. eauto. Qed.

(* ------------------------------------------------------------------ the functional specification of the lookup *)
(* sub-sites see their root resource like sites: [""] -> [] (resource.py:397-399) *)
Definition norm_rest (r : list string) : list string := if path_eqb r [""%string] then [] else r.
(* try the prefixes of length k, k-1, ..., 1 *)
Fixpoint scan {S} (ss : dict S) (p : list string) (k : nat) : option (S * list string) :=
  match k with
  | O => None
  | Datatypes.S k' => match dict_get_opt ss (firstn k p) with
                      | Some s => Some (s, norm_rest (skipn k p))
                      | None => scan ss p k'
                      end
  end.
(* the message handed to the child: path replaced, original request path recorded *)
Definition orig_of (m : msg) : list string := getattr_original_request_path m (uri_path m).
Definition strip (m : msg) (p : list string) : msg := set_original_request_path (copy_uri_path m p) (orig_of m).
Definition find_child_spec {R S} (self : site R S) (m : msg) : M (child R S * msg) :=
  match dict_get_opt (resources self) (uri_path m) with
  | Some r => Ok (ChildResource r, strip m [])
  | None => match scan (subsites self) (uri_path m) (List.length (uri_path m) - 1) with
            | Some (s, rest) => Ok (ChildSubsite s, strip m rest)
            | None => Raise KeyError
            end
  end.

(* the generated code (while loop on fuel) computes exactly the specification; in particular it never
   runs out of fuel and never raises IndexError *)
Lemma find_child_eq : forall R S (self : site R S) (m : msg),
  find_child_and_pathstripped_message self m = find_child_spec self m.
Proof.
  intros R S self m. unfold find_child_spec. cbv beta zeta delta [find_child_and_pathstripped_message].
  match goal with |- context [?f (Datatypes.S (List.length (but_last (uri_path m))))] => set (loop := f) end.
  assert (Hloop : forall p k fuel, (k < fuel)%nat -> (k < List.length p)%nat ->
            loop fuel (skipn k p) (firstn k p) =
            match scan (subsites self) p k with
            | Some (s, rest) => Ok (ChildSubsite s, strip m rest)
            | None => Raise KeyError
            end).
  { intro p. induction k as [|k IH]; intros fuel Hf Hk.
    - destruct fuel as [|fuel]; [lia|]. reflexivity.
    - destruct fuel as [|fuel]; [lia|].
      unfold loop; fold loop.
      rewrite (firstn_S_snoc _ ""%string p k) by lia.
      replace (truthy (firstn k p ++ [nth k p ""%string])) with true by (destruct (firstn k p); reflexivity).
      rewrite dict_contains_spec, dict_get_spec.
      rewrite <- (firstn_S_snoc _ ""%string p k) by lia.
      cbn [scan].
      destruct (dict_get_opt (subsites self) (firstn (Datatypes.S k) p)) as [s|] eqn:Hs.
      + cbn [bind]. unfold norm_rest, strip, orig_of.
        destruct (path_eqb (skipn (Datatypes.S k) p) [""%string]); reflexivity.
      + rewrite (firstn_S_snoc _ ""%string p k) by lia.
        rewrite last_item_snoc. cbn [bind]. rewrite but_last_snoc.
        rewrite <- (skipn_cons_nth _ ""%string p k) by lia.
        apply IH; lia. }
  clearbody loop.
  rewrite dict_contains_spec, dict_get_spec.
  destruct (dict_get_opt (resources self) (uri_path m)) as [r|] eqn:Hres; [reflexivity|].
  destruct (uri_path m) as [|x0 p0] eqn:Hp; [reflexivity|].
  assert (Hne : x0 :: p0 <> []) by discriminate.
  destruct (split_last _ _ Hne) as [q [x Hq]]. rewrite Hq.
  replace (truthy (q ++ [x])) with true by (destruct q; reflexivity). cbn [negb].
  rewrite last_item_snoc. cbn [bind]. rewrite but_last_snoc.
  set (p := q ++ [x]).
  assert (Hlen : List.length p = Datatypes.S (List.length q)) by (unfold p; rewrite app_length; simpl; lia).
  replace [x] with (skipn (List.length q) p) by (unfold p; rewrite skipn_app, skipn_all, Nat.sub_diag; reflexivity).
  replace (loop (Datatypes.S (List.length q)) (skipn (List.length q) p) q)
    with (loop (Datatypes.S (List.length q)) (skipn (List.length q) p) (firstn (List.length q) p))
    by (unfold p; rewrite firstn_app, firstn_all, Nat.sub_diag; simpl; rewrite app_nil_r; reflexivity).
  rewrite Hloop by lia.
  replace (List.length p - 1)%nat with (List.length q) by lia. reflexivity.
Qed.

(* ------------------------------------------------------------------ induction over the nested-site tree *)
Section NodeInd.
  Variable P : node -> Prop.
  Hypothesis Hop : forall id, P (NOpaque id).
  Hypothesis Hsite : forall rs ss, Forall (fun kc : list string * node => P (snd kc)) ss -> P (NSite rs ss).
  Fixpoint node_ind' (n : node) : P n :=
    match n with
    | NOpaque id => Hop id
    | NSite rs ss =>
        Hsite rs ss ((fix go (l : dict node) : Forall (fun kc : list string * node => P (snd kc)) l :=
                        match l with
                        | [] => Forall_nil _
                        | (k, c) :: tl => Forall_cons (k, c) (node_ind' c) (go tl)
                        end) ss)
    end.
End NodeInd.

Lemma Forall_dict_get : forall (P : node -> Prop) (ss : dict node) k c,
  Forall (fun kc : list string * node => P (snd kc)) ss -> dict_get_opt ss k = Some c -> P c.
Proof.
  intros P ss k c HF Hg. apply dict_get_opt_In in Hg. rewrite Forall_forall in HF. apply (HF (k, c) Hg).
Qed.

(* ------------------------------------------------------------------ scan *)
Lemma scan_map : forall V W (f : V -> W) (ss : dict V) p k,
  scan (dict_map f ss) p k = option_map (fun sr => (f (fst sr), snd sr)) (scan ss p k).
Proof.
  intros V W f ss p. induction k as [|k IH]; [reflexivity|].
  cbn [scan]. rewrite dict_get_opt_map. destruct (dict_get_opt ss (firstn (S k) p)); [reflexivity | apply IH].
Qed.
Lemma scan_some : forall V (ss : dict V) p k c rest, scan ss p k = Some (c, rest) ->
  exists j, (1 <= j <= k)%nat /\ dict_get_opt ss (firstn j p) = Some c /\ rest = norm_rest (skipn j p) /\
            forall j', (j < j' <= k)%nat -> dict_get_opt ss (firstn j' p) = None.
Proof.
  intros V ss p. induction k as [|k IH]; intros c rest H; [discriminate|].
  cbn [scan] in H. destruct (dict_get_opt ss (firstn (S k) p)) as [s|] eqn:E.
  - inversion H; subst. exists (S k). split; [lia|]. split; [exact E|]. split; [reflexivity|]. intros j' Hj'. lia.
  - destruct (IH _ _ H) as [j [Hj [Hg [Hr Hmax]]]]. exists j. split; [lia|]. split; [exact Hg|]. split; [exact Hr|].
    intros j' Hj'. destruct (Nat.eq_dec j' (S k)) as [->|Hne]; [exact E | apply Hmax; lia].
Qed.
Lemma scan_none : forall V (ss : dict V) p k, scan ss p k = None ->
  forall j, (1 <= j <= k)%nat -> dict_get_opt ss (firstn j p) = None.
Proof.
  intros V ss p. induction k as [|k IH]; intros H j Hj; [lia|].
  cbn [scan] in H. destruct (dict_get_opt ss (firstn (S k) p)) as [s|] eqn:E; [discriminate|].
  destruct (Nat.eq_dec j (S k)) as [->|Hne]; [exact E | apply IH; [exact H | lia]].
Qed.

(* ------------------------------------------------------------------ the declarative routing relation *)
Inductive target := TgtRes (r : res) | TgtOpaque (id : Z) (rest : list string).
(* Route n p t: in the tree n, a request for path p is rendered by t.
   - a resource registered at exactly p wins;
   - otherwise the PathCapable child registered at the longest non-empty proper prefix of p gets the remaining
     components (a single empty component, i.e. a trailing slash, is the child's root: []);
   - a PathCapable child that is not a Site handles whatever it is given. *)
Inductive Route : node -> list string -> target -> Prop :=
| Route_opaque : forall id p, Route (NOpaque id) p (TgtOpaque id p)
| Route_exact : forall rs ss p r, dict_get_opt rs p = Some r -> Route (NSite rs ss) p (TgtRes r)
| Route_sub : forall rs ss p pre rest c t,
    dict_get_opt rs p = None ->
    p = pre ++ rest -> pre <> [] -> rest <> [] ->
    dict_get_opt ss pre = Some c ->
    (forall pre' rest', p = pre' ++ rest' -> rest' <> [] -> (List.length pre < List.length pre')%nat -> dict_get_opt ss pre' = None) ->
    Route c (norm_rest rest) t ->
    Route (NSite rs ss) p t.

Lemma app_split_firstn : forall A (p pre rest : list A), p = pre ++ rest ->
  pre = firstn (List.length pre) p /\ rest = skipn (List.length pre) p.
Proof.
  intros A p pre rest ->. split.
  - rewrite firstn_app, firstn_all, Nat.sub_diag. simpl. rewrite app_nil_r. reflexivity.
  - rewrite skipn_app, skipn_all, Nat.sub_diag. reflexivity.
Qed.

Lemma Route_site_iff : forall rs ss p t,
  Route (NSite rs ss) p t <->
  match dict_get_opt rs p with
  | Some r => t = TgtRes r
  | None => match scan ss p (List.length p - 1) with
            | Some (c, rest) => Route c rest t
            | None => False
            end
  end.
Proof.
  intros rs ss p t. split.
  - intro H. inversion H as [| ? ? ? r Hr | ? ? ? pre rest c ? Hr Hp Hpre Hrest Hc Hmax Hsub]; subst.
    + rewrite Hr. reflexivity.
    + rewrite Hr.
      destruct (app_split_firstn _ _ _ _ (eq_refl (pre ++ rest))) as [Epre Erest].
      set (p := pre ++ rest) in *. set (j := List.length pre) in *.
      assert (Hj : (1 <= j <= List.length p - 1)%nat).
      { unfold j, p. rewrite app_length. destruct pre; [congruence|]. destruct rest; [congruence|]. simpl. lia. }
      assert (Hc' : dict_get_opt ss (firstn j p) = Some c) by (rewrite <- Epre; exact Hc).
      destruct (scan ss p (List.length p - 1)) as [[c' rest']|] eqn:Hscan.
      * destruct (scan_some _ _ _ _ _ _ Hscan) as [j' [Hj' [Hg [Hr' Hmax']]]].
        assert (j' = j).
        { destruct (Nat.lt_trichotomy j' j) as [Hlt | [Heq | Hgt]]; [|exact Heq|].
          - rewrite (Hmax' j) in Hc' by lia. discriminate.
          - exfalso. assert (Hn : dict_get_opt ss (firstn j' p) = None).
            { apply (Hmax (firstn j' p) (skipn j' p)).
              - symmetry. apply firstn_skipn.
              - intro E. apply (f_equal (@List.length string)) in E. rewrite skipn_length in E. simpl in E. lia.
              - rewrite firstn_length. fold j. lia. }
            congruence. }
        subst j'. assert (c' = c) by congruence. subst c'. rewrite Hr', <- Erest. exact Hsub.
      * rewrite (scan_none _ _ _ _ Hscan j Hj) in Hc'. discriminate.
  - destruct (dict_get_opt rs p) as [r|] eqn:Hr.
    + intros ->. apply Route_exact. exact Hr.
    + destruct (scan ss p (List.length p - 1)) as [[c rest]|] eqn:Hscan; [|contradiction].
      intro Hsub. destruct (scan_some _ _ _ _ _ _ Hscan) as [j [Hj [Hg [Hrest Hmax]]]].
      apply (Route_sub rs ss p (firstn j p) (skipn j p) c t Hr).
      * symmetry. apply firstn_skipn.
      * intro E. apply (f_equal (@List.length string)) in E. rewrite firstn_length in E. simpl in E. lia.
      * intro E. apply (f_equal (@List.length string)) in E. rewrite skipn_length in E. simpl in E. lia.
      * exact Hg.
      * intros pre' rest' Hp Hne Hlen. destruct (app_split_firstn _ _ _ _ Hp) as [Epre Erest].
        rewrite Epre. apply Hmax. rewrite firstn_length in Hlen. split; [lia|].
        assert (List.length p = List.length pre' + List.length rest')%nat by (rewrite Hp; apply app_length).
        destruct rest'; [congruence|]. simpl in *. lia.
      * rewrite <- Hrest. exact Hsub.
Qed.

(* ------------------------------------------------------------------ render *)
Lemma render_inner_map : forall pipe (l : dict node),
  (fix mp (l : dict node) : dict (msg -> leaf) :=
     match l with [] => [] | (k, c) :: tl => (k, render pipe c) :: mp tl end) l = dict_map (render pipe) l.
Proof. intros pipe l. induction l as [|[k c] l IH]; [reflexivity|]. cbn [dict_map]. rewrite <- IH. reflexivity. Qed.

Lemma render_site : forall pipe rs ss m,
  render pipe (NSite rs ss) m =
  match (if pipe then expand_upa m else Ok m) with
  | Raise e => LeafExn e
  | Ok m =>
    match find_child_and_pathstripped_message {| resources := rs; subsites := dict_map (render pipe) ss |} m with
    | Ok (ChildResource r, m') => LeafRes r m'
    | Ok (ChildSubsite f, m') => f m'
    | Raise KeyError => LeafExn NotFound
    | Raise e => LeafExn e
    end
  end.
Proof. intros pipe rs ss m. cbn [render]. rewrite render_inner_map. reflexivity. Qed.

(* _expand_upa (resource.py:490-501) *)
Lemma expand_upa_spec : forall m,
  expand_upa m =
  match uri_path_abbrev m with
  | None => Ok m
  | Some n => if truthy (uri_path m) then Raise BadOption
              else match zmap_get upa_map n with
                   | Ok p => Ok (set_uri_path_abbrev (set_uri_path m p) None)
                   | Raise _ => Raise BadOption
                   end
  end.
Proof.
  intro m. unfold expand_upa. destruct (uri_path_abbrev m) as [n|]; cbn [negb bind].
  - destruct (truthy (uri_path m)); [reflexivity|].
    assert (Hz : forall l, (exists p, zmap_get l n = Ok p) \/ zmap_get l n = Raise (A:=list string) KeyError).
    { induction l as [|[k' v] l IHl]; simpl; [right; reflexivity|]. destruct (k' =? n); [left; eauto | exact IHl]. }
    destruct (Hz upa_map) as [[p Hp] | Hp]; rewrite Hp; reflexivity.
  - destruct m; reflexivity.
Qed.

(* one level of dispatch as a clean recursive equation (no abbreviation pending) *)
Lemma render_step : forall pipe rs ss m, uri_path_abbrev m = None ->
  render pipe (NSite rs ss) m =
  match dict_get_opt rs (uri_path m) with
  | Some r => LeafRes r (strip m [])
  | None => match scan ss (uri_path m) (List.length (uri_path m) - 1) with
            | Some (c, rest) => render pipe c (strip m rest)
            | None => LeafExn NotFound
            end
  end.
Proof.
  intros pipe rs ss m Hab. rewrite render_site.
  replace (if pipe then expand_upa m else Ok m) with (Ok m) by (destruct pipe; [rewrite expand_upa_spec, Hab|]; reflexivity).
  rewrite find_child_eq. unfold find_child_spec. cbn [resources subsites].
  destruct (dict_get_opt rs (uri_path m)); [reflexivity|].
  rewrite scan_map. destruct (scan ss (uri_path m) (List.length (uri_path m) - 1)) as [[c rest]|]; reflexivity.
Qed.

Lemma strip_uri_path : forall m p, uri_path (strip m p) = p. Proof. reflexivity. Qed.
Lemma strip_abbrev : forall m p, uri_path_abbrev (strip m p) = uri_path_abbrev m. Proof. reflexivity. Qed.
Lemma strip_orig : forall m p, original_request_path (strip m p) = Some (orig_of m). Proof. reflexivity. Qed.
Lemma strip_orig_of : forall m p, orig_of (strip m p) = orig_of m. Proof. reflexivity. Qed.

(* which handler a leaf is, and with which remaining path *)
Definition leaf_target (l : leaf) : option target :=
  match l with
  | LeafRes r _ => Some (TgtRes r)
  | LeafOpaque id m' => Some (TgtOpaque id (uri_path m'))
  | LeafExn _ => None
  end.

(* refinement: the dispatch computes exactly the Route relation *)
Lemma render_route : forall n pipe m, uri_path_abbrev m = None ->
  forall t, Route n (uri_path m) t <-> leaf_target (render pipe n m) = Some t.
Proof.
  induction n as [id | rs ss IH] using node_ind'; intros pipe m Hab t.
  - cbn [render leaf_target]. split; intro H.
    + inversion H; subst. reflexivity.
    + inversion H; subst. constructor.
  - rewrite Route_site_iff, render_step by exact Hab.
    destruct (dict_get_opt rs (uri_path m)) as [r|].
    + cbn [leaf_target]. split; intro H; congruence.
    + destruct (scan ss (uri_path m) (List.length (uri_path m) - 1)) as [[c rest]|] eqn:Hscan.
      * destruct (scan_some _ _ _ _ _ _ Hscan) as [j [_ [Hg _]]].
        pose proof (proj1 (Forall_forall _ _) IH _ (dict_get_opt_In _ _ _ _ Hg)) as IHc. cbn [snd] in IHc.
        rewrite <- (IHc pipe (strip m rest)) by (rewrite strip_abbrev; exact Hab).
        rewrite strip_uri_path. reflexivity.
      * cbn [leaf_target]. split; [contradiction | discriminate].
Qed.

(* what the handler's message looks like, at every nesting depth *)
Lemma render_msg : forall n pipe m, uri_path_abbrev m = None ->
  match render pipe n m with
  | LeafRes r m' => uri_path m' = [] /\ original_request_path m' = Some (orig_of m) /\ uri_path_abbrev m' = None
  | LeafOpaque id m' => orig_of m' = orig_of m /\ uri_path_abbrev m' = None /\
                        ((exists rs ss, n = NSite rs ss) \/ original_request_path m = Some (orig_of m) ->
                         original_request_path m' = Some (orig_of m))
  | LeafExn e => e = NotFound
  end.
Proof.
  induction n as [id | rs ss IH] using node_ind'; intros pipe m Hab.
  - cbn [render]. split; [reflexivity|]. split; [exact Hab|]. intros [[rs [ss H]] | H]; [discriminate | exact H].
  - rewrite render_step by exact Hab.
    destruct (dict_get_opt rs (uri_path m)) as [r|].
    + split; [reflexivity|]. split; [reflexivity | exact Hab].
    + destruct (scan ss (uri_path m) (List.length (uri_path m) - 1)) as [[c rest]|] eqn:Hscan; [|reflexivity].
      destruct (scan_some _ _ _ _ _ _ Hscan) as [j [_ [Hg _]]].
      pose proof (proj1 (Forall_forall _ _) IH _ (dict_get_opt_In _ _ _ _ Hg)) as IHc. cbn [snd] in IHc.
      specialize (IHc pipe (strip m rest) (eq_trans (strip_abbrev m rest) Hab)).
      destruct (render pipe c (strip m rest)) as [r m' | id m' | e].
      * rewrite strip_orig_of in IHc. exact IHc.
      * rewrite strip_orig_of in IHc. destruct IHc as [H1 [H2 H3]]. split; [exact H1|]. split; [exact H2|].
        intros _. apply H3. right. apply strip_orig.
      * exact IHc.
Qed.

(* ------------------------------------------------------------------ corollaries *)
Lemma Route_deterministic : forall n p t1 t2, Route n p t1 -> Route n p t2 -> t1 = t2.
Proof.
  intros n p t1 t2 H1 H2.
  pose (m := {| uri_path := p; uri_path_abbrev := None; original_request_path := None |}).
  apply (render_route n false m eq_refl) in H1. apply (render_route n false m eq_refl) in H2. congruence.
Qed.

Lemma render_pipe_irrelevant : forall n m, uri_path_abbrev m = None -> render true n m = render false n m.
Proof.
  induction n as [id | rs ss IH] using node_ind'; intros m Hab; [reflexivity|].
  rewrite !render_step by exact Hab.
  destruct (dict_get_opt rs (uri_path m)); [reflexivity|].
  destruct (scan ss (uri_path m) (List.length (uri_path m) - 1)) as [[c rest]|] eqn:Hscan; [|reflexivity].
  destruct (scan_some _ _ _ _ _ _ Hscan) as [j [_ [Hg _]]].
  pose proof (proj1 (Forall_forall _ _) IH _ (dict_get_opt_In _ _ _ _ Hg)) as IHc. cbn [snd] in IHc.
  apply IHc. rewrite strip_abbrev. exact Hab.
Qed.

Lemma expand_upa_abbrev : forall m m0, expand_upa m = Ok m0 -> uri_path_abbrev m0 = None.
Proof.
  intros m m0. rewrite expand_upa_spec. destruct (uri_path_abbrev m) as [n|] eqn:E.
  - destruct (truthy (uri_path m)); [discriminate|]. destruct (zmap_get upa_map n); [|discriminate].
    intro H; inversion H; reflexivity.
  - intro H; inversion H; subst. exact E.
Qed.

(* Site.render_to_pipe = expand Uri-Path-Abbrev once at the top, then plain dispatch *)
Lemma render_pipe_upa : forall rs ss m,
  render true (NSite rs ss) m =
  match expand_upa m with Raise e => LeafExn e | Ok m0 => render false (NSite rs ss) m0 end.
Proof.
  intros rs ss m. rewrite render_site. destruct (expand_upa m) as [m0|e] eqn:E; [|reflexivity].
  pose proof (expand_upa_abbrev _ _ E) as Hab.
  rewrite <- (render_pipe_irrelevant (NSite rs ss) m0 Hab). rewrite render_site.
  rewrite (expand_upa_spec m0), Hab. reflexivity.
Qed.

(* the handler can reconstruct the original request path (message.py:628-634) *)
Lemma request_uri_kept : forall n pipe m, uri_path_abbrev m = None ->
  match render pipe n m with
  | LeafRes _ m' | LeafOpaque _ m' => get_request_uri_path m' = Ok (uri_segments (orig_of m))
  | LeafExn _ => True
  end.
Proof.
  intros n pipe m Hab. pose proof (render_msg n pipe m Hab) as H.
  destruct (render pipe n m) as [r m' | id m' | e]; [| |exact I].
  - destruct H as [H1 [H2 H3]]. unfold get_request_uri_path. rewrite H3. unfold getattr_original_request_path. rewrite H2. reflexivity.
  - destruct H as [H1 [H2 _]]. unfold get_request_uri_path. rewrite H2. fold (orig_of m'). rewrite H1. reflexivity.
Qed.

(* 4.04 exactly when the Route relation has no target for the path *)
Lemma render_not_found : forall n pipe m, uri_path_abbrev m = None ->
  (forall t, ~ Route n (uri_path m) t) <-> render pipe n m = LeafExn NotFound.
Proof.
  intros n pipe m Hab. pose proof (render_route n pipe m Hab) as HR. pose proof (render_msg n pipe m Hab) as HM.
  destruct (render pipe n m) as [r m' | id m' | e]; cbn [leaf_target] in HR.
  - split; [intro H; exfalso; apply (H (TgtRes r)); apply HR; reflexivity | discriminate].
  - split; [intro H; exfalso; apply (H (TgtOpaque id (uri_path m'))); apply HR; reflexivity | discriminate].
  - subst e. split; [reflexivity|]. intros _ t Ht. apply HR in Ht. discriminate.
Qed.

(* ------------------------------------------------------------------ the same at the level of what a history observes (Model.C17.request) *)
Lemma request_handled : forall pipe root m q id seen orig uri, uri_path_abbrev m = None ->
  request pipe root m q = RHandled id seen orig uri ->
  ((exists d, Route root (uri_path m) (TgtRes (RHandler id d)) /\ seen = []) \/ Route root (uri_path m) (TgtOpaque id seen)) /\
  uri = Ok (uri_segments (orig_of m)) /\
  ((exists rs ss, root = NSite rs ss) -> orig = Some (orig_of m)).
Proof.
  intros pipe root m q id seen orig uri Hab H. unfold request in H.
  pose proof (render_route root pipe m Hab) as HR. pose proof (render_msg root pipe m Hab) as HM.
  pose proof (request_uri_kept root pipe m Hab) as HU.
  destruct (render pipe root m) as [r m' | id' m' | e]; cbn [leaf_target] in HR.
  - destruct r as [id' d | impl].
    + unfold handled in H. inversion H; subst. destruct HM as [H1 [H2 H3]]. split; [|split; [exact HU | intros _; exact H2]].
      left. exists d. split; [apply HR; reflexivity | exact H1].
    + destruct (get_resources_as_linkheader root); [|discriminate].
      unfold links_result in H. destruct (wkc_render_get l impl q); discriminate.
  - unfold handled in H. inversion H; subst. destruct HM as [H1 [H2 H3]]. split; [|split; [exact HU|]].
    + right. apply HR. reflexivity.
    + intros Hs. apply H3. left. exact Hs.
  - discriminate.
Qed.
Lemma request_not_found : forall pipe root m q, uri_path_abbrev m = None ->
  (forall t, ~ Route root (uri_path m) t) -> request pipe root m q = RExn NotFound.
Proof.
  intros pipe root m q Hab H. unfold request. rewrite (proj1 (render_not_found root pipe m Hab) H). reflexivity.
Qed.
Lemma request_routed : forall pipe root m q id d, uri_path_abbrev m = None ->
  Route root (uri_path m) (TgtRes (RHandler id d)) ->
  request pipe root m q = RHandled id [] (Some (orig_of m)) (Ok (uri_segments (orig_of m))).
Proof.
  intros pipe root m q id d Hab H. unfold request.
  pose proof (render_msg root pipe m Hab) as HM. pose proof (request_uri_kept root pipe m Hab) as HU.
  apply (render_route root pipe m Hab) in H.
  destruct (render pipe root m) as [r m' | id' m' | e]; cbn [leaf_target] in H; inversion H; subst.
  destruct HM as [H1 [H2 H3]]. unfold handled. rewrite H1, H2, HU. reflexivity.
Qed.

(* ------------------------------------------------------------------ needs_blockwise_assembly / add_observation use the same lookup *)
Lemma locate_inner_map : forall (l : dict node),
  (fix mp (l : dict node) : dict (msg -> leaf) :=
     match l with [] => [] | (k, c) :: tl => (k, locate c) :: mp tl end) l = dict_map locate l.
Proof. intro l. induction l as [|[k c] l IH]; [reflexivity|]. cbn [dict_map]. rewrite <- IH. reflexivity. Qed.
Lemma locate_step : forall rs ss m,
  locate (NSite rs ss) m =
  match dict_get_opt rs (uri_path m) with
  | Some r => LeafRes r (strip m [])
  | None => match scan ss (uri_path m) (List.length (uri_path m) - 1) with
            | Some (c, rest) => locate c (strip m rest)
            | None => LeafExn KeyError
            end
  end.
Proof.
  intros rs ss m. cbn [locate]. rewrite locate_inner_map, find_child_eq. unfold find_child_spec. cbn [resources subsites].
  destruct (dict_get_opt rs (uri_path m)); [reflexivity|].
  rewrite scan_map. destruct (scan ss (uri_path m) (List.length (uri_path m) - 1)) as [[c rest]|]; reflexivity.
Qed.
Lemma render_step_plain : forall rs ss m,
  render false (NSite rs ss) m =
  match dict_get_opt rs (uri_path m) with
  | Some r => LeafRes r (strip m [])
  | None => match scan ss (uri_path m) (List.length (uri_path m) - 1) with
            | Some (c, rest) => render false c (strip m rest)
            | None => LeafExn NotFound
            end
  end.
Proof.
  intros rs ss m. rewrite render_site. rewrite find_child_eq. unfold find_child_spec. cbn [resources subsites].
  destruct (dict_get_opt rs (uri_path m)); [reflexivity|].
  rewrite scan_map. destruct (scan ss (uri_path m) (List.length (uri_path m) - 1)) as [[c rest]|]; reflexivity.
Qed.
(* the child asked by needs_blockwise_assembly / add_observation, and the message it is asked with, are exactly those of render;
   where render answers 4.04 they take their default *)
Lemma locate_render : forall n m,
  locate n m = match render false n m with LeafExn NotFound => LeafExn KeyError | x => x end.
Proof.
  induction n as [id | rs ss IH] using node_ind'; intro m; [reflexivity|].
  rewrite locate_step, render_step_plain.
  destruct (dict_get_opt rs (uri_path m)); [reflexivity|].
  destruct (scan ss (uri_path m) (List.length (uri_path m) - 1)) as [[c rest]|] eqn:Hscan; [|reflexivity].
  destruct (scan_some _ _ _ _ _ _ Hscan) as [j [_ [Hg _]]].
  pose proof (proj1 (Forall_forall _ _) IH _ (dict_get_opt_In _ _ _ _ Hg)) as IHc. cbn [snd] in IHc. apply IHc.
Qed.
Lemma locate_route : forall n m, uri_path_abbrev m = None ->
  forall t, Route n (uri_path m) t <-> leaf_target (locate n m) = Some t.
Proof.
  intros n m Hab t. rewrite (render_route n false m Hab t), locate_render.
  pose proof (render_msg n false m Hab) as HM.
  destruct (render false n m) as [r m' | id m' | e]; try reflexivity. subst e. reflexivity.
Qed.
Lemma located_default : forall obs root m, uri_path_abbrev m = None ->
  (forall t, ~ Route root (uri_path m) t) -> located obs root m = RDefault.
Proof.
  intros obs root m Hab H. unfold located. rewrite locate_render, (proj1 (render_not_found root false m Hab) H). reflexivity.
Qed.
Lemma located_same_as_request : forall obs root m q id seen orig uri, uri_path_abbrev m = None ->
  request false root m q = RHandled id seen orig uri <-> located obs root m = RHandled id seen orig uri.
Proof.
  intros obs root m q id seen orig uri Hab. unfold request, located. rewrite locate_render.
  pose proof (render_msg root false m Hab) as HM.
  destruct (render false root m) as [r m' | id' m' | e].
  - destruct r as [id' d | impl]; [reflexivity|]. split; intro H.
    + destruct (get_resources_as_linkheader root); [|discriminate]. unfold links_result in H. destruct (wkc_render_get l impl q); discriminate.
    + destruct obs; discriminate.
  - reflexivity.
  - subst e. split; discriminate.
Qed.

(* ------------------------------------------------------------------ the literal reading of the property: longest PROPER prefix, the empty one included *)
Inductive RouteSpec : node -> list string -> target -> Prop :=
| RS_opaque : forall id p, RouteSpec (NOpaque id) p (TgtOpaque id p)
| RS_exact : forall rs ss p r, dict_get_opt rs p = Some r -> RouteSpec (NSite rs ss) p (TgtRes r)
| RS_sub : forall rs ss p pre rest c t,
    dict_get_opt rs p = None ->
    p = pre ++ rest -> rest <> [] ->                       (* pre may be [] : a nested site registered at the site's own path *)
    dict_get_opt ss pre = Some c ->
    (forall pre' rest', p = pre' ++ rest' -> rest' <> [] -> (List.length pre < List.length pre')%nat -> dict_get_opt ss pre' = None) ->
    RouteSpec c (norm_rest rest) t ->
    RouteSpec (NSite rs ss) p t.
(* no nested site is registered at the empty path, anywhere in the tree *)
Fixpoint no_empty_subsite (n : node) : bool :=
  match n with
  | NOpaque _ => true
  | NSite rs ss => negb (dict_contains [] ss) &&
                   (fix go (l : dict node) : bool := match l with [] => true | (_, c) :: tl => no_empty_subsite c && go tl end) ss
  end.
Lemma no_empty_subsite_site : forall rs ss,
  no_empty_subsite (NSite rs ss) = negb (dict_contains [] ss) && forallb (fun kc : list string * node => no_empty_subsite (snd kc)) ss.
Proof.
  intros rs ss. cbn [no_empty_subsite]. f_equal. induction ss as [|[k c] ss IH]; [reflexivity|]. cbn [forallb snd]. rewrite <- IH. reflexivity.
Qed.
(* the code's relation is always contained in the literal one ... *)
Lemma Route_RouteSpec : forall n p t, Route n p t -> RouteSpec n p t.
Proof.
  intros n p t H. induction H as [id p | rs ss p r Hr | rs ss p pre rest c t Hr Hp Hpre Hrest Hc Hmax Hsub IH].
  - constructor.
  - apply RS_exact. exact Hr.
  - apply (RS_sub rs ss p pre rest c t); assumption.
Qed.
(* ... and equal to it exactly when no nested site sits at an empty path *)
Lemma RouteSpec_Route : forall n p t, RouteSpec n p t -> no_empty_subsite n = true -> Route n p t.
Proof.
  intros n p t H. induction H as [id p | rs ss p r Hr | rs ss p pre rest c t Hr Hp Hrest Hc Hmax Hsub IH]; intro Hne.
  - constructor.
  - apply Route_exact. exact Hr.
  - rewrite no_empty_subsite_site in Hne. apply andb_true_iff in Hne. destruct Hne as [H0 Hch].
    apply (Route_sub rs ss p pre rest c t); try assumption.
    + intros ->. unfold dict_contains in H0. rewrite Hc in H0. discriminate.
    + apply IH. rewrite forallb_forall in Hch. apply (Hch (pre, c)). apply dict_get_opt_In. exact Hc.
Qed.
Lemma RouteSpec_iff_Route : forall n p t, no_empty_subsite n = true -> (RouteSpec n p t <-> Route n p t).
Proof. intros n p t H. split; [intro HS; apply RouteSpec_Route; assumption | apply Route_RouteSpec]. Qed.
(* the dispatch refines the literal specification on every tree without a nested site at an empty path *)
Lemma render_route_spec : forall n pipe m, uri_path_abbrev m = None -> no_empty_subsite n = true ->
  forall t, RouteSpec n (uri_path m) t <-> leaf_target (render pipe n m) = Some t.
Proof. intros n pipe m Hab Hne t. rewrite (RouteSpec_iff_Route n _ t Hne). apply render_route. exact Hab. Qed.
(* with one it does not: the literal specification routes, the code answers 4.04 (open finding C17:empty-prefix-subsite-ignored) *)
Lemma empty_prefix_subsite_ignored :
  let r := RHandler 1 (Some []) in
  let n := NSite [] [([], NSite [(["x"%string], r)] [])] in
  RouteSpec n ["x"%string] (TgtRes r) /\ render false n (new_request ["x"%string] None) = LeafExn NotFound /\
  get_resources_as_linkheader n = Some [("//x"%string, [])].
Proof.
  cbv zeta. split; [|split; vm_compute; reflexivity].
  apply (RS_sub [] _ ["x"%string] [] ["x"%string] (NSite [(["x"%string], RHandler 1 (Some []))] [])); try reflexivity; try discriminate.
  - intros pre' rest' Hp Hr Hlen. destruct pre' as [|a pre']; [simpl in Hlen; lia|].
    destruct pre' as [|b pre'']; [|destruct pre''; discriminate].
    simpl in Hp. inversion Hp; subst. congruence.
  - apply RS_exact. reflexivity.
Qed.
