(* C02 — proofs. Part 10 (round 7): run-level form of C02_cancelled_obs_silent. Once the `cancelled` flag of an observation is set
   (by ObsCancel q of the application, or by an earlier error), NO later step of ANY event list produces a Notify for q, and the flag
   stays set. Induction over the run; every event of [step] keeps [canc s q] and emits no Notify q (the per-function lemmas of C02R6b
   for the datagram path, completed here for the other events). *)
From Verif Require Import Lib.Py Lib.PyLemmas Lib.Tactics Gen.tokenmanager_next_token Model.C02 Proofs.C02 Proofs.C02Once Proofs.C02Origin Proofs.C02Inv Proofs.C02R6b.
Open Scope Z_scope.

Lemma NoNotify_cons : forall q x o, (forall rid tok from, x <> Notify q rid tok from) -> NoNotify q o -> NoNotify q (x :: o).
Proof. intros q x o Hx Ho rid tok from [E|Hin]; [eapply Hx; exact E|eapply Ho; exact Hin]. Qed.
Lemma cok_same : forall q s, canc s q -> cok q s [].
Proof. intros q s H. split; [exact H|apply NoNotify_nil]. Qed.

(* ---- the datagram path, now with the state part (C02R6b proves the output part only) *)
Lemma dispatch_message_canc : forall q s r mcl w s' o, canc s q -> dispatch_message s r mcl w = (s', o) -> cok q s' o.
Proof.
  intros q s r mcl w s' o HC H. unfold dispatch_message in H.
  destruct (is_request (w_code w)). { invpairs. split; [exact HC|apply NoNotify_ml; repeat constructor]. }
  destruct (if (w_mtype w =? ACK) || (w_mtype w =? RST) then _ else _) as [[s1 o1] x1] eqn:RE.
  assert (B : cok q s1 o1).
  { destruct ((w_mtype w =? ACK) || (w_mtype w =? RST)); [eapply remove_exchange_canc; eauto|invpairs; split; [exact HC|apply NoNotify_nil]]. }
  destruct B as [B1 B2].
  assert (SI : forall s2 wr s3 o3, canc s2 q -> _send_initially s2 r wr None = (s3, o3) -> cok q s3 o3).
  { intros. eapply send_initially_canc; eauto. }
  destruct x1; [invpairs; split; assumption|].
  destruct ((w_code w =? EMPTY) && (w_mtype w =? CON)).
  { destruct (_send_initially s1 r _ None) as [s2 o2] eqn:S. apply SI in S; [|exact B1]. destruct S. invpairs. split; [assumption|apply NoNotify_app; assumption]. }
  destruct ((w_code w =? EMPTY) && ((w_mtype w =? ACK) || (w_mtype w =? RST))); [invpairs; split; assumption|].
  destruct (is_response (w_code w) && _); [|invpairs; split; assumption].
  assert (P : exists b s2 o2, process_response s1 r w = (b, s2, o2) /\ cok q s2 o2).
  { unfold process_response. destruct (outgoing s1).
    - destruct (alookup key_eqb _ l); [|do 3 eexists; split; [reflexivity|split; [exact B1|apply NoNotify_nil]]].
      destruct (add_response _ z w r _) as [s2 o2] eqn:A. do 3 eexists. split; [reflexivity|].
      eapply (add_event_canc q) in A; [exact A|]. match goal with |- canc (if ?b then _ else _) _ => destruct b end; [eapply canc_frame; [|exact B1]; reflexivity|exact B1].
    - do 3 eexists. split; [reflexivity|]. split; [exact B1|]. intros ? ? ? [E|[]]. discriminate. }
  destruct P as (b & s2 & o2 & E & P1 & P2). rewrite E in H.
  destruct b; [destruct (w_mtype w =? CON)|destruct ((w_mtype w =? CON) && negb mcl)];
    try (destruct (_send_initially s2 r _ None) as [s3 o3] eqn:S; apply SI in S; [|exact P1]; destruct S);
    invpairs; (split; [assumption|repeat apply NoNotify_app; assumption]).
Qed.

(* ---- TokenManager.request / Context.request *)
Lemma pipe_oie_flag : forall c k c' ks, pipe_on_interest_end c k = (c', ks) -> cq_obs_cancelled c' = cq_obs_cancelled c.
Proof. intros c k c' ks H. unfold pipe_on_interest_end in H. repeat dmatch; invpairs; reflexivity. Qed.
Lemma on_interest_end_canc : forall q s q0 k, canc s q -> canc (on_interest_end s q0 k) q.
Proof.
  intros q s q0 k (c & G & F). unfold on_interest_end. destruct (get_req s q0) as [c0|] eqn:G0; [|exists c; split; assumption].
  destruct (pipe_on_interest_end c0 k) as [c' ks] eqn:P. unfold canc. rewrite get_req_pop_keys, get_req_upd.
  destruct (q =? q0) eqn:E.
  - apply Z.eqb_eq in E. subst q0. rewrite G in G0. inversion G0. subst c0. exists c'. split; [reflexivity|].
    rewrite (pipe_oie_flag _ _ _ _ P). exact F.
  - exists c; split; assumption.
Qed.
Lemma send_message_canc : forall q s r mt tok obs m s' o, canc s q -> send_message s r mt tok obs m = Ok (s', o) -> cok q s' o.
Proof.
  intros q s r mt tok obs m s' o HC H. unfold send_message in H.
  set (mt' := match mt with None => _ | Some _ => _ end) in H. clearbody mt'.
  destruct ((mt' =? CON) && is_multicast r); [discriminate|]. cbn [_next_message_id] in H.
  set (s1 := set_next_mid s _) in H. assert (C1 : canc s1 q) by (eapply canc_frame; [|exact HC]; reflexivity). clearbody s1.
  set (w := {| w_mtype := mt' |}) in H. clearbody w.
  destruct ((mt' =? CON) && amem Z.eqb r _).
  - inversion H; subst; clear H. split; [eapply canc_frame; [|exact C1]; reflexivity|apply NoNotify_nil].
  - destruct (_send_initially s1 r w (Some m)) as [s3 o3] eqn:S. inversion H; subst; clear H. eapply send_initially_canc; [exact C1|exact S].
Qed.
Lemma request_canc : forall q s q0 r mt obs s' o, canc s q -> request s q0 r mt obs = (s', o) -> cok q s' o.
Proof.
  intros q s q0 r mt obs s' o HC H. unfold request in H.
  destruct (outgoing s); [|eapply add_event_canc; eauto].
  destruct (next_token (tmst s)) as [[tm' tok]|e]; [|invpairs; split; [exact HC|apply NoNotify_ml; repeat constructor]].
  set (s2 := on_interest_end _ q0 _) in H.
  assert (C2 : canc s2 q). { subst s2. apply on_interest_end_canc. eapply canc_frame; [|exact HC]. reflexivity. }
  clearbody s2.
  assert (T : forall rid tk from, Token q0 tok <> Notify q rid tk from) by (intros; discriminate).
  destruct (send_message s2 r mt tok obs q0) as [[s3 o3]|e] eqn:SM.
  - apply (send_message_canc q) in SM; [|exact C2]. destruct SM. invpairs. split; [assumption|apply NoNotify_cons; assumption].
  - destruct (add_exception s2 q0 e) as [s3 o3] eqn:A. apply (add_event_canc q) in A; [|exact C2]. destruct A. invpairs.
    split; [assumption|apply NoNotify_cons; assumption].
Qed.
Lemma new_request_canc : forall q s q0 r mt obs s' o, canc s q -> new_request s q0 r mt obs = (s', o) -> cok q s' o.
Proof.
  intros q s q0 r mt obs s' o HC H. unfold new_request in H.
  destruct (get_req s q0) eqn:G0; [invpairs; apply cok_same; exact HC|].
  eapply request_canc; [|exact H]. destruct HC as (c & G & F). exists c. split; [|exact F]. rewrite get_req_upd.
  destruct (q =? q0) eqn:E; [|exact G]. apply Z.eqb_eq in E. subst q0. rewrite G in G0. discriminate.
Qed.

(* ---- timers, transport errors *)
Lemma send_via_transport_canc : forall q s r w s' o, canc s q -> _send_via_transport s r w = (s', o) -> cok q s' o.
Proof.
  intros q s r w s' o HC H. unfold _send_via_transport in H. destruct (refuses s r); [eapply mm_dispatch_error_canc; eauto|].
  invpairs. split; [exact HC|apply NoNotify_ml; repeat constructor].
Qed.
Lemma tm_dispatch_error_canc : forall q s k r s' o, canc s q -> tm_dispatch_error s k r = (s', o) -> cok q s' o.
Proof.
  intros q s k r s' o HC H. unfold tm_dispatch_error in H. destruct (outgoing s); [eapply run_stoppers_canc; eauto|].
  invpairs. apply cok_same. exact HC.
Qed.
Lemma NoNotify_loopexc : forall q e, NoNotify q [LoopExc e].
Proof. intros q e rid tok from [E|[]]. discriminate. Qed.
Lemma retransmit_canc : forall q s r mid s' o, canc s q -> _retransmit s r mid = (s', o) -> cok q s' o.
Proof.
  intros q s r mid s' o HC H. unfold _retransmit in H.
  destruct (exchanges s); [|invpairs; apply cok_same; exact HC].
  destruct (alookup rm_eqb (r, mid) l); [|invpairs; split; [exact HC|apply NoNotify_loopexc]].
  destruct (ex_counter e <? 4).
  - eapply send_via_transport_canc; [|exact H]. eapply canc_frame; [|exact HC]. reflexivity.
  - destruct (amem Z.eqb r _).
    + eapply tm_dispatch_error_canc; [|exact H]. eapply canc_frame; [|exact HC]. reflexivity.
    + invpairs. split; [eapply canc_frame; [|exact HC]; reflexivity|apply NoNotify_loopexc].
Qed.

(* ---- the application: cancel of the future, cancel of the observation, shutdown *)
Lemma cancel_canc : forall q s q0 s' o, canc s q -> cancel s q0 = (s', o) -> cok q s' o.
Proof.
  intros q s q0 s' o HC H. unfold cancel in H.
  destruct (get_req s q0) as [c0|] eqn:G0; [|invpairs; apply cok_same; exact HC].
  destruct (cq_fut c0); try (invpairs; apply cok_same; exact HC).
  destruct (_stop_interest _) as [c' ks] eqn:S. invpairs. destruct HC as (c & G & F). split.
  - unfold canc. rewrite get_req_pop_keys, get_req_upd. destruct (q =? q0) eqn:E; [|exists c; split; assumption].
    apply Z.eqb_eq in E. subst q0. rewrite G in G0. inversion G0. subst c0. exists c'. split; [reflexivity|].
    rewrite (flag_same _ _ _ (or_introl S)). exact F.
  - intros rid tok from [E|[]]. discriminate.
Qed.
Lemma obs_cancel_canc : forall q s q0, canc s q -> canc (obs_cancel s q0) q.
Proof.
  intros q s q0 (c & G & F). unfold obs_cancel. destruct (get_req s q0) as [c0|] eqn:G0; [|exists c; split; assumption].
  destruct (cq_runner c0); try (exists c; split; assumption). destruct (cq_obs_cancelled c0); [exists c; split; assumption|].
  unfold canc. rewrite get_req_upd. destruct (q =? q0); [|exists c; split; assumption]. eexists. split; reflexivity.
Qed.
(* ClientObservation.cancel() on an observation that is running sets the flag *)
Lemma obs_cancel_sets : forall s q c v, get_req s q = Some c -> cq_runner c = Observing v -> canc (obs_cancel s q) q.
Proof.
  intros s q c v G R. unfold obs_cancel. rewrite G, R. destruct (cq_obs_cancelled c) eqn:F; [exists c; split; assumption|].
  unfold canc. rewrite get_req_upd, Z.eqb_refl. eexists. split; reflexivity.
Qed.
Lemma shutdown_loop_canc : forall q fuel s s' o, canc s q -> tm_shutdown_loop fuel s = (s', o) -> cok q s' o.
Proof.
  intros q. induction fuel as [|f IH]; intros s s' o HC H; cbn [tm_shutdown_loop] in H; [invpairs; apply cok_same; exact HC|].
  destruct (outgoing s) as [[|[k q0] rest]|]; try (invpairs; apply cok_same; exact HC).
  destruct (add_exception _ q0 LibraryShutdown) as [s1 o1] eqn:A. apply (add_event_canc q) in A. 2: { eapply canc_frame; [|exact HC]. reflexivity. }
  destruct A as [A1 A2]. destruct (tm_shutdown_loop f s1) as [s2 o2] eqn:L. apply IH in L; [|exact A1]. destruct L. invpairs.
  split; [assumption|apply NoNotify_app; assumption].
Qed.
Lemma shutdown_canc : forall q s s' o, canc s q -> shutdown s = (s', o) -> cok q s' o.
Proof.
  intros q s s' o HC H. unfold shutdown in H. destruct (outgoing s); [|invpairs; apply cok_same; exact HC].
  destruct (tm_shutdown_loop _ s) as [s1 o1] eqn:L. apply (shutdown_loop_canc q) in L; [|exact HC]. destruct L as [L1 L2]. invpairs.
  split; [eapply canc_frame; [|exact L1]; reflexivity|exact L2].
Qed.

(* ---- every event, every state *)
Lemma step_canc : forall q s e s' o, canc s q -> step s e = (s', o) -> cok q s' o.
Proof.
  intros q s e s' o HC H. destruct e; cbn [step] in H.
  - eapply new_request_canc; eauto.
  - destruct (outgoing s); [eapply dispatch_message_canc; eauto|invpairs; apply cok_same; exact HC].
  - destruct (exchanges s); [|invpairs; apply cok_same; exact HC].
    destruct (next_timer l None) as [[[r mid] e]|]; [|invpairs; apply cok_same; exact HC].
    eapply retransmit_canc; [|exact H]. eapply canc_frame; [|exact HC]. reflexivity.
  - destruct (match exchanges s with Some ex => next_timer ex None | None => None end) as [[k e]|]; [destruct (ex_due e >? now s + d)|];
      invpairs; apply cok_same; try exact HC; (eapply canc_frame; [|exact HC]; reflexivity).
  - eapply mm_dispatch_error_canc; eauto.
  - eapply cancel_canc; eauto.
  - invpairs. apply cok_same. apply obs_cancel_canc. exact HC.
  - invpairs. apply cok_same. eapply canc_frame; [|exact HC]. reflexivity.
  - eapply shutdown_canc; eauto.
Qed.

(* ---- every event list, every state *)
Lemma run_canc_all : forall q es s s' os, canc s q -> run s es = (s', os) -> canc s' q /\ Forall (NoNotify q) os.
Proof.
  intros q. induction es as [|e rest IH]; intros s s' os HC H; cbn [run] in H; [invpairs; split; [exact HC|constructor]|].
  destruct (step s e) as [s1 o] eqn:S. apply (step_canc q) in S; [|exact HC]. destruct S as [S1 S2].
  destruct (run s1 rest) as [s2 os2] eqn:R. apply IH in R; [|exact S1]. destruct R. invpairs. split; [assumption|constructor; assumption].
Qed.
Lemma run_app : forall a b s, run s (a ++ b) = (fst (run (fst (run s a)) b), snd (run s a) ++ snd (run (fst (run s a)) b)).
Proof.
  induction a as [|e a IH]; intros b s; cbn [run app fst snd]; [destruct (run s b); reflexivity|].
  destruct (step s e) as [s1 o]. rewrite IH. destruct (run s1 a) as [s2 os]. cbn [fst snd]. destruct (run s2 b). reflexivity.
Qed.
Lemma run_length : forall es s, length (snd (run s es)) = length es.
Proof.
  induction es as [|e es IH]; intros s; cbn [run]; [reflexivity|]. destruct (step s e) as [s1 o]. specialize (IH s1).
  destruct (run s1 es). cbn [snd length] in *. rewrite IH. reflexivity.
Qed.

(* in every state: once the flag of q is set, no step of any event list notifies q, and the flag is still set afterwards *)
Theorem cancelled_obs_silent_run_lemma : forall s q c es, get_req s q = Some c -> cq_obs_cancelled c = true ->
  (forall os rid tok from, In os (snd (run s es)) -> ~ In (Notify q rid tok from) os) /\
  (exists c', get_req (fst (run s es)) q = Some c' /\ cq_obs_cancelled c' = true).
Proof.
  intros s q c es G F. destruct (run s es) as [s' os] eqn:R. apply (run_canc_all q) in R; [|exists c; split; assumption].
  destruct R as [R1 R2]. cbn [fst snd]. split; [|exact R1]. intros o rid tok from Hin. rewrite Forall_forall in R2. apply R2. exact Hin.
Qed.
(* any history: from ANY state s0, after any events es1 that leave q as a running observation, ObsCancel q silences q for all later
   steps es2 -- the outputs of the run from position |es1| on contain no Notify q *)
Theorem obs_cancel_silences_run_lemma : forall s0 es1 es2 q c v,
  get_req (fst (run s0 es1)) q = Some c -> cq_runner c = Observing v ->
  forall os rid tok from, In os (skipn (length es1) (snd (run s0 (es1 ++ ObsCancel q :: es2)))) -> ~ In (Notify q rid tok from) os.
Proof.
  intros s0 es1 es2 q c v G R os rid tok from Hin. rewrite run_app in Hin. cbn [snd] in Hin.
  rewrite <- (run_length es1 s0) in Hin. rewrite skipn_app, skipn_all, Nat.sub_diag in Hin. cbn [skipn app] in Hin.
  set (s := fst (run s0 es1)) in *. cbn [run step] in Hin.
  pose proof (obs_cancel_sets s q c v G R) as HC.
  destruct (run (obs_cancel s q) es2) as [s' os2] eqn:RR. apply (run_canc_all q) in RR; [|exact HC]. destruct RR as [_ RR].
  cbn [snd] in Hin. destruct Hin as [E|Hin]; [subst os; intros []|]. rewrite Forall_forall in RR. apply RR. exact Hin.
Qed.

(* ---- non-vacuity *)
Definition r7_notif (mid obsv rid : Z) : wire := {| w_mtype := 1; w_code := 69; w_mid := mid; w_token := [6]; w_observe := Some obsv; w_rid := rid |}.
Definition r7_pre : list event := [Request 0 0 (Some 0) true; Recv 0 false (r7_notif 70 1 1); Recv 0 false (r7_notif 71 2 2)].
Definition r7_post : list event := [Recv 0 false (r7_notif 72 3 3); Fire; Recv 0 false (r7_notif 73 4 4)].
(* the hypotheses hold on a concrete history; without the ObsCancel the same later datagrams DO notify request 0, with it they do not *)
Example r7_nonvacuous :
  (exists c, get_req (fst (run (init 5 10 2000000) r7_pre)) 0 = Some c /\ cq_runner c = Observing 2 /\ cq_obs_cancelled c = false) /\
  snd (run (init 5 10 2000000) r7_pre) = [[Token 0 [6]; Send 0 0 1 10 [6] (Some 0)]; [SetResult 0 1 [6] 0]; [Notify 0 2 [6] 0]] /\
  skipn 3 (snd (run (init 5 10 2000000) (r7_pre ++ r7_post))) = [[Notify 0 3 [6] 0]; [Send 0 0 1 10 [6] (Some 0)]; [Notify 0 4 [6] 0]] /\
  skipn 3 (snd (run (init 5 10 2000000) (r7_pre ++ ObsCancel 0 :: r7_post))) = [[]; []; [Send 0 0 1 10 [6] (Some 0)]; []] /\
  (exists c, get_req (fst (run (init 5 10 2000000) (r7_pre ++ [ObsCancel 0]))) 0 = Some c /\ cq_obs_cancelled c = true).
Proof. vm_compute. repeat split; try reflexivity; eexists; repeat split; reflexivity. Qed.
