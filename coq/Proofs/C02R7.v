(* C02 — proofs. Part 10 (round 7): run-level form of C02_cancelled_obs_silent. Once the `cancelled` flag of an observation is set
   (by ObsCancel q of the application, or by an earlier error), NO later step of ANY event list produces a Notify for q, and the flag
   stays set. Induction over the run; every event of [step] keeps [canc s q] and emits no Notify q (the per-function lemmas of C02R6b
   for the datagram path, completed here for the other events). *)
From Verif Require Import Lib.Py Lib.PyLemmas Lib.Tactics Gen.tokenmanager_next_token Model.C02 Proofs.C02 Proofs.C02Once Proofs.C02Origin Proofs.C02Inv Proofs.C02R6b.
Open Scope Z_scope.

Lemma NoNotify_cons : forall q x o, (forall rid tok from, x <> Notify q rid tok from) -> NoNotify q o -> NoNotify q (x :: o).
Proof. intros q x o Hx Ho rid tok from [E|Hin]; [eapply Hx; exact E|eapply Ho; exact Hin]. Qed.
Lemma cok_same : forall q s, canc s q -> cok q s [].
Proof. intros q s H. split; [exact H|apply NoNotify_nil]. Qed.

(* ---- the datagram path, now with the state part (C02R6b proves the output part only) *)
Lemma dispatch_message_canc : forall q s r mcl w s' o, canc s q -> dispatch_message s r mcl w = (s', o) -> cok q s' o.
Proof.
  intros q s r mcl w s' o HC H. unfold dispatch_message in H.
  destruct (is_request (w_code w)). { invpairs. split; [exact HC|apply NoNotify_ml; repeat constructor]. }
  destruct (if (w_mtype w =? ACK) || (w_mtype w =? RST) then _ else _) as [[s1 o1] x1] eqn:RE.
  assert (B : cok q s1 o1).
  { destruct ((w_mtype w =? ACK) || (w_mtype w =? RST)); [eapply remove_exchange_canc; eauto|invpairs; split; [exact HC|apply NoNotify_nil]]. }
  destruct B as [B1 B2].
  assert (SI : forall s2 wr s3 o3, canc s2 q -> _send_initially s2 r wr None = (s3, o3) -> cok q s3 o3).
  { intros. eapply send_initially_canc; eauto. }
  destruct x1; [invpairs; split; assumption|].
  destruct ((w_code w =? EMPTY) && (w_mtype w =? CON)).
  { destruct (_send_initially s1 r _ None) as [s2 o2] eqn:S. apply SI in S; [|exact B1]. destruct S. invpairs. split; [assumption|apply NoNotify_app; assumption]. }
  destruct ((w_code w =? EMPTY) && ((w_mtype w =? ACK) || (w_mtype w =? RST))); [invpairs; split; assumption|].
  destruct (is_response (w_code w) && _); [|invpairs; split; assumption].
  assert (P : exists b s2 o2, process_response s1 r w = (b, s2, o2) /\ cok q s2 o2).
  { unfold process_response. destruct (outgoing s1).
    - destruct (alookup key_eqb _ l); [|do 3 eexists; split; [reflexivity|split; [exact B1|apply NoNotify_nil]]].
      destruct (add_response _ z w r _) as [s2 o2] eqn:A. do 3 eexists. split; [reflexivity|].
      eapply (add_event_canc q) in A; [exact A|]. match goal with |- canc (if ?b then _ else _) _ => destruct b end; [eapply canc_frame; [|exact B1]; reflexivity|exact B1].
    - do 3 eexists. split; [reflexivity|]. split; [exact B1|]. intros ? ? ? [E|[]]. discriminate. }
  destruct P as (b & s2 & o2 & E & P1 & P2). rewrite E in H.
  destruct b; [destruct (w_mtype w =? CON)|destruct ((w_mtype w =? CON) && negb mcl)];
    try (destruct (_send_initially s2 r _ None) as [s3 o3] eqn:S; apply SI in S; [|exact P1]; destruct S);
    invpairs; (split; [assumption|repeat apply NoNotify_app; assumption]).
Qed.

(* ---- TokenManager.request / Context.request *)
Lemma pipe_oie_flag : forall c k c' ks, pipe_on_interest_end c k = (c', ks) -> cq_obs_cancelled c' = cq_obs_cancelled c.
Proof. intros c k c' ks H. unfold pipe_on_interest_end in H. repeat dmatch; invpairs; reflexivity. Qed.
Lemma on_interest_end_canc : forall q s q0 k, canc s q -> canc (on_interest_end s q0 k) q.
Proof.
  intros q s q0 k (c & G & F). unfold on_interest_end. destruct (get_req s q0) as [c0|] eqn:G0; [|exists c; split; assumption].
  destruct (pipe_on_interest_end c0 k) as [c' ks] eqn:P. unfold canc. rewrite get_req_pop_keys, get_req_upd.
  destruct (q =? q0) eqn:E.
  - apply Z.eqb_eq in E. subst q0. rewrite G in G0. inversion G0. subst c0. exists c'. split; [reflexivity|].
    rewrite (pipe_oie_flag _ _ _ _ P). exact F.
  - exists c; split; assumption.
Qed.
Lemma send_message_canc : forall q s r mt tok obs m s' o, canc s q -> send_message s r mt tok obs m = Ok (s', o) -> cok q s' o.
Proof.
  intros q s r mt tok obs m s' o HC H. unfold send_message in H.
  set (mt' := match mt with None => _ | Some _ => _ end) in H. clearbody mt'.
  destruct ((mt' =? CON) && is_multicast r); [discriminate|]. cbn [_next_message_id] in H.
  set (s1 := set_next_mid s _) in H. assert (C1 : canc s1 q) by (eapply canc_frame; [|exact HC]; reflexivity). clearbody s1.
  set (w := {| w_mtype := mt' |}) in H. clearbody w.
  destruct ((mt' =? CON) && amem Z.eqb r _).
  - inversion H; subst; clear H. split; [eapply canc_frame; [|exact C1]; reflexivity|apply NoNotify_nil].
  - destruct (_send_initially s1 r w (Some m)) as [s3 o3] eqn:S. inversion H; subst; clear H. eapply send_initially_canc; [exact C1|exact S].
Qed.
Lemma request_canc : forall q s q0 r mt obs s' o, canc s q -> request s q0 r mt obs = (s', o) -> cok q s' o.
Proof.
  intros q s q0 r mt obs s' o HC H. unfold request in H.
  destruct (outgoing s); [|eapply add_event_canc; eauto].
  destruct (next_token (tmst s)) as [[tm' tok]|e]; [|invpairs; split; [exact HC|apply NoNotify_ml; repeat constructor]].
  set (s2 := on_interest_end _ q0 _) in H.
  assert (C2 : canc s2 q). { subst s2. apply on_interest_end_canc. eapply canc_frame; [|exact HC]. reflexivity. }
  clearbody s2.
  assert (T : forall rid tk from, Token q0 tok <> Notify q rid tk from) by (intros; discriminate).
  destruct (send_message s2 r mt tok obs q0) as [[s3 o3]|e] eqn:SM.
  - apply (send_message_canc q) in SM; [|exact C2]. destruct SM. invpairs. split; [assumption|apply NoNotify_cons; assumption].
  - destruct (add_exception s2 q0 e) as [s3 o3] eqn:A. apply (add_event_canc q) in A; [|exact C2]. destruct A. invpairs.
    split; [assumption|apply NoNotify_cons; assumption].
Qed.
Lemma new_request_canc : forall q s q0 r mt obs s' o, canc s q -> new_request s q0 r mt obs = (s', o) -> cok q s' o.
Proof.
  intros q s q0 r mt obs s' o HC H. unfold new_request in H.
  destruct (get_req s q0) eqn:G0; [invpairs; apply cok_same; exact HC|].
  eapply request_canc; [|exact H]. destruct HC as (c & G & F). exists c. split; [|exact F]. rewrite get_req_upd.
  destruct (q =? q0) eqn:E; [|exact G]. apply Z.eqb_eq in E. subst q0. rewrite G in G0. discriminate.
Qed.

(* ---- timers, transport errors *)
Lemma send_via_transport_canc : forall q s r w s' o, canc s q -> _send_via_transport s r w = (s', o) -> cok q s' o.
Proof.
  intros q s r w s' o HC H. unfold _send_via_transport in H. destruct (refuses s r); [eapply mm_dispatch_error_canc; eauto|].
  invpairs. split; [exact HC|apply NoNotify_ml; repeat constructor].
Qed.
Lemma tm_dispatch_error_canc : forall q s k r s' o, canc s q -> tm_dispatch_error s k r = (s', o) -> cok q s' o.
Proof.
  intros q s k r s' o HC H. unfold tm_dispatch_error in H. destruct (outgoing s); [eapply run_stoppers_canc; eauto|].
  invpairs. apply cok_same. exact HC.
Qed.
Lemma NoNotify_loopexc : forall q e, NoNotify q [LoopExc e].
Proof. intros q e rid tok from [E|[]]. discriminate. Qed.
Lemma retransmit_canc : forall q s r mid s' o, canc s q -> _retransmit s r mid = (s', o) -> cok q s' o.
Proof.
  intros q s r mid s' o HC H. unfold _retransmit in H.
  destruct (exchanges s); [|invpairs; apply cok_same; exact HC].
  destruct (alookup rm_eqb (r, mid) l); [|invpairs; split; [exact HC|apply NoNotify_loopexc]].
  destruct (ex_counter e <? 4).
  - eapply send_via_transport_canc; [|exact H]. eapply canc_frame; [|exact HC]. reflexivity.
  - destruct (amem Z.eqb r _).
    + eapply tm_dispatch_error_canc; [|exact H]. eapply canc_frame; [|exact HC]. reflexivity.
    + invpairs. split; [eapply canc_frame; [|exact HC]; reflexivity|apply NoNotify_loopexc].
Qed.

(* ---- the application: cancel of the future, cancel of the observation, shutdown *)
Lemma cancel_canc : forall q s q0 s' o, canc s q -> cancel s q0 = (s', o) -> cok q s' o.
Proof.
  intros q s q0 s' o HC H. unfold cancel in H.
  destruct (get_req s q0) as [c0|] eqn:G0; [|invpairs; apply cok_same; exact HC].
  destruct (cq_fut c0); try (invpairs; apply cok_same; exact HC).
  destruct (_stop_interest _) as [c' ks] eqn:S. invpairs. destruct HC as (c & G & F). split.
  - unfold canc. rewrite get_req_pop_keys, get_req_upd. destruct (q =? q0) eqn:E; [|exists c; split; assumption].
    apply Z.eqb_eq in E. subst q0. rewrite G in G0. inversion G0. subst c0. exists c'. split; [reflexivity|].
    rewrite (flag_same _ _ _ (or_introl S)). exact F.
  - intros rid tok from [E|[]]. discriminate.
Qed.
Lemma obs_cancel_canc : forall q s q0, canc s q -> canc (obs_cancel s q0) q.
Proof.
  intros q s q0 (c & G & F). unfold obs_cancel. destruct (get_req s q0) as [c0|] eqn:G0; [|exists c; split; assumption].
  destruct (cq_runner c0); try (exists c; split; assumption). destruct (cq_obs_cancelled c0); [exists c; split; assumption|].
  unfold canc. rewrite get_req_upd. destruct (q =? q0); [|exists c; split; assumption]. eexists. split; reflexivity.
Qed.
(* ClientObservation.cancel() on an observation that is running sets the flag *)
Lemma obs_cancel_sets : forall s q c v, get_req s q = Some c -> cq_runner c = Observing v -> canc (obs_cancel s q) q.
Proof.
  intros s q c v G R. unfold obs_cancel. rewrite G, R. destruct (cq_obs_cancelled c) eqn:F; [exists c; split; assumption|].
  unfold canc. rewrite get_req_upd, Z.eqb_refl. eexists. split; reflexivity.
Qed.
Lemma shutdown_loop_canc : forall q fuel s s' o, canc s q -> tm_shutdown_loop fuel s = (s', o) -> cok q s' o.
Proof.
  intros q. induction fuel as [|f IH]; intros s s' o HC H; cbn [tm_shutdown_loop] in H; [invpairs; apply cok_same; exact HC|].
  destruct (outgoing s) as [[|[k q0] rest]|]; try (invpairs; apply cok_same; exact HC).
  destruct (add_exception _ q0 LibraryShutdown) as [s1 o1] eqn:A. apply (add_event_canc q) in A. 2: { eapply canc_frame; [|exact HC]. reflexivity. }
  destruct A as [A1 A2]. destruct (tm_shutdown_loop f s1) as [s2 o2] eqn:L. apply IH in L; [|exact A1]. destruct L. invpairs.
  split; [assumption|apply NoNotify_app; assumption].
Qed.
Lemma shutdown_canc : forall q s s' o, canc s q -> shutdown s = (s', o) -> cok q s' o.
Proof.
  intros q s s' o HC H. unfold shutdown in H. destruct (outgoing s); [|invpairs; apply cok_same; exact HC].
  destruct (tm_shutdown_loop _ s) as [s1 o1] eqn:L. apply (shutdown_loop_canc q) in L; [|exact HC]. destruct L as [L1 L2]. invpairs.
  split; [eapply canc_frame; [|exact L1]; reflexivity|exact L2].
Qed.

(* ---- every event, every state *)
Lemma step_canc : forall q s e s' o, canc s q -> step s e = (s', o) -> cok q s' o.
Proof.
  intros q s e s' o HC H. destruct e; cbn [step] in H.
  - eapply new_request_canc; eauto.
  - destruct (outgoing s); [eapply dispatch_message_canc; eauto|invpairs; apply cok_same; exact HC].
  - destruct (exchanges s); [|invpairs; apply cok_same; exact HC].
    destruct (next_timer l None) as [[[r mid] e]|]; [|invpairs; apply cok_same; exact HC].
    eapply retransmit_canc; [|exact H]. eapply canc_frame; [|exact HC]. reflexivity.
  - destruct (match exchanges s with Some ex => next_timer ex None | None => None end) as [[k e]|]; [destruct (ex_due e >? now s + d)|];
      invpairs; apply cok_same; try exact HC; (eapply canc_frame; [|exact HC]; reflexivity).
  - eapply mm_dispatch_error_canc; eauto.
  - eapply cancel_canc; eauto.
  - invpairs. apply cok_same. apply obs_cancel_canc. exact HC.
  - invpairs. apply cok_same. eapply canc_frame; [|exact HC]. reflexivity.
  - eapply shutdown_canc; eauto.
Qed.

(* ---- every event list, every state *)
Lemma run_canc_all : forall q es s s' os, canc s q -> run s es = (s', os) -> canc s' q /\ Forall (NoNotify q) os.
Proof.
  intros q. induction es as [|e rest IH]; intros s s' os HC H; cbn [run] in H; [invpairs; split; [exact HC|constructor]|].
  destruct (step s e) as [s1 o] eqn:S. apply (step_canc q) in S; [|exact HC]. destruct S as [S1 S2].
  destruct (run s1 rest) as [s2 os2] eqn:R. apply IH in R; [|exact S1]. destruct R. invpairs. split; [assumption|constructor; assumption].
Qed.
Lemma run_app : forall a b s, run s (a ++ b) = (fst (run (fst (run s a)) b), snd (run s a) ++ snd (run (fst (run s a)) b)).
Proof.
  induction a as [|e a IH]; intros b s; cbn [run app fst snd]; [destruct (run s b); reflexivity|].
  destruct (step s e) as [s1 o]. rewrite IH. destruct (run s1 a) as [s2 os]. cbn [fst snd]. destruct (run s2 b). reflexivity.
Qed.
Lemma run_length : forall es s, length (snd (run s es)) = length es.
Proof.
  induction es as [|e es IH]; intros s; cbn [run]; [reflexivity|]. destruct (step s e) as [s1 o]. specialize (IH s1).
  destruct (run s1 es). cbn [snd length] in *. rewrite IH. reflexivity.
Qed.

(* in every state: once the flag of q is set, no step of any event list notifies q, and the flag is still set afterwards *)
Theorem cancelled_obs_silent_run_lemma : forall s q c es, get_req s q = Some c -> cq_obs_cancelled c = true ->
  (forall os rid tok from, In os (snd (run s es)) -> ~ In (Notify q rid tok from) os) /\
  (exists c', get_req (fst (run s es)) q = Some c' /\ cq_obs_cancelled c' = true).
Proof.
  intros s q c es G F. destruct (run s es) as [s' os] eqn:R. apply (run_canc_all q) in R; [|exists c; split; assumption].
  destruct R as [R1 R2]. cbn [fst snd]. split; [|exact R1]. intros o rid tok from Hin. rewrite Forall_forall in R2. apply R2. exact Hin.
Qed.
(* any history: from ANY state s0, after any events es1 that leave q as a running observation, ObsCancel q silences q for all later
   steps es2 -- the outputs of the run from position |es1| on contain no Notify q *)
Theorem obs_cancel_silences_run_lemma : forall s0 es1 es2 q c v,
  get_req (fst (run s0 es1)) q = Some c -> cq_runner c = Observing v ->
  forall os rid tok from, In os (skipn (length es1) (snd (run s0 (es1 ++ ObsCancel q :: es2)))) -> ~ In (Notify q rid tok from) os.
Proof.
  intros s0 es1 es2 q c v G R os rid tok from Hin. rewrite run_app in Hin. cbn [snd] in Hin.
  rewrite <- (run_length es1 s0) in Hin. rewrite skipn_app, skipn_all, Nat.sub_diag in Hin. cbn [skipn app] in Hin.
  set (s := fst (run s0 es1)) in *. cbn [run step] in Hin.
  pose proof (obs_cancel_sets s q c v G R) as HC.
  destruct (run (obs_cancel s q) es2) as [s' os2] eqn:RR. apply (run_canc_all q) in RR; [|exact HC]. destruct RR as [_ RR].
  cbn [snd] in Hin. destruct Hin as [E|Hin]; [subst os; intros []|]. rewrite Forall_forall in RR. apply RR. exact Hin.
Qed.

(* ---- non-vacuity *)
Definition r7_notif (mid obsv rid : Z) : wire := {| w_mtype := 1; w_code := 69; w_mid := mid; w_token := [6]; w_observe := Some obsv; w_rid := rid |}.
Definition r7_pre : list event := [Request 0 0 (Some 0) true; Recv 0 false (r7_notif 70 1 1); Recv 0 false (r7_notif 71 2 2)].
Definition r7_post : list event := [Recv 0 false (r7_notif 72 3 3); Fire; Recv 0 false (r7_notif 73 4 4)].
(* the hypotheses hold on a concrete history; without the ObsCancel the same later datagrams DO notify request 0, with it they do not *)
Example r7_nonvacuous :
  (exists c, get_req (fst (run (init 5 10 2000000) r7_pre)) 0 = Some c /\ cq_runner c = Observing 2 /\ cq_obs_cancelled c = false) /\
  snd (run (init 5 10 2000000) r7_pre) = [[Token 0 [6]; Send 0 0 1 10 [6] (Some 0)]; [SetResult 0 1 [6] 0]; [Notify 0 2 [6] 0]] /\
  skipn 3 (snd (run (init 5 10 2000000) (r7_pre ++ r7_post))) = [[Notify 0 3 [6] 0]; [Send 0 0 1 10 [6] (Some 0)]; [Notify 0 4 [6] 0]] /\
  skipn 3 (snd (run (init 5 10 2000000) (r7_pre ++ ObsCancel 0 :: r7_post))) = [[]; []; [Send 0 0 1 10 [6] (Some 0)]; []] /\
  (exists c, get_req (fst (run (init 5 10 2000000) (r7_pre ++ [ObsCancel 0]))) 0 = Some c /\ cq_obs_cancelled c = true).
Proof. vm_compute. repeat split; try reflexivity; eexists; repeat split; reflexivity. Qed.

(* ================================================================== token uniqueness over time along a run
   Only TokenManager.request emits a Token output and moves the counter; it emits exactly one, the rendering of the successor.
   Hence the tokens emitted along ANY run of at most 2^64 events from ANY state are pairwise different. *)
From Verif Require Import Proofs.C02Tok.

Definition nt (o : output) : Prop := match o with Token _ _ => False | _ => True end.
Definition toks (o : list output) : list token := flat_map (fun x => match x with Token _ t => [t] | _ => [] end) o.
Lemma toks_app : forall a b, toks (a ++ b) = toks a ++ toks b.
Proof. intros. unfold toks. apply flat_map_app. Qed.
Lemma toks_nt : forall o, Forall nt o -> toks o = [].
Proof. induction o as [|x o IH]; intros H; [reflexivity|]. inversion H; subst. unfold toks in *. cbn [flat_map]. rewrite IH by assumption. destruct x; try reflexivity. contradiction. Qed.
Lemma toks_in : forall q t o, In (Token q t) o -> In t (toks o).
Proof. intros q t o H. unfold toks. apply in_flat_map. exists (Token q t). split; [exact H|left; reflexivity]. Qed.

Lemma nt_ml : forall o, Forall ml_out o -> Forall nt o.
Proof. intros o H. eapply Forall_impl; [|exact H]. intros [] Hx; cbn in Hx; try contradiction; exact I. Qed.
Lemma nt_add_event : forall s q ev s' o, _add_event s q ev = (s', o) -> Forall nt o.
Proof. intros s q ev s' o H. apply add_event_out_ok in H. eapply Forall_impl; [|exact H]. intros [] Hx; cbn in Hx; try contradiction; exact I. Qed.
Lemma nt_run_stoppers : forall e qs s s' o, run_stoppers s qs e = (s', o) -> Forall nt o.
Proof.
  intros e. induction qs as [|q rest IH]; intros s s' o H; cbn [run_stoppers] in H; [invpairs; constructor|].
  destruct (add_exception s q e) as [s1 o1] eqn:E. apply nt_add_event in E.
  destruct (run_stoppers s1 rest e) as [s2 o2] eqn:R. apply IH in R. invpairs. apply Forall_app; split; assumption.
Qed.
Lemma nt_tm_dispatch_error : forall s k r s' o, tm_dispatch_error s k r = (s', o) -> Forall nt o.
Proof. intros s k r s' o H. unfold tm_dispatch_error in H. destruct (outgoing s); [|invpairs; constructor]. eapply nt_run_stoppers; eauto. Qed.
Lemma nt_mm_dispatch_error : forall s k r s' o, mm_dispatch_error s k r = (s', o) -> Forall nt o.
Proof.
  intros s k r s' o H. unfold mm_dispatch_error in H. destruct (exchanges s); [|invpairs; constructor].
  destruct (tm_dispatch_error s k r) as [s1 o1] eqn:T. apply nt_tm_dispatch_error in T. invpairs. exact T.
Qed.
Lemma nt_send_via_transport : forall s r w s' o, _send_via_transport s r w = (s', o) -> Forall nt o.
Proof.
  intros s r w s' o H. unfold _send_via_transport in H. destruct (refuses s r); [eapply nt_mm_dispatch_error; eauto|invpairs; repeat constructor].
Qed.
Lemma nt_send_initially : forall s r w m s' o, _send_initially s r w m = (s', o) -> Forall nt o.
Proof. intros s r w m s' o H. unfold _send_initially in H. eapply nt_send_via_transport; eauto. Qed.
Lemma nt_continue_loop : forall r fuel s s' o x, _continue_backlog_loop fuel s r = (s', o, x) -> Forall nt o.
Proof.
  intros r. induction fuel as [|f IH]; intros s s' o x H; cbn [_continue_backlog_loop] in H; [invpairs; constructor|].
  destruct (exchanges s); [|invpairs; constructor].
  destruct (alookup Z.eqb r (backlogs s)) as [bl|]; [|invpairs; constructor].
  destruct (has_exchange r l); [invpairs; constructor|].
  destruct bl as [|[w m] rest]; [invpairs; constructor|].
  destruct (_send_initially _ r w (Some m)) as [s1 o1] eqn:S. apply nt_send_initially in S.
  destruct (_continue_backlog_loop f s1 r) as [[s2 o2] x2] eqn:L. apply IH in L. invpairs. apply Forall_app; split; assumption.
Qed.
Lemma nt_remove_exchange : forall s r w s' o x, _remove_exchange s r w = (s', o, x) -> Forall nt o.
Proof.
  intros s r w s' o x H. unfold _remove_exchange in H.
  destruct (exchanges s); [|invpairs; constructor].
  destruct (alookup rm_eqb (r, w_mid w) l); [|invpairs; constructor].
  destruct (if w_mtype w =? RST then _ else _) as [s2 o2] eqn:E.
  destruct (_continue_backlog s2 r) as [[s3 o3] x3] eqn:C. invpairs.
  apply Forall_app. split.
  - destruct (w_mtype w =? RST); [eapply nt_add_event; exact E|invpairs; constructor].
  - unfold _continue_backlog in C. destruct (alookup Z.eqb r (backlogs s2)); [eapply nt_continue_loop; eauto|invpairs; repeat constructor].
Qed.
Lemma nt_process_response : forall s r w b s' o, process_response s r w = (b, s', o) -> Forall nt o.
Proof.
  intros s r w b s' o H. unfold process_response in H.
  destruct (outgoing s); [|invpairs; repeat constructor].
  destruct (alookup key_eqb _ l); [|invpairs; constructor].
  destruct (add_response _ z w r _) as [s2 o2] eqn:E. invpairs. eapply nt_add_event; exact E.
Qed.
Lemma nt_dispatch_message : forall s r mcl w s' o, dispatch_message s r mcl w = (s', o) -> Forall nt o.
Proof.
  intros s r mcl w s' o H. unfold dispatch_message in H.
  destruct (is_request (w_code w)). { invpairs. repeat constructor. }
  destruct (if (w_mtype w =? ACK) || (w_mtype w =? RST) then _ else _) as [[s1 o1] x1] eqn:RE.
  assert (B1 : Forall nt o1).
  { destruct ((w_mtype w =? ACK) || (w_mtype w =? RST)); [eapply nt_remove_exchange; eauto|invpairs; constructor]. }
  destruct x1. { invpairs. exact B1. }
  assert (SI : forall s r w s' o, _send_initially s r w None = (s', o) -> Forall nt o).
  { intros *. apply nt_send_initially. }
  destruct ((w_code w =? EMPTY) && (w_mtype w =? CON)).
  { destruct (_send_initially s1 r _ None) as [s2 o2] eqn:S. apply SI in S. invpairs. apply Forall_app; split; assumption. }
  destruct ((w_code w =? EMPTY) && ((w_mtype w =? ACK) || (w_mtype w =? RST))). { invpairs. exact B1. }
  destruct (is_response (w_code w) && _); [|invpairs; exact B1].
  destruct (process_response s1 r w) as [[b s2] o2] eqn:P. apply nt_process_response in P.
  destruct b; [destruct (w_mtype w =? CON)|destruct ((w_mtype w =? CON) && negb mcl)];
    try (destruct (_send_initially s2 r _ None) as [s3 o3] eqn:S; apply SI in S); invpairs;
    repeat (apply Forall_app; split); assumption.
Qed.
Lemma nt_shutdown_loop : forall fuel s s' o, tm_shutdown_loop fuel s = (s', o) -> Forall nt o.
Proof.
  induction fuel as [|f IH]; intros s s' o H; cbn [tm_shutdown_loop] in H; [invpairs; constructor|].
  destruct (outgoing s) as [[|[k q] rest]|]; try (invpairs; constructor).
  destruct (add_exception _ q LibraryShutdown) as [s1 o1] eqn:E. apply nt_add_event in E.
  destruct (tm_shutdown_loop f s1) as [s2 o2] eqn:L. apply IH in L. invpairs. apply Forall_app; split; assumption.
Qed.
Lemma nt_retransmit : forall s r mid s' o, _retransmit s r mid = (s', o) -> Forall nt o.
Proof.
  intros s r mid s' o H. unfold _retransmit in H. destruct (exchanges s); [|invpairs; constructor].
  destruct (alookup rm_eqb (r, mid) l); [|invpairs; repeat constructor].
  destruct (ex_counter e <? 4).
  - eapply nt_send_via_transport; eauto.
  - destruct (amem Z.eqb r _); [|invpairs; repeat constructor]. eapply nt_tm_dispatch_error; eauto.
Qed.
Lemma nt_send_message : forall s r mt tok obs m s' o, send_message s r mt tok obs m = Ok (s', o) -> Forall nt o.
Proof.
  intros s r mt tok obs m s' o H. unfold send_message in H.
  set (mt' := match mt with None => _ | Some _ => _ end) in H. clearbody mt'.
  destruct ((mt' =? CON) && is_multicast r); [discriminate|]. cbn [_next_message_id] in H.
  set (s1 := set_next_mid s _) in H. clearbody s1. set (w := {| w_mtype := mt' |}) in H. clearbody w.
  destruct ((mt' =? CON) && amem Z.eqb r _).
  - inversion H; subst. constructor.
  - destruct (_send_initially s1 r w (Some m)) as [s3 o3] eqn:S. inversion H; subst; clear H. eapply nt_send_initially; exact S.
Qed.

Notation M64 := (2 ^ 64).
Definition TT : list (key * Z) -> Prop := fun _ => True.
Lemma TT_ok : forall k og, TT og -> TT (aremove key_eqb k og). Proof. intros; exact I. Qed.
Definition quiet (s s' : st) (o : list output) : Prop := tmst s' = tmst s /\ toks o = [].
Definition issued (s s' : st) (o : list output) : Prop :=
  tm_token (tmst s') = (tm_token (tmst s) + 1) mod M64 /\ toks o = [tokbytes ((tm_token (tmst s) + 1) mod M64)].

Lemma new_request_toks : forall s q r mt obs s' o, new_request s q r mt obs = (s', o) -> quiet s s' o \/ issued s s' o.
Proof.
  intros s q r mt obs s' o H. unfold new_request in H. destruct (get_req s q); [invpairs; left; split; reflexivity|].
  set (c0 := {| cq_remote := r |}) in H. unfold request in H. cbn [outgoing upd_req set_reqs] in H.
  change (tmst (upd_req s q c0)) with (tmst s) in H.
  destruct (outgoing s) as [og|].
  2: { left. split; [apply (keeps_add_event TT TT_ok) in H; destruct H as [K _]; exact K|apply toks_nt; eapply nt_add_event; exact H]. }
  rewrite next_token_spec in H. right.
  set (T' := (tm_token (tmst s) + 1) mod M64) in *. set (tok := tokbytes T') in *.
  set (k := (tok, if is_multicast r then None else Some r)) in *.
  set (s1 := set_outgoing _ _) in H. assert (T1 : tm_token (tmst s1) = T') by reflexivity. clearbody s1.
  pose proof (keeps_on_interest_end TT TT_ok s1 q k) as [K2 _].
  set (s2 := on_interest_end s1 q k) in *. clearbody s2.
  destruct (send_message s2 r mt tok obs q) as [[s3 o3]|e] eqn:SM.
  - invpairs. pose proof (keeps_send_message TT TT_ok _ _ _ _ _ _ _ _ SM) as [K3 _]. apply nt_send_message in SM.
    split; [rewrite K3, K2; exact T1|]. change (Token q tok :: o3) with ([Token q tok] ++ o3). rewrite toks_app, (toks_nt o3 SM). reflexivity.
  - destruct (add_exception s2 q e) as [s3 o3] eqn:A. invpairs. pose proof (keeps_add_event TT TT_ok _ _ _ _ _ A) as [K3 _]. apply nt_add_event in A.
    split; [rewrite K3, K2; exact T1|]. change (Token q tok :: o3) with ([Token q tok] ++ o3). rewrite toks_app, (toks_nt o3 A). reflexivity.
Qed.
Lemma step_toks : forall s e s' o, step s e = (s', o) -> quiet s s' o \/ issued s s' o.
Proof.
  intros s e s' o H. destruct e; cbn [step] in H; [eapply new_request_toks; exact H|left..].
  - destruct (outgoing s); [|invpairs; split; reflexivity].
    split; [apply (keeps_dispatch_message TT TT_ok) in H; destruct H as [K _]; exact K|apply toks_nt; eapply nt_dispatch_message; exact H].
  - destruct (exchanges s); [|invpairs; split; reflexivity]. destruct (next_timer l None) as [[[r mid] e]|]; [|invpairs; split; reflexivity].
    split; [apply (keeps_retransmit TT TT_ok) in H; destruct H as [K _]; exact K|apply toks_nt; eapply nt_retransmit; exact H].
  - repeat dmatch; invpairs; split; reflexivity.
  - split; [apply (keeps_mm_dispatch_error TT TT_ok) in H; destruct H as [K _]; exact K|apply toks_nt; eapply nt_mm_dispatch_error; exact H].
  - split; [apply (keeps_cancel TT TT_ok) in H; destruct H as [K _]; exact K|].
    unfold cancel in H. repeat dmatch; invpairs; reflexivity.
  - invpairs. split; [|reflexivity]. pose proof (keeps_obs_cancel TT s q) as [K _]. exact K.
  - invpairs. split; reflexivity.
  - unfold shutdown in H. destruct (outgoing s); [|invpairs; split; reflexivity].
    destruct (tm_shutdown_loop (length l) s) as [s1 o1] eqn:L. invpairs.
    split; [apply shutdown_loop_tmst in L; exact L|apply toks_nt; eapply nt_shutdown_loop; exact L].
Qed.

(* the tokens the next k calls of next_token return when the counter is T *)
Fixpoint tokseq (T : Z) (k : nat) : list token :=
  match k with O => [] | S k' => tokbytes ((T + 1) mod M64) :: tokseq ((T + 1) mod M64) k' end.
Lemma tokseq_in : forall k T x, In x (tokseq T k) -> exists i, 1 <= i <= Z.of_nat k /\ x = tokbytes ((T + i) mod M64).
Proof.
  induction k as [|k IH]; intros T x H; cbn [tokseq] in H; [contradiction|]. destruct H as [E|H].
  - exists 1. split; [lia|]. symmetry. exact E.
  - apply IH in H. destruct H as (i & Hi & E). exists (i + 1). split; [lia|]. rewrite E. f_equal.
    rewrite Zplus_mod_idemp_l. f_equal. lia.
Qed.
Lemma tokseq_nodup : forall k T, Z.of_nat k <= M64 -> NoDup (tokseq T k).
Proof.
  induction k as [|k IH]; intros T Hk; cbn [tokseq]; [constructor|]. constructor; [|apply IH; lia].
  intros Hin. apply tokseq_in in Hin. destruct Hin as (i & Hi & E). symmetry in E. revert E.
  apply tokens_distinct_lemma; [apply Z.mod_pos_bound; reflexivity|lia].
Qed.
Lemma run_toks : forall es s s' os, run s es = (s', os) ->
  exists k, (k <= length es)%nat /\ toks (concat os) = tokseq (tm_token (tmst s)) k.
Proof.
  induction es as [|e es IH]; intros s s' os H; cbn [run] in H; [invpairs; exists O; split; [lia|reflexivity]|].
  destruct (step s e) as [s1 o] eqn:S. destruct (run s1 es) as [s2 os2] eqn:R. invpairs. apply IH in R. destruct R as (k & Hk & E).
  cbn [concat length]. rewrite toks_app, E. apply step_toks in S. destruct S as [[Q1 Q2]|[I1 I2]].
  - exists k. split; [lia|]. rewrite Q1, Q2. reflexivity.
  - exists (S k). split; [lia|]. rewrite I1, I2. reflexivity.
Qed.

(* from EVERY state, along EVERY event list of at most 2^64 events, the tokens handed out (Token outputs, in order) are pairwise different *)
Theorem run_tokens_unique_lemma : forall s es, Z.of_nat (length es) <= M64 -> NoDup (toks (concat (snd (run s es)))).
Proof.
  intros s es Hn. destruct (run s es) as [s' os] eqn:R. apply run_toks in R. destruct R as (k & Hk & E). cbn [snd]. rewrite E.
  apply tokseq_nodup. lia.
Qed.
Lemma nodup_app_disj : forall {A} (a b : list A) x, NoDup (a ++ b) -> In x a -> In x b -> False.
Proof.
  intros A. induction a as [|y a IH]; intros b x H Ha Hb; [contradiction|]. cbn [app] in H. inversion H; subst. destruct Ha as [->|Ha].
  - apply H2. apply in_or_app. right. exact Hb.
  - eapply IH; eauto.
Qed.
(* the same over time: a token handed to a request during es1 is not handed to any request during the continuation es2 *)
Theorem token_not_reissued_lemma : forall s es1 es2 q1 q2 tok o1 o2, Z.of_nat (length (es1 ++ es2)) <= M64 ->
  In o1 (snd (run s es1)) -> In (Token q1 tok) o1 ->
  In o2 (snd (run (fst (run s es1)) es2)) -> In (Token q2 tok) o2 -> False.
Proof.
  intros s es1 es2 q1 q2 tok o1 o2 Hn H1 T1 H2 T2. pose proof (run_tokens_unique_lemma s (es1 ++ es2) Hn) as N.
  rewrite run_app in N. cbn [snd] in N. rewrite concat_app, toks_app in N.
  eapply (nodup_app_disj _ _ tok N); eapply toks_in; apply in_concat; eexists; split; eassumption.
Qed.
(* one step hands out at most one token *)
Theorem step_one_token_lemma : forall s e, (length (toks (snd (step s e))) <= 1)%nat.
Proof. intros s e. destruct (step s e) as [s' o] eqn:S. apply step_toks in S. cbn [snd]. destruct S as [[_ ->]|[_ ->]]; cbn; lia. Qed.

Definition r7_tok_script : list event :=
  [Request 0 0 (Some 0) false; Request 1 0 (Some 1) false; Recv 0 false {| w_mtype := 2; w_code := 69; w_mid := 10; w_token := [6]; w_observe := None; w_rid := 1 |};
   Request 2 1 (Some 1) true; Shutdown; Request 3 0 (Some 1) false].
Example r7_tokens_nonvacuous :
  toks (concat (snd (run (init 5 10 2000000) r7_tok_script))) = [[6]; [7]; [8]] /\
  toks (concat (snd (run (init (2 ^ 64 - 2) 10 2000000) r7_tok_script))) = [[255; 255; 255; 255; 255; 255; 255; 255]; []; [1]] /\
  In (Token 0 [6]) (nth 0 (snd (run (init 5 10 2000000) r7_tok_script)) []) /\
  In (Token 2 [8]) (nth 3 (snd (run (init 5 10 2000000) r7_tok_script)) []).
Proof. vm_compute. repeat split; try reflexivity; auto. Qed.

(* ================================================================== the tie between the table and the Token outputs:
   an entry (tok, _) -> q of outgoing_requests is there because `Token q tok` was emitted (or it was there at the start) *)
Definition sub (X : key * Z -> Prop) : list (key * Z) -> Prop := fun og => forall e, In e og -> X e.
Lemma sub_ok : forall X k og, sub X og -> sub X (aremove key_eqb k og).
Proof. intros X k og H e He. apply In_aremove in He. apply H. apply He. Qed.
Definition from_before (s : st) (e : key * Z) : Prop := exists og, outgoing s = Some og /\ In e og.
Lemma keeps_before : forall s s', keeps (sub (from_before s)) s s' -> forall og', outgoing s' = Some og' -> sub (from_before s) og'.
Proof.
  intros s s' [_ K] og' E. rewrite E in K. destruct (outgoing s) as [og|] eqn:Hog; [|contradiction]. apply K.
  intros e He. exists og. split; [exact Hog|exact He].
Qed.

Lemma step_entry_origin : forall s e s' o og' k q, step s e = (s', o) -> outgoing s' = Some og' -> In (k, q) og' ->
  from_before s (k, q) \/ In (Token q (fst k)) o.
Proof.
  intros s e s' o og' k q H E Hin. destruct e; cbn [step] in H.
  - unfold new_request in H. destruct (get_req s q0); [invpairs; left; exists og'; split; assumption|].
    set (c0 := {| cq_remote := r |}) in H. unfold request in H. cbn [outgoing upd_req set_reqs] in H.
    change (tmst (upd_req s q0 c0)) with (tmst s) in H.
    destruct (outgoing s) as [og|] eqn:Hog.
    { rewrite next_token_spec in H. set (tok := tokbytes _) in H. set (k0 := (tok, if is_multicast r then None else Some r)) in *.
      set (s1 := set_outgoing _ _) in H.
      set (X := fun e : key * Z => e = (k0, q0) \/ In e og).
      assert (P1 : sub X (aset key_eqb k0 q0 og)). { intros x Hx. apply In_aset in Hx. exact Hx. }
      assert (O1 : outgoing s1 = Some (aset key_eqb k0 q0 og)) by reflexivity. clearbody s1.
      assert (K2 : keeps (sub X) s1 (on_interest_end s1 q0 k0)) by (apply keeps_on_interest_end; apply sub_ok).
      set (s2 := on_interest_end s1 q0 k0) in *. clearbody s2.
      assert (K3 : exists o3, o = Token q0 tok :: o3 /\ keeps (sub X) s2 s').
      { destruct (send_message s2 r mtype tok obs q0) as [[s3 o3]|e] eqn:SM.
        - invpairs. eexists. split; [reflexivity|]. eapply keeps_send_message; [apply sub_ok|exact SM].
        - destruct (add_exception s2 q0 e) as [s3 o3] eqn:A. invpairs. eexists. split; [reflexivity|]. eapply keeps_add_event; [apply sub_ok|exact A]. }
      destruct K3 as (o3 & -> & K3). pose proof (keeps_trans (sub X) _ _ _ K2 K3) as [_ K]. rewrite E, O1 in K. specialize (K P1 _ Hin).
      destruct K as [K|K]; [inversion K; subst; right; left; reflexivity|left; exists og; split; [exact Hog|exact K]]. }
    left. eapply keeps_before; [|exact E|exact Hin].
    apply (keeps_add_event (sub (from_before s)) (sub_ok _)) in H. destruct H as [K1 K2]. split; [exact K1|]. cbn [outgoing upd_req set_reqs] in K2. exact K2.
  - destruct (outgoing s) eqn:Hog; [|invpairs; congruence]. left. eapply keeps_before; [eapply keeps_dispatch_message; [apply sub_ok|exact H]|exact E|exact Hin].
  - left. destruct (exchanges s); [|invpairs; exists og'; split; assumption].
    destruct (next_timer l None) as [[[r mid] e]|]; [|invpairs; exists og'; split; assumption].
    apply (keeps_retransmit (sub (from_before s)) (sub_ok _)) in H. destruct H as [K1 K2]. eapply keeps_before; [split; [exact K1|exact K2]|exact E|exact Hin].
  - left. exists og'. split; [|exact Hin]. rewrite <- E. repeat dmatch; invpairs; reflexivity.
  - left. eapply keeps_before; [eapply keeps_mm_dispatch_error; [apply sub_ok|exact H]|exact E|exact Hin].
  - left. eapply keeps_before; [eapply keeps_cancel; [apply sub_ok|exact H]|exact E|exact Hin].
  - left. invpairs. eapply keeps_before; [apply keeps_obs_cancel|exact E|exact Hin].
  - left. invpairs. exists og'. split; assumption.
  - unfold shutdown in H. destruct (outgoing s) eqn:Hog; [|invpairs; congruence].
    destruct (tm_shutdown_loop (length l) s) as [s1 o1]. invpairs. cbn in E. discriminate.
Qed.
(* along every run from every state: every entry of the final table was in the initial table or its token was handed to that very request *)
Theorem entry_token_emitted_lemma : forall es s og' k q, outgoing (fst (run s es)) = Some og' -> In (k, q) og' ->
  (exists og, outgoing s = Some og /\ In (k, q) og) \/ exists o, In o (snd (run s es)) /\ In (Token q (fst k)) o.
Proof.
  induction es as [|e es IH]; intros s og' k q E Hin; cbn [run] in *; [left; exists og'; split; assumption|].
  destruct (step s e) as [s1 o] eqn:S. destruct (run s1 es) as [s2 os] eqn:R. cbn [fst snd] in *.
  specialize (IH s1 og' k q). rewrite R in IH. cbn [fst snd] in IH. destruct (IH E Hin) as [(og1 & E1 & H1)|(o' & H1 & H2)].
  - destruct (step_entry_origin _ _ _ _ _ _ _ S E1 H1) as [B|T]; [left; exact B|right; exists o; split; [left; reflexivity|exact T]].
  - right. exists o'. split; [right; exact H1|exact H2].
Qed.
Example r7_entry_nonvacuous :
  outgoing (fst (run (init 5 10 2000000) [Request 0 0 (Some 0) false; Request 1 0 (Some 1) true])) = Some [(([6], Some 0), 0); (([7], Some 0), 1)] /\
  snd (run (init 5 10 2000000) [Request 0 0 (Some 0) false; Request 1 0 (Some 1) true]) = [[Token 0 [6]; Send 0 0 1 10 [6] None]; [Token 1 [7]; Send 0 1 1 11 [7] (Some 0)]].
Proof. vm_compute. split; reflexivity. Qed.
