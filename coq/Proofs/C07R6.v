(* C07 — round 6: history-level statements.  (1) Over every datagram history of the stack model, an end signal handed to the
   observer means the observation's token is released at the end of the history, and every later confirmable notification
   on it is answered with a Reset: the hypothesis [k_token k = false] of later_notifications_rejected becomes derivable. *)
From Verif Require Import Lib.Py Lib.Tactics Gen.protocol_is_recent Model.C07 Model.C07Stack Proofs.C07Serial Proofs.C07 Proofs.C07Stack Proofs.C07Audit.
Open Scope Z_scope.

Definition sig (k : Z) (outs : list out) : Prop := end_signals (view k outs) <> [].

Lemma sig_app k a b : sig k (a ++ b) -> sig k a \/ sig k b.
Proof.
  unfold sig. rewrite view_app, end_signals_app. destruct (end_signals (view k a)); [right; exact H|left; discriminate].
Qed.
Lemma sig_nil k : ~ sig k []. Proof. unfold sig. cbn. congruence. Qed.

(* a transition of the requester: an end signal for k ends the pipe's interest; an ended interest stays ended *)
Definition tr (k : Z) (s s' : sys) (outs : list out) : Prop :=
  (sig k outs -> s_ended s' = true) /\ (s_ended s = true -> s_ended s' = true).

Lemma tr_id k s : tr k s s []. Proof. split; [intros H; destruct (sig_nil k H)|auto]. Qed.
Lemma tr_comp k s s1 s2 o1 o2 : tr k s s1 o1 -> tr k s1 s2 o2 -> tr k s s2 (o1 ++ o2).
Proof. intros [A1 A2] [B1 B2]. split; auto. intros H. apply sig_app in H as [H|H]; auto. Qed.

Lemma tr_add_event k s now ev : tr k s (fst (add_event s now ev)) (snd (add_event s now ev)).
Proof.
  split; [apply add_event_end_signal_ends|]. intros E. rewrite add_event_ended by exact E. exact E.
Qed.
Lemma tr_drain k s : tr k s (fst (drain s)) (snd (drain s)).
Proof.
  pose proof (drain_view k s) as (V & _ & E & _). split; [|rewrite E; auto]. unfold sig. rewrite V. cbn. congruence.
Qed.

Lemma step_ended_mono s o : s_ended s = true -> s_ended (fst (step s o)) = true.
Proof.
  intros E. destruct o as [now ev| | |k'| |]; cbn [step].
  - rewrite add_event_ended by exact E. exact E.
  - destruct (negb (s_has_obs s)); [|destruct (cancelled (s_obs s))]; cbn; exact E.
  - destruct (s_resp s).
    + match goal with |- context [drain ?S] => pose proof (drain_view 0 S) as (_ & _ & D & _); destruct (drain S) as [s2 o2] end. cbn [fst] in *. rewrite D. reflexivity.
    + pose proof (drain_view 0 s) as (_ & _ & D & _). rewrite D. exact E.
    + pose proof (drain_view 0 s) as (_ & _ & D & _). rewrite D. exact E.
  - destruct (negb (s_has_obs s)); [exact E|].
    destruct (register_callback _ _ _) as [[o1 it1] outs1]. destruct (register_errback _ _ _) as [[o2 it2] outs2]. cbn. exact E.
  - destruct (negb (s_has_obs s) || it_started (s_iter s)).
    + pose proof (drain_view 0 s) as (_ & _ & D & _). rewrite D. exact E.
    + destruct (register_callback _ _ _) as [[o1 it1] outs1]. destruct (register_errback _ _ _) as [[o2 it2] outs2].
      match goal with |- context [drain ?S] => pose proof (drain_view 0 S) as (_ & _ & D & _); destruct (drain S) as [s3 o3] end. cbn [fst] in *. rewrite D. cbn. exact E.
  - pose proof (drain_view 0 s) as (_ & _ & D & _). rewrite D. exact E.
Qed.
Lemma tr_step k s o : (forall k', o = OpRegister k' -> k' <> k) -> tr k s (fst (step s o)) (snd (step s o)).
Proof. intros H. split; [apply step_end_signal_ends; exact H|apply step_ended_mono]. Qed.

(* the same on the stack *)
Definition str (k : Z) (st st' : stack) (outs : list out) : Prop := tr k (k_sys st) (k_sys st') outs.

Lemma str_drain_stack k st : str k st (fst (drain_stack st)) (snd (drain_stack st)).
Proof. unfold str, drain_stack. pose proof (tr_drain k (k_sys st)) as T. destruct (drain (k_sys st)) as [s' o]. exact T. Qed.

Lemma str_dispatch_error k st e : str k st (fst (dispatch_error st e)) (snd (dispatch_error st e)).
Proof.
  unfold str, dispatch_error. destruct (k_token st).
  - pose proof (tr_add_event k (k_sys st) 0 (EvExn e)) as T. destruct (add_event _ _ _) as [s' o]. exact T.
  - apply tr_id.
Qed.
Lemma str_timeouts k st now : str k st (fst (timeouts st now)) (snd (timeouts st now)).
Proof.
  unfold timeouts. destruct (k_exchange st) as [d|]; [|apply tr_id]. destruct (d <=? now); [apply str_dispatch_error|apply tr_id].
Qed.
Lemma str_pass_time k st now : str k st (fst (pass_time st now)) (snd (pass_time st now)).
Proof.
  unfold pass_time. destruct (k_now st <? now); [|apply tr_id].
  pose proof (str_drain_stack k st) as T1. destruct (drain_stack st) as [k1 o1].
  pose proof (str_timeouts k k1 now) as T2. destruct (timeouts k1 now) as [k2 o2].
  pose proof (str_drain_stack k k2) as T3. destruct (drain_stack k2) as [k3 o3]. cbn [fst snd] in *.
  unfold str in *. cbn [k_sys]. eapply tr_comp; [exact T1|]. eapply tr_comp; [exact T2|exact T3].
Qed.
Lemma str_process_response k st now id observe tok :
  str k st (fst (fst (process_response st now id observe tok))) (snd (fst (process_response st now id observe tok))).
Proof.
  unfold str, process_response. destruct (negb (tok && k_token st)); [apply tr_id|].
  match goal with |- context [add_event ?S ?N ?E] => pose proof (tr_add_event k S N E) as T; destruct (add_event S N E) as [s' o] end. exact T.
Qed.
Lemma str_empty_step k st now mt mid : str k st (fst (empty_step st now mt mid)) (apps (snd (empty_step st now mt mid))).
Proof.
  unfold str, empty_step. destruct mt, mid, (k_exchange st); cbn [fst snd apps flat_map]; try apply tr_id.
  match goal with |- context [add_event ?S ?N ?E] => pose proof (tr_add_event k S N E) as T; destruct (add_event S N E) as [s' o] end.
  cbn [fst snd]. rewrite apps_map_App. exact T.
Qed.

Definition not_rereg (k : Z) (o : sop) : Prop := forall t k', o = SApp t (OpRegister k') -> k' <> k.

Lemma apps_wire l t : apps (map App l ++ [Wire t]) = l.
Proof. rewrite apps_app, apps_map_App. cbn. apply app_nil_r. Qed.

Lemma str_sstep k st o : not_rereg k o -> str k st (fst (sstep st o)) (apps (snd (sstep st o))).
Proof.
  intros Hn. unfold sstep.
  set (now := match o with SResponse n _ _ _ _ _ => n | SEmpty n _ _ => n | SNetError n => n | SApp n _ => n end).
  pose proof (str_pass_time k st now) as T0. destruct (pass_time st now) as [k0 outs0]. cbn [fst snd] in T0.
  assert (G : forall k' outs, str k k0 k' (apps outs) -> str k st k' (apps (map App outs0 ++ outs))).
  { intros k' outs T. rewrite apps_app, apps_map_App. unfold str in *. eapply tr_comp; eauto. }
  destruct o as [n mt id observe tok mid | n mt mid | n | n a].
  - assert (R : forall mt', mt' <> RST ->
      let k1 := match mt' with ACK => if mid then sync k0 (k_sys k0) (k_token k0) None else k0 | _ => k0 end in
      let X := (let '(k2, outs, matched) := process_response k1 now id observe tok in
                if escaped outs then (k2, map App outs)
                else (k2, map App outs ++ match mt' with CON => [Wire (if matched then ACK else RST)] | _ => [] end)) in
      str k k0 (fst X) (apps (snd X))).
    { intros mt' _. cbv zeta.
      set (k1 := match mt' with ACK => if mid then sync k0 (k_sys k0) (k_token k0) None else k0 | _ => k0 end).
      assert (S1 : k_sys k1 = k_sys k0) by (unfold k1; destruct mt'; auto; destruct mid; auto).
      pose proof (str_process_response k k1 now id observe tok) as T. unfold str in *. rewrite S1 in T.
      destruct (process_response k1 now id observe tok) as [[k2 outs] matched]. cbn [fst snd] in *.
      destruct (escaped outs); cbn [fst snd]; [rewrite apps_map_App; exact T|].
      destruct mt'; rewrite ?apps_wire, ?app_nil_r, ?apps_map_App; exact T. }
    match goal with |- str _ _ (fst (let '(k', outs) := ?X in _)) _ => assert (TX : str k k0 (fst X) (apps (snd X))) end.
    { destruct mt; [exact (R CON ltac:(discriminate))|exact (R NON ltac:(discriminate))|exact (R ACK ltac:(discriminate))|apply str_empty_step]. }
    match goal with |- str _ _ (fst (let '(k', outs) := ?X in _)) _ => destruct X as [k' outs'] end. cbn [fst snd] in *. apply G. exact TX.
  - pose proof (str_empty_step k k0 now mt mid) as TX. destruct (empty_step k0 now mt mid) as [k' outs']. cbn [fst snd] in *. apply G. exact TX.
  - pose proof (str_dispatch_error k k0 NetworkError) as TX. destruct (dispatch_error k0 NetworkError) as [k1 outs]. cbn [fst snd] in *.
    apply G. rewrite apps_map_App. exact TX.
  - assert (Ha : forall k', a = OpRegister k' -> k' <> k) by (intros k' ->; apply (Hn n k'); reflexivity).
    pose proof (tr_step k (k_sys k0) a Ha) as TX. destruct (step (k_sys k0) a) as [s' outs]. cbn [fst snd] in *.
    apply G. rewrite apps_map_App. exact TX.
Qed.

Lemma srun_snd st ops : snd (srun st ops) = k_token (srun_state st ops).
Proof.
  revert st. induction ops as [|o r IH]; intros st; [reflexivity|]. cbn [srun srun_state].
  destruct (sstep st o) as [st' outs]. specialize (IH st'). destruct (srun st' r). cbn [fst snd] in *. exact IH.
Qed.
Lemma srun_fst_cons st o r : fst (srun st (o :: r)) = snd (sstep st o) :: fst (srun (fst (sstep st o)) r).
Proof. cbn [srun]. destruct (sstep st o) as [st' outs]. cbn [fst snd]. destruct (srun st' r). reflexivity. Qed.

Definition history_apps (l : list (list sout)) : list out := apps (concat l).

Lemma str_srun k : forall ops st, (forall o, In o ops -> not_rereg k o) ->
  str k st (srun_state st ops) (history_apps (fst (srun st ops))).
Proof.
  induction ops as [|o r IH]; intros st Hn; [apply tr_id|].
  rewrite srun_fst_cons. cbn [srun_state]. unfold history_apps. cbn [concat]. rewrite apps_app.
  unfold str. eapply tr_comp; [apply str_sstep; apply Hn; left; reflexivity|].
  apply IH. intros o' Hin. apply Hn. right. exact Hin.
Qed.

Lemma WF_srun_state : forall ops st, WF st -> WF (srun_state st ops).
Proof. induction ops as [|o r IH]; intros st W; [exact W|]. cbn. apply IH. apply WF_sstep. exact W. Qed.

(* from any well-formed stack state: an end signal anywhere in the history means the token is gone at its end *)
Lemma end_signal_releases_token_from k st ops : WF st -> (forall o, In o ops -> not_rereg k o) ->
  sig k (history_apps (fst (srun st ops))) -> snd (srun st ops) = false.
Proof.
  intros W Hn S. rewrite srun_snd. destruct (str_srun k ops st Hn) as [T _]. specialize (T S).
  pose proof (WF_srun_state ops st W) as W'. unfold WF in W'. destruct (k_token _); [rewrite W' in T by reflexivity; discriminate|reflexivity].
Qed.

Theorem stack_end_signal_releases_token : forall k has_obs reset con t0 ops,
  (forall o, In o ops -> not_rereg k o) ->
  sig k (history_apps (fst (srun (stack0 has_obs reset con t0) (SApp t0 (OpRegister k) :: ops)))) ->
  snd (srun (stack0 has_obs reset con t0) (SApp t0 (OpRegister k) :: ops)) = false.
Proof.
  intros k has_obs reset con t0 ops Hn S.
  rewrite srun_fst_cons in S. unfold history_apps in S. cbn [concat] in S. rewrite apps_app in S.
  assert (E1 : ~ sig k (apps (snd (sstep (stack0 has_obs reset con t0) (SApp t0 (OpRegister k)))))).
  { unfold sstep, pass_time. cbn [stack0 k_now]. replace (t0 <? t0) with false by lia.
    destruct has_obs; cbn; unfold sig; cbn; rewrite ?Z.eqb_refl; cbn; congruence. }
  apply sig_app in S as [S|S]; [contradiction|].
  cbn [srun]. destruct (sstep (stack0 has_obs reset con t0) (SApp t0 (OpRegister k))) as [st1 o1] eqn:E.
  pose proof (WF_sstep (stack0 has_obs reset con t0) (SApp t0 (OpRegister k)) (WF_stack0 _ _ _ _)) as W1. rewrite E in W1. cbn [fst snd] in *.
  pose proof (end_signal_releases_token_from k st1 ops W1 Hn S) as R. destruct (srun st1 ops). exact R.
Qed.

(* ... and so the next confirmable notification on that token is answered with a Reset, a non-confirmable one is ignored,
   and nobody is told — the hypothesis of later_notifications_rejected is discharged by the history *)
Theorem stack_notification_after_end_rejected : forall k has_obs reset con t0 ops now mt id observe tok mid j,
  (forall o, In o ops -> not_rereg k o) -> (mt = CON \/ mt = NON) ->
  let hist := SApp t0 (OpRegister k) :: ops in
  sig k (history_apps (fst (srun (stack0 has_obs reset con t0) hist))) ->
  let r := sstep (srun_state (stack0 has_obs reset con t0) hist) (SResponse now mt id observe tok mid) in
  k_token (fst r) = false /\ wires (snd r) = (match mt with CON => [RST] | _ => [] end) /\ view j (apps (snd r)) = [].
Proof.
  intros k has_obs reset con t0 ops now mt id observe tok mid j Hn Hmt hist S. cbv zeta.
  apply late_notification_rejected; [|exact Hmt]. rewrite <- srun_snd. apply stack_end_signal_releases_token; assumption.
Qed.
