(* C17 — listing, round 2: the listing is the registration-order enumeration of the tree, every registered non-hidden resource
   exactly once; every routable non-hidden resource is listed under the href of its request path; every listed entry is routable
   (to the resource it was generated from) when no registration shadows a sub-site prefix. *)
From Verif Require Import Lib.Py Lib.Tactics Model.C17Base Gen.resource_site Model.C17 Proofs.C17 Proofs.C17Reg Proofs.C17Wkc.
Open Scope Z_scope.
Open Scope list_scope.

(* ------------------------------------------------------------------ the enumeration *)
(* every registered plain resource with its registration chain: the keys of the sub-sites it sits in, then its own key;
   own resources first, then sub-site after sub-site, each in dict (= registration) order *)
Fixpoint entries (n : node) : list (list (list string) * res) :=
  match n with
  | NOpaque _ => []
  | NSite rs ss =>
      map (fun pr : list string * res => ([fst pr], snd pr)) rs ++
      (fix go (l : dict node) : list (list (list string) * res) :=
         match l with
         | [] => []
         | (p, c) :: tl => map (fun e : list (list string) * res => (p :: fst e, snd e)) (entries c) ++ go tl
         end) ss
  end.
Definition sub_entries (ss : dict node) : list (list (list string) * res) :=
  flat_map (fun kc : list string * node => map (fun e : list (list string) * res => (fst kc :: fst e, snd e)) (entries (snd kc))) ss.
Lemma entries_site : forall rs ss, entries (NSite rs ss) = map (fun pr : list string * res => ([fst pr], snd pr)) rs ++ sub_entries ss.
Proof.
  intros rs ss. cbn [entries]. f_equal. unfold sub_entries.
  induction ss as [|[p c] ss IH]; [reflexivity|]. cbn [flat_map fst snd]. rewrite <- IH. reflexivity.
Qed.

(* the href of a chain: the hrefs of its keys, concatenated *)
Definition chain_href (chain : list (list string)) : string :=
  fold_right (fun p acc => (href_of_path p ++ acc)%string) ""%string chain.
Definition entry_link (e : list (list string) * res) : option link :=
  match get_link_description (snd e) with Some d => Some (chain_href (fst e), d) | None => None end.
Fixpoint filter_map {A B} (f : A -> option B) (l : list A) : list B :=
  match l with [] => [] | x :: r => match f x with Some y => y :: filter_map f r | None => filter_map f r end end.
Lemma filter_map_app : forall A B (f : A -> option B) l1 l2, filter_map f (l1 ++ l2) = filter_map f l1 ++ filter_map f l2.
Proof. intros A B f l1 l2. induction l1 as [|x l1 IH]; [reflexivity|]. simpl. destruct (f x); simpl; rewrite IH; reflexivity. Qed.
Lemma filter_map_In : forall A B (f : A -> option B) l y, In y (filter_map f l) <-> exists x, In x l /\ f x = Some y.
Proof.
  intros A B f l y. induction l as [|x l IH]; simpl.
  - split; [intros [] | intros [x [[] _]]].
  - destruct (f x) as [y0|] eqn:E; simpl; rewrite IH; split.
    + intros [H | [x' [H1 H2]]]; [subst; exists x; auto | exists x'; auto].
    + intros [x' [[H1 | H1] H2]]; [subst; left; congruence | right; exists x'; auto].
    + intros [x' [H1 H2]]. exists x'; auto.
    + intros [x' [[H1 | H1] H2]]; [subst; congruence | exists x'; auto].
Qed.

Lemma resource_links_entries : forall rs,
  resource_links rs = filter_map entry_link (map (fun pr : list string * res => ([fst pr], snd pr)) rs).
Proof.
  induction rs as [|[p r] rs IH]; [reflexivity|]. cbn [resource_links map filter_map fst snd]. unfold entry_link at 1. cbn [fst snd].
  destruct (get_link_description r); [|exact IH]. unfold chain_href. cbn [fold_right]. rewrite append_nil_r, IH. reflexivity.
Qed.
Lemma prefix_links_entries : forall p es,
  prefix_links p (filter_map entry_link es) =
  filter_map entry_link (map (fun e : list (list string) * res => (p :: fst e, snd e)) es).
Proof.
  intros p es. induction es as [|[ch r] es IH]; [reflexivity|]. cbn [map filter_map fst snd].
  assert (E : entry_link (p :: ch, r) = option_map (fun l : link => ((href_of_path p ++ fst l)%string, snd l)) (entry_link (ch, r))).
  { unfold entry_link. cbn [fst snd]. destruct (get_link_description r); reflexivity. }
  rewrite E. destruct (entry_link (ch, r)) as [l|]; cbn [option_map]; rewrite <- IH; reflexivity.
Qed.

(* order and multiplicity: the listing IS the enumeration, hidden resources dropped, nothing else added or repeated *)
Lemma listing_is_entries : forall n ls, get_resources_as_linkheader n = Some ls -> ls = filter_map entry_link (entries n).
Proof.
  induction n as [id | rs ss IH] using node_ind'; intros ls H; [discriminate|].
  rewrite linkheader_site in H. inversion H; subst ls. clear H. rewrite entries_site, filter_map_app, <- resource_links_entries. f_equal.
  unfold sub_links, sub_entries. induction ss as [|[p c] ss IHss]; [reflexivity|].
  inversion IH as [|? ? Hc Hrest]; subst. cbn [flat_map fst snd] in *. rewrite filter_map_app, <- (IHss Hrest). f_equal.
  destruct c as [rs2 ss2 | id2].
  - destruct (get_resources_as_linkheader (NSite rs2 ss2)) as [lc|] eqn:E; [|rewrite linkheader_site in E; discriminate].
    rewrite (Hc lc eq_refl). apply prefix_links_entries.
  - reflexivity.
Qed.

(* every chain is non-empty, and — in a tree whose registries are proper dicts — no chain occurs twice:
   each registered resource is enumerated (hence listed, unless hidden) exactly once *)
Lemma entries_chain_nonempty : forall n ch r, In (ch, r) (entries n) -> ch <> [].
Proof.
  destruct n as [rs ss | id]; intros ch r H; [|destruct H].
  rewrite entries_site in H. apply in_app_or in H. destruct H as [H|H].
  - apply in_map_iff in H. destruct H as [[p r'] [E _]]. inversion E. discriminate.
  - unfold sub_entries in H. apply in_flat_map in H. destruct H as [[p c] [_ H]]. apply in_map_iff in H. destruct H as [[ch' r'] [E _]]. inversion E. discriminate.
Qed.
Lemma dict_wf_keys_nodup : forall V (d : dict V), dict_wf d = true -> NoDup (map fst d).
Proof.
  induction d as [|[k v] d IH]; simpl; intro H; [constructor|].
  apply andb_true_iff in H. destruct H as [H1 H2]. constructor; [|apply IH; exact H2].
  intro Hin. apply in_map_iff in Hin. destruct Hin as [[k' v'] [E Hin]]. simpl in E. subst k'.
  unfold dict_contains in H1. assert (exists v0, dict_get_opt d k = Some v0) as [v0 Hv].
  { clear -Hin. induction d as [|[k0 v0] d IH]; [destruct Hin|]. simpl. destruct (path_eqb k0 k) eqn:Ek; [eauto|].
    destruct Hin as [E|Hin]; [inversion E; subst; rewrite path_eqb_refl in Ek; discriminate | apply IH; exact Hin]. }
  rewrite Hv in H1. discriminate.
Qed.
Lemma NoDup_app_intro : forall A (l1 l2 : list A), NoDup l1 -> NoDup l2 -> (forall x, In x l1 -> In x l2 -> False) -> NoDup (l1 ++ l2).
Proof.
  intros A l1 l2 H1 H2 Hd. induction l1 as [|x l1 IH]; [exact H2|]. simpl. inversion H1; subst. constructor.
  - intro Hin. apply in_app_or in Hin. destruct Hin as [Hin|Hin]; [contradiction | apply (Hd x); [left; reflexivity | exact Hin]].
  - apply IH; [assumption | intros y Hy1 Hy2; apply (Hd y); [right; exact Hy1 | exact Hy2]].
Qed.
Lemma nodup_map_cons : forall (p : list string) (es : list (list (list string) * res)),
  NoDup (map fst es) -> NoDup (map (fun x : list (list string) * res => p :: fst x) es).
Proof.
  intros p es. induction es as [|[ch r] es IHe]; intro Hn; [constructor|]. simpl in *. inversion Hn as [|? ? Hni Hnd]; subst.
  constructor; [|apply IHe; assumption].
  intro Hin. apply in_map_iff in Hin. destruct Hin as [x [E Hin]]. apply Hni. apply in_map_iff. exists x. split; [injection E; auto | exact Hin].
Qed.
Lemma entries_nodup : forall n, node_wf n = true -> NoDup (map fst (entries n)).
Proof.
  induction n as [id | rs ss IH] using node_ind'; intro Hw; [constructor|].
  rewrite node_wf_site in Hw. apply andb_true_iff in Hw. destruct Hw as [Hw Hc]. apply andb_true_iff in Hw. destruct Hw as [Hr Hs].
  rewrite entries_site, map_app. apply NoDup_app_intro.
  - rewrite map_map. cbn [fst]. pose proof (dict_wf_keys_nodup _ rs Hr) as Hk.
    clear -Hk. induction rs as [|[p r] rs IHr]; [constructor|]. simpl in *. inversion Hk as [|? ? Hni Hnd]; subst. constructor; [|apply IHr; assumption].
    intro Hin. apply in_map_iff in Hin. destruct Hin as [x [E Hin]]. apply Hni. apply in_map_iff. exists x. split; [injection E; auto | exact Hin].
  - pose proof (dict_wf_keys_nodup _ ss Hs) as Hk. unfold sub_entries.
    induction ss as [|[p c] ss IHss]; [constructor|]. cbn [flat_map fst snd map]. rewrite map_app.
    inversion IH as [|? ? Hcn Hrest]; subst. cbn [children_wf forallb snd] in Hc. apply andb_true_iff in Hc. destruct Hc as [Hcw Hcs].
    simpl in Hs. apply andb_true_iff in Hs. destruct Hs as [_ Hs]. simpl in Hk. inversion Hk as [|? ? Hnotin Hk']; subst.
    apply NoDup_app_intro.
    + rewrite map_map. cbn [fst]. apply nodup_map_cons. apply (Hcn Hcw).
    + apply (IHss Hrest Hs Hcs Hk').
    + intros ch H1 H2. rewrite map_map in H1. cbn [fst] in H1. apply in_map_iff in H1. destruct H1 as [x1 [E1 _]]. subst ch.
      apply in_map_iff in H2. destruct H2 as [[ch2 r2] [E2 H2]]. cbn [fst] in E2. subst ch2. apply in_flat_map in H2. destruct H2 as [[p2 c2] [Hin2 H2]].
      apply in_map_iff in H2. destruct H2 as [x3 [E3 _]]. cbn [fst snd] in E3. injection E3 as Ep _. subst p2.
      apply Hnotin. apply in_map_iff. exists (p, c2). auto.
  - intros ch H1 H2. rewrite map_map in H1. cbn [fst] in H1. apply in_map_iff in H1. destruct H1 as [x1 [E1 _]]. subst ch.
    apply in_map_iff in H2. destruct H2 as [[ch2 r2] [E2 H2]]. cbn [fst] in E2. subst ch2. unfold sub_entries in H2. apply in_flat_map in H2. destruct H2 as [[p2 c2] [_ H2]].
    apply in_map_iff in H2. destruct H2 as [[ch3 r3] [E3 H3]]. cbn [fst snd] in E3. injection E3 as Ep Ec _. subst ch3.
    apply (entries_chain_nonempty _ _ _ H3). reflexivity.
Qed.

(* ------------------------------------------------------------------ routable => listed *)
Lemma href_norm_rest : forall pre rest, pre <> [] -> rest <> [] ->
  (href_of_path pre ++ href_of_path (norm_rest rest))%string = href_of_path (pre ++ rest).
Proof.
  intros pre rest Hp Hr. unfold norm_rest. destruct (path_eqb rest [""%string]) eqn:E.
  - apply path_eqb_eq in E. subst rest. apply href_of_path_root. exact Hp.
  - apply href_of_path_app; assumption.
Qed.
(* a resource that a request for path p is routed to, and that does not hide itself, is listed — under the href of p *)
Lemma routable_listed : forall n p t, Route n p t -> forall r d, t = TgtRes r -> get_link_description r = Some d ->
  Listed n (href_of_path p) d.
Proof.
  intros n p t H. induction H as [id p | rs ss p r0 Hr | rs ss p pre rest c t Hr Hp Hpre Hrest Hc Hmax Hsub IH]; intros r d Et Hd.
  - discriminate.
  - inversion Et; subst. apply (Listed_res rs ss p r d (dict_get_opt_In _ _ _ _ Hr) Hd).
  - subst p. rewrite <- (href_norm_rest pre rest Hpre Hrest).
    apply (Listed_sub rs ss pre c _ d (dict_get_opt_In _ _ _ _ Hc)). apply (IH r d Et Hd).
Qed.
Lemma routable_in_listing : forall n p r d ls, Route n p (TgtRes r) -> get_link_description r = Some d ->
  get_resources_as_linkheader n = Some ls -> In (href_of_path p, d) ls.
Proof.
  intros n p r d ls HR Hd Hls. apply (linkheader_exact n ls Hls). apply (routable_listed n p _ HR r d eq_refl Hd).
Qed.

(* ------------------------------------------------------------------ listed => routable, when nothing shadows a sub-site prefix *)
Definition proper_prefix (k key : list string) : bool :=
  Nat.ltb (List.length k) (List.length key) && path_eqb (firstn (List.length k) key) k.
(* per site: sub-site keys are non-empty (O2) and no other registration of the same site extends one; a nested site has no
   resource at [""] (a trailing slash is normalised to the nested site's root, so that resource could never be reached) *)
Definition site_sep (nested : bool) (rs : dict res) (ss : dict node) : bool :=
  (negb nested || negb (dict_contains [""%string] rs)) &&
  forallb (fun kc : list string * node =>
             truthy (fst kc) && forallb (fun key => negb (proper_prefix (fst kc) key)) (dict_keys rs ++ dict_keys ss)) ss.
Fixpoint node_sep (nested : bool) (n : node) : bool :=
  match n with
  | NOpaque _ => true
  | NSite rs ss => site_sep nested rs ss &&
                   (fix go (l : dict node) : bool := match l with [] => true | (_, c) :: tl => node_sep true c && go tl end) ss
  end.
Lemma node_sep_site : forall nested rs ss,
  node_sep nested (NSite rs ss) = site_sep nested rs ss && forallb (fun kc : list string * node => node_sep true (snd kc)) ss.
Proof.
  intros nested rs ss. cbn [node_sep]. f_equal. induction ss as [|[k c] ss IH]; [reflexivity|]. cbn [forallb snd]. rewrite <- IH. reflexivity.
Qed.

(* the request path of a chain: keys concatenated; a nested site's root resource is requested with a trailing slash *)
Fixpoint chain_path (chain : list (list string)) : list string :=
  match chain with
  | [] => []
  | [q] => q
  | p :: rest => p ++ match chain_path rest with [] => [""%string] | x => x end
  end.

Lemma chain_path_cons : forall p q ch,
  chain_path (p :: q :: ch) = p ++ match chain_path (q :: ch) with [] => [""%string] | x => x end.
Proof. reflexivity. Qed.
Lemma proper_prefix_app : forall k rest, rest <> [] -> proper_prefix k (k ++ rest) = true.
Proof.
  intros k rest H. unfold proper_prefix. rewrite app_length, firstn_app, firstn_all, Nat.sub_diag. simpl. rewrite app_nil_r, path_eqb_refl.
  destruct rest; [congruence|]. simpl. rewrite andb_true_r. apply Nat.ltb_lt. lia.
Qed.
Lemma wf_In_get : forall V (d : dict V) k v, dict_wf d = true -> In (k, v) d -> dict_get_opt d k = Some v.
Proof.
  induction d as [|[k0 v0] d IH]; intros k v Hw Hin; [destruct Hin|]. simpl in *. apply andb_true_iff in Hw. destruct Hw as [H1 H2].
  destruct Hin as [E|Hin].
  - inversion E; subst. rewrite path_eqb_refl. reflexivity.
  - destruct (path_eqb k0 k) eqn:Ek; [|apply IH; assumption].
    apply path_eqb_eq in Ek. subst k0. unfold dict_contains in H1. rewrite (IH k v H2 Hin) in H1. discriminate.
Qed.
Lemma get_In_keys : forall V (d : dict V) k v, dict_get_opt d k = Some v -> In k (dict_keys d).
Proof. intros V d k v H. apply dict_get_opt_In in H. unfold dict_keys. apply in_map_iff. exists (k, v). auto. Qed.

Lemma entry_routable : forall n nested ch r, node_wf n = true -> node_sep nested n = true -> In (ch, r) (entries n) ->
  Route n (chain_path ch) (TgtRes r) /\ chain_href ch = href_of_path (chain_path ch) /\
  (nested = true -> chain_path ch <> [""%string]).
Proof.
  induction n as [id | rs ss IH] using node_ind'; intros nested ch r Hw Hsep Hin; [destruct Hin|].
  rewrite node_wf_site in Hw. apply andb_true_iff in Hw. destruct Hw as [Hw Hcw]. apply andb_true_iff in Hw. destruct Hw as [Hwr Hws].
  rewrite node_sep_site in Hsep. apply andb_true_iff in Hsep. destruct Hsep as [Hsite Hchildren].
  unfold site_sep in Hsite. apply andb_true_iff in Hsite. destruct Hsite as [Hroot Hkeys].
  rewrite entries_site in Hin. apply in_app_or in Hin. destruct Hin as [Hin|Hin].
  - apply in_map_iff in Hin. destruct Hin as [[q r'] [E Hin]]. cbn [fst snd] in E. inversion E; subst. cbn [chain_path].
    pose proof (wf_In_get _ rs q r Hwr Hin) as Hg. split; [apply Route_exact; exact Hg|]. split.
    + unfold chain_href. cbn [fold_right]. apply append_nil_r.
    + intros -> ->. cbn [negb orb] in Hroot. unfold dict_contains in Hroot. rewrite Hg in Hroot. discriminate.
  - unfold sub_entries in Hin. apply in_flat_map in Hin. destruct Hin as [[p c] [Hpc Hin]]. cbn [fst snd] in Hin.
    apply in_map_iff in Hin. destruct Hin as [[ch' r'] [E Hin']]. cbn [fst snd] in E. inversion E; subst.
    pose proof (proj1 (Forall_forall _ _) IH _ Hpc) as IHc. cbn [snd] in IHc.
    rewrite forallb_forall in Hchildren. pose proof (Hchildren _ Hpc) as Hcsep. cbn [snd] in Hcsep.
    pose proof (children_wf_get ss p c Hcw (wf_In_get _ ss p c Hws Hpc)) as Hcwf.
    destruct (IHc true ch' r Hcwf Hcsep Hin') as [HR [Hh Hne]].
    rewrite forallb_forall in Hkeys. pose proof (Hkeys _ Hpc) as Hk. cbn [fst] in Hk. apply andb_true_iff in Hk. destruct Hk as [Hpne Hext].
    rewrite forallb_forall in Hext.
    assert (Hp : p <> []) by (destruct p; [discriminate | discriminate]).
    pose proof (entries_chain_nonempty _ _ _ Hin') as Hch'.
    remember (chain_path ch') as R eqn:ER.
    assert (Hex : exists rest, chain_path (p :: ch') = p ++ rest /\ rest <> [] /\ norm_rest rest = R).
    { destruct ch' as [|q ch'']; [congruence|]. rewrite chain_path_cons, <- ER. destruct R as [|x R'].
      - exists [""%string]. split; [reflexivity|]. split; [discriminate | reflexivity].
      - exists (x :: R'). split; [reflexivity|]. split; [discriminate|]. unfold norm_rest.
        destruct (path_eqb (x :: R') [""%string]) eqn:Ex; [|reflexivity]. apply path_eqb_eq in Ex. exfalso. apply (Hne eq_refl). exact Ex. }
    destruct Hex as [rest [Hcp [Hrest Hnorm]]].
    rewrite Hcp. split; [|split].
    + apply (Route_sub rs ss (p ++ rest) p rest c (TgtRes r)); try assumption; try reflexivity.
      * destruct (dict_get_opt rs (p ++ rest)) as [r0|] eqn:Eg; [|reflexivity]. exfalso.
        pose proof (Hext (p ++ rest) (in_or_app _ _ _ (or_introl (get_In_keys _ _ _ _ Eg)))) as Hx.
        rewrite (proper_prefix_app p rest Hrest) in Hx. discriminate.
      * apply (wf_In_get _ ss p c Hws Hpc).
      * intros pre' rest' Hsplit Hr' Hlen. destruct (dict_get_opt ss pre') as [c0|] eqn:Eg; [|reflexivity]. exfalso.
        pose proof (Hext pre' (in_or_app _ _ _ (or_intror (get_In_keys _ _ _ _ Eg)))) as Hx.
        assert (Epre : pre' = p ++ skipn (List.length p) pre').
        { destruct (app_split_firstn _ _ _ _ Hsplit) as [E1 _]. destruct (app_split_firstn _ _ _ _ (eq_refl (p ++ rest))) as [E2 _].
          rewrite <- (firstn_skipn (List.length p) pre') at 1. f_equal.
          rewrite E1 at 1. rewrite firstn_firstn. replace (Nat.min (List.length p) (List.length pre')) with (List.length p) by lia. symmetry. exact E2. }
        rewrite Epre in Hx. rewrite proper_prefix_app in Hx; [discriminate|].
        intro E0. apply (f_equal (@List.length string)) in E0. rewrite skipn_length in E0. simpl in E0. lia.
      * rewrite Hnorm. exact HR.
    + change (chain_href (p :: ch')) with (href_of_path p ++ chain_href ch')%string. rewrite Hh.
      rewrite <- (href_norm_rest p rest Hp Hrest), Hnorm. reflexivity.
    + intros _ E0. apply (f_equal (@List.length string)) in E0. rewrite app_length in E0. simpl in E0.
      destruct p; [congruence|]. destruct rest; [congruence|]. simpl in E0. lia.
Qed.

(* every listed link comes from an entry; with separation, requesting its href's path reaches the resource it was generated from *)
Lemma listed_routable : forall n ls h d, node_wf n = true -> node_sep false n = true ->
  get_resources_as_linkheader n = Some ls -> In (h, d) ls ->
  exists ch r, In (ch, r) (entries n) /\ get_link_description r = Some d /\ h = href_of_path (chain_path ch) /\
               Route n (chain_path ch) (TgtRes r).
Proof.
  intros n ls h d Hw Hsep Hls Hin. rewrite (listing_is_entries n ls Hls) in Hin.
  apply filter_map_In in Hin. destruct Hin as [[ch r] [He Hl]]. unfold entry_link in Hl. cbn [fst snd] in Hl.
  destruct (get_link_description r) as [d0|] eqn:Ed; [|discriminate]. inversion Hl; subst.
  destruct (entry_routable n false ch r Hw Hsep He) as [HR [Hh _]].
  exists ch, r. split; [exact He|]. split; [exact Ed|]. split; [exact Hh | exact HR].
Qed.

(* over every registration history: every registered resource is enumerated exactly once *)
Lemma reachable_entries_nodup : forall ops, NoDup (map fst (entries (fst (run (NSite [] []) ops)))).
Proof. intro ops. apply entries_nodup. apply run_wf. reflexivity. Qed.

(* ------------------------------------------------------------------ add at any address takes effect for the next request *)
Lemma site_at_entry : forall addr n rs ss p r, site_at addr n = Some (NSite rs ss) -> In (p, r) rs -> In (addr ++ [p], r) (entries n).
Proof.
  induction addr as [|k addr IH]; intros n rs ss p r H Hin.
  - destruct n as [rs0 ss0 | id]; [|discriminate]. inversion H; subst. rewrite entries_site. apply in_or_app. left.
    apply in_map_iff. exists (p, r). auto.
  - destruct n as [rs0 ss0 | id]; [|discriminate]. cbn [site_at] in H. destruct (dict_get_opt ss0 k) as [c|] eqn:Eg; [|discriminate].
    rewrite entries_site. apply in_or_app. right. unfold sub_entries. apply in_flat_map. exists (k, c). split; [apply dict_get_opt_In; exact Eg|].
    cbn [fst snd]. apply in_map_iff. exists (addr ++ [p], r). split; [reflexivity | apply (IH c rs ss p r H Hin)].
Qed.
Lemma request_after_add_nested : forall root addr p id d root' pipe q,
  step root (OAdd addr p (TRes (RHandler id d))) = (root', RDone) -> node_wf root' = true -> node_sep false root' = true ->
  let P := chain_path (addr ++ [p]) in
  request pipe root' (new_request P None) q = RHandled id [] (Some P) (Ok (uri_segments P)).
Proof.
  intros root addr p id d root' pipe q H Hw Hsep P. cbn [step] in H.
  destruct (update_at addr (fun s => add_resource s p (thing_child (TRes (RHandler id d)))) root) as [[n'|e]|] eqn:E; cbn [apply_update] in H; inversion H; subst.
  destruct (site_at_update_at _ _ _ _ E) as [rs [ss [s' [H1 [H2 H3]]]]]. cbn [thing_child] in H2. rewrite add_resource_res in H2. inversion H2; subst.
  cbn [resources subsites] in H3.
  assert (Hin : In (p, RHandler id d) (dict_set rs p (RHandler id d))).
  { apply dict_get_opt_In. rewrite dict_get_set, path_eqb_refl. reflexivity. }
  pose proof (site_at_entry addr root' _ _ p _ H3 Hin) as He.
  destruct (entry_routable root' false _ _ Hw Hsep He) as [HR _].
  apply (request_routed pipe root' (new_request P None) q id d eq_refl HR).
Qed.
