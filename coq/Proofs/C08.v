(* C08 — observe server: basic lemmas about the model, and the bookkeeping invariant
   (cancellation exactly once, observer count, observers = live registrations) by refinement
   to an abstract machine over (live gids, observer set, pending cancellations, counter, callback log). *)
From Verif Require Import Lib.Py Lib.Tactics Model.C08.
Open Scope Z_scope.

Ltac fsimpl :=
  unfold log, set_now, set_seq, set_timers, set_mid, set_recent, set_exch, set_backlog, set_piggy, set_regs, set_observers,
         set_gidctr, set_version, set_mode, set_gate, set_down, set_cancelq, set_hist, set_prod in *;
  cbn [s_now s_seq s_timers s_mid s_recent s_exch s_backlog s_piggy s_regs s_observers s_gidctr s_version s_mode s_gate
       s_down s_cancelq s_hist s_prod] in *.

(* ------------------------------------------------------------------ list helpers *)
Definition memZ (x : Z) (l : list Z) : bool := existsb (Z.eqb x) l.
Definition rm (g : Z) (l : list Z) : list Z := filter (fun x => negb (x =? g)) l.

Lemma memZ_In x l : memZ x l = true <-> In x l.
Proof. unfold memZ. rewrite existsb_exists. split.
  - intros [y [H1 H2]]. apply Z.eqb_eq in H2. subst. exact H1.
  - intros H. exists x. split; [exact H | apply Z.eqb_refl]. Qed.
Lemma memZ_false x l : memZ x l = false <-> ~ In x l.
Proof. rewrite <- memZ_In. destruct (memZ x l); split; congruence. Qed.
Lemma In_rm x g l : In x (rm g l) <-> In x l /\ x <> g.
Proof. unfold rm. rewrite filter_In. split; intros [H1 H2]; split; auto; lia. Qed.
Lemma rm_notin g l : ~ In g l -> rm g l = l.
Proof. induction l as [|x l IH]; cbn; intros H; [reflexivity|].
  destruct (x =? g) eqn:E; cbn. { exfalso. apply H. left. lia. } f_equal. apply IH. tauto. Qed.
Lemma rm_app g a b : rm g (a ++ b) = rm g a ++ rm g b.
Proof. unfold rm. apply filter_app. Qed.
Lemma NoDup_rm g l : NoDup l -> NoDup (rm g l).
Proof. apply NoDup_filter. Qed.
Lemma length_rm g l : NoDup l -> In g l -> S (length (rm g l)) = length l.
Proof. induction l as [|x l IH]; cbn; intros Hn Hi; [tauto|]. inv Hn.
  change (filter (fun x0 => negb (x0 =? g)) l) with (rm g l).
  destruct (x =? g) eqn:E; cbn [negb length].
  - assert (x = g) by lia. subst. rewrite rm_notin by assumption. reflexivity.
  - f_equal. apply IH; [assumption|]. destruct Hi; [lia | assumption]. Qed.
Lemma filter_filter_comm {A} (p q : A -> bool) l : filter p (filter q l) = filter q (filter p l).
Proof. induction l as [|x l IH]; cbn; [reflexivity|].
  destruct (p x) eqn:P, (q x) eqn:Q; cbn; rewrite ?P, ?Q, IH; reflexivity. Qed.
Lemma map_gid_filter (g : Z) (l : list reg) :
  map g_gid (filter (fun x => negb (g_gid x =? g)) l) = rm g (map g_gid l).
Proof. induction l as [|x l IH]; cbn; [reflexivity|]. destruct (g_gid x =? g); cbn; rewrite IH; reflexivity. Qed.
Lemma map_gid_put (g : reg) (l : list reg) :
  map g_gid (map (fun g' => if g_gid g' =? g_gid g then g else g') l) = map g_gid l.
Proof. induction l as [|x l IH]; cbn; [reflexivity|]. rewrite IH. destruct (g_gid x =? g_gid g) eqn:E; [f_equal; lia | reflexivity]. Qed.
Lemma find_reg_In s gid g : find_reg s gid = Some g -> In g (s_regs s) /\ g_gid g = gid.
Proof. unfold find_reg. intros H. apply find_some in H as [H1 H2]. split; [exact H1 | lia]. Qed.
Lemma find_reg_gids s gid g : find_reg s gid = Some g -> In (g_gid g) (map g_gid (s_regs s)).
Proof. intros H. apply find_reg_In in H as [H1 _]. apply in_map. exact H1. Qed.
Lemma find_reg_None s gid : find_reg s gid = None -> ~ In gid (map g_gid (s_regs s)).
Proof. unfold find_reg. intros H Hin. apply in_map_iff in Hin as [g [Hg Hi]].
  eapply find_none in H; [|exact Hi]. cbn in H. lia. Qed.
Lemma find_key_In s r tok g : find_key s r tok = Some g -> In g (s_regs s) /\ g_remote g = r /\ g_token g = tok.
Proof. unfold find_key. intros H. apply find_some in H as [H1 H2]. split; [exact H1 | lia]. Qed.

(* ------------------------------------------------------------------ the abstract bookkeeping machine *)
Definition is_bk (o : output) : bool := match o with OAdd _ _ _ _ _ | OCancel _ _ => true | _ => false end.
Definition bk (h : list output) : list output := filter is_bk h.
Record astate := mka { a_gids : list Z; a_obs : list Z; a_cq : list Z; a_ctr : Z; a_bk : list output }.
Definition abs (s : state) : astate :=
  mka (map g_gid (s_regs s)) (s_observers s) (s_cancelq s) (s_gidctr s) (bk (s_hist s)).

Definition a_accept (r tok : Z) (con : bool) (a : astate) : astate :=
  mka (a_gids a ++ [a_ctr a]) (a_obs a ++ [a_ctr a]) (a_cq a) (a_ctr a + 1)
      (OAdd (a_ctr a) (Z.of_nat (length (a_obs a ++ [a_ctr a]))) r tok con :: a_bk a).
Definition a_stop (g : Z) (a : astate) : astate := mka (rm g (a_gids a)) (a_obs a) (a_cq a ++ [g]) (a_ctr a) (a_bk a).
Definition a_cancel (g : Z) (a : astate) : astate :=
  mka (a_gids a) (rm g (a_obs a)) (a_cq a) (a_ctr a) (OCancel g (Z.of_nat (length (rm g (a_obs a)))) :: a_bk a).
Definition a_unreg (g : Z) (a : astate) : astate := mka (rm g (a_gids a)) (a_obs a) (a_cq a) (a_ctr a) (a_bk a).
Definition a_end (g : Z) (a : astate) : astate := a_cancel g (a_unreg g a).
Definition a_setcq (l : list Z) (a : astate) : astate := mka (a_gids a) (a_obs a) l (a_ctr a) (a_bk a).
Definition a_flush (a : astate) : astate := a_setcq [] (fold_left (fun a g => a_cancel g a) (a_cq a) a).

(* reachability in the abstract machine; stop/end only for live registrations *)
Inductive areach (a : astate) : astate -> Prop :=
| ar_refl : areach a a
| ar_accept b r tok con : areach a b -> areach a (a_accept r tok con b)
| ar_stop b g : areach a b -> In g (a_gids b) -> areach a (a_stop g b)
| ar_end b g : areach a b -> In g (a_gids b) -> areach a (a_end g b)
| ar_flush b : areach a b -> areach a (a_flush b).
Lemma areach_trans a b c : areach a b -> areach b c -> areach a c.
Proof. intros H1 H2. induction H2; [assumption | constructor; assumption ..]. Qed.

(* ------------------------------------------------------------------ the model's functions as abstract operations *)
Lemma bk_cons_send m rt h : bk (OSend m rt :: h) = bk h. Proof. reflexivity. Qed.
Lemma bk_cons_render g v h : bk (ORender g v :: h) = bk h. Proof. reflexivity. Qed.

Lemma abs_add_timer s d k : abs (add_timer s d k) = abs s. Proof. reflexivity. Qed.
Lemma abs_cancel_timers s p : abs (cancel_timers s p) = abs s. Proof. reflexivity. Qed.
Lemma abs_send_via s m rt : abs (send_via_transport s m rt) = abs s. Proof. reflexivity. Qed.
Lemma abs_store s m : abs (store_response_for_duplicates s m) = abs s.
Proof. unfold store_response_for_duplicates. destruct (m_mtype m); reflexivity. Qed.
Lemma abs_add_exchange s m g : abs (add_exchange s m g) = abs s. Proof. reflexivity. Qed.
Lemma abs_send_initially s m g rt : abs (send_initially s m g rt) = abs s.
Proof. unfold send_initially. rewrite abs_send_via, abs_store. destruct (m_mtype m); reflexivity. Qed.
Lemma abs_piggy_remove s r t : abs (piggy_remove s r t) = abs s. Proof. reflexivity. Qed.
Lemma abs_send_message s m c g : abs (send_message s m c g) = abs s.
Proof. unfold send_message. destruct (piggy_find s (m_remote m) (m_token m)).
  - rewrite abs_send_initially. reflexivity.
  - destruct (if s_down s then NON else if c then CON else NON); try (rewrite abs_send_initially; reflexivity).
    match goal with |- context [if ?b then _ else _] => destruct b end; [reflexivity | rewrite abs_send_initially; reflexivity]. Qed.
Lemma abs_continue_backlog s r : abs (continue_backlog s r) = abs s.
Proof. unfold continue_backlog. destruct (has_exchange s r); [reflexivity|].
  destruct (find _ (s_backlog s)) as [[m g]|]; [|reflexivity]. rewrite abs_send_initially. reflexivity. Qed.
Lemma abs_purge_backlog s r : abs (purge_backlog s r) = abs s. Proof. reflexivity. Qed.
Lemma abs_emit s g code o pk pv : abs (emit s g code o pk pv) = abs s.
Proof. apply abs_send_message. Qed.
Lemma abs_put_reg s g : abs (put_reg s g) = abs s.
Proof. unfold abs, put_reg. fsimpl. rewrite map_gid_put. reflexivity. Qed.
Lemma abs_remove_reg s g : abs (remove_reg s g) = a_unreg g (abs s).
Proof. unfold abs, remove_reg, a_unreg. fsimpl. cbn. rewrite map_gid_filter. reflexivity. Qed.
Lemma abs_cancel_cb s g : abs (cancel_cb s g) = a_cancel g (abs s).
Proof. reflexivity. Qed.
Lemma abs_stop s g : abs (stop s g) = if memZ g (a_gids (abs s)) then a_stop g (abs s) else abs s.
Proof. unfold stop. destruct (find_reg s g) eqn:E.
  - apply find_reg_In in E as [H1 H2]. replace (memZ g (a_gids (abs s))) with true.
    + unfold abs, a_stop, remove_reg. fsimpl. cbn. rewrite map_gid_filter. reflexivity.
    + symmetry. apply memZ_In. change (a_gids (abs s)) with (map g_gid (s_regs s)). subst g. apply in_map. exact H1.
  - apply find_reg_None in E. apply memZ_false in E. change (a_gids (abs s)) with (map g_gid (s_regs s)). rewrite E. reflexivity. Qed.
Lemma a_cancel_unreg g h a : a_cancel g (a_unreg h a) = a_unreg h (a_cancel g a). Proof. reflexivity. Qed.
Lemma abs_flush s : abs (flush_cancels s) = a_flush (abs s).
Proof. unfold flush_cancels, a_flush.
  assert (G : forall l s, abs (fold_left cancel_cb l s) = fold_left (fun a g => a_cancel g a) l (abs s)).
  { induction l as [|g l IH]; intros s0; cbn [fold_left]; [reflexivity|]. rewrite IH, abs_cancel_cb. reflexivity. }
  unfold abs at 1. fsimpl. specialize (G (s_cancelq s) s). unfold abs in G at 1. inversion G as [[G1 G2 G3 G4 G5]].
  unfold a_setcq. cbn. rewrite <- G. reflexivity. Qed.

Lemma areach_stop s g : areach (abs s) (abs (stop s g)).
Proof. rewrite abs_stop. destruct (memZ g (a_gids (abs s))) eqn:E; [|constructor].
  apply ar_stop; [constructor | apply memZ_In; exact E]. Qed.
Lemma areach_fold_stop l s : areach (abs s) (abs (fold_left stop l s)).
Proof. revert s. induction l as [|g l IH]; intros s; cbn [fold_left]; [constructor|].
  eapply areach_trans; [apply areach_stop | apply IH]. Qed.
Lemma areach_flush s : areach (abs s) (abs (flush_cancels s)).
Proof. rewrite abs_flush. apply ar_flush. constructor. Qed.

(* ending from inside the task: remove_reg and cancel_cb, in either order, with an emit in between *)
Lemma areach_after_response cont s g res :
  In (g_gid g) (map g_gid (s_regs s)) ->
  (forall s' g', g_gid g' = g_gid g -> map g_gid (s_regs s') = map g_gid (s_regs s) -> abs s' = abs s ->
                 areach (abs s') (abs (cont s' g'))) ->
  areach (abs s) (abs (after_response cont s g res)).
Proof.
  intros Hin Hc. unfold after_response. destruct res as [code pk pv|code pk pv].
  - destruct (g_late g || negb (successful code)).
    + rewrite abs_cancel_cb, abs_remove_reg, abs_emit. apply (ar_end _ _ (g_gid g)); [constructor | exact Hin].
    + eapply areach_trans; [|apply Hc; [reflexivity | | apply abs_emit]].
      * rewrite abs_emit. constructor.
      * pose proof (abs_emit s (set_next g (g_next g + 1)) code (Some (g_next (set_next g (g_next g + 1)))) pk pv) as E.
        unfold abs in E. inversion E. reflexivity.
  - rewrite abs_remove_reg, abs_emit, abs_cancel_cb, <- a_cancel_unreg.
    apply (ar_end _ _ (g_gid g)); [constructor | exact Hin].
Qed.
Lemma areach_run_loop fuel : forall s g, In (g_gid g) (map g_gid (s_regs s)) -> areach (abs s) (abs (run_loop fuel s g)).
Proof.
  induction fuel as [|f IH]; intros s g Hin; cbn [run_loop].
  - rewrite abs_put_reg. constructor.
  - destruct (g_trig g) as [tv|]; [|rewrite abs_put_reg; constructor].
    destruct tv as [|code k].
    + match goal with |- context [if s_gate ?x then _ else _] => set (s1 := x) end.
      change (abs s) with (abs s1).
      destruct (s_gate s1).
      * rewrite abs_put_reg. constructor.
      * apply areach_after_response; [exact Hin|]. intros s' g' Hg Hr Ha. apply IH. rewrite Hg, Hr. exact Hin.
    + apply areach_after_response; [exact Hin|]. intros s' g' Hg Hr Ha. apply IH. rewrite Hg, Hr. exact Hin.
Qed.
Lemma areach_first_render_done s g res :
  In (g_gid g) (map g_gid (s_regs s)) -> areach (abs s) (abs (first_render_done s g res)).
Proof.
  intros Hin. unfold first_render_done. destruct res as [code pk pv|code pk pv].
  - destruct (negb (successful code)).
    + rewrite abs_cancel_cb, abs_remove_reg, abs_emit. apply (ar_end _ _ (g_gid g)); [constructor | exact Hin].
    + eapply areach_trans; [|apply areach_run_loop].
      * rewrite abs_emit. constructor.
      * pose proof (abs_emit s (set_next g 0) code (Some 0) pk pv) as E. unfold abs in E. inversion E as [[E1 E2 E3 E4 E5]].
        cbn [g_gid set_next]. rewrite E1. exact Hin.
  - rewrite abs_remove_reg, abs_emit, abs_cancel_cb, <- a_cancel_unreg.
    apply (ar_end _ _ (g_gid g)); [constructor | exact Hin].
Qed.
Lemma areach_accept s r tok con : areach (abs s) (abs (accept s r tok con)).
Proof.
  unfold accept.
  set (g := mkreg r tok (s_gidctr s) con PWait (-1) None false).
  match goal with |- context [if s_gate ?s1 then _ else _] => set (s2 := s1) end.
  assert (E : abs s2 = a_accept r tok con (abs s)).
  { subst s2. unfold abs, a_accept. fsimpl. cbn. rewrite map_app. reflexivity. }
  assert (Hin : In (g_gid g) (map g_gid (s_regs s2))).
  { subst s2. fsimpl. rewrite map_app. apply in_or_app. right. left. reflexivity. }
  destruct (s_gate s2).
  - rewrite abs_put_reg, E. apply ar_accept. constructor.
  - eapply areach_trans; [|apply areach_first_render_done; exact Hin]. rewrite E. apply ar_accept. constructor.
Qed.
Lemma abs_plain s r tok con : abs (plain s r tok con) = abs s.
Proof. unfold plain. destruct (render_outcome _ _); rewrite abs_send_message; reflexivity. Qed.
Lemma areach_process_request s r con tok obs : areach (abs s) (abs (process_request s r con tok obs)).
Proof.
  unfold process_request.
  match goal with |- context [flush_cancels ?x] => set (s1 := x) end.
  assert (H1 : areach (abs s) (abs s1)). { subst s1. destruct (find_key s r tok); [apply areach_stop | constructor]. }
  assert (H2 : areach (abs s) (abs (flush_cancels s1))). { eapply areach_trans; [exact H1 | apply areach_flush]. }
  destruct obs as [[| |]|]; try (rewrite abs_plain; exact H2).
  eapply areach_trans; [exact H2 | apply areach_accept].
Qed.
Lemma areach_remove_exchange s r mid b : areach (abs s) (abs (remove_exchange s r mid b)).
Proof. unfold remove_exchange. destruct (find _ (s_exch s)) as [x|]; [|constructor].
  rewrite abs_continue_backlog. destruct b; [|constructor]. apply (areach_stop (cancel_timers (set_exch s _) _)). Qed.
Lemma areach_stop_remote s r : areach (abs s) (abs (stop_remote s r)).
Proof. apply areach_fold_stop. Qed.
Lemma areach_dispatch_error s r : areach (abs s) (abs (dispatch_error s r)).
Proof. unfold dispatch_error. destruct (s_down s); [constructor|]. rewrite abs_purge_backlog. apply areach_stop_remote. Qed.
Lemma areach_fire s k : areach (abs s) (abs (fire s k)).
Proof. destruct k as [r tok|m t c|r mid]; cbn [fire].
  - destruct (piggy_find s r tok); [rewrite abs_send_initially|]; constructor.
  - unfold retransmit. destruct (c <? MAX_RETRANSMIT); [constructor|]. apply (areach_stop_remote (purge_backlog (set_exch s _) _)).
  - constructor. Qed.
Lemma areach_advance fuel : forall s t, areach (abs s) (abs (advance fuel s t)).
Proof. induction fuel as [|f IH]; intros s t; cbn [advance]; [constructor|].
  destruct (min_timer (s_timers s)) as [tm|]; [|constructor].
  destruct (t_due tm <=? t); [|constructor].
  eapply areach_trans; [|apply IH]. eapply areach_trans; [|apply areach_flush].
  apply (areach_fire (set_now (set_timers s _) _)). Qed.
Lemma abs_trigger s gid tv l : abs (trigger s gid tv l) = abs s.
Proof. unfold trigger. destruct (find_reg s gid); [apply abs_put_reg | reflexivity]. Qed.
Lemma abs_trigger_all order tv l : forall s, abs (fold_left (fun s gid => trigger s gid tv l) order s) = abs s.
Proof. induction order as [|x o IH]; intros s; cbn [fold_left]; [reflexivity|]. rewrite IH. apply abs_trigger. Qed.
Lemma abs_trigger_burst order burst : forall s, abs (trigger_burst order burst s) = abs s.
Proof. unfold trigger_burst. induction burst as [|tb bs IH]; intros s; cbn [fold_left]; [reflexivity|].
  rewrite IH. rewrite abs_trigger_all. reflexivity. Qed.
Lemma areach_wake l : forall s, areach (abs s) (abs (wake l s)).
Proof. unfold wake. induction l as [|x l IH]; intros s; cbn [fold_left]; [constructor|].
  eapply areach_trans; [|apply IH]. destruct (find_reg s x) eqn:E; [|constructor].
  apply areach_run_loop. eapply find_reg_gids. exact E. Qed.
Lemma areach_step s e : areach (abs s) (abs (step s e)).
Proof.
  destruct e; cbn [step].
  - destruct (s_down s); [constructor|]. destruct (in_recent s r mid) as [st|].
    + destruct con; [|constructor]. destruct st; [rewrite abs_send_initially|]; constructor.
    + eapply areach_trans; [|apply areach_flush]. eapply areach_trans; [|apply areach_process_request].
      destruct con; constructor.
  - destruct (s_down s); [constructor|]. eapply areach_trans; [apply areach_remove_exchange | apply areach_flush].
  - destruct (s_down s); [constructor|]. eapply areach_trans; [apply areach_remove_exchange | apply areach_flush].
  - eapply areach_trans; [|apply areach_flush].
    destruct burst as [|b0 bs].
    + cbn [fold_left]. constructor.
    + eapply areach_trans; [|apply areach_wake]. rewrite abs_trigger_burst. constructor.
  - destruct (find_key s r tok) as [g|] eqn:E; [|constructor].
    apply find_key_In in E as [E _]. apply (in_map g_gid) in E.
    destruct (g_phase g); [| constructor |]; (eapply areach_trans; [|apply areach_flush]).
    + apply areach_first_render_done. exact E.
    + apply areach_after_response; [exact E|]. intros s' g' Hg Hr Ha. apply areach_run_loop. rewrite Hg, Hr. exact E.
  - constructor.
  - constructor.
  - apply (areach_advance _ s).
  - eapply areach_trans; [apply areach_dispatch_error | apply areach_flush].
  - destruct (s_down s); [constructor|]. eapply areach_trans; [|apply areach_flush].
    apply (areach_fold_stop (map g_gid (s_regs s)) s).
Qed.

(* ------------------------------------------------------------------ the bookkeeping invariant of the abstract machine *)
Definition count_add (g : Z) (h : list output) : nat :=
  length (filter (fun o => match o with OAdd g' _ _ _ _ => g' =? g | _ => false end) h).
Definition count_cancel (g : Z) (h : list output) : nat :=
  length (filter (fun o => match o with OCancel g' _ => g' =? g | _ => false end) h).
(* number of observers according to the callback log: accepted minus cancelled *)
Fixpoint balance (h : list output) : Z :=
  match h with
  | [] => 0
  | OAdd _ _ _ _ _ :: h' => balance h' + 1
  | OCancel _ _ :: h' => balance h' - 1
  | _ :: h' => balance h'
  end.
(* every update_observation_count call reports the number of observers at that moment *)
Fixpoint counts_ok (h : list output) : Prop :=
  match h with
  | [] => True
  | OAdd _ n _ _ _ :: h' => n = balance h' + 1 /\ counts_ok h'
  | OCancel _ n :: h' => n = balance h' - 1 /\ counts_ok h'
  | _ :: h' => counts_ok h'
  end.
Definition in_range (g ctr : Z) : bool := (0 <=? g) && (g <? ctr).

(* [q]: the cancellations still to be delivered *)
Record InvQ (q : list Z) (a : astate) : Prop := {
  iq_nodup : NoDup (a_obs a);
  iq_range : forall x, In x (a_obs a) -> 0 <= x < a_ctr a;
  iq_gids : a_gids a = filter (fun x => negb (memZ x q)) (a_obs a);
  iq_incl : incl q (a_obs a);
  iq_qnodup : NoDup q;
  iq_adds : forall g, count_add g (a_bk a) = if in_range g (a_ctr a) then 1%nat else 0%nat;
  iq_cancels : forall g, count_cancel g (a_bk a) = if in_range g (a_ctr a) && negb (memZ g (a_obs a)) then 1%nat else 0%nat;
  iq_counts : counts_ok (a_bk a);
  iq_balance : Z.of_nat (length (a_obs a)) = balance (a_bk a);
  iq_ctr : 0 <= a_ctr a }.
Definition InvA (a : astate) : Prop := InvQ (a_cq a) a.

Lemma memZ_app x a b : memZ x (a ++ b) = memZ x a || memZ x b.
Proof. unfold memZ. apply existsb_app. Qed.
Lemma memZ_rm x g l : memZ x (rm g l) = memZ x l && negb (x =? g).
Proof. destruct (memZ x (rm g l)) eqn:E.
  - apply memZ_In in E. apply In_rm in E as [E1 E2]. apply memZ_In in E1. rewrite E1. cbn. lia.
  - apply memZ_false in E. rewrite In_rm in E. destruct (memZ x l) eqn:E1; [|reflexivity].
    apply memZ_In in E1. destruct (x =? g) eqn:E2; [reflexivity|]. exfalso. apply E. split; [assumption | lia]. Qed.

Lemma NoDup_snoc (x : Z) l : NoDup l -> ~ In x l -> NoDup (l ++ [x]).
Proof. induction l as [|y l IH]; cbn; intros Hn Hi. { constructor; [tauto | constructor]. }
  inv Hn. constructor.
  - rewrite in_app_iff. cbn. intros [H|[H|[]]]; [tauto | subst; tauto].
  - apply IH; tauto. Qed.
Lemma count_add_send g o h : is_bk o = false -> count_add g (o :: h) = count_add g h.
Proof. destruct o; cbn; try discriminate; reflexivity. Qed.
Lemma filter_notin_app (q : list Z) l x : ~ In x q ->
  filter (fun y => negb (memZ y q)) (l ++ [x]) = filter (fun y => negb (memZ y q)) l ++ [x].
Proof. intros H. rewrite filter_app. cbn. apply memZ_false in H. rewrite H. reflexivity. Qed.

Lemma InvA_accept r tok con a : InvA a -> InvA (a_accept r tok con a).
Proof.
  intros [H1 H2 H3 H4 H5 H6 H7 H8 H9 H10]. unfold InvA, a_accept. cbn [a_cq].
  assert (Hn : ~ In (a_ctr a) (a_obs a)). { intros Hi. apply H2 in Hi. lia. }
  constructor; cbn [a_obs a_ctr a_gids a_bk].
  - apply NoDup_snoc; assumption.
  - intros x Hx. apply in_app_iff in Hx as [Hx|[Hx|[]]]; [apply H2 in Hx; lia | subst; lia].
  - rewrite filter_notin_app; [rewrite H3; reflexivity|]. intros Hq. apply Hn. apply H4. exact Hq.
  - intros x Hx. apply in_or_app. left. apply H4. exact Hx.
  - exact H5.
  - intros g. unfold count_add in *. cbn [filter]. specialize (H6 g). unfold in_range in *.
    destruct (a_ctr a =? g) eqn:E; cbn [length]; rewrite H6.
    + replace ((0 <=? g) && (g <? a_ctr a)) with false by lia. replace ((0 <=? g) && (g <? a_ctr a + 1)) with true by lia. reflexivity.
    + replace ((0 <=? g) && (g <? a_ctr a + 1)) with ((0 <=? g) && (g <? a_ctr a)) by lia. reflexivity.
  - intros g. unfold count_cancel in *. cbn [filter]. rewrite H7. unfold in_range. rewrite memZ_app. cbn [memZ existsb].
    destruct (g =? a_ctr a) eqn:E.
    + replace ((0 <=? g) && (g <? a_ctr a)) with false by lia. rewrite orb_true_r. cbn. rewrite andb_false_r. reflexivity.
    + rewrite orb_false_r. replace ((0 <=? g) && (g <? a_ctr a + 1)) with ((0 <=? g) && (g <? a_ctr a)) by lia. reflexivity.
  - cbn [counts_ok]. split; [|exact H8]. rewrite app_length. cbn [length]. lia.
  - cbn [balance]. rewrite app_length. cbn [length]. lia.
  - lia.
Qed.

Lemma filter_notin_snoc (q : list Z) g l :
  filter (fun x => negb (memZ x (q ++ [g]))) l = rm g (filter (fun x => negb (memZ x q)) l).
Proof. unfold rm. induction l as [|x l IH]; cbn [filter]; [reflexivity|].
  rewrite memZ_app. cbn [memZ existsb]. rewrite orb_false_r.
  destruct (memZ x q); cbn [negb orb filter]; [exact IH|].
  destruct (x =? g) eqn:E; cbn [negb]; rewrite IH; reflexivity. Qed.
Lemma InvA_stop g a : InvA a -> In g (a_gids a) -> InvA (a_stop g a).
Proof.
  intros [H1 H2 H3 H4 H5 H6 H7 H8 H9 H10] Hg. unfold InvA, a_stop. cbn [a_cq].
  assert (Hgo : In g (a_obs a) /\ ~ In g (a_cq a)).
  { rewrite H3 in Hg. apply filter_In in Hg as [Ha Hb]. split; [exact Ha|]. apply memZ_false. destruct (memZ g (a_cq a)); [discriminate | reflexivity]. }
  constructor; cbn [a_obs a_ctr a_gids a_bk]; try assumption.
  - rewrite H3. symmetry. apply filter_notin_snoc.
  - intros x Hx. apply in_app_iff in Hx as [Hx|[Hx|[]]]; [apply H4; exact Hx | subst; tauto].
  - apply NoDup_snoc; tauto.
Qed.

Lemma filter_cons_q g q l : filter (fun x => negb (memZ x (g :: q))) l = filter (fun x => negb (memZ x q)) (rm g l).
Proof. unfold rm. induction l as [|x l IH]; [reflexivity|].
  cbn [filter]. rewrite IH. cbn [memZ existsb]. destruct (x =? g); reflexivity. Qed.
(* delivering one pending cancellation *)
Lemma InvQ_cancel g q a : InvQ (g :: q) a -> InvQ q (a_cancel g a).
Proof.
  intros [H1 H2 H3 H4 H5 H6 H7 H8 H9 H10].
  assert (Hgo : In g (a_obs a)) by (apply H4; left; reflexivity).
  assert (Hgq : ~ In g q) by (inversion H5; assumption).
  assert (Hq : NoDup q) by (inversion H5; assumption). clear H5.
  unfold a_cancel. constructor; cbn [a_obs a_ctr a_gids a_bk]; try assumption.
  - apply NoDup_rm. exact H1.
  - intros x Hx. apply In_rm in Hx as [Hx _]. apply H2. exact Hx.
  - rewrite H3. apply filter_cons_q.
  - intros x Hx. apply In_rm. split; [apply H4; right; exact Hx | intros ->; tauto].
  - intros g'. unfold count_cancel in *. cbn [filter]. rewrite memZ_rm. specialize (H7 g'). specialize (H2 g Hgo).
    destruct (g =? g') eqn:E; cbn [length]; rewrite H7.
    + assert (g' = g) by lia. subst g'. replace (memZ g (a_obs a)) with true by (symmetry; apply memZ_In; exact Hgo).
      rewrite Z.eqb_refl. cbn. unfold in_range. replace ((0 <=? g) && (g <? a_ctr a)) with true by lia. rewrite andb_false_r. reflexivity.
    + replace (g' =? g) with false by lia. cbn. rewrite andb_true_r. reflexivity.
  - cbn [counts_ok]. split; [|exact H8]. rewrite <- H9. pose proof (length_rm g (a_obs a) H1 Hgo). lia.
  - cbn [balance]. rewrite <- H9. pose proof (length_rm g (a_obs a) H1 Hgo). lia.
Qed.
Lemma InvA_end g a : InvA a -> In g (a_gids a) -> InvA (a_end g a).
Proof.
  intros H Hg. unfold a_end.
  pose proof (InvA_stop g a H Hg) as Hs. unfold InvA in *. cbn [a_stop a_cq] in Hs.
  (* stop, then deliver that cancellation first: the queue is a set as far as the invariant is concerned *)
  destruct H as [H1 H2 H3 H4 H5 H6 H7 H8 H9 H10].
  assert (Hgo : In g (a_obs a) /\ ~ In g (a_cq a)).
  { rewrite H3 in Hg. apply filter_In in Hg as [Ha Hb]. split; [exact Ha|]. apply memZ_false. destruct (memZ g (a_cq a)); [discriminate | reflexivity]. }
  assert (Hq : InvQ (g :: a_cq a) (a_unreg g a)).
  { constructor; cbn [a_unreg a_obs a_ctr a_gids a_bk]; try assumption.
    - rewrite H3. rewrite filter_cons_q. unfold rm. apply filter_filter_comm.
    - intros x [Hx|Hx]; [subst; tauto | apply H4; exact Hx].
    - constructor; tauto. }
  apply InvQ_cancel in Hq. exact Hq.
Qed.
Lemma InvA_flush a : InvA a -> InvA (a_flush a).
Proof.
  unfold InvA, a_flush. cbn [a_setcq a_cq].
  assert (G : forall q a, InvQ q a -> InvQ [] (fold_left (fun a g => a_cancel g a) q a)).
  { induction q as [|g q IH]; intros a0 H0; cbn [fold_left]; [exact H0|]. apply IH. apply InvQ_cancel. exact H0. }
  intros H. apply G in H. destruct H. constructor; assumption.
Qed.
Lemma InvA_areach a b : areach a b -> InvA a -> InvA b.
Proof. intros H Ha. induction H; auto using InvA_accept, InvA_stop, InvA_end, InvA_flush. Qed.

Lemma InvA_init m : InvA (abs (init m)).
Proof. constructor; cbn.
  - constructor.
  - tauto.
  - reflexivity.
  - intros x [].
  - constructor.
  - intros g. unfold in_range. destruct ((0 <=? g) && (g <? 0)) eqn:E; [lia | reflexivity].
  - intros g. unfold in_range. destruct ((0 <=? g) && (g <? 0)) eqn:E; [lia | reflexivity].
  - exact I.
  - reflexivity.
  - lia.
Qed.

(* ------------------------------------------------------------------ from the abstract machine back to the model *)
Lemma count_add_bk g h : count_add g (bk h) = count_add g h.
Proof. unfold count_add, bk. induction h as [|o h IH]; cbn; [reflexivity|]. destruct o; cbn; rewrite ?IH; try reflexivity.
  destruct (gid =? g); cbn; rewrite ?IH; reflexivity. Qed.
Lemma count_cancel_bk g h : count_cancel g (bk h) = count_cancel g h.
Proof. unfold count_cancel, bk. induction h as [|o h IH]; cbn; [reflexivity|]. destruct o; cbn; rewrite ?IH; try reflexivity.
  destruct (gid =? g); cbn; rewrite ?IH; reflexivity. Qed.
Lemma balance_bk h : balance (bk h) = balance h.
Proof. unfold bk. induction h as [|o h IH]; cbn; [reflexivity|]. destruct o; cbn; rewrite ?IH; reflexivity. Qed.
Lemma counts_ok_bk h : counts_ok (bk h) <-> counts_ok h.
Proof. unfold bk. induction h as [|o h IH]; cbn; [tauto|]. destruct o; cbn; fold (bk h); rewrite ?balance_bk; tauto. Qed.

Lemma cq_of_abs s s' : abs s' = abs s -> s_cancelq s' = s_cancelq s.
Proof. intros H. apply (f_equal a_cq) in H. exact H. Qed.
Lemma cq_flush s : s_cancelq (flush_cancels s) = []. Proof. reflexivity. Qed.
Lemma cq_advance fuel : forall s t, s_cancelq s = [] -> s_cancelq (advance fuel s t) = [].
Proof. induction fuel as [|f IH]; intros s t H; cbn [advance]; [exact H|].
  destruct (min_timer (s_timers s)); [|exact H]. destruct (t_due t0 <=? t); [|exact H]. apply IH. apply cq_flush. Qed.
Lemma cq_step s e : s_cancelq s = [] -> s_cancelq (step s e) = [].
Proof.
  intros H. destruct e; cbn [step]; try reflexivity; try exact H.
  - destruct (s_down s); [exact H|]. destruct (in_recent s r mid) as [st|]; [|reflexivity].
    destruct con; [|exact H]. destruct st; [|exact H]. rewrite (cq_of_abs s); [exact H | apply abs_send_initially].
  - destruct (s_down s); [exact H | reflexivity].
  - destruct (s_down s); [exact H | reflexivity].
  - destruct (find_key s r tok); [|exact H]. destruct (g_phase r0); try reflexivity. exact H.
  - change (s_cancelq (advance (advance_fuel s) s (s_now s + dt)) = []). apply cq_advance. exact H.
  - destruct (s_down s); [exact H | reflexivity].
Qed.

Lemma run_app s es1 es2 : run s (es1 ++ es2) = run (run s es1) es2.
Proof. unfold run. apply fold_left_app. Qed.
Lemma run_inv : forall es s, InvA (abs s) -> s_cancelq s = [] -> InvA (abs (run s es)) /\ s_cancelq (run s es) = [].
Proof. induction es as [|e es IH]; intros s H1 H2; cbn; [tauto|].
  apply IH; [eapply InvA_areach; [apply areach_step | exact H1] | apply cq_step; exact H2]. Qed.

(* the resource's bookkeeping, for every event history *)
Lemma bookkeeping_lemma : forall mid0 es, let s := run (init mid0) es in
  map g_gid (s_regs s) = s_observers s /\ NoDup (s_observers s) /\
  (forall g, count_add g (s_hist s) = if in_range g (s_gidctr s) then 1%nat else 0%nat) /\
  (forall g, count_cancel g (s_hist s) = if in_range g (s_gidctr s) && negb (memZ g (s_observers s)) then 1%nat else 0%nat) /\
  counts_ok (s_hist s) /\ Z.of_nat (length (s_observers s)) = balance (s_hist s).
Proof.
  intros mid0 es s. destruct (run_inv es (init mid0) (InvA_init mid0) eq_refl) as [[H1 H2 H3 H4 H5 H6 H7 H8 H9 H10] Hq].
  fold s in H1, H2, H3, H4, H5, H6, H7, H8, H9, H10, Hq. cbn [abs a_gids a_obs a_cq a_ctr a_bk] in *.
  rewrite Hq in H3. split; [|split; [exact H1|split; [|split; [|split]]]].
  - rewrite H3. clear. induction (s_observers s) as [|x l IH]; [reflexivity|]. cbn [filter memZ existsb negb]. f_equal. exact IH.
  - intros g. rewrite <- count_add_bk. apply H6.
  - intros g. rewrite <- count_cancel_bk. apply H7.
  - apply counts_ok_bk. exact H8.
  - rewrite <- balance_bk. exact H9.
Qed.
