(* C14 — liveness for every schedule: a held-back message leaves its queue (first transmission, or discarded with
   its request failed) after at most [budget] "progress" steps of the exchange ahead of it — steps in which that
   exchange is acknowledged/reset, fails, or its retransmission timer fires.  Fairness (timers keep firing) is
   exactly what makes the number of progress steps grow; the measure is the retransmission budget of the exchange
   ahead plus that of the messages queued ahead. *)
From Verif Require Import Lib.Tactics Model.C14 Proofs.C14 Proofs.C14step.
Import ListNotations.
Open Scope Z_scope.

Definition progress (s : st) (e : event) (r : Z) : bool := acks s e r || fails s e r || fires_on s e r.
Fixpoint count_progress (s : st) (es : list event) (r : Z) : nat :=
  match es with
  | [] => 0
  | e :: es' => ((if progress s e r then 1 else 0) + count_progress (fst (step s e)) es' r)%nat
  end.

(* transmissions a message may get once it is released: 1 + MAX_RETRANSMIT *)
Definition cost (m : msg) : nat := S (Z.to_nat (m_maxre m)).
(* what is left for the exchange ahead, plus the cost of the [k] messages queued ahead *)
Definition budget (r : Z) (k : nat) (s : st) : nat :=
  (match exs r s with x :: _ => weight x | [] => 0 end + list_sum (map cost (firstn k (backlog_of r s))))%nat.

Lemma backlog_of_aget r s k m : nth_error (backlog_of r s) k = Some m -> aget r (backlogs s) = Some (backlog_of r s).
Proof. unfold backlog_of. destruct (aget r (backlogs s)); [reflexivity|]. destruct k; discriminate. Qed.

Theorem eventually_leaves : forall es s r k m, Inv s -> nth_error (backlog_of r s) k = Some m ->
  (budget r k s <= count_progress s es r)%nat -> In m (left r (concat (snd (run s es)))).
Proof. induction es as [|e es IH]; intros s r k m HI Hn Hb.
  - exfalso. pose proof (backlog_of_aget r s k m Hn) as Ha.
    destruct (inv_count_aget s r HI) as [[_ Hno]|(x & q & Hx & _)]; [congruence|].
    unfold budget in Hb. rewrite Hx in Hb. cbn in Hb. unfold weight in Hb. lia.
  - pose proof (backlog_of_aget r s k m Hn) as Ha. set (q := backlog_of r s) in *.
    pose proof (step_trans s e HI) as (HI1 & _).
    cbn [run]. cbn [count_progress] in Hb. unfold progress in Hb.
    destruct (step s e) as [s1 o1] eqn:Es. cbn [fst] in *.
    specialize (IH s1 r). destruct (run s1 es) as [s2 os]. cbn [snd concat] in *. rewrite left_app. apply in_or_app.
    assert (Hs1 : s1 = fst (step s e)) by (rewrite Es; reflexivity). assert (Ho1 : o1 = snd (step s e)) by (rewrite Es; reflexivity).
    destruct (acks s e r) eqn:Eack.
    + (* the exchange ahead is acknowledged / reset *)
      pose proof (released_when_acked s e r q HI Eack Ha) as R. cbn zeta in R. rewrite <- Hs1, <- Ho1 in R.
      destruct q as [|m0 rest] eqn:Eq; [destruct k; discriminate|]. destruct R as (_ & _ & Hl & Ha1 & x' & Hx' & Hm' & Hc').
      destruct k as [|k].
      * left. cbn in Hn. inv Hn. rewrite Hl. left; reflexivity.
      * right. cbn in Hn. apply (IH k m HI1).
        -- unfold backlog_of. rewrite Ha1. exact Hn.
        -- cbn [orb] in Hb. unfold budget in *. rewrite Hx'. unfold backlog_of at 1. rewrite Ha1.
           fold q in Hb. rewrite Eq in Hb. cbn [firstn map] in Hb. change (list_sum (?a :: ?l)) with (a + list_sum l)%nat in Hb.
           assert (Hw : weight x' = cost m0) by (unfold weight, cost; rewrite Hm', Hc'; f_equal; f_equal; lia).
           rewrite Hw.
           destruct (inv_count_aget s r HI) as [[_ Hno]|(x & q0 & Hx & _)]; [congruence|]. rewrite Hx in Hb.
           assert (1 <= weight x)%nat by (unfold weight; lia). lia.
    + destruct (fails s e r) eqn:Ef.
      * (* the endpoint fails: everything queued is discarded *)
        left. pose proof (dropped_when_failed s e r q HI Ef Ha) as (Hl & _). rewrite <- Ho1 in Hl. rewrite Hl.
        apply (nth_error_In _ _ Hn).
      * (* otherwise the message keeps its place; a firing of the timer uses up one retransmission *)
        right. pose proof (held_otherwise_detail s e r q HI Ha Eack Ef) as (Ha1 & _ & x & x' & Hx & Hx' & Hm' & Hd).
        rewrite <- Hs1, <- Ho1 in *. cbn [orb] in Hb.
        assert (Hk : (k < length q)%nat) by (apply nth_error_Some; congruence).
        apply (IH k m HI1).
        -- unfold backlog_of. rewrite Ha1. rewrite nth_error_app1 by exact Hk. exact Hn.
        -- unfold budget in *. fold q in Hb. rewrite Hx'. rewrite Hx in Hb. unfold backlog_of at 1. rewrite Ha1.
           rewrite firstn_app. replace (k - length q)%nat with 0%nat by lia. cbn [firstn]. rewrite app_nil_r.
           destruct (fires_on s e r).
           ++ cbv iota in Hb. destruct Hd as (Hc1 & Hc2). assert (S (weight x') = weight x) by (unfold weight; rewrite Hm', Hc1; lia). lia.
           ++ cbv iota in Hb. subst x'. lia.
Qed.

(* ---------------------------------------------------------------- infinite schedules and fairness *)
Definition schedule := nat -> event.
Fixpoint prefix (sch : schedule) (n : nat) : list event :=
  match n with O => [] | S n => prefix sch n ++ [sch n] end.
Definition state_at (sch : schedule) (s : st) (n : nat) : st := fst (run s (prefix sch n)).
Definition trace_to (sch : schedule) (s : st) (n : nat) : list output := concat (snd (run s (prefix sch n))).

(* timers keep firing: from every point on there is a later step at which the exchange open with r is acknowledged
   or reset, fails, or has its retransmission timer fired — or at which nothing is outstanding at r at all *)
Definition fair (sch : schedule) (s : st) (r : Z) : Prop :=
  forall n, exists n', (n <= n')%nat /\
    (progress (state_at sch s n') (sch n') r = true \/ exs r (state_at sch s n') = []).

Lemma run_app a : forall s b, fst (run s (a ++ b)) = fst (run (fst (run s a)) b).
Proof. induction a as [|e a IH]; intros s b; [reflexivity|]. cbn [app run].
  destruct (step s e) as [s1 o1]. specialize (IH s1 b). destruct (run s1 (a ++ b)), (run s1 a). cbn [fst] in *. exact IH. Qed.

Lemma count_progress_app a : forall s b r,
  count_progress s (a ++ b) r = (count_progress s a r + count_progress (fst (run s a)) b r)%nat.
Proof. induction a as [|e a IH]; intros s b r; [reflexivity|]. cbn [app count_progress run].
  rewrite IH. destruct (step s e) as [s1 o1]. cbn [fst]. destruct (run s1 a). cbn [fst]. lia. Qed.

Lemma count_progress_mono sch s r n n' : (n <= n')%nat ->
  (count_progress s (prefix sch n) r <= count_progress s (prefix sch n') r)%nat.
Proof. induction 1 as [|n' _ IH]; [lia|]. cbn [prefix]. rewrite count_progress_app. lia. Qed.

Lemma empty_means_left sch s r k m n : Inv s -> nth_error (backlog_of r s) k = Some m ->
  exs r (state_at sch s n) = [] -> In m (left r (trace_to sch s n)).
Proof. intros HI Hn He. unfold state_at, trace_to in *.
  pose proof (run_trans (prefix sch n) s HI) as (HI' & B & _). specialize (B r).
  destruct (inv_count_aget _ r HI') as [[_ Hno]|(x & q & Hx & _)]; [|rewrite He in Hx; discriminate].
  unfold backlog_of at 2 in B. rewrite Hno in B. rewrite app_nil_r in B. rewrite <- B.
  apply in_or_app. left. apply (nth_error_In _ _ Hn). Qed.

Lemma fair_reaches sch s r k m : Inv s -> nth_error (backlog_of r s) k = Some m -> fair sch s r ->
  forall B, exists n, (B <= count_progress s (prefix sch n) r)%nat \/ In m (left r (trace_to sch s n)).
Proof. intros HI Hn Hf B. induction B as [|B IH]; [exists 0%nat; left; lia|].
  destruct IH as (n & [Hc|Hl]); [|exists n; right; exact Hl].
  destruct (Hf n) as (n' & Hle & [Hp|He]).
  - exists (S n'). left. cbn [prefix]. rewrite count_progress_app. cbn [count_progress]. fold (state_at sch s n'). rewrite Hp.
    pose proof (count_progress_mono sch s r n n' Hle). lia.
  - exists n'. right. apply (empty_means_left sch s r k m n' HI Hn He). Qed.

Theorem fair_eventually_leaves sch s r k m : Inv s -> nth_error (backlog_of r s) k = Some m -> fair sch s r ->
  exists n, In m (left r (trace_to sch s n)).
Proof. intros HI Hn Hf. destruct (fair_reaches sch s r k m HI Hn Hf (budget r k s)) as (n & [Hc|Hl]); [|exists n; exact Hl].
  exists n. apply (eventually_leaves (prefix sch n) s r k m HI Hn Hc). Qed.

(* non-vacuity of [fair]: the schedule in which only timers fire is fair for every remote, from every state *)
Lemma prefix_fire n : prefix (fun _ => Fire) n = repeat Fire n.
Proof. induction n as [|n IH]; [reflexivity|]. cbn [prefix]. rewrite IH. symmetry. apply repeat_cons. Qed.
Theorem timers_only_schedule_is_fair s r : Inv s -> fair (fun _ => Fire) s r.
Proof. intros HI n. exists (Nat.max n (measure s)). split; [lia|]. right. unfold state_at. rewrite prefix_fire.
  unfold exs. rewrite (fires_quiesce _ s HI); [reflexivity|lia]. Qed.
