(* C14 — "none forgotten", second half, for arbitrary refusals: whenever a message is discarded from a queue (or its
   first transmission is refused) in a step, no request to its remote is outstanding after that step — and, apart from
   the entry TokenManager.request itself adds, a step never adds outstanding requests.  (Requests leave
   outgoing_requests only through tm_dispatch_error / call_monitor / tm_process_response / Cancel, each of which emits
   the Fail / Deliver / Cancelled output by definition.) *)
From Verif Require Import Lib.Tactics Model.C14 Model.C14refuse Proofs.C14 Proofs.C14step Proofs.C14refuse.
Import ListNotations.
Open Scope Z_scope.

Definition nodrop (o : list output) : Prop := forall m, ~ In (Dropped m) o.
Definition NoNew (s s' : st) : Prop :=
  (forall r en, In en (reqs r s') -> In en (reqs r s)) /\ (forall v, In v (incoming_requests s') -> In v (incoming_requests s)).
(* no new outstanding request / responder; a discarded message leaves neither request to nor responder for its remote *)
Definition DC (s : st) (o : list output) (s' : st) : Prop :=
  NoNew s s' /\ forall m, In (Dropped m) o -> reqs (m_remote m) s' = [] /\ served_from (m_remote m) s' = [].

Lemma served_nil_incl r s1 s2 : (forall v, In v (incoming_requests s2) -> In v (incoming_requests s1)) -> served_from r s1 = [] -> served_from r s2 = [].
Proof. intros H H1. unfold served_from in *. destruct (filter _ (incoming_requests s2)) as [|v t] eqn:E; [reflexivity|]. exfalso.
  assert (Hi : In v (filter (fun v => v_remote v =? r) (incoming_requests s2))) by (rewrite E; left; reflexivity).
  apply filter_In in Hi. destruct Hi as (Hi & Hr). assert (In v (filter (fun v => v_remote v =? r) (incoming_requests s1))) by (apply filter_In; auto).
  rewrite H1 in H0. exact H0. Qed.

Lemma dc_trans s o1 s1 o2 s2 : DC s o1 s1 -> DC s1 o2 s2 -> DC s (o1 ++ o2) s2.
Proof. intros ((N1 & M1) & D1) ((N2 & M2) & D2). split; [split; [intros r en H; apply N1, N2, H|intros v H; apply M1, M2, H]|].
  intros m H. apply in_app_or in H. destruct H as [H|H]; [|apply D2; exact H].
  destruct (D1 m H) as (E1 & E2). split; [|apply (served_nil_incl _ s1 s2 M2 E2)].
  destruct (reqs (m_remote m) s2) as [|en t] eqn:E; [reflexivity|]. exfalso.
  assert (Hi : In en (reqs (m_remote m) s1)) by (apply N2; rewrite E; left; reflexivity). rewrite E1 in Hi. exact Hi. Qed.

Lemma dc_same s o s' : outgoing_requests s' = outgoing_requests s -> incoming_requests s' = incoming_requests s -> nodrop o -> DC s o s'.
Proof. intros H H2 Hn. split; [split; [intros r en; unfold reqs; rewrite H; auto|rewrite H2; auto]|intros m Hm; destruct (Hn m Hm)]. Qed.

Lemma dc_filter s o s' p : outgoing_requests s' = filter p (outgoing_requests s) -> incoming_requests s' = incoming_requests s -> nodrop o -> DC s o s'.
Proof. intros H H2 Hn. split; [|intros m Hm; destruct (Hn m Hm)]. split; [|rewrite H2; auto]. intros r en. unfold reqs. rewrite H. rewrite !filter_In. tauto. Qed.

Lemma dc_filter_in s o s' p : outgoing_requests s' = outgoing_requests s -> incoming_requests s' = filter p (incoming_requests s) -> nodrop o -> DC s o s'.
Proof. intros H H2 Hn. split; [|intros m Hm; destruct (Hn m Hm)]. split; [intros r en; unfold reqs; rewrite H; auto|]. intros v. rewrite H2, filter_In. tauto. Qed.

Lemma nodrop_fails e l : nodrop (map (fun o : Z * Z * Z => Fail (q_of o) e) l).
Proof. intros m H. apply in_map_iff in H. destruct H as (? & H & _). discriminate. Qed.
Lemma nodrop_nil : nodrop []. Proof. intros m H. exact H. Qed.
Lemma nodrop_one x : (forall m, x <> Dropped m) -> nodrop [x].
Proof. intros H m [Hx|[]]. exact (H m Hx). Qed.

Lemma tm_dispatch_error_dc e r s : DC s (snd (tm_dispatch_error e r s)) (fst (tm_dispatch_error e r s)).
Proof. destruct (tm_dispatch_error_spec e r s) as (_ & _ & _ & _ & T2 & _). split; [|intros m H; destruct (T2 m H)]. split.
  - intros r' en. unfold tm_dispatch_error, reqs. cbn [fst outgoing_requests upd_in upd_out]. rewrite !filter_In. tauto.
  - intros v. unfold tm_dispatch_error. cbn [fst incoming_requests upd_in upd_out]. rewrite filter_In. tauto. Qed.

Lemma dispatch_error_dc r s : Forall (fun m => con_to r m = true) (backlog_of r s) ->
  DC s (snd (dispatch_error r s)) (fst (dispatch_error r s)).
Proof. intros Hq. unfold dispatch_error. destruct (tm_dispatch_error_dc NetworkError r s) as (N & D).
  destruct (tm_dispatch_error_spec NetworkError r s) as (_ & B & _ & _ & _ & _ & T4 & _ & T6). cbn zeta in *.
  destruct (tm_dispatch_error NetworkError r s) as [s1 o1]. cbn [fst snd backlogs upd_ex upd_bl] in *. split.
  - exact N.
  - intros m H. apply in_app_or in H. destruct H as [H|H]; [apply D in H; exact H|].
    apply in_map_iff in H. destruct H as (m' & E & Hm). inv E. rewrite B in Hm. fold (backlog_of r s) in Hm.
    rewrite Forall_forall in Hq. specialize (Hq m Hm). assert (m_remote m = r) by (unfold con_to in Hq; lia). subst r.
    split; [exact T4|exact T6]. Qed.

Section General.
Variable l : list Z.

Lemma send_via_dc what r s : Inv s -> (forall m, what <> Dropped m) -> (forall m, what = Tx m false -> m_remote m = r) ->
  DC s (snd (send_via_transport l what r s)) (fst (send_via_transport l what r s)).
Proof. intros HI Hw Hr. unfold send_via_transport. destruct (refuses l r).
  - pose proof (dispatch_error_dc r s ltac:(destruct (HI r) as (_ & _ & C); exact C)) as (N & D).
    assert (Hc : reqs r (fst (dispatch_error r s)) = [] /\ served_from r (fst (dispatch_error r s)) = []).
    { unfold dispatch_error. destruct (tm_dispatch_error_spec NetworkError r s) as (_ & _ & _ & _ & _ & _ & T4 & _ & T6). cbn zeta in *.
      destruct (tm_dispatch_error NetworkError r s) as [s1 o1]. cbn [fst snd] in *. split; [exact T4|exact T6]. }
    destruct (dispatch_error r s) as [s1 o1]. cbn [fst snd] in *. split; [exact N|].
    intros m H. apply in_app_or in H. destruct H as [H|H]; [|apply D; exact H].
    destruct what; cbn in H; try contradiction. destruct retr; cbn in H; [contradiction|]. destruct H as [H|[]]. inv H.
    rewrite (Hr m eq_refl). exact Hc.
  - cbn [fst snd]. apply dc_same; [reflexivity|reflexivity|apply nodrop_one; exact Hw]. Qed.

Lemma dc_pre s0 s o s' : outgoing_requests s0 = outgoing_requests s -> incoming_requests s0 = incoming_requests s -> DC s0 o s' -> DC s o s'.
Proof. intros H H2 ((N & M) & D). split; [|exact D]. split; [|rewrite <- H2; exact M].
  intros r en Hi. specialize (N r en Hi). unfold reqs in *. rewrite <- H. exact N. Qed.

Lemma add_exchange_in m s : incoming_requests (add_exchange m s) = incoming_requests s.
Proof. unfold add_exchange, random_uniform, schedule_retransmit, upd_ex, upd_bl.
  destruct (in_backlogs (m_remote m) s); destruct (rand s); reflexivity. Qed.

Lemma send_initially_dc m s :
  (m_mtype m = 0 /\ exs (m_remote m) s = [] /\ Forall (fun m' => con_to (m_remote m) m' = true) (backlog_of (m_remote m) s) /\
   (forall r, r <> m_remote m -> Good s r)) \/ (m_mtype m <> 0 /\ Inv s) ->
  DC s (snd (C14refuse.send_initially l m s)) (fst (C14refuse.send_initially l m s)).
Proof. intros H. unfold C14refuse.send_initially. destruct H as [(Hc & Hz & Hq & HI)|(Hc & HI)].
  - replace (m_mtype m =? 0) with true by lia. apply (dc_pre (add_exchange m s)); [apply add_exchange_out|apply add_exchange_in|].
    apply send_via_dc; [apply add_exchange_good; assumption|discriminate|intros m' E; inv E; reflexivity].
  - replace (m_mtype m =? 0) with false by lia. apply send_via_dc; [exact HI|discriminate|intros m' E; inv E; reflexivity]. Qed.

Lemma continue_backlog_dc r s q : exs r s = [] -> aget r (backlogs s) = Some q -> Forall (fun m => con_to r m = true) q ->
  (forall r', r' <> r -> Good s r') ->
  DC s (snd (C14refuse.continue_backlog l r s)) (fst (C14refuse.continue_backlog l r s)).
Proof. intros Hz Ha Hq HI. unfold C14refuse.continue_backlog. rewrite Ha. cbn [C14refuse.continue_backlog_loop].
  rewrite has_exchange_exs. unfold count_r. rewrite Hz, Ha. cbn [length Nat.eqb negb].
  destruct q as [|m q']; [cbn [fst snd]; apply dc_same; [reflexivity|reflexivity|apply nodrop_nil]|].
  inv Hq. assert (Hr : m_remote m = r) by (unfold con_to in H1; lia).
  set (s0 := upd_bl s (aset r q' (backlogs s))).
  assert (Hb0 : backlog_of r s0 = q') by (unfold backlog_of, s0; cbn [backlogs upd_bl]; rewrite aget_aset_same; reflexivity).
  assert (Pre : m_mtype m = 0 /\ exs (m_remote m) s0 = [] /\ Forall (fun m' => con_to (m_remote m) m' = true) (backlog_of (m_remote m) s0) /\
                (forall r0, r0 <> m_remote m -> Good s0 r0)).
  { split; [unfold con_to in H1; lia|]. rewrite Hr. split; [exact Hz|]. split; [rewrite Hb0; exact H2|].
    intros r' Hne. apply (good_ext s); [reflexivity|unfold s0; cbn; apply aget_aset_other; assumption|apply HI; assumption]. }
  pose proof (send_initially_dc m s0 (or_introl Pre)) as D.
  destruct Pre as (P1 & P2 & P3 & P4). pose proof (send_initially_con l m s0 P1 P2 P3 P4) as (A & _).
  destruct (C14refuse.send_initially l m s0) as [s1 o1]. cbn [fst snd] in *.
  cbn [length]. rewrite (loop_stops l (length q') r s1 A). cbn [fst snd]. rewrite app_nil_r.
  apply (dc_pre s0); [reflexivity|reflexivity|exact D]. Qed.

Lemma stop_responder_dc k s : DC s (snd (stop_responder k s)) (fst (stop_responder k s)).
Proof. unfold stop_responder. destruct (alive k s); cbn [fst snd];
  [eapply dc_filter_in; [reflexivity|reflexivity|apply nodrop_one; discriminate]|apply dc_same; [reflexivity|reflexivity|apply nodrop_nil]]. Qed.

Lemma call_monitor_dc m s : DC s (snd (call_monitor m s)) (fst (call_monitor m s)).
Proof. unfold call_monitor. destruct (m_sub m).
  - destruct (existsb _ _); cbn [fst snd]; [eapply dc_filter; [reflexivity|reflexivity|apply nodrop_one; discriminate]|apply dc_same; [reflexivity|reflexivity|apply nodrop_nil]].
  - cbn [fst snd]. apply dc_same; [reflexivity|reflexivity|apply nodrop_one; discriminate].
  - apply stop_responder_dc. Qed.

Lemma remove_exchange_dc r mid mt s : Inv s ->
  DC s (snd (C14refuse.remove_exchange l r mid mt s)) (fst (C14refuse.remove_exchange l r mid mt s)).
Proof. intros HI. unfold C14refuse.remove_exchange. destruct (xget r mid (active_exchanges s)) as [x|] eqn:Ex; [|apply dc_same; [reflexivity|reflexivity|apply nodrop_nil]].
  destruct (xget_some _ _ _ _ Ex) as (Hin & Hr & Hm).
  set (s1 := upd_ex s (xdel r mid (active_exchanges s))).
  destruct (inv_count_aget s r HI) as [[Hc _]|(x0 & q & Hx & Ha & Hq)].
  { exfalso. pose proof (in_exs r s x Hin Hr) as Hi. rewrite (count0_exs r s Hc) in Hi. exact Hi. }
  assert (Hz1 : exs r s1 = []).
  { unfold s1. rewrite exs_upd_ex. apply (filter_xdel_same r mid _ x); [fold (exs r s); rewrite Hx; cbn; lia|exact Hin|unfold key_eqb; lia]. }
  set (mon := if mt =? 3 then call_monitor (x_msg x) s1 else (s1, [])).
  assert (Hmon : active_exchanges (fst mon) = active_exchanges s1 /\ backlogs (fst mon) = backlogs s1 /\ DC s1 (snd mon) (fst mon)).
  { unfold mon. destruct (mt =? 3); [destruct (call_monitor_frame (x_msg x) s1) as (A & B & _); split; [exact A|split; [exact B|apply call_monitor_dc]]|
      cbn; split; [reflexivity|split; [reflexivity|apply dc_same; [reflexivity|reflexivity|apply nodrop_nil]]]]. }
  destruct mon as [s2 o2]. cbn [fst snd] in Hmon. destruct Hmon as (He2 & Hb2 & D2).
  assert (Hz2 : exs r s2 = []) by (unfold exs; rewrite He2; exact Hz1).
  assert (Ha2 : aget r (backlogs s2) = Some q) by (rewrite Hb2; exact Ha).
  assert (D3 : DC s2 (snd (C14refuse.continue_backlog l r s2)) (fst (C14refuse.continue_backlog l r s2))).
  { apply (continue_backlog_dc r s2 q Hz2 Ha2 Hq). intros r' Hne. apply (good_ext s).
    - unfold exs. rewrite He2. unfold s1. cbn [active_exchanges upd_ex]. apply filter_xdel_other. assumption.
    - rewrite Hb2. reflexivity.
    - apply HI. }
  destruct (C14refuse.continue_backlog l r s2) as [s3 o3]. cbn [fst snd] in *.
  apply (dc_pre s1); [reflexivity|reflexivity|]. apply (dc_trans s1 o2 s2); assumption. Qed.

Lemma retransmit_dc x s : Inv s -> In x (active_exchanges s) ->
  DC s (snd (C14refuse.retransmit l x s)) (fst (C14refuse.retransmit l x s)).
Proof. intros HI Hin. unfold C14refuse.retransmit.
  rewrite (xget_own s x); [|destruct (HI (m_remote (x_msg x))) as (A & _); exact A|exact Hin].
  set (m := x_msg x). set (r := m_remote m).
  destruct (inv_count_aget s r HI) as [[Hc _]|(x0 & q & Hx & Ha & Hq)].
  { exfalso. pose proof (in_exs r s x Hin eq_refl) as Hi. rewrite (count0_exs r s Hc) in Hi. exact Hi. }
  destruct (x_counter x <? m_maxre m) eqn:Ec.
  - assert (Hz : filter (to_remote r) (xdel r (m_mid m) (active_exchanges s)) = []).
    { apply (filter_xdel_same r (m_mid m) _ x); [fold (exs r s); rewrite Hx; cbn; lia|exact Hin|unfold key_eqb, r, m; lia]. }
    unfold schedule_retransmit. cbn [fst snd upd_ex active_exchanges].
    match goal with |- context [send_via_transport l _ r ?t] => set (s1 := t) end.
    assert (HI1 : Inv s1).
    { eapply (replace_inv s s1 r x0); [exact HI|exact Hx| | |reflexivity].
      - unfold exs, s1. cbn [active_exchanges upd_ex filter x_msg]. unfold to_remote at 1. cbn [x_msg]. fold m. fold r. rewrite Z.eqb_refl.
        f_equal. pose proof (filter_xdel_incl r r (m_mid m) (xdel r (m_mid m) (active_exchanges s))) as Hle. rewrite Hz in Hle.
        destruct (filter (to_remote r) (xdel r (m_mid m) (xdel r (m_mid m) (active_exchanges s)))); [reflexivity|cbn in Hle; lia].
      - intros r' Hne. unfold exs, s1. cbn [active_exchanges upd_ex filter x_msg]. unfold to_remote at 1. cbn [x_msg]. fold m. fold r.
        replace (r =? r') with false by lia. rewrite !filter_xdel_other by assumption. reflexivity. }
    apply (dc_pre s1); [reflexivity|reflexivity|]. apply send_via_dc; [exact HI1|discriminate|discriminate].
  - cbn [backlogs upd_ex]. rewrite Ha.
    match goal with |- context [tm_dispatch_error ?e ?rr ?ss] => destruct (tm_dispatch_error_dc e rr ss) as (N & D);
      destruct (tm_dispatch_error_spec e rr ss) as (_ & _ & _ & _ & _ & _ & T4 & _ & T6); destruct (tm_dispatch_error e rr ss) as [s2 o2] end.
    cbn zeta in *. cbn [fst snd] in *. split.
    + exact N.
    + intros m' H. apply in_app_or in H. destruct H as [H|H]; [|apply D in H; exact H].
      apply in_map_iff in H. destruct H as (m2 & E & Hm). inv E.
      rewrite Forall_forall in Hq. specialize (Hq m' Hm). assert (m_remote m' = r) by (unfold con_to in Hq; lia).
      rewrite H. split; [exact T4|exact T6]. Qed.

Lemma send_message_dc who r mt code tok maxre s : Inv s ->
  DC s (snd (C14refuse.send_message l who r mt code tok maxre s)) (fst (C14refuse.send_message l who r mt code tok maxre s)).
Proof. intros HI. unfold C14refuse.send_message, next_message_id.
  set (s0 := {| now := now s; seq := seq s; message_id := Z.land 65535 (1 + message_id s); token := token s; rand := rand s;
                active_exchanges := active_exchanges s; backlogs := backlogs s; outgoing_requests := outgoing_requests s; incoming_requests := incoming_requests s |}).
  set (m := {| m_sub := who; m_remote := r; m_mtype := resolve_mtype mt; m_code := code; m_mid := message_id s; m_tok := tok; m_maxre := maxre |}).
  assert (HI0 : Inv s0) by (apply (inv_ext s); [reflexivity|reflexivity|exact HI]).
  apply (dc_pre s0); [reflexivity|reflexivity|]. cbn [m_mtype m]. unfold in_backlogs.
  assert (Fin : DC s0 (snd (C14refuse.send_initially l m s0)) (fst (C14refuse.send_initially l m s0)) ->
                DC s0 (Submitted m :: snd (C14refuse.send_initially l m s0)) (fst (C14refuse.send_initially l m s0))).
  { intros (N & D). split; [exact N|]. intros m' [H|H]; [discriminate|apply D; exact H]. }
  destruct (inv_count_aget s0 r HI0) as [[Hc Ha]|(x & q & Hx & Ha & Hq)]; rewrite Ha.
  - rewrite andb_false_r.
    assert (T : DC s0 (Submitted m :: snd (C14refuse.send_initially l m s0)) (fst (C14refuse.send_initially l m s0))).
    { apply Fin, send_initially_dc. destruct (resolve_mtype mt =? 0) eqn:Ec.
      - left. cbn [m_remote m_mtype m]. split; [lia|]. split; [apply count0_exs; exact Hc|]. split; [unfold backlog_of; rewrite Ha; constructor|intros r' _; apply HI0].
      - right. split; [cbn; lia|exact HI0]. }
    destruct (C14refuse.send_initially l m s0) as [s1 o1]. exact T.
  - rewrite andb_true_r. destruct (resolve_mtype mt =? 0) eqn:Ec.
    + rewrite has_exchange_exs. unfold count_r. rewrite Hx. cbn [length Nat.eqb negb fst snd].
      apply dc_same; [reflexivity|reflexivity|apply nodrop_one; discriminate].
    + assert (T : DC s0 (Submitted m :: snd (C14refuse.send_initially l m s0)) (fst (C14refuse.send_initially l m s0))).
      { apply Fin, send_initially_dc. right. split; [cbn; lia|exact HI0]. }
      destruct (C14refuse.send_initially l m s0) as [s1 o1]. exact T. Qed.

Lemma dispatch_message_dc r mt code mid tok s : Inv s ->
  DC s (snd (C14refuse.dispatch_message l r mt code mid tok s)) (fst (C14refuse.dispatch_message l r mt code mid tok s)).
Proof. intros HI. unfold C14refuse.dispatch_message.
  set (first := if (mt =? 2) || (mt =? 3) then C14refuse.remove_exchange l r mid mt s else (s, [])).
  assert (T1 : Trans s (snd first) (fst first)).
  { unfold first. destruct ((mt =? 2) || (mt =? 3)); [apply remove_exchange_gen; exact HI|apply trans_refl; exact HI]. }
  assert (D1 : DC s (snd first) (fst first)).
  { unfold first. destruct ((mt =? 2) || (mt =? 3)); [apply remove_exchange_dc; exact HI|apply dc_same; [reflexivity|reflexivity|apply nodrop_nil]]. }
  destruct first as [s1 o1]. cbn [fst snd] in T1, D1.
  assert (Hn : crashed o1 = false) by (rewrite crashed_nocrash; destruct T1 as (_ & _ & ->); reflexivity). rewrite Hn.
  pose proof (proj1 T1) as HI1.
  assert (SE : forall mt' s2, Inv s2 -> DC s2 (snd (C14refuse.send_empty l r mt' mid s2)) (fst (C14refuse.send_empty l r mt' mid s2))).
  { intros mt' s2 H2. apply send_via_dc; [exact H2|discriminate|discriminate]. }
  destruct (code =? 0).
  - destruct (mt =? 0); [|exact D1]. pose proof (SE 3 s1 HI1) as D2.
    destruct (C14refuse.send_empty l r 3 mid s1) as [s2 o2]. apply (dc_trans s o1 s1); assumption.
  - destruct (mt =? 3); [exact D1|].
    pose proof (tm_process_response_frame r tok s1) as (He & Hb & Hnn).
    assert (D2 : DC s1 (snd (fst (tm_process_response r tok s1))) (fst (fst (tm_process_response r tok s1)))).
    { unfold tm_process_response. destruct (find _ _); cbn [fst snd]; [eapply dc_filter; [reflexivity|reflexivity|apply nodrop_one; discriminate]|apply dc_same; [reflexivity|reflexivity|apply nodrop_nil]]. }
    destruct (tm_process_response r tok s1) as [[s2 o2] ok]. cbn [fst snd] in *.
    assert (HI2 : Inv s2) by (apply (inv_ext s1); assumption).
    assert (D12 : DC s (o1 ++ o2) s2) by (apply (dc_trans s o1 s1); assumption).
    destruct ok; destruct (mt =? 0); try exact D12.
    + pose proof (SE 2 s2 HI2) as D3. destruct (C14refuse.send_empty l r 2 mid s2) as [s3 o3].
      rewrite app_assoc. apply (dc_trans s (o1 ++ o2) s2); assumption.
    + pose proof (SE 3 s2 HI2) as D3. destruct (C14refuse.send_empty l r 3 mid s2) as [s3 o3].
      rewrite app_assoc. apply (dc_trans s (o1 ++ o2) s2); assumption. Qed.

Lemma respond_dc j k last maxre s : Inv s ->
  DC s (snd (respond (C14refuse.send_message l) j k last maxre s)) (fst (respond (C14refuse.send_message l) j k last maxre s)).
Proof. intros HI. unfold respond. destruct (find _ _) as [v|]; [|apply dc_same; [reflexivity|reflexivity|apply nodrop_nil]].
  pose proof (send_message_dc (Resp j k) (v_remote v) (if v_mtype v =? 1 then 7 else 8) 69 (v_tok v) maxre s HI) as D.
  destruct (C14refuse.send_message l _ _ _ _ _ _ s) as [s1 o1]. cbn [fst snd] in D.
  destruct last; [|exact D]. destruct (alive k s1) eqn:E; cbn [fst snd]; [|exact D].
  pose proof (stop_responder_dc k s1) as D2. destruct (stop_responder k s1) as [s2 o2]. apply (dc_trans s o1 s1); assumption. Qed.

(* one event, whatever the transport refuses: a message is discarded only if afterwards neither a request to its remote is
   outstanding nor a responder for its remote alive; only TokenManager.request adds an outstanding request, only
   process_request adds a responder *)
Definition Clears (o : list output) (s' : st) : Prop :=
  forall m, In (Dropped m) o -> reqs (m_remote m) s' = [] /\ served_from (m_remote m) s' = [].

Theorem step_ev_drop_clears s e : Inv s ->
  Clears (snd (step_ev l s e)) (fst (step_ev l s e)) /\
  ((forall q r mt maxre, e <> Request q r mt maxre) -> forall r en, In en (reqs r (fst (step_ev l s e))) -> In en (reqs r s)) /\
  ((forall k r tok mt, e <> Serve k r tok mt) -> forall v, In v (incoming_requests (fst (step_ev l s e))) -> In v (incoming_requests s)).
Proof. intros HI.
  assert (From : forall o s', DC s o s' -> Clears o s' /\ (forall r en, In en (reqs r s') -> In en (reqs r s)) /\ (forall v, In v (incoming_requests s') -> In v (incoming_requests s)))
    by (intros o s' ((N & M) & D); auto).
  destruct e; cbn [step_ev].
  - unfold C14refuse.tm_request, next_token. cbn -[C14refuse.send_message Z.pow Z.modulo].
    match goal with |- context [C14refuse.send_message l ?a ?b ?c ?d ?e ?f ?s1] =>
      destruct (send_message_dc a b c d e f s1) as ((N & M) & D); [apply (inv_ext s); [reflexivity|reflexivity|exact HI]|] end.
    split; [exact D|]. split; [intros H; exfalso; apply (H q r mt maxre); reflexivity|intros _; exact M].
  - destruct (From _ _ (send_message_dc (Raw k) r mt 69 tok maxre s HI)) as (A & B & C). auto.
  - destruct (From _ _ (dispatch_message_dc r mtype 0 mid 0 s HI)) as (A & B & C). auto.
  - destruct (From _ _ (dispatch_message_dc r mtype 69 mid tok s HI)) as (A & B & C). auto.
  - cbn [step]. destruct (From _ _ (dispatch_error_dc r s ltac:(destruct (HI r) as (_ & _ & C); exact C))) as (A & B & C). auto.
  - unfold C14refuse.fire. destruct (min_timer (active_exchanges s)) as [x|] eqn:E; cbn [fst snd].
    + set (s0 := upd_now s (Z.max (now s) (x_due x))).
      destruct (retransmit_dc x s0) as ((N & M) & D); [apply (inv_ext s); [reflexivity|reflexivity|exact HI]|apply min_timer_in; exact E|].
      destruct (C14refuse.retransmit l x s0) as [s1 o1]. cbn [fst snd] in *. split; [|split; [intros _; exact N|intros _; exact M]].
      intros m [H|H]; [discriminate|apply D; exact H].
    + split; [intros m []|auto].
  - cbn [step fst snd]. split; [intros m []|]. unfold reqs, advance. destruct (d <? 0); [auto|].
    destruct (min_timer _) as [x|]; [destruct (x_due x <=? now s + d)|]; auto.
  - cbn [step]. destruct (outstanding q s); cbn [fst snd]; (split; [intros m H; try destruct H as [H|[]]; try discriminate; destruct H|]); [|auto].
    split; [|auto]. intros _ r en. unfold reqs, forget_request. cbn [outgoing_requests upd_out]. rewrite !filter_In. tauto.
  - cbn [step]. unfold tm_process_request. cbn [fst snd]. split; [intros m H; apply in_map_iff in H; destruct H as (? & H & _); discriminate|].
    split; [intros _ r0 en H; exact H|intros H; exfalso; apply (H k r tok mt); reflexivity].
  - destruct (From _ _ (respond_dc j k last maxre s HI)) as (A & B & C). auto. Qed.
End General.
