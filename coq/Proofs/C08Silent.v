(* C08 — once a registration has ended, no notification is produced for it any more; the only datagrams that can still
   be transmitted for it are the ones that were already waiting in the per-endpoint backlog when it ended (finding F16). *)
From Verif Require Import Lib.Py Lib.Tactics Model.C08 Proofs.C08.
Open Scope Z_scope.

Definition okreg (g : Z) (s : state) : Prop := ~ In g (map g_gid (s_regs s)) /\ g < s_gidctr s.
Definition queued_for (g : Z) (s : state) (m : msg) : Prop := In m (map fst (s_backlog s)) /\ m_gid m = g.

(* [A]: which first transmissions for [g] are tolerated *)
Record Q (A : msg -> Prop) (g : Z) (s s' : state) : Prop := {
  q_ok : okreg g s';
  q_prod : exists l, s_prod s' = l ++ s_prod s /\ Forall (fun m => m_gid m <> g) l;
  q_hist : exists h, s_hist s' = h ++ s_hist s /\ forall m, In (OSend m false) h -> m_gid m = g -> A m;
  q_backlog : forall m, queued_for g s' m -> queued_for g s m }.

Lemma Q_refl A g s : okreg g s -> Q A g s s.
Proof. intros H. constructor; [exact H | exists []; split; [reflexivity | constructor] | exists []; split; [reflexivity | intros m []] | tauto]. Qed.
Lemma Q_trans A g s1 s2 s3 : Q A g s1 s2 -> Q A g s2 s3 -> Q A g s1 s3.
Proof.
  intros [A1 [l1 [A2 A2']] [h1 [A3 A3']] A4] [B1 [l2 [B2 B2']] [h2 [B3 B3']] B4]. constructor.
  - exact B1.
  - exists (l2 ++ l1). split; [rewrite B2, A2, app_assoc; reflexivity | apply Forall_app; split; assumption].
  - exists (h2 ++ h1). split; [rewrite B3, A3, app_assoc; reflexivity|].
    intros m Hm Hg. apply in_app_iff in Hm as [Hm|Hm]; [apply B3'; assumption | apply A3'; assumption].
  - intros m Hm. apply A4, B4, Hm.
Qed.
Lemma Q_weaken (A B : msg -> Prop) g s s' : (forall m, A m -> B m) -> Q A g s s' -> Q B g s s'.
Proof. intros W [H1 H2 [h [H3 H3']] H4]. constructor; try assumption. exists h. split; [exact H3|]. intros m Hm Hg. apply W, H3'; assumption. Qed.
(* functions that touch none of regs / gidctr / prod / hist / backlog *)
Lemma Q_frame A g s s' : okreg g s -> s_regs s' = s_regs s -> s_gidctr s' = s_gidctr s -> s_prod s' = s_prod s ->
  s_hist s' = s_hist s -> s_backlog s' = s_backlog s -> Q A g s s'.
Proof. intros [H1 H2] E1 E2 E3 E4 E5. constructor.
  - unfold okreg. rewrite E1, E2. tauto.
  - exists []. split; [exact E3 | constructor].
  - exists []. split; [exact E4 | intros m []].
  - unfold queued_for. rewrite E5. tauto. Qed.

Ltac qframe := apply Q_frame; [assumption | reflexivity ..].

Lemma Q_log_other A g s o : okreg g s -> (forall m, o <> OSend m false) -> Q A g s (log s o).
Proof. intros H Ho. constructor; fsimpl.
  - exact H.
  - exists []. split; [reflexivity | constructor].
  - exists [o]. split; [reflexivity|]. intros m [Hm|[]] _. exfalso. apply (Ho m). exact Hm.
  - tauto. Qed.
Lemma Q_send_via A g s m rt : okreg g s -> (rt = true \/ m_gid m <> g \/ A m) -> Q A g s (send_via_transport s m rt).
Proof. intros H Hm. unfold send_via_transport. constructor; fsimpl.
  - exact H.
  - exists []. split; [reflexivity | constructor].
  - exists [OSend m rt]. split; [reflexivity|]. intros m' [E|[]] Hg. inversion E; subst. destruct Hm as [Hm|[Hm|Hm]]; [discriminate | contradiction | exact Hm].
  - tauto. Qed.
Lemma Q_store A g s m : okreg g s -> Q A g s (store_response_for_duplicates s m).
Proof. intros H. unfold store_response_for_duplicates. destruct (m_mtype m); try (apply Q_refl; assumption); qframe. Qed.
Lemma Q_add_exchange A g s m x : okreg g s -> Q A g s (add_exchange s m x).
Proof. intros H. qframe. Qed.
Lemma Q_send_initially A g s m x rt : okreg g s -> (rt = true \/ m_gid m <> g \/ A m) -> Q A g s (send_initially s m x rt).
Proof.
  intros H Hm. unfold send_initially.
  set (s1 := match m_mtype m with CON => add_exchange s m x | _ => s end).
  assert (Q1 : Q A g s s1). { subst s1. destruct (m_mtype m); try (apply Q_refl; assumption). apply Q_add_exchange. assumption. }
  eapply Q_trans; [exact Q1|]. eapply Q_trans; [apply Q_store; apply Q1|].
  apply Q_send_via; [apply (q_ok _ _ _ _ (Q_store A g s1 m (q_ok _ _ _ _ Q1))) | exact Hm].
Qed.
Lemma Q_set_prod A g s m : okreg g s -> m_gid m <> g -> Q A g s (set_prod s (m :: s_prod s)).
Proof. intros H Hm. constructor; fsimpl; [exact H | exists [m]; split; [reflexivity | constructor; [exact Hm | constructor]] | exists []; split; [reflexivity | intros ? []] | tauto]. Qed.
Lemma Q_send_message A g s m c x : okreg g s -> m_gid m <> g -> Q A g s (send_message s m c x).
Proof.
  intros H Hm. unfold send_message. destruct (piggy_find s (m_remote m) (m_token m)) as [mid|].
  - set (s1 := cancel_timers _ _). assert (Q1 : Q A g s s1) by (subst s1; qframe).
    set (m1 := set_type_mid m ACK mid). assert (Hm1 : m_gid m1 <> g) by exact Hm.
    eapply Q_trans; [exact Q1|]. eapply Q_trans; [apply (Q_set_prod A g s1 m1); [apply Q1 | exact Hm1]|].
    apply Q_send_initially; [|right; left; exact Hm1]. apply (q_ok _ _ _ _ (Q_set_prod A g s1 m1 (q_ok _ _ _ _ Q1) Hm1)).
  - set (t := if s_down s then NON else if c then CON else NON).
    set (s1 := set_mid s _). assert (Q1 : Q A g s s1) by (subst s1; qframe).
    set (m1 := set_type_mid m t (s_mid s)). assert (Hm1 : m_gid m1 <> g) by exact Hm.
    assert (Q2 : Q A g s (set_prod s1 (m1 :: s_prod s1))). { eapply Q_trans; [exact Q1 | apply Q_set_prod; [apply Q1 | exact Hm1]]. }
    assert (Q3 : Q A g s (send_initially (set_prod s1 (m1 :: s_prod s1)) m1 x false)).
    { eapply Q_trans; [exact Q2 | apply Q_send_initially; [apply Q2 | right; left; exact Hm1]]. }
    destruct t; try exact Q3.
    destruct (has_exchange _ _); [|exact Q3].
    eapply Q_trans; [exact Q2|]. destruct Q2 as [Qa _ _ _]. constructor; fsimpl.
    + exact Qa.
    + exists []. split; [reflexivity | constructor].
    + exists []. split; [reflexivity | intros ? []].
    + unfold queued_for. fsimpl. intros m' [Hi Hg]. rewrite map_app in Hi. apply in_app_iff in Hi as [Hi|[Hi|[]]]; [tauto|].
      cbn in Hi. subst m'. contradiction.
Qed.
Lemma drop_incl (r : Z) (l : list (msg * Z)) x :
  In x ((fix drop l := match l with [] => [] | e :: l' => if m_remote (fst e) =? r then l' else e :: drop l' end) l) -> In x l.
Proof. induction l as [|e l IH]; [tauto|]. destruct (m_remote (fst e) =? r); cbn; [tauto|]. intros [H|H]; [tauto | right; apply IH; exact H]. Qed.
(* what leaves the backlog was in the backlog *)
Lemma Q_continue_backlog g s r : okreg g s -> Q (queued_for g s) g s (continue_backlog s r).
Proof.
  intros H. unfold continue_backlog. destruct (has_exchange s r); [apply Q_refl; exact H|].
  destruct (find _ (s_backlog s)) as [[m x]|] eqn:E; [|apply Q_refl; exact H].
  apply find_some in E as [E _].
  set (s1 := set_backlog s _).
  assert (Q1 : Q (queued_for g s) g s s1).
  { subst s1. constructor; fsimpl; [exact H | exists []; split; [reflexivity | constructor] | exists []; split; [reflexivity | intros ? []]|].
    unfold queued_for. fsimpl. intros m' [Hi Hg]. split; [|exact Hg]. apply in_map_iff in Hi as [e [He Hi]]. apply drop_incl in Hi.
    apply in_map_iff. exists e. tauto. }
  eapply Q_trans; [exact Q1|]. apply Q_send_initially; [apply Q1|].
  destruct (Z.eq_dec (m_gid m) g) as [Hg|Hg]; [|right; left; exact Hg].
  right. right. split; [|exact Hg]. apply in_map_iff. exists (m, x). split; [reflexivity | exact E].
Qed.
Lemma Q_purge_backlog A g s r : okreg g s -> Q A g s (purge_backlog s r).
Proof. intros H. constructor; fsimpl; [exact H | exists []; split; [reflexivity | constructor] | exists []; split; [reflexivity | intros ? []]|].
  unfold queued_for, purge_backlog. fsimpl. intros m [Hi Hg]. split; [|exact Hg]. apply in_map_iff in Hi as [e [He Hi]].
  apply filter_In in Hi as [Hi _]. apply in_map_iff. exists e. tauto. Qed.

(* registration bookkeeping: nothing is sent, live gids only shrink *)
Lemma Q_regs_shrink A g s s' : okreg g s -> (forall x, In x (map g_gid (s_regs s')) -> In x (map g_gid (s_regs s))) ->
  s_gidctr s' = s_gidctr s -> s_prod s' = s_prod s -> (exists h, s_hist s' = h ++ s_hist s /\ forall m, ~ In (OSend m false) h) ->
  s_backlog s' = s_backlog s -> Q A g s s'.
Proof. intros [H1 H2] E1 E2 E3 [h [E4 E4']] E5. constructor.
  - split; [intros Hi; apply H1, E1, Hi | rewrite E2; exact H2].
  - exists []. split; [exact E3 | constructor].
  - exists h. split; [exact E4|]. intros m Hm. exfalso. apply (E4' m Hm).
  - unfold queued_for. rewrite E5. tauto. Qed.
Lemma Q_put_reg A g s g' : okreg g s -> Q A g s (put_reg s g').
Proof. intros H. apply Q_regs_shrink; try reflexivity; [exact H | | exists []; split; [reflexivity | intros m []]].
  unfold put_reg. fsimpl. rewrite map_gid_put. tauto. Qed.
Lemma Q_remove_reg A g s x : okreg g s -> Q A g s (remove_reg s x).
Proof. intros H. apply Q_regs_shrink; try reflexivity; [exact H | | exists []; split; [reflexivity | intros m []]].
  unfold remove_reg. fsimpl. rewrite map_gid_filter. intros y Hy. apply In_rm in Hy. tauto. Qed.
Lemma Q_cancel_cb A g s x : okreg g s -> Q A g s (cancel_cb s x).
Proof. intros H. apply Q_regs_shrink; try reflexivity; [exact H | tauto|].
  eexists [_]. split; [reflexivity|]. intros m [Hm|[]]. discriminate. Qed.
Lemma Q_stop A g s x : okreg g s -> Q A g s (stop s x).
Proof. intros H. unfold stop. destruct (find_reg s x); [|apply Q_refl; exact H].
  eapply Q_trans; [apply Q_remove_reg; exact H|]. apply Q_frame; try reflexivity. apply (q_ok _ _ _ _ (Q_remove_reg A g s x H)). Qed.
Lemma Q_fold_stop A g l : forall s, okreg g s -> Q A g s (fold_left stop l s).
Proof. induction l as [|x l IH]; intros s H; cbn [fold_left]; [apply Q_refl; exact H|].
  eapply Q_trans; [apply Q_stop; exact H | apply IH; apply (q_ok _ _ _ _ (Q_stop A g s x H))]. Qed.
Lemma Q_flush A g s : okreg g s -> Q A g s (flush_cancels s).
Proof. intros H. unfold flush_cancels.
  assert (G : forall l s0, okreg g s0 -> Q A g s0 (fold_left cancel_cb l s0)).
  { induction l as [|x l IH]; intros s0 H0; cbn [fold_left]; [apply Q_refl; exact H0|].
    eapply Q_trans; [apply Q_cancel_cb; exact H0 | apply IH; apply (q_ok _ _ _ _ (Q_cancel_cb A g s0 x H0))]. }
  eapply Q_trans; [apply G; exact H|]. apply Q_frame; try reflexivity. apply (q_ok _ _ _ _ (G _ _ H)). Qed.

Lemma Q_emit A g s g' code o pk pv : okreg g s -> g_gid g' <> g -> Q A g s (emit s g' code o pk pv).
Proof. intros H Hg. apply Q_send_message; assumption. Qed.

Lemma Q_after_response A g cont s g' res : okreg g s -> g_gid g' <> g ->
  (forall s' g'', okreg g s' -> g_gid g'' = g_gid g' -> Q A g s' (cont s' g'')) ->
  Q A g s (after_response cont s g' res).
Proof.
  intros H Hg Hc. unfold after_response. destruct res as [code pk pv|code pk pv].
  - destruct (g_late g' || negb (successful code)).
    + assert (Q1 : Q A g s (emit s g' code None pk pv)) by (apply Q_emit; assumption).
      eapply Q_trans; [exact Q1|]. eapply Q_trans; [apply Q_remove_reg; apply Q1|].
      apply Q_cancel_cb. apply (q_ok A _ _ _ (Q_remove_reg A g _ (g_gid g') (q_ok _ _ _ _ Q1))).
    + set (g1 := set_next g' (g_next g' + 1)). assert (Hg1 : g_gid g1 <> g) by exact Hg.
      eapply Q_trans; [apply Q_emit; [exact H | exact Hg1]|]. apply Hc; [|reflexivity].
      apply (q_ok A _ _ _ (Q_emit A g s g1 code (Some (g_next g1)) pk pv H Hg1)).
  - assert (Q1 : Q A g s (cancel_cb s (g_gid g'))) by (apply Q_cancel_cb; exact H).
    assert (Q2 : Q A g s (emit (cancel_cb s (g_gid g')) g' code None pk pv)) by (eapply Q_trans; [exact Q1 | apply Q_emit; [apply Q1 | exact Hg]]).
    eapply Q_trans; [exact Q2 | apply Q_remove_reg; apply Q2].
Qed.
Lemma Q_run_loop A g fuel : forall s g', okreg g s -> g_gid g' <> g -> Q A g s (run_loop fuel s g').
Proof.
  induction fuel as [|f IH]; intros s g' H Hg; cbn [run_loop]; [apply Q_put_reg; exact H|].
  destruct (g_trig g') as [tv|]; [|apply Q_put_reg; exact H].
  destruct tv as [|code k].
  - eapply Q_trans; [apply (Q_log_other A g s (ORender (g_gid (set_trig g' None (g_late g'))) (s_version s))); [exact H | discriminate]|].
    set (s1 := log s _). assert (O1 : okreg g s1) by exact H.
    destruct (s_gate s1); [apply Q_put_reg; exact O1|].
    apply Q_after_response; [exact O1 | exact Hg|]. intros s' g'' Hs' Hg''. apply IH; [exact Hs' | rewrite Hg''; exact Hg].
  - apply Q_after_response; [exact H | exact Hg|]. intros s' g'' Hs' Hg''. apply IH; [exact Hs' | rewrite Hg''; exact Hg].
Qed.
Lemma Q_first_render_done A g s g' res : okreg g s -> g_gid g' <> g -> Q A g s (first_render_done s g' res).
Proof.
  intros H Hg. unfold first_render_done. destruct res as [code pk pv|code pk pv].
  - destruct (negb (successful code)).
    + assert (Q1 : Q A g s (emit s g' code None pk pv)) by (apply Q_emit; assumption).
      eapply Q_trans; [exact Q1|]. eapply Q_trans; [apply Q_remove_reg; apply Q1|].
      apply Q_cancel_cb. apply (q_ok A _ _ _ (Q_remove_reg A g _ (g_gid g') (q_ok _ _ _ _ Q1))).
    + set (g1 := set_next g' 0). assert (Hg1 : g_gid g1 <> g) by exact Hg.
      eapply Q_trans; [apply Q_emit; [exact H | exact Hg1]|]. apply Q_run_loop; [|exact Hg1].
      apply (q_ok A _ _ _ (Q_emit A g s g1 code (Some 0) pk pv H Hg1)).
  - assert (Q1 : Q A g s (cancel_cb s (g_gid g'))) by (apply Q_cancel_cb; exact H).
    assert (Q2 : Q A g s (emit (cancel_cb s (g_gid g')) g' code None pk pv)) by (eapply Q_trans; [exact Q1 | apply Q_emit; [apply Q1 | exact Hg]]).
    eapply Q_trans; [exact Q2 | apply Q_remove_reg; apply Q2].
Qed.
Lemma Q_accept A g s r tok con : okreg g s -> Q A g s (accept s r tok con).
Proof.
  intros [H1 H2]. unfold accept.
  set (g' := mkreg r tok (s_gidctr s) con PWait (-1) None false).
  match goal with |- context [if s_gate ?x then _ else _] => set (s2 := x) end.
  assert (Hg : g_gid g' <> g) by (unfold g'; cbn [g_gid]; lia).
  assert (Q2 : Q A g s s2).
  { subst s2. constructor; fsimpl.
    - unfold okreg. fsimpl. split; [|lia]. rewrite map_app, in_app_iff. cbn. intros [Hi|[Hi|[]]]; [tauto | lia].
    - exists []. split; [reflexivity | constructor].
    - eexists [_; _]. split; [reflexivity|]. intros m [Hm|[Hm|[]]]; discriminate.
    - tauto. }
  destruct (s_gate s2).
  - eapply Q_trans; [exact Q2 | apply Q_put_reg; apply Q2].
  - eapply Q_trans; [exact Q2 | apply Q_first_render_done; [apply Q2 | exact Hg]].
Qed.
Lemma Q_plain A g s r tok con : okreg g s -> 0 <= g -> Q A g s (plain s r tok con).
Proof. intros H Hg. unfold plain.
  eapply Q_trans; [apply (Q_log_other A g s (ORender (-1) (s_version s))); [exact H | discriminate]|].
  set (s1 := log s _). assert (O1 : okreg g s1) by exact H.
  destruct (render_outcome _ _); apply Q_send_message; try exact O1; cbn; lia. Qed.
Lemma Q_process_request A g s r con tok obs : okreg g s -> 0 <= g -> Q A g s (process_request s r con tok obs).
Proof.
  intros H Hg. unfold process_request.
  set (s1 := match find_key s r tok with Some g0 => stop s (g_gid g0) | None => s end).
  assert (Q1 : Q A g s s1) by (subst s1; destruct (find_key s r tok); [apply Q_stop | apply Q_refl]; exact H).
  assert (Q2 : Q A g s (flush_cancels s1)) by (eapply Q_trans; [exact Q1 | apply Q_flush; apply Q1]).
  destruct obs as [[| |]|]; try (eapply Q_trans; [exact Q2 | apply Q_plain; [apply Q2 | exact Hg]]).
  eapply Q_trans; [exact Q2 | apply Q_accept; apply Q2].
Qed.
Lemma Q_remove_exchange g s r mid b : okreg g s -> Q (queued_for g s) g s (remove_exchange s r mid b).
Proof.
  intros H. unfold remove_exchange. destruct (find _ (s_exch s)) as [x|]; [|apply Q_refl; exact H].
  set (s1 := cancel_timers _ _). assert (Q1 : Q (queued_for g s) g s s1) by (subst s1; qframe).
  set (s2 := if b then stop s1 (x_gid x) else s1).
  assert (Q2 : Q (queued_for g s) g s s2).
  { subst s2. destruct b; [|exact Q1]. eapply Q_trans; [exact Q1 | apply Q_stop; apply Q1]. }
  eapply Q_trans; [exact Q2|]. eapply Q_weaken; [|apply Q_continue_backlog; apply Q2].
  intros m Hm. apply (q_backlog _ _ _ _ Q2). exact Hm.
Qed.
Lemma Q_stop_remote A g s r : okreg g s -> Q A g s (stop_remote s r).
Proof. intros H. apply Q_fold_stop. exact H. Qed.
Lemma Q_dispatch_error A g s r : okreg g s -> Q A g s (dispatch_error s r).
Proof. intros H. unfold dispatch_error. destruct (s_down s); [apply Q_refl; exact H|].
  set (s1 := stop_remote s r). assert (Q1 : Q A g s s1) by (apply Q_stop_remote; exact H).
  set (s2 := cancel_timers _ _). assert (Q2 : Q A g s s2). { eapply Q_trans; [exact Q1|]. subst s2. apply Q_frame; try reflexivity. apply Q1. }
  eapply Q_trans; [exact Q2 | apply Q_purge_backlog; apply Q2]. Qed.
Lemma Q_fire A g s k : okreg g s -> 0 <= g -> Q A g s (fire s k).
Proof.
  intros H Hg. destruct k as [r tok|m t c|r mid]; cbn [fire].
  - destruct (piggy_find s r tok); [|apply Q_refl; exact H].
    set (s1 := piggy_remove s r tok). assert (Q1 : Q A g s s1) by (subst s1; qframe).
    eapply Q_trans; [exact Q1 | apply Q_send_initially; [apply Q1 | right; left; cbn; lia]].
  - unfold retransmit. destruct (c <? MAX_RETRANSMIT).
    + eapply Q_trans; [apply Q_send_via; [exact H | left; reflexivity]|].
      apply Q_frame; try reflexivity. apply (q_ok A _ _ _ (Q_send_via A g s m true H (or_introl eq_refl))).
    + set (s1 := set_exch s _). assert (Q1 : Q A g s s1) by (subst s1; qframe).
      eapply Q_trans; [exact Q1|]. eapply Q_trans; [apply Q_purge_backlog; apply Q1|].
      apply Q_stop_remote. apply (q_ok A _ _ _ (Q_purge_backlog A g s1 _ (q_ok _ _ _ _ Q1))).
  - qframe.
Qed.
Lemma Q_advance A g fuel : forall s t, okreg g s -> 0 <= g -> Q A g s (advance fuel s t).
Proof.
  induction fuel as [|f IH]; intros s t H Hg; cbn [advance]; [apply Q_refl; exact H|].
  destruct (min_timer (s_timers s)) as [tm|]; [|apply Q_refl; exact H].
  destruct (t_due tm <=? t); [|apply Q_refl; exact H].
  set (s1 := set_now _ _). assert (Q1 : Q A g s s1) by (subst s1; qframe).
  assert (Q2 : Q A g s (fire s1 (t_kind tm))) by (eapply Q_trans; [exact Q1 | apply Q_fire; [apply Q1 | exact Hg]]).
  assert (Q3 : Q A g s (flush_cancels (fire s1 (t_kind tm)))) by (eapply Q_trans; [exact Q2 | apply Q_flush; apply Q2]).
  eapply Q_trans; [exact Q3 | apply IH; [apply Q3 | exact Hg]].
Qed.
Lemma Q_trigger A g s x tv l : okreg g s -> Q A g s (trigger s x tv l).
Proof. intros H. unfold trigger. destruct (find_reg s x); [apply Q_put_reg | apply Q_refl]; exact H. Qed.
Lemma Q_trigger_burst A g order burst : forall s, okreg g s -> Q A g s (trigger_burst order burst s).
Proof.
  unfold trigger_burst. induction burst as [|tb bs IH]; intros s H; cbn [fold_left]; [apply Q_refl; exact H|].
  set (s1 := set_version s (s_version s + 1)). assert (Q1 : Q A g s s1) by (subst s1; qframe).
  assert (G : forall l s0, okreg g s0 -> Q A g s0 (fold_left (fun s2 gid => trigger s2 gid (fst tb) (snd tb)) l s0)).
  { induction l as [|x l IHl]; intros s0 H0; cbn [fold_left]; [apply Q_refl; exact H0|].
    eapply Q_trans; [apply Q_trigger; exact H0 | apply IHl; apply (q_ok A _ _ _ (Q_trigger A g s0 x _ _ H0))]. }
  eapply Q_trans; [exact Q1|]. eapply Q_trans; [apply G; apply Q1 | apply IH; apply (q_ok A _ _ _ (G order s1 (q_ok _ _ _ _ Q1)))].
Qed.
Lemma Q_wake A g l : forall s, okreg g s -> Q A g s (wake l s).
Proof.
  unfold wake. induction l as [|x l IH]; intros s H; cbn [fold_left]; [apply Q_refl; exact H|].
  assert (Q1 : Q A g s (match find_reg s x with Some g0 => run_loop 2 s g0 | None => s end)).
  { destruct (find_reg s x) as [g0|] eqn:E; [|apply Q_refl; exact H]. apply Q_run_loop; [exact H|].
    intros Hg. apply find_reg_gids in E. rewrite Hg in E. destruct H as [H _]. contradiction. }
  eapply Q_trans; [exact Q1 | apply IH; apply Q1].
Qed.

(* one event: an ended registration stays ended, nothing is produced for it, and only datagrams that were waiting in the
   backlog can still be transmitted for it; its share of the backlog never grows *)
Lemma silent_step s e g : 0 <= g -> okreg g s -> Q (queued_for g s) g s (step s e).
Proof.
  intros Hg H. destruct e; cbn [step].
  - destruct (s_down s); [apply Q_refl; exact H|]. destruct (in_recent s r mid) as [st|].
    + destruct con; [|apply Q_refl; exact H]. destruct st; [|apply Q_refl; exact H]. apply Q_send_initially; [exact H | left; reflexivity].
    + set (s1 := set_recent _ _). assert (Q1 : Q (queued_for g s) g s s1) by (subst s1; qframe).
      match goal with |- Q _ _ _ (flush_cancels (process_request ?x _ _ _ _)) => set (s2 := x) end.
      assert (Q2 : Q (queued_for g s) g s s2).
      { subst s2. destruct con; [|exact Q1]. eapply Q_trans; [exact Q1|]. apply Q_frame; try reflexivity. apply Q1. }
      eapply Q_trans; [exact Q2|]. eapply Q_trans; [apply Q_process_request; [apply Q2 | exact Hg]|].
      apply Q_flush. apply (q_ok _ _ _ _ (Q_process_request (queued_for g s) g s2 r con tok obs (q_ok _ _ _ _ Q2) Hg)).
  - destruct (s_down s); [apply Q_refl; exact H|]. eapply Q_trans; [apply Q_remove_exchange; exact H|].
    apply Q_flush. apply (q_ok _ _ _ _ (Q_remove_exchange g s r mid false H)).
  - destruct (s_down s); [apply Q_refl; exact H|]. eapply Q_trans; [apply Q_remove_exchange; exact H|].
    apply Q_flush. apply (q_ok _ _ _ _ (Q_remove_exchange g s r mid true H)).
  - set (s1 := trigger_burst _ _ s). assert (Q1 : Q (queued_for g s) g s s1) by (apply Q_trigger_burst; exact H).
    match goal with |- Q _ _ _ (flush_cancels ?x) => set (s2 := x) end.
    assert (Q2 : Q (queued_for g s) g s s2).
    { subst s2. destruct burst; [exact Q1|]. eapply Q_trans; [exact Q1 | apply Q_wake; apply Q1]. }
    eapply Q_trans; [exact Q2 | apply Q_flush; apply Q2].
  - destruct (find_key s r tok) as [g0|] eqn:E; [|apply Q_refl; exact H].
    assert (Hg0 : g_gid g0 <> g).
    { intros Hx. apply find_key_In in E as [E _]. apply (in_map g_gid) in E. rewrite Hx in E. destruct H as [H _]. contradiction. }
    destruct (g_phase g0); [| apply Q_refl; exact H |].
    + eapply Q_trans; [apply Q_first_render_done; [exact H | exact Hg0]|]. apply Q_flush.
      apply (q_ok _ _ _ _ (Q_first_render_done (queued_for g s) g s g0 _ H Hg0)).
    + assert (QQ : Q (queued_for g s) g s (after_response (run_loop 2) s g0 (render_outcome (s_mode s) v))).
      { apply Q_after_response; [exact H | exact Hg0|]. intros s' g'' Hs' Hg''. apply Q_run_loop; [exact Hs' | rewrite Hg''; exact Hg0]. }
      eapply Q_trans; [exact QQ | apply Q_flush; apply QQ].
  - qframe.
  - qframe.
  - set (s1 := advance _ _ _). assert (Q1 : Q (queued_for g s) g s s1) by (apply Q_advance; assumption).
    eapply Q_trans; [exact Q1|]. apply Q_frame; try reflexivity. apply Q1.
  - eapply Q_trans; [apply Q_dispatch_error; exact H|]. apply Q_flush. apply (q_ok _ _ _ _ (Q_dispatch_error (queued_for g s) g s r H)).
  - destruct (s_down s); [apply Q_refl; exact H|].
    set (s1 := fold_left stop _ s). assert (Q1 : Q (queued_for g s) g s s1) by (apply Q_fold_stop; exact H).
    match goal with |- Q _ _ _ (flush_cancels ?x) => set (s2 := x) end.
    assert (Q2 : Q (queued_for g s) g s s2).
    { eapply Q_trans; [exact Q1|]. subst s2. apply Q_frame; try reflexivity. apply Q1. }
    eapply Q_trans; [exact Q2 | apply Q_flush; apply Q2].
Qed.

(* over whole histories: the first transmissions for [g] after the end are a subset of what was queued at the end, and
   nothing is produced for it; in particular, ended with nothing queued means silence for ever *)
Lemma silent_run : forall es s g, 0 <= g -> okreg g s ->
  okreg g (run s es) /\
  (exists l, s_prod (run s es) = l ++ s_prod s /\ Forall (fun m => m_gid m <> g) l) /\
  (exists h, s_hist (run s es) = h ++ s_hist s /\ forall m, In (OSend m false) h -> m_gid m = g -> queued_for g s m).
Proof.
  induction es as [|e es IH]; intros s g Hg H; cbn [run fold_left].
  - split; [exact H | split; [exists []; split; [reflexivity | constructor] | exists []; split; [reflexivity | intros m []]]].
  - destruct (silent_step s e g Hg H) as [A1 [l [A2 A2']] [h [A3 A3']] A4].
    destruct (IH (step s e) g Hg A1) as [B1 [[l2 [B2 B2']] [h2 [B3 B3']]]]. unfold run in *.
    split; [exact B1 | split].
    + exists (l2 ++ l). split; [rewrite B2, A2, app_assoc; reflexivity | apply Forall_app; split; assumption].
    + exists (h2 ++ h). split; [rewrite B3, A3, app_assoc; reflexivity|].
      intros m Hm Hgm. apply in_app_iff in Hm as [Hm|Hm]; [apply A4, B3'; assumption | apply A3'; assumption].
Qed.
