(* C14 — round 6: the remote itself is refused.  With r refused and a queue q waiting behind r's open exchange, every event
   either leaves the queue as it is (new confirmable submissions appended) or discards all of it; nothing is handed to the
   transport successfully for r. *)
From Verif Require Import Lib.Tactics Model.C14 Model.C14refuse Proofs.C14 Proofs.C14step Proofs.C14req Proofs.C14refuse Proofs.C14live Proofs.C14gen.
Import ListNotations.
Open Scope Z_scope.

Definition notx (o : list output) : Prop := forall m b, ~ In (Tx m b) o.
Definition Gone (r : Z) (q : list msg) (s' : st) (o : list output) : Prop :=
  aget r (backlogs s') = None /\ exs r s' = [] /\ forall m, In m q -> In m (left r o).

Lemma notx_app a b : notx a -> notx b -> notx (a ++ b).
Proof. intros A B m x H. apply in_app_or in H. destruct H; [exact (A m x H)|exact (B m x H)]. Qed.
Lemma notx_neutral_kind o : (forall x, In x o -> match x with Tx _ _ => False | _ => True end) -> notx o.
Proof. intros H m b Hi. exact (H _ Hi). Qed.

Section Refused.
Variable l : list Z.
Variable r : Z.
Hypothesis Href : refuses l r = true.

Lemma refused_send what s q : Inv s -> aget r (backlogs s) = Some q -> (forall m b, what <> Tx m b \/ True) ->
  let s' := fst (send_via_transport l what r s) in let o := snd (send_via_transport l what r s) in
  Inv s' /\ Gone r q s' o /\ notx o.
Proof. intros HI Ha _. cbn zeta. unfold send_via_transport. rewrite Href.
  pose proof (dispatch_error_trans r s HI) as (HI' & _). pose proof (dispatch_error_failed r s q HI Ha) as (F1 & _ & _ & F4 & _ & F6 & F7 & _).
  destruct (dispatch_error r s) as [s1 o1]. cbn [fst snd] in *. split; [exact HI'|]. split.
  - split; [exact F6|]. split; [exact F7|]. intros m Hm. rewrite left_app. apply in_or_app. right. rewrite F1. exact Hm.
  - apply notx_app; [|exact F4]. intros m b H. destruct what; cbn in H; try contradiction. destruct retr; cbn in H; [contradiction|]. destruct H as [H|[]]. discriminate. Qed.

Lemma refused_send_clean what s : Inv s -> aget r (backlogs s) = None -> neutral what = true ->
  let s' := fst (send_via_transport l what r s) in let o := snd (send_via_transport l what r s) in
  Inv s' /\ aget r (backlogs s') = None /\ exs r s' = [] /\ left r o = [] /\ subm r o = [] /\ notx o.
Proof. intros HI Ha Hn. cbn zeta. unfold send_via_transport. rewrite Href.
  pose proof (dispatch_error_trans r s HI) as (HI' & _). pose proof (dispatch_error_no_subm r s r) as Hs.
  replace (refused_ghost what) with (@nil output) by (destruct what; try reflexivity; destruct retr; [reflexivity|discriminate]). cbn [app].
  unfold dispatch_error in *. destruct (tm_dispatch_error_spec NetworkError r s) as (_ & B & Hnn & T1 & _). cbn zeta in *.
  destruct (tm_dispatch_error NetworkError r s) as [s1 o1]. cbn [fst snd backlogs upd_ex upd_bl] in *. rewrite B, Ha in *. cbn [map] in *. rewrite app_nil_r in *.
  split; [exact HI'|]. split; [apply aget_adel_same|]. split; [unfold exs; cbn [active_exchanges upd_bl upd_ex]; rewrite filter_drop_remote, Z.eqb_refl; reflexivity|].
  destruct (neutral_logs r o1 Hnn) as (N1 & N2 & _). split; [exact N2|]. split; [exact N1|]. intros m b H. exact (T1 m b H). Qed.
Lemma continue_backlog_refused s q : exs r s = [] -> aget r (backlogs s) = Some q -> Forall (fun m => con_to r m = true) q ->
  (forall r', r' <> r -> Good s r') ->
  let s' := fst (C14refuse.continue_backlog l r s) in let o := snd (C14refuse.continue_backlog l r s) in
  Inv s' /\ Gone r q s' o /\ notx o.
Proof. intros Hz Ha Hq HI. cbn zeta. unfold C14refuse.continue_backlog. rewrite Ha. cbn [C14refuse.continue_backlog_loop].
  rewrite has_exchange_exs. unfold count_r. rewrite Hz, Ha. cbn [length Nat.eqb negb].
  destruct q as [|m q'].
  - pose proof (release_trans r s [] Hz Ha Hq HI) as (A & _). unfold release, backlog_of in A. rewrite Ha in A. cbn [fst snd] in *.
    split; [exact A|]. split; [|intros ? ? []]. split; [cbn; apply aget_adel_same|]. split; [exact Hz|intros ? []].
  - apply Forall_cons_iff in Hq. destruct Hq as [Hm Hq']. assert (Hr : m_remote m = r) by (unfold con_to in Hm; lia).
    set (s0 := upd_bl s (aset r q' (backlogs s))).
    assert (Hsa : Inv (add_exchange m s0) /\ aget r (backlogs (add_exchange m s0)) = Some q').
    { split.
      - apply add_exchange_good.
        + rewrite Hr. exact Hz.
        + rewrite Hr. unfold backlog_of, s0. cbn [backlogs upd_bl]. rewrite aget_aset_same. exact Hq'.
        + rewrite Hr. intros r' Hne. apply (good_ext s); [reflexivity|unfold s0; cbn; apply aget_aset_other; assumption|apply HI; assumption].
      - rewrite add_exchange_bl, Hr. unfold in_backlogs, s0. cbn [backlogs upd_bl]. rewrite aget_aset_same. apply aget_aset_same. }
    destruct Hsa as (HIa & Haa).
    unfold C14refuse.send_initially. replace (m_mtype m =? 0) with true by (unfold con_to in Hm; lia). rewrite Hr.
    pose proof (refused_send (Tx m false) (add_exchange m s0) q' HIa Haa (fun _ _ => or_intror I)) as (A & (G1 & G2 & G3) & N). cbn zeta in *.
    assert (Hgh : In m (left r (snd (send_via_transport l (Tx m false) r (add_exchange m s0))))).
    { unfold send_via_transport. rewrite Href. destruct (dispatch_error r (add_exchange m s0)) as [sx ox]. cbn [snd refused_ghost app].
      unfold left. cbn [flat_map left_o]. rewrite Hm. left. reflexivity. }
    destruct (send_via_transport l (Tx m false) r (add_exchange m s0)) as [s1 o1]. cbn [fst snd] in *.
    cbn [length]. rewrite (loop_stops l (length q') r s1 A). cbn [fst snd]. rewrite app_nil_r.
    split; [exact A|]. split; [|exact N]. split; [exact G1|]. split; [exact G2|]. intros m' [<-|H]; [exact Hgh|apply G3; exact H]. Qed.

Lemma call_monitor_notx m s : notx (snd (call_monitor m s)).
Proof. unfold call_monitor, stop_responder. intros m' b H. destruct (m_sub m); [destruct (existsb _ _)| |destruct (alive _ _)]; cbn in H; intuition discriminate. Qed.

Lemma remove_exchange_refused mid mt s x q : Inv s -> xget r mid (active_exchanges s) = Some x -> aget r (backlogs s) = Some q ->
  let s' := fst (C14refuse.remove_exchange l r mid mt s) in let o := snd (C14refuse.remove_exchange l r mid mt s) in
  Inv s' /\ Gone r q s' o /\ notx o /\ subm r o = [].
Proof. intros HI Ex Ha. cbn zeta. unfold C14refuse.remove_exchange. rewrite Ex.
  destruct (xget_some _ _ _ _ Ex) as (Hin & Hr & Hm).
  set (s1 := upd_ex s (xdel r mid (active_exchanges s))).
  destruct (inv_count_aget s r HI) as [[Hc _]|(x0 & q0 & Hx & Ha0 & Hq)].
  { exfalso. pose proof (in_exs r s x Hin Hr) as Hi. rewrite (count0_exs r s Hc) in Hi. exact Hi. }
  rewrite Ha in Ha0. injection Ha0 as Hqq. subst q0.
  assert (Hz1 : exs r s1 = []).
  { unfold s1. rewrite exs_upd_ex. apply (filter_xdel_same r mid _ x); [fold (exs r s); rewrite Hx; cbn; lia|exact Hin|unfold key_eqb; lia]. }
  set (mon := if mt =? 3 then call_monitor (x_msg x) s1 else (s1, [])).
  assert (Hmon : active_exchanges (fst mon) = active_exchanges s1 /\ backlogs (fst mon) = backlogs s1 /\ forallb neutral (snd mon) = true /\ notx (snd mon)).
  { unfold mon. destruct (mt =? 3); [destruct (call_monitor_frame (x_msg x) s1) as (A & B & C); repeat split; try assumption; apply call_monitor_notx|cbn; repeat split; intros ? ? []]. }
  destruct mon as [s2 o2]. cbn [fst snd] in Hmon. destruct Hmon as (He2 & Hb2 & Hn2 & Hx2).
  assert (Hz2 : exs r s2 = []) by (unfold exs; rewrite He2; exact Hz1).
  assert (Ha2 : aget r (backlogs s2) = Some q) by (rewrite Hb2; exact Ha).
  pose proof (continue_backlog_refused s2 q Hz2 Ha2 Hq) as C. cbn zeta in C.
  destruct C as (A & (G1 & G2 & G3) & N).
  { intros r' Hne. apply (good_ext s); [unfold exs; rewrite He2; unfold s1; cbn [active_exchanges upd_ex]; apply filter_xdel_other; assumption|rewrite Hb2; reflexivity|apply HI]. }
  assert (Hsub : subm r (snd (C14refuse.continue_backlog l r s2)) = []).
  { unfold C14refuse.continue_backlog. rewrite Ha2. cbn [C14refuse.continue_backlog_loop]. rewrite has_exchange_exs. unfold count_r. rewrite Hz2, Ha2. cbn [length Nat.eqb negb].
    destruct q as [|m0 q']; [reflexivity|]. unfold C14refuse.send_initially, send_via_transport.
    apply Forall_cons_iff in Hq. destruct Hq as [Hm0 _]. replace (m_remote m0) with r by (unfold con_to in Hm0; lia). rewrite Href.
    match goal with |- context [dispatch_error r ?ss] => pose proof (dispatch_error_no_subm r ss r) as Hs; pose proof (dispatch_error_trans r ss) as Ht; destruct (dispatch_error r ss) as [sx ox] end.
    cbn [fst snd] in *. assert (HIx : Inv sx).
    { apply Ht. replace (m_mtype m0 =? 0) with true by (unfold con_to in Hm0; lia). apply add_exchange_good.
      - replace (m_remote m0) with r by (unfold con_to in Hm0; lia). exact Hz2.
      - replace (m_remote m0) with r by (unfold con_to in Hm0; lia). unfold backlog_of. cbn [backlogs upd_bl]. rewrite aget_aset_same.
        destruct (HI r) as (_ & _ & C0). unfold backlog_of in C0. rewrite Ha in C0. apply Forall_cons_iff in C0. exact (proj2 C0).
      - replace (m_remote m0) with r by (unfold con_to in Hm0; lia). intros r' Hne. apply (good_ext s2); [reflexivity|cbn; apply aget_aset_other; assumption|].
        apply (good_ext s); [unfold exs; rewrite He2; unfold s1; cbn [active_exchanges upd_ex]; apply filter_xdel_other; assumption|rewrite Hb2; reflexivity|apply HI]. }
    cbn [length]. rewrite (loop_stops l (length q') r sx HIx). cbn [snd]. rewrite app_nil_r. unfold subm in *. cbn [refused_ghost app flat_map subm_o]. exact Hs. }
  destruct (C14refuse.continue_backlog l r s2) as [s3 o3]. cbn [fst snd] in *.
  destruct (neutral_logs r o2 Hn2) as (M1 & M2 & _).
  split; [exact A|]. split; [|split; [apply notx_app; assumption|rewrite subm_app, M1, Hsub; reflexivity]].
  split; [exact G1|]. split; [exact G2|]. intros m' Hm'. rewrite left_app, M2. cbn [app]. apply G3. exact Hm'. Qed.
End Refused.

(* step level, for an empty ACK / RST that ends the exchange of a refused remote: the release is refused, so the whole
   queue is discarded in that step (the scenario of finding C14-R2, now without any exception), nothing is transmitted *)
Theorem refused_release_step l r : refuses l r = true -> forall s mt mid q x, Inv s -> (mt = 2 \/ mt = 3) ->
  xget r mid (active_exchanges s) = Some x -> aget r (backlogs s) = Some q ->
  let s' := fst (step_ev l s (RecvEmpty r mt mid)) in let o := snd (step_ev l s (RecvEmpty r mt mid)) in
  Inv s' /\ aget r (backlogs s') = None /\ exs r s' = [] /\ (forall m, In m q -> In m (left r o)) /\
  (forall m b, ~ In (Tx m b) o) /\ subm r o = [].
Proof. intros Href s mt mid q x HI Hmt Ex Ha. cbn zeta. cbn [step_ev]. unfold C14refuse.dispatch_message.
  replace ((mt =? 2) || (mt =? 3)) with true by lia.
  pose proof (remove_exchange_refused l r Href mid mt s x q HI Ex Ha) as (A & (G1 & G2 & G3) & N & S). cbn zeta in *.
  pose proof (remove_exchange_gen l r mid mt s HI) as (_ & _ & C).
  destruct (C14refuse.remove_exchange l r mid mt s) as [s1 o1]. cbn [fst snd] in *.
  rewrite crashed_nocrash, C. cbn [negb]. replace (mt =? 0) with false by lia. cbn [Z.eqb fst snd]. auto 10. Qed.
