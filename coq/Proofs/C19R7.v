(* C19, round 7 — the tiling induction for a client loop: a client that fetches block after block until the M flag is
   clear, driven only by the server's answers (it does not know the file), receives payloads whose concatenation is
   exactly the file, and with a constant size exponent it sends exactly ceil(len/size) requests (1 for the empty file).
   Part A: the model's own loop [fetch_all] (constant exponent; what [IAll] runs inside [run]): request count.
   Part B: a loop whose k-th request carries its own exponent [pol k] (any non-increasing sequence: that keeps every
   offset aligned), the block number computed from the bytes received so far as aiocoap's client does
   (message.py _generate_next_block2_request: number + len(payload) // size, rescaled to the new size). *)
From Verif Require Import Lib.Py Lib.PyLemmas Lib.Tactics Model.C19Path Gen.fileserver Model.C19 Proofs.C19Path Proofs.C19 Proofs.C19R6.
Open Scope Z_scope.

(* ceil(len/size), at least 1: even the empty file costs one request *)
Definition ceil_blocks (len size : Z) : Z := Z.max 1 ((len + size - 1) / size).

Lemma ceil_blocks_step L s : 0 < s -> s < L -> ceil_blocks L s = 1 + ceil_blocks (L - s) s.
Proof. intros Hs HL. unfold ceil_blocks. replace (L + s - 1) with ((L - s + s - 1) + 1 * s) by lia. rewrite Z_div_plus by lia.
  assert (1 <= (L - s + s - 1) / s) by (apply Z.div_le_lower_bound; lia). lia. Qed.
Lemma ceil_blocks_last L s : 0 < s -> 0 <= L -> L <= s -> ceil_blocks L s = 1.
Proof. intros Hs H0 HL. unfold ceil_blocks. assert ((L + s - 1) / s < 2) by (apply Z.div_lt_upper_bound; lia). lia. Qed.
Lemma ceil_blocks_exact L s : 0 < s -> 0 < L -> (ceil_blocks L s - 1) * s < L <= ceil_blocks L s * s.
Proof. intros Hs HL. unfold ceil_blocks. pose proof (Z.div_mod (L + s - 1) s ltac:(lia)) as E. pose proof (Z.mod_pos_bound (L + s - 1) s Hs) as B.
  assert (1 <= (L + s - 1) / s) by (apply Z.div_le_lower_bound; lia). rewrite Z.max_r by lia. nia. Qed.

Lemma blen_bfrom_add (c : list Z) off k : 0 <= off -> 0 <= k -> k <= blen (bfrom c off) -> blen (bfrom c (off + k)) = blen (bfrom c off) - k.
Proof. intros Ho Hk Hle. rewrite bfrom_add by assumption. unfold blen, bfrom in *. rewrite skipn_length. lia. Qed.
Lemma block_payload_len_more c n szx : 0 <= szx -> block_more c n szx = true -> blen (block_payload c n szx) = blk_size szx.
Proof. intros Hs Hm. pose proof (blk_size_pos szx Hs). rewrite block_more_spec in Hm by assumption. rewrite block_payload_spec by assumption.
  unfold blen, bto in *. rewrite firstn_length. lia. Qed.
Lemma blk_size_divide a b : 0 <= a -> a <= b -> (blk_size a | blk_size b).
Proof. intros Ha Hab. unfold blk_size. exists (2 ^ (Z.min b 6 - Z.min a 6)). rewrite <- Z.pow_add_r by lia. f_equal. lia. Qed.

Section ClientLoop.
  Variable self : fileserver.
  Variable req : request.
  Variable p : list (list Z).
  Variable c : list Z.
  Hypothesis Hcode : code req = 1.
  Hypothesis Hobs : opt_observe req = None.
  Hypothesis Hetags : existsb is_cur (opt_etags req) = false.
  Hypothesis Hnba : needs_blockwise_assembly req = false.
  Hypothesis Hpath : request_to_localpath self req = Ok p.

  Lemma Hwkc' : parts_eqb (opt_uri_path req) WKC = false. Proof. exact (Hwkc req Hnba). Qed.

  (* ---------------------------------------------------------------- A. the model's loop: number of requests *)
  Lemma fetch_all_count szx : 0 <= szx -> forall fuel n st, 0 <= n ->
    fs_stat (st_fs st) (load_parts p) = inr (NFile c) -> (length (bfrom c (blk_start n szx)) <= fuel)%nat ->
    Z.of_nat (length (snd (fetch_all fuel self req szx n st))) = ceil_blocks (blen (bfrom c (blk_start n szx))) (blk_size szx).
  Proof.
    intros Hszx. pose proof (blk_size_pos szx Hszx) as Hpos.
    induction fuel as [|f IH]; intros n st Hn Hst Hlen; cbn [fetch_all];
      destruct (serve_block self req p c Hcode Hobs Hetags Hwkc' Hnba Hpath n szx st Hst) as [st1 [effs [Hs H1]]]; rewrite Hs, has_more_block.
    - destruct (block_more c n szx) eqn:Em.
      + exfalso. rewrite block_more_spec in Em by assumption. unfold blen in Em. lia.
      + cbn [snd length]. rewrite block_more_spec in Em by assumption. rewrite ceil_blocks_last; unfold blen in *; lia.
    - destruct (block_more c n szx) eqn:Em.
      + assert (fs_stat (st_fs st1) (load_parts p) = inr (NFile c)) as Hst1 by (rewrite H1; exact Hst).
        rewrite block_more_spec in Em by assumption.
        assert (blen (bfrom c (blk_start (n + 1) szx)) = blen (bfrom c (blk_start n szx)) - blk_size szx) as Hl.
        { rewrite blk_start_succ. apply blen_bfrom_add; [apply blk_start_nonneg; assumption|lia|lia]. }
        assert ((length (bfrom c (blk_start (n + 1) szx)) <= f)%nat) as Hlen1 by (unfold blen in Hl; lia).
        specialize (IH (n + 1) st1 ltac:(lia) Hst1 Hlen1). destruct (fetch_all f self req szx (n + 1) st1) as [st2 rs].
        cbn [snd length] in *. rewrite Nat2Z.inj_succ, IH, Hl. rewrite (ceil_blocks_step (blen (bfrom c (blk_start n szx)))) by lia. lia.
      + cbn [snd length]. rewrite block_more_spec in Em by assumption. rewrite ceil_blocks_last; unfold blen in *; lia.
  Qed.

  (* ---------------------------------------------------------------- B. every request with its own size exponent *)
  (* [off] = bytes received so far; request k asks for block off / size_k with exponent pol k and M clear *)
  Fixpoint fetch_var (fuel : nat) (pol : nat -> Z) (k : nat) (off : Z) (st : state) : state * list (list effect * response) :=
    let '(st1, effs, r) := serve self (with_block2 req (Some (off / blk_size (pol k), false, pol k))) st in
    if has_more r then
      match fuel with
      | O => (st1, [(effs, r)])
      | Datatypes.S f => let '(st2, rs) := fetch_var f pol (Datatypes.S k) (off + blen (payload_of r)) st1 in (st2, (effs, r) :: rs)
      end
    else (st1, [(effs, r)]).

  Variable pol : nat -> Z.
  Hypothesis Hpol0 : forall k, 0 <= pol k.
  Hypothesis Hpolmono : forall k, pol (Datatypes.S k) <= pol k.

  Lemma aligned_start off szx : 0 <= szx -> 0 <= off -> (blk_size szx | off) -> blk_start (off / blk_size szx) szx = off /\ 0 <= off / blk_size szx.
  Proof. intros Hs Ho [q Hq]. pose proof (blk_size_pos szx Hs). subst off. rewrite Z.div_mul by lia. unfold blk_start. split; [reflexivity|nia]. Qed.

  Lemma fetch_var_exact : forall fuel k off st, 0 <= off -> (blk_size (pol k) | off) ->
    fs_stat (st_fs st) (load_parts p) = inr (NFile c) -> (length (bfrom c off) <= fuel)%nat ->
    match fetch_var fuel pol k off st with
    | (st', outs) => concat (map (fun o => payload_of (snd o)) outs) = bfrom c off
                     /\ Forall (fun o => rcode (snd o) = 69) outs /\ st_fs st' = st_fs st
                     /\ (length outs <= Datatypes.S (length (bfrom c off) / 16))%nat
    end.
  Proof.
    induction fuel as [|f IH]; intros k off st Hoff Hdiv Hst Hlen; cbn [fetch_var];
      pose proof (Hpol0 k) as Hszx; pose proof (blk_size_pos (pol k) Hszx) as Hpos;
      destruct (aligned_start off (pol k) Hszx Hoff Hdiv) as [Hstart Hn];
      destruct (serve_block self req p c Hcode Hobs Hetags Hwkc' Hnba Hpath (off / blk_size (pol k)) (pol k) st Hst) as [st1 [effs [Hs H1]]];
      rewrite Hs, has_more_block.
    - destruct (block_more c (off / blk_size (pol k)) (pol k)) eqn:Em.
      + exfalso. rewrite block_more_spec, Hstart in Em by assumption. unfold blen in Em. lia.
      + cbn [map concat snd payload_of block_response rbody length]. rewrite app_nil_r.
        split; [rewrite block_last, Hstart by assumption; reflexivity|]. split; [repeat constructor|]. split; [exact H1|lia].
    - destruct (block_more c (off / blk_size (pol k)) (pol k)) eqn:Em.
      + assert (fs_stat (st_fs st1) (load_parts p) = inr (NFile c)) as Hst1 by (rewrite H1; exact Hst).
        cbn [payload_of block_response rbody]. rewrite (block_payload_len_more _ _ _ Hszx Em).
        pose proof Em as Em'. rewrite block_more_spec, Hstart in Em' by assumption.
        assert (blen (bfrom c (off + blk_size (pol k))) = blen (bfrom c off) - blk_size (pol k)) as Hl by (apply blen_bfrom_add; lia).
        assert ((length (bfrom c (off + blk_size (pol k))) <= f)%nat) as Hlen1 by (unfold blen in Hl; lia).
        assert ((blk_size (pol (Datatypes.S k)) | off + blk_size (pol k))) as Hdiv1.
        { pose proof (blk_size_divide (pol (Datatypes.S k)) (pol k) (Hpol0 (Datatypes.S k)) (Hpolmono k)) as D.
          apply Z.divide_add_r; [exact (Z.divide_trans _ _ _ D Hdiv)|exact D]. }
        specialize (IH (Datatypes.S k) (off + blk_size (pol k)) st1 ltac:(lia) Hdiv1 Hst1 Hlen1).
        destruct (fetch_var f pol (Datatypes.S k) (off + blk_size (pol k)) st1) as [st2 rs]. destruct IH as [I1 [I2 [I3 I4]]].
        cbn [map concat snd payload_of block_response rbody length]. rewrite I1.
        split; [pose proof (block_split_at c _ _ Hn Hszx) as E; rewrite Hstart in E; symmetry; exact E|].
        split; [constructor; [reflexivity|exact I2]|]. split; [congruence|].
        unfold blen in Hl.
        assert (length (bfrom c off) = (length (bfrom c (off + blk_size (pol k))) + Z.to_nat (blk_size (pol k)))%nat) as El by lia.
        assert ((length (bfrom c (off + blk_size (pol k))) / 16 + 1 <= length (bfrom c off) / 16)%nat) as Hd.
        { rewrite El. replace (length (bfrom c (off + blk_size (pol k))) + Z.to_nat (blk_size (pol k)))%nat
            with ((length (bfrom c (off + blk_size (pol k))) + (Z.to_nat (blk_size (pol k)) - 16)) + 1 * 16)%nat by lia.
          rewrite Nat.div_add by lia. apply Nat.add_le_mono_r. apply Nat.div_le_mono; lia. }
        lia.
      + cbn [map concat snd payload_of block_response rbody length]. rewrite app_nil_r.
        split; [rewrite block_last, Hstart by assumption; reflexivity|]. split; [repeat constructor|]. split; [exact H1|lia].
  Qed.

  (* with a constant exponent the variable loop sends exactly ceil(rest/size) requests *)
  Lemma fetch_var_count_const szx : (forall k, pol k = szx) -> forall fuel k off st, 0 <= off -> (blk_size szx | off) ->
    fs_stat (st_fs st) (load_parts p) = inr (NFile c) -> (length (bfrom c off) <= fuel)%nat ->
    Z.of_nat (length (snd (fetch_var fuel pol k off st))) = ceil_blocks (blen (bfrom c off)) (blk_size szx).
  Proof.
    intros Hconst. assert (0 <= szx) as Hszx by (rewrite <- (Hconst O); apply Hpol0). pose proof (blk_size_pos szx Hszx) as Hpos.
    induction fuel as [|f IH]; intros k off st Hoff Hdiv Hst Hlen; cbn [fetch_var]; rewrite (Hconst k);
      destruct (aligned_start off szx Hszx Hoff Hdiv) as [Hstart Hn];
      destruct (serve_block self req p c Hcode Hobs Hetags Hwkc' Hnba Hpath (off / blk_size szx) szx st Hst) as [st1 [effs [Hs H1]]];
      rewrite Hs, has_more_block.
    - destruct (block_more c (off / blk_size szx) szx) eqn:Em.
      + exfalso. rewrite block_more_spec, Hstart in Em by assumption. unfold blen in Em. lia.
      + cbn [snd length]. rewrite block_more_spec, Hstart in Em by assumption. rewrite ceil_blocks_last; unfold blen in *; lia.
    - destruct (block_more c (off / blk_size szx) szx) eqn:Em.
      + assert (fs_stat (st_fs st1) (load_parts p) = inr (NFile c)) as Hst1 by (rewrite H1; exact Hst).
        cbn [payload_of block_response rbody]. rewrite (block_payload_len_more _ _ _ Hszx Em).
        rewrite block_more_spec, Hstart in Em by assumption.
        assert (blen (bfrom c (off + blk_size szx)) = blen (bfrom c off) - blk_size szx) as Hl by (apply blen_bfrom_add; lia).
        assert ((length (bfrom c (off + blk_size szx)) <= f)%nat) as Hlen1 by (unfold blen in Hl; lia).
        assert ((blk_size szx | off + blk_size szx)) as Hdiv1 by (apply Z.divide_add_r; [exact Hdiv|apply Z.divide_refl]).
        specialize (IH (Datatypes.S k) (off + blk_size szx) st1 ltac:(lia) Hdiv1 Hst1 Hlen1).
        destruct (fetch_var f pol (Datatypes.S k) (off + blk_size szx) st1) as [st2 rs].
        cbn [snd length] in *. rewrite Nat2Z.inj_succ, IH, Hl. rewrite (ceil_blocks_step (blen (bfrom c off))) by lia. lia.
      + cbn [snd length]. rewrite block_more_spec, Hstart in Em by assumption. rewrite ceil_blocks_last; unfold blen in *; lia.
  Qed.
End ClientLoop.

(* ------------------------------------------------------------------ final forms (whole file, from the first block) *)
Lemma ceil_blocks_meaning L s : 0 < s -> 0 <= L ->
  (L = 0 -> ceil_blocks L s = 1) /\ (0 < L -> (ceil_blocks L s - 1) * s < L <= ceil_blocks L s * s).
Proof. intros Hs HL. split; [intros ->; apply ceil_blocks_last; lia|intros H; apply ceil_blocks_exact; assumption]. Qed.

Lemma fetch_all_request_count self req p c szx fuel st :
  code req = 1 -> opt_observe req = None -> existsb is_cur (opt_etags req) = false -> needs_blockwise_assembly req = false ->
  request_to_localpath self req = Ok p -> fs_stat (st_fs st) (load_parts p) = inr (NFile c) ->
  0 <= szx -> (length c <= fuel)%nat ->
  Z.of_nat (length (snd (fetch_all fuel self req szx 0 st))) = ceil_blocks (blen c) (blk_size szx).
Proof. intros H1 H2 H3 H4 H5 H6 H7 H8. exact (fetch_all_count self req p c H1 H2 H3 H4 H5 szx H7 fuel 0 st (Z.le_refl 0) H6 H8). Qed.

Lemma fetch_var_whole_file self req p c pol fuel st :
  code req = 1 -> opt_observe req = None -> existsb is_cur (opt_etags req) = false -> needs_blockwise_assembly req = false ->
  request_to_localpath self req = Ok p -> fs_stat (st_fs st) (load_parts p) = inr (NFile c) ->
  (forall k, 0 <= pol k) -> (forall k, pol (Datatypes.S k) <= pol k) -> (length c <= fuel)%nat ->
  match fetch_var self req fuel pol 0%nat 0 st with
  | (st', outs) => concat (map (fun o => payload_of (snd o)) outs) = c
                   /\ Forall (fun o => rcode (snd o) = 69) outs /\ st_fs st' = st_fs st
                   /\ (length outs <= Datatypes.S (length c / 16))%nat
  end.
Proof. intros H1 H2 H3 H4 H5 H6 H7 H8 H9.
  exact (fetch_var_exact self req p c H1 H2 H3 H4 H5 pol H7 H8 fuel 0%nat 0 st (Z.le_refl 0) (Z.divide_0_r _) H6 H9). Qed.

Lemma fetch_var_request_count_const self req p c pol szx fuel st :
  code req = 1 -> opt_observe req = None -> existsb is_cur (opt_etags req) = false -> needs_blockwise_assembly req = false ->
  request_to_localpath self req = Ok p -> fs_stat (st_fs st) (load_parts p) = inr (NFile c) ->
  0 <= szx -> (forall k, pol k = szx) -> (length c <= fuel)%nat ->
  Z.of_nat (length (snd (fetch_var self req fuel pol 0%nat 0 st))) = ceil_blocks (blen c) (blk_size szx).
Proof. intros H1 H2 H3 H4 H5 H6 H7 H8 H9.
  refine (fetch_var_count_const self req p c H1 H2 H3 H4 H5 pol _ _ szx H8 fuel 0%nat 0 st (Z.le_refl 0) (Z.divide_0_r _) H6 H9);
  intros k; rewrite !H8; lia. Qed.
