(* C07 — the token is released when the observation's pipe ends, and later notifications on it are rejected like
   unknown responses (RST for CON, silence for NON).  Over Model/C07Stack.v. *)
From Verif Require Import Lib.Py Lib.Tactics Gen.protocol_is_recent Model.C07 Model.C07Stack Proofs.C07Serial Proofs.C07.
Open Scope Z_scope.

Definition WF (k : stack) : Prop := k_token k = true -> s_ended (k_sys k) = false.

Lemma WF_sync k s' tok ex : WF (sync k s' tok ex).
Proof. unfold WF, sync. cbn. intros H. apply andb_prop in H as [_ H]. destruct (s_ended s'); [discriminate|reflexivity]. Qed.

Lemma WF_stack0 has_obs reset con t0 : WF (stack0 has_obs reset con t0).
Proof. unfold WF. reflexivity. Qed.

Lemma WF_dispatch_error k e : WF k -> WF (fst (dispatch_error k e)).
Proof.
  intros H. unfold dispatch_error. destruct (k_token k).
  - destruct (add_event (k_sys k) 0 (EvExn e)) as [s' outs]. apply WF_sync.
  - apply WF_sync.
Qed.
Lemma WF_timeouts k now : WF k -> WF (fst (timeouts k now)).
Proof.
  intros H. unfold timeouts. destruct (k_exchange k) as [d|]; [|exact H].
  destruct (d <=? now); [apply WF_dispatch_error; exact H|exact H].
Qed.
Lemma WF_drain_stack k : WF (fst (drain_stack k)).
Proof. unfold drain_stack. destruct (drain (k_sys k)) as [s' outs]. apply WF_sync. Qed.
Lemma WF_pass_time k now : WF k -> WF (fst (pass_time k now)).
Proof.
  intros H. unfold pass_time. destruct (k_now k <? now); [|exact H].
  destruct (drain_stack k) as [k1 o1] eqn:E1. pose proof (WF_drain_stack k) as W1. rewrite E1 in W1. cbn [fst] in W1.
  destruct (timeouts k1 now) as [k2 o2] eqn:E2. pose proof (WF_timeouts k1 now W1) as W2. rewrite E2 in W2. cbn [fst] in W2.
  destruct (drain_stack k2) as [k3 o3] eqn:E3. pose proof (WF_drain_stack k2) as W3. rewrite E3 in W3. cbn [fst] in W3.
  cbn [fst]. exact W3.
Qed.

Lemma WF_process_response k now id observe tok : WF k -> WF (fst (fst (process_response k now id observe tok))).
Proof.
  intros H. unfold process_response. destruct (negb (tok && k_token k)); [exact H|].
  destruct (add_event _ _ _) as [s' outs]. apply WF_sync.
Qed.

(* the token is registered only while the pipe's interest lasts — over every history *)
Theorem WF_sstep k o : WF k -> WF (fst (sstep k o)).
Proof.
  intros H. unfold sstep.
  set (now := match o with SResponse n _ _ _ _ _ => n | SEmpty n _ _ => n | SNetError n => n | SApp n _ => n end).
  pose proof (WF_pass_time k now H) as W0. destruct (pass_time k now) as [k0 outs0]. cbn [fst] in W0.
  assert (WE : forall mt mid, WF (fst (empty_step k0 now mt mid))).
  { intros mt mid. unfold empty_step. destruct mt, mid, (k_exchange k0); cbn [fst]; auto; try apply WF_sync.
    destruct (add_event _ _ _) as [s' outs]. apply WF_sync. }
  destruct o as [n mt id observe tok mid | n mt mid | n | n a].
  - assert (G : forall mt', mt' <> RST -> mt' = mt ->
      WF (fst (let k1 := match mt' with ACK => if mid then sync k0 (k_sys k0) (k_token k0) None else k0 | _ => k0 end in
               let '(k2, outs, matched) := process_response k1 now id observe tok in
               if escaped outs then (k2, map App outs)
               else (k2, map App outs ++ match mt' with CON => [Wire (if matched then ACK else RST)] | _ => [] end)))).
    { intros mt' _ _. cbv zeta.
      set (k1 := match mt' with ACK => if mid then sync k0 (k_sys k0) (k_token k0) None else k0 | _ => k0 end).
      assert (W1 : WF k1). { unfold k1. destruct mt'; auto. destruct mid; auto. apply WF_sync. }
      pose proof (WF_process_response k1 now id observe tok W1) as W2.
      destruct (process_response k1 now id observe tok) as [[k2 outs] matched]. cbn [fst] in W2.
      destruct (escaped outs); cbn [fst]; exact W2. }
    match goal with |- WF (fst (let '(k', outs) := ?X in _)) => assert (WX : WF (fst X)); [| destruct X; exact WX] end.
    destruct mt; [exact (G CON ltac:(discriminate) eq_refl)|exact (G NON ltac:(discriminate) eq_refl)|exact (G ACK ltac:(discriminate) eq_refl)|apply WE].
  - match goal with |- WF (fst (let '(k', outs) := ?X in _)) => assert (WX : WF (fst X)); [apply WE| destruct X; exact WX] end.
  - destruct (dispatch_error k0 NetworkError) as [k1 outs]. apply WF_sync.
  - destruct (step (k_sys k0) a) as [s' outs]. apply WF_sync.
Qed.

Fixpoint srun_state (k : stack) (ops : list sop) : stack :=
  match ops with [] => k | o :: r => srun_state (fst (sstep k o)) r end.

Theorem token_released_when_pipe_ends : forall ops has_obs reset con t0,
  let k := srun_state (stack0 has_obs reset con t0) ops in
  s_ended (k_sys k) = true -> k_token k = false.
Proof.
  intros ops has_obs reset con t0.
  assert (G : forall ops k, WF k -> WF (srun_state k ops)).
  { induction ops0 as [|o r IH]; intros k W; [exact W|]. cbn. apply IH. apply WF_sstep. exact W. }
  specialize (G ops _ (WF_stack0 has_obs reset con t0)). cbv zeta. intros He.
  unfold WF in G. destruct (k_token _); [rewrite G in He by reflexivity; discriminate|reflexivity].
Qed.

(* once the token is gone, a response on it changes nothing, reaches no observer, and is answered like any unknown
   response: Reset if confirmable, silence otherwise *)
Definition wires (outs : list sout) : list mtype := flat_map (fun o => match o with Wire t => [t] | App _ => [] end) outs.
Definition apps (outs : list sout) : list out := flat_map (fun o => match o with App x => [x] | Wire _ => [] end) outs.

Lemma apps_map_App l : apps (map App l) = l.
Proof. induction l as [|a l IH]; [reflexivity|]. unfold apps in *. cbn [map flat_map app]. rewrite IH. reflexivity. Qed.
Lemma wires_map_App l : wires (map App l) = [].
Proof. induction l as [|a l IH]; [reflexivity|]. unfold wires in *. cbn [map flat_map app]. exact IH. Qed.
Lemma apps_app a b : apps (a ++ b) = apps a ++ apps b. Proof. apply flat_map_app. Qed.
Lemma wires_app a b : wires (a ++ b) = wires a ++ wires b. Proof. apply flat_map_app. Qed.

Lemma pass_time_token_gone k now j : k_token k = false ->
  k_token (fst (pass_time k now)) = false /\ view j (snd (pass_time k now)) = [].
Proof.
  intros Ht. unfold pass_time. destruct (k_now k <? now); [|cbn; auto].
  unfold drain_stack, timeouts, dispatch_error.
  pose proof (drain_view j (k_sys k)) as (V1 & _). destruct (drain (k_sys k)) as [s1 o1]. cbn [fst snd] in *.
  cbn [k_exchange k_token k_sys sync]. rewrite Ht. cbn [andb].
  destruct (k_exchange k) as [d|].
  - destruct (d <=? now); cbn [k_sys sync k_token andb].
    + pose proof (drain_view j s1) as (V2 & _). destruct (drain s1) as [s2 o2]. cbn [fst snd] in *.
      rewrite !view_app, V1, V2. auto.
    + pose proof (drain_view j s1) as (V2 & _). destruct (drain s1) as [s2 o2]. cbn [fst snd] in *.
      rewrite !view_app, V1, V2. auto.
  - cbn [k_sys sync k_token andb]. pose proof (drain_view j s1) as (V2 & _). destruct (drain s1) as [s2 o2]. cbn [fst snd] in *.
    rewrite !view_app, V1, V2. auto.
Qed.

Theorem late_notification_rejected : forall k now mt id observe tok mid j,
  k_token k = false -> (mt = CON \/ mt = NON) ->
  let r := sstep k (SResponse now mt id observe tok mid) in
  k_token (fst r) = false
  /\ wires (snd r) = (match mt with CON => [RST] | _ => [] end)
  /\ view j (apps (snd r)) = [].
Proof.
  intros k now mt id observe tok mid j Ht Hmt. cbv zeta. unfold sstep.
  destruct (pass_time_token_gone k now j Ht) as [T0 V0]. destruct (pass_time k now) as [k0 outs0]. cbn [fst snd] in *.
  assert (E : process_response k0 now id observe tok = (k0, [], false)).
  { unfold process_response; rewrite T0, andb_false_r; reflexivity. }
  destruct Hmt as [-> | ->]; rewrite E; cbn [escaped existsb fst snd map app];
    rewrite wires_app, apps_app, wires_map_App, apps_map_App, view_app, V0; cbn; auto.
Qed.
