(* C09 — from the message layer to the datagrams of [run]: conservation of the responses of a request between
   "handed to send_message", "waiting in the NSTART backlog" and "on the wire", and what follows for whole runs *)
From Verif Require Import Lib.Py Lib.Tactics Model.C09 Model.C09Stack Proofs.C09 Proofs.C09Stack.
Open Scope Z_scope.

Definition bl (s : state) : list wire := flat_map snd (s_backlog s).
Definition cnt (id : Z) (l : list wire) : nat := length (answers id l).

Lemma cnt_app id a b : cnt id (a ++ b) = (cnt id a + cnt id b)%nat.
Proof. unfold cnt, answers. rewrite filter_app, app_length. reflexivity. Qed.
Lemma cnt_nil id : cnt id [] = 0%nat. Proof. reflexivity. Qed.
Lemma cnt_one id w : cnt id [w] = b2n (is_answer id w).
Proof. unfold cnt, answers. cbn [filter]. destruct (is_answer id w); reflexivity. Qed.

(* ---------- the backlog as a dict of lists ---------- *)
Lemma flat_append remote w l : existsb (fun x => fst x =? remote) l = true ->
  forall id, cnt id (flat_map snd (backlog_append remote w l)) = (cnt id (flat_map snd l) + b2n (is_answer id w))%nat.
Proof.
  induction l as [|[q b] l IH]; [discriminate|]. intros H id. cbn [existsb fst] in H. cbn [backlog_append].
  destruct (q =? remote) eqn:E.
  - cbn [flat_map snd]. rewrite !cnt_app, cnt_one. lia.
  - cbn [orb] in H. cbn [flat_map snd]. rewrite !cnt_app, IH by exact H. lia.
Qed.
Lemma flat_append_in remote w l x : In x (flat_map snd (backlog_append remote w l)) -> In x (flat_map snd l) \/ x = w.
Proof.
  induction l as [|[q b] l IH]; [intros []|]. cbn [backlog_append]. destruct (q =? remote).
  - cbn [flat_map snd]. intros H. apply in_app_or in H as [H|H]; [|left; apply in_or_app; right; exact H].
    apply in_app_or in H as [H|[<-|[]]]; [left; apply in_or_app; left; exact H|right; reflexivity].
  - cbn [flat_map snd]. intros H. apply in_app_or in H as [H|H]; [left; apply in_or_app; left; exact H|].
    destruct (IH H) as [H'|H']; [left; apply in_or_app; right; exact H'|right; exact H'].
Qed.
Lemma flat_set remote w rest l : find_backlog remote l = Some (w :: rest) ->
  (forall id, cnt id (flat_map snd l) = (b2n (is_answer id w) + cnt id (flat_map snd (backlog_set remote rest l)))%nat) /\
  (forall x, In x (flat_map snd (backlog_set remote rest l)) -> In x (flat_map snd l)) /\ In w (flat_map snd l).
Proof.
  induction l as [|[q b] l IH]; [discriminate|]. cbn [find_backlog backlog_set]. destruct (q =? remote) eqn:E.
  - intros H; inversion H; subst. cbn [flat_map snd]. repeat split.
    + intros id. change (w :: rest) with ([w] ++ rest). rewrite !cnt_app, cnt_one. lia.
    + intros x Hx. apply in_app_or in Hx as [Hx|Hx]; apply in_or_app; [left; right; exact Hx|right; exact Hx].
    + apply in_or_app. left. left. reflexivity.
  - intros H. destruct (IH H) as (A & B & C). cbn [flat_map snd]. repeat split.
    + intros id. rewrite !cnt_app, (A id). lia.
    + intros x Hx. apply in_app_or in Hx as [Hx|Hx]; apply in_or_app; [left; exact Hx|right; apply B; exact Hx].
    + apply in_or_app. right. exact C.
Qed.
Lemma flat_del remote l : find_backlog remote l = Some [] -> flat_map snd (backlog_del remote l) = flat_map snd l.
Proof.
  induction l as [|[q b] l IH]; [discriminate|]. cbn [find_backlog backlog_del]. destruct (q =? remote).
  - intros H; inversion H; subst. reflexivity.
  - intros H. cbn [flat_map snd]. rewrite IH by exact H. reflexivity.
Qed.

(* ---------- send_initially / send_plain / send_message ---------- *)
Lemma send_initially_bl s w : bl (fst (send_initially s w)) = bl s /\ snd (send_initially s w) = [w].
Proof.
  unfold send_initially. destruct (w_type w =? T_CON); [|split; reflexivity]. split; [|reflexivity].
  unfold bl. cbn [fst s_backlog set_backlog set_active]. destruct (has_backlog s (w_remote w)); [reflexivity|].
  rewrite flat_map_app. cbn. rewrite app_nil_r. reflexivity.
Qed.
Lemma is_answer_mk id r t mid m : is_answer id (mk_wire r t mid m) = (r_id r =? id) && negb (code_of m =? EMPTY).
Proof. reflexivity. Qed.
Lemma is_answer_empty id remote mid : is_answer id (empty_ack remote mid) = false.
Proof. unfold is_answer. cbn. apply andb_false_r. Qed.

Definition fresh_wire (r : request) (m : msg) (x : wire) : Prop := exists t mid, x = mk_wire r t mid m.

Lemma send_plain_wire s r m id :
  let '(s', out) := send_plain s r m in
  (cnt id out + cnt id (bl s') = cnt id (bl s) + b2n (Z.eqb (r_id r) id && negb (Z.eqb (code_of m) EMPTY)))%nat /\
  (forall x, In x out \/ In x (bl s') -> In x (bl s) \/ fresh_wire r m x).
Proof.
  unfold send_plain. cbv zeta.
  match goal with |- context [if ?c then _ else _] => destruct c eqn:Ec end.
  - apply andb_prop in Ec as [_ Hb]. unfold append_backlog, bl. cbn [s_backlog set_backlog set_mid].
    change (has_backlog (set_mid s (Z.land 65535 (1 + s_mid s))) (r_remote r)) with (has_backlog s (r_remote r)) in Hb.
    unfold has_backlog in Hb. split.
    + rewrite (flat_append _ _ _ Hb), is_answer_mk, cnt_nil. lia.
    + intros x [[]|Hx]. apply flat_append_in in Hx. destruct Hx as [Hx|Hx]; [left; exact Hx|right; subst x; eexists; eexists; reflexivity].
  - match goal with |- context [send_initially ?s1 ?w] => destruct (send_initially_bl s1 w) as (A & B); destruct (send_initially s1 w) as [s' out] end.
    cbn [fst snd] in *. subst out. rewrite A. change (bl (set_mid s (Z.land 65535 (1 + s_mid s)))) with (bl s). split.
    + rewrite cnt_one, is_answer_mk. lia.
    + intros x [[<-|[]]|Hx]; [right; eexists; eexists; reflexivity|left; exact Hx].
Qed.
Lemma send_message_wire s r m id :
  let '(s', out) := send_message s r m in
  (cnt id out + cnt id (bl s') <= cnt id (bl s) + b2n (Z.eqb (r_id r) id))%nat /\
  (forall x, In x out \/ In x (bl s') -> In x (bl s) \/ w_code x = EMPTY \/ fresh_wire r m x).
Proof.
  assert (Hp: let '(s', out) := send_plain s r m in
              (cnt id out + cnt id (bl s') <= cnt id (bl s) + b2n (Z.eqb (r_id r) id))%nat /\
              (forall x, In x out \/ In x (bl s') -> In x (bl s) \/ w_code x = EMPTY \/ fresh_wire r m x)).
  { pose proof (send_plain_wire s r m id) as H. destruct (send_plain s r m) as [s' out]. destruct H as [H1 H2]. split.
    - destruct (r_id r =? id), (code_of m =? EMPTY); cbn [andb negb b2n] in *; lia.
    - intros x Hx. destruct (H2 x Hx); auto. }
  rewrite send_message_unfold. destruct (negb (is_response (code_of m))); [exact Hp|].
  destruct (lookup_piggy (key_of r) (s_piggy s)) as [[mid due]|].
  - cbv zeta. destruct (suppressed m).
    + match goal with |- context [send_initially ?s1 ?w] => destruct (send_initially_bl s1 w) as (A & B); destruct (send_initially s1 w) as [s' out] end.
      cbn [fst snd] in *. subst out. rewrite A. change (bl (set_piggy s _)) with (bl s). split.
      * rewrite cnt_one, is_answer_empty. cbn. lia.
      * intros x [[<-|[]]|Hx]; [right; left; reflexivity|left; exact Hx].
    + match goal with |- context [send_initially ?s1 ?w] => destruct (send_initially_bl s1 w) as (A & B); destruct (send_initially s1 w) as [s' out] end.
      cbn [fst snd] in *. subst out. rewrite A. change (bl (set_piggy s _)) with (bl s). split.
      * rewrite cnt_one, is_answer_mk. destruct (r_id r =? id), (code_of m =? EMPTY); cbn; lia.
      * intros x [[<-|[]]|Hx]; [right; right; eexists; eexists; reflexivity|left; exact Hx].
  - destruct (suppressed m); [|exact Hp]. split; [cbn; lia|]. intros x [[]|Hx]. left. exact Hx.
Qed.

(* ---------- perform, run_entry ---------- *)
Definition from_sends (r : request) (sends : list (msg * bool)) (x : wire) : Prop :=
  exists m l, In (m, l) sends /\ fresh_wire r (tm_fill r m) x.
Lemma perform_wire id : forall acts s r,
  let '(s', out, _) := perform s r acts in
  (cnt id out + cnt id (bl s') <= cnt id (bl s) + (if Z.eqb (r_id r) id then length (sends_of acts) else 0))%nat /\
  (forall x, In x out \/ In x (bl s') -> In x (bl s) \/ w_code x = EMPTY \/ from_sends r (sends_of acts) x).
Proof.
  induction acts as [|[m l|lg] acts IH]; intros s r; cbn [perform].
  - split; [cbn; lia|]. intros x [[]|Hx]. left; exact Hx.
  - pose proof (send_message_wire s r (tm_fill r m) id) as H1. destruct (send_message s r (tm_fill r m)) as [s1 w]. destruct H1 as [C1 O1].
    specialize (IH s1 r). destruct (perform s1 r acts) as [[s2 w2] l2]. destruct IH as [C2 O2].
    rewrite sends_of_cons. cbn [app length]. split.
    + rewrite cnt_app. destruct (r_id r =? id); cbn [b2n] in *; lia.
    + intros x Hx.
      assert (Hx': In x w \/ (In x w2 \/ In x (bl s2))) by (destruct Hx as [Hx|Hx]; [apply in_app_or in Hx; tauto|tauto]).
      destruct Hx' as [Hx'|Hx'].
      * destruct (O1 x (or_introl Hx')) as [A|[A|A]]; auto. right; right. exists m, l. split; [left; reflexivity|exact A].
      * destruct (O2 x Hx') as [A|[A|(m' & l' & Hin & A)]]; auto.
        -- destruct (O1 x (or_intror A)) as [B|[B|B]]; auto. right; right. exists m, l. split; [left; reflexivity|exact B].
        -- right; right. exists m', l'. split; [right; exact Hin|exact A].
  - specialize (IH s r). destruct (perform s r acts) as [[s2 w2] l2]. rewrite sends_of_cons. exact IH.
Qed.

Lemma run_entry_wire srv s e id :
  let '(s', (out, _, _)) := run_entry srv s e in
  (cnt id out + cnt id (bl s') <= cnt id (bl s) + (if Z.eqb (eid e) id then length (entry_sends srv e) else 0))%nat /\
  (forall x, In x out \/ In x (bl s') -> In x (bl s) \/ w_code x = EMPTY \/ from_sends (e_req e) (entry_sends srv e) x).
Proof.
  unfold run_entry, entry_sends. destruct (run_ractions (e_pipes e) (respond srv (e_req e))) as [[q acts] n].
  match goal with |- context [perform ?s0 ?r0 acts] => pose proof (perform_wire id acts s0 r0) as H; destruct (perform s0 r0 acts) as [[s2 w] l] end.
  exact H.
Qed.

(* ---------- the steps ---------- *)
Lemma step_req_inv srv s r : Inv s ->
  step_req srv s r = if r_slow r && reaches_handler srv r then (after_register s r, ([], [], 0))
                     else run_entry srv (after_register s r) (new_entry r).
Proof.
  intros [_ HF]. unfold step_req, after_register, new_entry. cbv zeta.
  set (s1 := if r_con r then _ else s).
  assert (H1: s_incoming s1 = s_incoming s) by (subst s1; destruct (r_con r); reflexivity).
  destruct (find_by_key (key_of r) (s_incoming s1)) as [old|] eqn:E.
  - rewrite H1 in E. destruct (find_by_key_some _ _ _ E) as (Hin & _).
    rewrite Forall_forall in HF. rewrite (HF old Hin), live_stop. cbn [perform app].
    destruct (r_slow r && reaches_handler srv r); [reflexivity|].
    destruct (run_entry srv _ _) as [s4 [[w l] n]]. reflexivity.
  - destruct (r_slow r && reaches_handler srv r); [reflexivity|].
    destruct (run_entry srv _ _) as [s4 [[w l] n]]. reflexivity.
Qed.
Lemma after_register_bl s r : Inv s -> bl (after_register s r) = bl s.
Proof.
  intros [_ HF]. unfold after_register. cbv zeta.
  set (s1 := if r_con r then _ else s).
  assert (H1: s_incoming s1 = s_incoming s) by (subst s1; destruct (r_con r); reflexivity).
  assert (H2: bl s1 = bl s) by (subst s1; destruct (r_con r); reflexivity).
  destruct (find_by_key (key_of r) (s_incoming s1)) as [old|] eqn:E; [|exact H2].
  rewrite H1 in E. destruct (find_by_key_some _ _ _ E) as (Hin & _).
  rewrite Forall_forall in HF. rewrite (HF old Hin), live_stop. cbn [perform fst]. exact H2.
Qed.
Lemma fire_piggy_empty now l : Forall (fun x => w_code x = EMPTY) (snd (fire_piggy now l)).
Proof.
  induction l as [|[k [mid due]] l IH]; [constructor|]. cbn [fire_piggy]. destruct (fire_piggy now l) as [keep out].
  destruct (due <=? now); cbn [snd] in *; [constructor; [reflexivity|exact IH]|exact IH].
Qed.
Lemma cnt_all_empty id l : Forall (fun x => w_code x = EMPTY) l -> cnt id l = 0%nat.
Proof.
  induction 1 as [|x l Hx Hl IH]; [reflexivity|]. unfold cnt, answers in *. cbn [filter].
  unfold is_answer at 1. rewrite Hx. change (EMPTY =? EMPTY) with true. rewrite andb_false_r. exact IH.
Qed.
Lemma continue_backlog_wire s remote id :
  let '(s', out) := continue_backlog s remote in
  (cnt id out + cnt id (bl s') = cnt id (bl s))%nat /\ (forall x, In x out \/ In x (bl s') -> In x (bl s)).
Proof.
  unfold continue_backlog. destruct (has_active s remote); [split; [reflexivity|intros x [[]|H]; exact H]|].
  destruct (find_backlog remote (s_backlog s)) as [[|w rest]|] eqn:E.
  - unfold bl. cbn [s_backlog set_backlog]. rewrite (flat_del _ _ E). split; [reflexivity|intros x [[]|H]; exact H].
  - destruct (flat_set _ _ _ _ E) as (A & B & C).
    match goal with |- context [send_initially ?s1 ?w0] => destruct (send_initially_bl s1 w0) as (P & Q); destruct (send_initially s1 w0) as [s' out] end.
    cbn [fst snd] in *. subst out. rewrite P. unfold bl at 1 2 3. cbn [s_backlog set_backlog]. split.
    + rewrite cnt_one, (A id). reflexivity.
    + intros x [[<-|[]]|Hx]; [exact C|apply B; exact Hx].
  - split; [reflexivity|intros x [[]|H]; exact H].
Qed.

Definition owner (s : state) (ev : sevent) (r' : request) : Prop :=
  ev = Req r' \/ exists e, In e (s_incoming s) /\ e_req e = r'.
Lemma sends_for_tag id j (l : list (msg * bool)) :
  length (sends_for id (map (fun x => (j, fst x, snd x)) l)) = if j =? id then length l else 0%nat.
Proof.
  unfold sends_for. induction l as [|x l IH]; cbn [map filter fst]; [destruct (j =? id); reflexivity|].
  destruct (j =? id); cbn [length]; rewrite IH; reflexivity.
Qed.
Lemma entry_sends_live srv e : e_pipes e = live -> entry_sends srv e = entry_sends srv (new_entry (e_req e)).
Proof. intros H. unfold entry_sends, new_entry. cbn [e_pipes e_req]. rewrite H. reflexivity. Qed.

(* one step: every answer of request [id] that appears on the wire or in a backlog was in a backlog before, or comes from
   a response handed to the message layer in this step by the rendering of a request with that id *)
Lemma step_wire srv s ev id : Inv s ->
  let '(s', (out, _, _)) := step srv s ev in
  (cnt id out + cnt id (bl s') <= cnt id (bl s) + length (sends_for id (step_sends srv s ev)))%nat /\
  (forall x, In x out \/ In x (bl s') ->
     In x (bl s) \/ w_code x = EMPTY \/ exists r', owner s ev r' /\ from_sends r' (entry_sends srv (new_entry r')) x).
Proof.
  intros HI. destruct ev as [r|j|us|remote]; cbn [step step_sends].
  - rewrite (step_req_inv srv s r HI). destruct (r_slow r && reaches_handler srv r).
    + rewrite (after_register_bl s r HI). split; [cbn; lia|]. intros x [[]|Hx]. left; exact Hx.
    + pose proof (run_entry_wire srv (after_register s r) (new_entry r) id) as H.
      destruct (run_entry srv (after_register s r) (new_entry r)) as [s' [[out l] n]]. destruct H as [C O].
      rewrite (after_register_bl s r HI) in *. rewrite sends_for_tag. change (eid (new_entry r)) with (r_id r) in C. split; [exact C|].
      intros x Hx. destruct (O x Hx) as [A|[A|A]]; auto. right; right. exists r. split; [left; reflexivity|exact A].
  - unfold step_done. destruct (find_by_id j (s_incoming s)) as [e|] eqn:Ef; [|split; [cbn; lia|intros x [[]|Hx]; left; exact Hx]].
    destruct (e_finished e); [split; [cbn; lia|intros x [[]|Hx]; left; exact Hx]|].
    destruct (find_by_id_some _ _ _ Ef) as (Hin & Hid).
    assert (Hlive: e_pipes e = live) by (destruct HI as [_ HF]; rewrite Forall_forall in HF; apply HF; exact Hin).
    pose proof (run_entry_wire srv s e id) as H. destruct (run_entry srv s e) as [s' [[out l] n]]. destruct H as [C O].
    rewrite sends_for_tag. rewrite Hid in C. split; [exact C|].
    intros x Hx. destruct (O x Hx) as [A|[A|A]]; auto. right; right. exists (e_req e). split; [right; exists e; auto|].
    rewrite <- (entry_sends_live srv e Hlive). exact A.
  - unfold step_tick. pose proof (fire_piggy_empty (s_now s + us) (s_piggy s)) as H.
    destruct (fire_piggy (s_now s + us) (s_piggy s)) as [keep out]. cbn [snd] in H.
    change (bl (set_piggy (set_now s (s_now s + us)) keep)) with (bl s). split.
    + rewrite (cnt_all_empty id out H). cbn. lia.
    + intros x [Hx|Hx]; [right; left; rewrite Forall_forall in H; apply H; exact Hx|left; exact Hx].
  - unfold step_ack. destruct (remove_first_active remote (s_active s)) as [a|]; [|split; [cbn; lia|intros x [[]|Hx]; left; exact Hx]].
    pose proof (continue_backlog_wire (set_active s a) remote id) as H. destruct (continue_backlog (set_active s a) remote) as [s' out].
    destruct H as [C O]. change (bl (set_active s a)) with (bl s) in *. split; [cbn; lia|]. intros x Hx. left. apply O. exact Hx.
Qed.

(* a predicate on the requests of all registered renderings is kept by a step whose own request satisfies it *)
Definition EntriesP (P : request -> Prop) (s : state) : Prop := Forall (fun e => P (e_req e)) (s_incoming s).
Lemma run_entry_entriesP srv P s e : e_pipes e = live -> EntriesP P s -> P (e_req e) -> EntriesP P (fst (run_entry srv s e)).
Proof.
  intros Hl HP He. unfold EntriesP. destruct (run_entry_incoming srv s e Hl) as [-> | ->].
  - apply Forall_remove_id. exact HP.
  - apply Forall_replace_id; [exact HP|exact He].
Qed.
Lemma step_entriesP srv P s ev : Inv s -> EntriesP P s -> (forall r, ev = Req r -> P r) -> EntriesP P (fst (step srv s ev)).
Proof.
  intros HI HP Hev. destruct ev as [r|j|us|remote]; cbn [step].
  - rewrite (step_req_inv srv s r HI).
    assert (Ha: EntriesP P (after_register s r)).
    { unfold EntriesP. destruct (after_register_incoming s r) as (l & -> & Hl). apply Forall_app. split.
      - destruct Hl as [->|(old & _ & ->)]; [exact HP|apply Forall_remove_id; exact HP].
      - constructor; [apply Hev; reflexivity|constructor]. }
    destruct (r_slow r && reaches_handler srv r); [exact Ha|].
    apply run_entry_entriesP; [reflexivity|exact Ha|apply Hev; reflexivity].
  - unfold step_done. destruct (find_by_id j (s_incoming s)) as [e|] eqn:Ef; [|exact HP].
    destruct (e_finished e); [exact HP|]. destruct (find_by_id_some _ _ _ Ef) as (Hin & _).
    apply run_entry_entriesP; [|exact HP|].
    + destruct HI as [_ HF]. rewrite Forall_forall in HF. apply HF. exact Hin.
    + unfold EntriesP in HP. rewrite Forall_forall in HP. apply HP. exact Hin.
  - unfold EntriesP. pose proof (step_tick_incoming s us) as H. destruct (step_tick s us). cbn [fst] in *. rewrite H. exact HP.
  - unfold EntriesP. pose proof (step_ack_incoming s remote) as H. destruct (step_ack s remote). cbn [fst] in *. rewrite H. exact HP.
Qed.
Lemma owner_P (P : request -> Prop) s ev r' : EntriesP P s -> (forall r, ev = Req r -> P r) -> owner s ev r' -> P r'.
Proof.
  intros HP Hev [->|(e & Hin & <-)]; [apply Hev; reflexivity|]. unfold EntriesP in HP. rewrite Forall_forall in HP. apply HP. exact Hin.
Qed.
Lemma step_sends_origin srv s ev i m l : Inv s -> In (i, m, l) (step_sends srv s ev) ->
  exists r', owner s ev r' /\ r_id r' = i /\ In (m, l) (entry_sends srv (new_entry r')).
Proof.
  intros HI. destruct ev as [r|j|us|remote]; cbn [step_sends]; try (intros []).
  - destruct (r_slow r && reaches_handler srv r); [intros []|]. intros H. apply in_map_iff in H as ([m' l'] & Heq & Hin).
    inversion Heq; subst. exists r. split; [left; reflexivity|]. split; [reflexivity|exact Hin].
  - destruct (find_by_id j (s_incoming s)) as [e|] eqn:Ef; [|intros []]. destruct (e_finished e); [intros []|].
    destruct (find_by_id_some _ _ _ Ef) as (Hin & Hid).
    assert (Hlive: e_pipes e = live) by (destruct HI as [_ HF]; rewrite Forall_forall in HF; apply HF; exact Hin).
    intros H. apply in_map_iff in H as ([m' l'] & Heq & Hin'). inversion Heq; subst.
    exists (e_req e). split; [right; exists e; auto|]. split; [reflexivity|]. rewrite <- (entry_sends_live srv e Hlive). exact Hin'.
Qed.

Lemma wires_cons o os : wires (o :: os) = fst (fst o) ++ wires os.
Proof. reflexivity. Qed.

(* whole runs: conservation, origin of every answer on the wire, origin of every response handed to the message layer *)
Lemma run_wire srv (P : request -> Prop) id : forall evs s, Inv s -> fresh s evs -> EntriesP P s ->
  (forall r, In (Req r) evs -> P r) ->
  (cnt id (wires (snd (run srv s evs))) + cnt id (bl (fst (run srv s evs)))
     <= cnt id (bl s) + length (sends_for id (run_sends srv s evs)))%nat /\
  (forall x, In x (wires (snd (run srv s evs))) ->
     In x (bl s) \/ w_code x = EMPTY \/ exists r', P r' /\ from_sends r' (entry_sends srv (new_entry r')) x) /\
  (forall i m l, In (i, m, l) (run_sends srv s evs) ->
     exists r', P r' /\ r_id r' = i /\ In (m, l) (entry_sends srv (new_entry r'))).
Proof.
  induction evs as [|ev rest IH]; intros s HI Hf HP Hev.
  - cbn. repeat split; [lia|intros x []|intros i m l []].
  - destruct (fresh_step srv s ev rest HI Hf) as (H1 & Hf').
    destruct (step_bound srv s ev id HI H1) as (HI' & _ & _).
    assert (Hev1: forall r, ev = Req r -> P r) by (intros r ->; apply Hev; left; reflexivity).
    assert (HP': EntriesP P (fst (step srv s ev))) by (apply step_entriesP; assumption).
    specialize (IH (fst (step srv s ev)) HI' Hf' HP' (fun r Hr => Hev r (or_intror Hr))). destruct IH as (IC & IO & IS).
    pose proof (step_wire srv s ev id HI) as Hs.
    cbn [run run_sends]. destruct (step srv s ev) as [s1 [[out lg] n]] eqn:Est. cbn [fst] in *. destruct Hs as [SC SO].
    destruct (run srv s1 rest) as [s2 os] eqn:Er. cbn [fst snd] in *. rewrite wires_cons. cbn [fst].
    split; [|split].
    + unfold sends_for in *. rewrite cnt_app, filter_app, app_length. lia.
    + intros x Hx. apply in_app_or in Hx as [Hx|Hx].
      * destruct (SO x (or_introl Hx)) as [A|[A|(r' & Ho & A)]]; auto. right; right. exists r'. split; [exact (owner_P P s ev r' HP Hev1 Ho)|exact A].
      * destruct (IO x Hx) as [A|[A|A]]; auto.
        destruct (SO x (or_intror A)) as [B|[B|(r' & Ho & B)]]; auto. right; right. exists r'. split; [exact (owner_P P s ev r' HP Hev1 Ho)|exact B].
    + intros i m l Hin. apply in_app_or in Hin as [Hin|Hin]; [|apply IS; exact Hin].
      destruct (step_sends_origin srv s ev i m l HI Hin) as (r' & Ho & Hi & Hm). exists r'. split; [exact (owner_P P s ev r' HP Hev1 Ho)|auto].
Qed.

Lemma req_unique : forall evs r r', NoDup (req_ids evs) -> In (Req r) evs -> In (Req r') evs -> r_id r' = r_id r -> r' = r.
Proof.
  induction evs as [|ev evs IH]; intros r r' Hnd Hr Hr' Hid; [destruct Hr|].
  rewrite req_ids_cons in Hnd.
  assert (Hin: forall q, In (Req q) evs -> In (r_id q) (req_ids evs)).
  { clear. induction evs as [|e evs IH]; intros q []. - subst e. rewrite req_ids_cons. left. reflexivity.
    - rewrite req_ids_cons. apply in_or_app. right. apply IH. exact H. }
  destruct Hr as [->|Hr], Hr' as [Heq|Hr'].
  - inversion Heq; reflexivity.
  - cbn in Hnd. inversion Hnd as [|? ? Hx _]; subst. exfalso. apply Hx. rewrite <- Hid. apply Hin. exact Hr'.
  - subst ev. cbn in Hnd. inversion Hnd as [|? ? Hx _]; subst. exfalso. apply Hx. rewrite Hid. apply Hin. exact Hr.
  - apply IH; auto. destruct ev; cbn in Hnd; try exact Hnd. inversion Hnd; assumption.
Qed.
Lemma sends_all_final id L : (forall m l, In (id, m, l) L -> l = true) ->
  (length (sends_for id L) <= length (finals_for id L))%nat.
Proof.
  unfold sends_for, finals_for. induction L as [|[[i m] l] L IH]; intros H; [cbn; lia|]. cbn [filter flat_map fst].
  assert (IH' := IH (fun m0 l0 Hin => H m0 l0 (or_intror Hin))).
  destruct (i =? id) eqn:E.
  - assert (l = true) as -> by (apply (H m); left; f_equal; f_equal; lia). cbn [andb app length]. lia.
  - cbn [andb app]. exact IH'.
Qed.

(* MAIN (wire): in every run from the initial state, the datagrams answering a finalising request are at most one,
   carry the request's token to the request's remote, and the code / payload / options of its own final message *)
Definition carries (r : request) (m : msg) (w : wire) : Prop :=
  w_rid w = r_id r /\ w_remote w = r_remote r /\ w_token w = r_token r /\
  w_code w = code_of m /\ w_payload w = m_payload m /\ w_cf w = m_cf m /\ w_obs w = m_obs m.
Lemma wire_at_most_one srv mid0 evs r m : NoDup (req_ids evs) -> In (Req r) evs -> finalising srv r ->
  final_message srv r = Some m ->
  let ws := answers (r_id r) (wires (snd (run srv (init_state mid0) evs))) in
  (length ws <= 1)%nat /\ forall w, In w ws -> carries r m w.
Proof.
  intros Hnd Hin Hfin Hm. cbv zeta.
  set (P := fun r' : request => r_id r' = r_id r -> r' = r).
  assert (HPev: forall r', In (Req r') evs -> P r') by (intros r' Hr' Hid; eapply req_unique; eauto).
  destruct (run_wire srv P (r_id r) evs (init_state mid0) (init_inv mid0) (init_fresh mid0 evs Hnd)) as (C & O & S); [constructor|exact HPev|].
  assert (Hown: entry_sends srv (new_entry r) = [(m, true)]).
  { rewrite entry_sends_own by (auto; reflexivity). cbn [e_req new_entry]. rewrite Hm. reflexivity. }
  split.
  - change (length (answers (r_id r) ?l)) with (cnt (r_id r) l). cbn [bl init_state s_backlog flat_map] in C. rewrite cnt_nil in C.
    assert (Hall: forall m0 l0, In (r_id r, m0, l0) (run_sends srv (init_state mid0) evs) -> l0 = true).
    { intros m0 l0 H0. destruct (S _ _ _ H0) as (r' & HP' & Hid & Hs). rewrite (HP' Hid), Hown in Hs.
      destruct Hs as [Heq|[]]. inversion Heq; reflexivity. }
    pose proof (sends_all_final _ _ Hall). pose proof (at_most_one_final srv evs (init_state mid0) (r_id r) (init_inv mid0) (init_fresh mid0 evs Hnd)). lia.
  - intros w Hw. unfold answers in Hw. apply filter_In in Hw as [Hw Ha]. unfold is_answer in Ha. apply andb_prop in Ha as [Ha1 Ha2].
    destruct (O w Hw) as [[]|[A|(r' & HP' & m' & l' & Hs & t & mid & ->)]].
    + rewrite A in Ha2. discriminate.
    + cbn [w_rid mk_wire] in Ha1. assert (r' = r) as -> by (apply HP'; lia). rewrite Hown in Hs.
      destruct Hs as [Heq|[]]. inversion Heq; subst. repeat split.
Qed.

(* isolation at the wire: whatever else the two runs contain (other requests, their outcomes, failures, timing, ACKs),
   the datagrams answering request r carry the same code, token, payload, options and destination — they are a function of r.
   (Whether a CON answer has left the backlog yet does depend on the client's ACKs: C14.) *)
Lemma answers_depend_on_own_request srv mid0 mid0' evs evs' r m :
  NoDup (req_ids evs) -> NoDup (req_ids evs') -> In (Req r) evs -> In (Req r) evs' -> finalising srv r -> final_message srv r = Some m ->
  forall w w', In w (answers (r_id r) (wires (snd (run srv (init_state mid0) evs)))) ->
               In w' (answers (r_id r) (wires (snd (run srv (init_state mid0') evs')))) ->
  (w_remote w, w_token w, w_code w, w_payload w, w_cf w, w_obs w) = (w_remote w', w_token w', w_code w', w_payload w', w_cf w', w_obs w').
Proof.
  intros Hnd Hnd' Hin Hin' Hfin Hm w w' Hw Hw'.
  destruct (wire_at_most_one srv mid0 evs r m Hnd Hin Hfin Hm) as [_ H]. destruct (wire_at_most_one srv mid0' evs' r m Hnd' Hin' Hfin Hm) as [_ H'].
  destruct (H w Hw) as (_ & A1 & A2 & A3 & A4 & A5 & A6). destruct (H' w' Hw') as (_ & B1 & B2 & B3 & B4 & B5 & B6).
  congruence.
Qed.

(* a response to a NON request (or any response while the request's ACK is still pending) is on the wire in the step in
   which it is handed to the message layer — exactly one datagram, unless No-Response applies *)
Lemma response_on_wire_at_once s r m : is_response (code_of m) = true -> suppressed m = false ->
  r_con r = false \/ lookup_piggy (key_of r) (s_piggy s) <> None ->
  exists t mid, snd (send_message s r m) = [mk_wire r t mid m] /\ is_answer (r_id r) (mk_wire r t mid m) = true.
Proof.
  intros Hr Hs Hc. pose proof (send_message_cases s r m Hr) as H. destruct (send_message s r m) as [s' out]. cbn [snd].
  assert (Ha: forall t mid, is_answer (r_id r) (mk_wire r t mid m) = true).
  { intros t mid. rewrite is_answer_mk, Z.eqb_refl. unfold is_response in Hr. unfold EMPTY. replace (code_of m =? 0) with false by lia. reflexivity. }
  destruct (lookup_piggy (key_of r) (s_piggy s)) as [[mid due]|].
  - destruct H as [_ ->]. rewrite Hs. eexists; eexists; split; [reflexivity|apply Ha].
  - rewrite Hs in H. destruct Hc as [Hc|Hc]; [|congruence]. destruct H as [->|(_ & Hcon & _)]; [|congruence].
    eexists; eexists; split; [reflexivity|apply Ha].
Qed.

(* a request in flight whose (remote, token) is reused by a new request is cancelled: it never gets a final response.
   This is the one exception to "every request is answered" besides No-Response: the client has given the token a new meaning. *)
Lemma after_register_override s r e : find_by_key (key_of r) (s_incoming s) = Some e ->
  s_incoming (after_register s r) = remove_id (eid e) (s_incoming s) ++ [new_entry r].
Proof.
  intros E. unfold after_register. cbv zeta.
  set (s1 := if r_con r then _ else s).
  assert (H1: s_incoming s1 = s_incoming s) by (subst s1; destruct (r_con r); reflexivity).
  clearbody s1.
  destruct (find_by_key (key_of r) (s_incoming s1)) as [old|] eqn:E'; rewrite H1 in E'; [|congruence].
  assert (old = e) by congruence. subst old.
  destruct (old_unregister_tm (e_pipes e)) as [[q acts] b].
  match goal with |- context [perform ?s0 ?r0 acts] => pose proof (perform_incoming acts s0 r0) as Hp end.
  cbn [s_incoming set_incoming]. rewrite Hp. cbn [s_incoming set_incoming]. rewrite H1. reflexivity.
Qed.
Lemma overridden_gets_none srv s e r' post : Inv s -> fresh s (Req r' :: post) ->
  find_by_key (key_of r') (s_incoming s) = Some e ->
  finals_for (eid e) (run_sends srv s (Req r' :: post)) = [].
Proof.
  intros HI Hf E. destruct (find_by_key_some _ _ _ E) as (Hin & _).
  destruct (fresh_step srv s (Req r') post HI Hf) as (H1 & Hf'). specialize (H1 r' eq_refl).
  destruct (step_bound srv s (Req r') (eid e) HI (fun r Hr => match Hr in _ = y return match y with Req q => ~ In (r_id q) (ids s) | _ => True end with eq_refl => H1 end)) as (HI' & _ & _).
  assert (Hne: r_id r' <> eid e) by (intros Heq; apply H1; rewrite Heq; apply in_map; exact Hin).
  cbn [run_sends]. rewrite finals_for_app.
  assert (Hs: finals_for (eid e) (step_sends srv s (Req r')) = []).
  { cbn [step_sends]. destruct (r_slow r' && reaches_handler srv r'); [reflexivity|]. rewrite finals_for_tag. replace (r_id r' =? eid e) with false by lia. reflexivity. }
  rewrite Hs. cbn [app]. apply finals_none_after; [exact HI'|exact Hf'| |].
  - assert (Ha: unfinished (after_register s r') (eid e) = false).
    { unfold unfinished. rewrite (after_register_override s r' e E), unf_app, unf_remove_same.
      change (eid (new_entry r')) with (r_id r'). replace (r_id r' =? eid e) with false by lia. reflexivity. }
    cbn [step]. rewrite step_req_unfold. destruct (r_slow r' && reaches_handler srv r'); [exact Ha|].
    rewrite run_entry_unf_other; [exact Ha|reflexivity|exact Hne].
  - destruct Hf as [_ Hni]. intros Hin'. apply (Hni (eid e)); [rewrite req_ids_cons; apply in_or_app; right; exact Hin'|apply in_map; exact Hin].
Qed.
