(* C15 round 6 — every request gets AT MOST one terminal event, over all histories of the endpoint. *)
From Verif Require Import Lib.Py Lib.Tactics Lib.PyLemmas Gen.options_ext Gen.tcp_framing Model.C15 Model.C15Sys Proofs.C15 Proofs.C15Sys Proofs.C15R6.
Open Scope Z_scope.

Definition keq (t : bytes) (i : Z) (t' : bytes) (i' : Z) : bool := beqb t' t && (i' =? i).
Lemma keq_spec t i t' i' : keq t i t' i' = true <-> t' = t /\ i' = i.
Proof. unfold keq. rewrite andb_true_iff, list_eqb_Z_eq, Z.eqb_eq. tauto. Qed.
Lemma req_is_keq t i r : req_is t i r = keq t i (r_token r) (r_remote r).
Proof. reflexivity. Qed.

(* events of / terminal events of the request with key (t, i) *)
Definition ev_is (t : bytes) (i : Z) (e : eout) : bool :=
  match e with SResponse t' i' _ _ => keq t i t' i' | SFail t' i' _ => keq t i t' i' | _ => false end.
Definition term_is (t : bytes) (i : Z) (e : eout) : bool :=
  match e with SResponse t' i' _ f => f && keq t i t' i' | SFail t' i' _ => keq t i t' i' | _ => false end.
Definition cnt {A} (f : A -> bool) (l : list A) : nat := length (filter f l).
Definition tcnt (t : bytes) (i : Z) (s : sys) : nat := cnt (req_is t i) (outgoing s).
(* the table is a dict: at most one entry per key *)
Definition uniq (s : sys) : Prop := forall t i, (tcnt t i s <= 1)%nat.

Lemma cnt_app {A} (f : A -> bool) a b : cnt f (a ++ b) = (cnt f a + cnt f b)%nat.
Proof. unfold cnt. rewrite filter_app, app_length. reflexivity. Qed.
Lemma cnt_le {A} (f g : A -> bool) l : (forall x, In x l -> f x = true -> g x = true) -> (cnt f l <= cnt g l)%nat.
Proof.
  unfold cnt. induction l as [|a l IH]; intros H; [cbn; lia|]. cbn [filter].
  assert (IH' : (length (filter f l) <= length (filter g l))%nat) by (apply IH; intros x Hx; apply H; right; exact Hx).
  destruct (f a) eqn:Fa; [rewrite (H a (or_introl eq_refl) Fa); cbn [length]; lia|].
  destruct (g a); cbn [length]; lia.
Qed.
Lemma cnt_filter_le {A} (f g : A -> bool) l : (cnt f (filter g l) <= cnt f l)%nat.
Proof. unfold cnt. induction l as [|a l IH]; [cbn; lia|]. cbn [filter]. destruct (g a); cbn [filter]; destruct (f a); cbn [length]; lia. Qed.
Lemma cnt_filter_none {A} (f g : A -> bool) l : (forall x, g x = true -> f x = false) -> cnt f (filter g l) = 0%nat.
Proof.
  intros H. unfold cnt. induction l as [|a l IH]; [reflexivity|]. cbn [filter].
  destruct (g a) eqn:Ga; [cbn [filter]; rewrite (H a Ga); exact IH|exact IH].
Qed.
Lemma cnt_map {A B} (f : B -> bool) (h : A -> B) l : cnt f (map h l) = cnt (fun x => f (h x)) l.
Proof. unfold cnt. induction l as [|a l IH]; [reflexivity|]. cbn [map filter]. destruct (f (h a)); cbn [length]; rewrite IH; reflexivity. Qed.
Lemma term_le_ev t i x : (cnt (term_is t i) x <= cnt (ev_is t i) x)%nat.
Proof. apply cnt_le. intros e _. destruct e as [? ?|? ? ? f|? ? ?]; cbn; auto. destruct f; auto. discriminate. Qed.

Definition step_facts (t : bytes) (i : Z) (s s1 : sys) (x : list eout) : Prop :=
  uniq s1 /\ (tcnt t i s1 <= tcnt t i s)%nat /\ (tcnt t i s = 0%nat -> cnt (ev_is t i) x = 0%nat) /\
  (cnt (term_is t i) x <= 1)%nat /\ (cnt (term_is t i) x = 1%nat -> tcnt t i s1 = 0%nat).

Lemma facts_refl t i s x : uniq s -> cnt (ev_is t i) x = 0%nat -> step_facts t i s s x.
Proof. intros U E. pose proof (term_le_ev t i x). unfold step_facts. repeat split; auto; lia. Qed.

Lemma facts_trans t i s s1 s2 x1 x2 : step_facts t i s s1 x1 -> step_facts t i s1 s2 x2 -> step_facts t i s s2 (x1 ++ x2).
Proof.
  intros (A1 & A2 & A3 & A4 & A5) (B1 & B2 & B3 & B4 & B5). unfold step_facts. rewrite !cnt_app.
  pose proof (term_le_ev t i x2) as L2. pose proof (term_le_ev t i x1) as L1.
  split; [exact B1|]. split; [lia|]. split; [intros H; rewrite (A3 H), B3 by lia; reflexivity|].
  destruct (Nat.eq_dec (cnt (term_is t i) x1) 1) as [E|E].
  - specialize (A5 E). specialize (B3 A5). split; [lia|]. intros _. lia.
  - split; [lia|]. intros H. apply B5. lia.
Qed.

Lemma route_facts id o s t i : uniq s -> let '(s1, x) := route id o s in step_facts t i s s1 x.
Proof.
  intros U. destruct o as [b| |m0|m|e|e0]; cbn [route]; try (apply facts_refl; [exact U|reflexivity]).
  - (* Response *)
    unfold tm_process_response.
    destruct (filter (req_is _ id) (outgoing s)) as [|r0 l0] eqn:Hf; [apply facts_refl; [exact U|reflexivity]|].
    assert (Hpos : keq t i (token m) id = true -> (tcnt t i s >= 1)%nat).
    { intros K. apply keq_spec in K as [<- <-]. unfold tcnt, cnt. rewrite Hf. cbn. lia. }
    set (final := negb (r_observe r0 && has_observe m)).
    set (out' := if final then filter (fun x => negb (req_is (token m) id x)) (outgoing s) else outgoing s).
    assert (Hle : forall t' i', (cnt (req_is t' i') out' <= cnt (req_is t' i') (outgoing s))%nat).
    { intros t' i'. unfold out'. destruct final; [apply cnt_filter_le|lia]. }
    unfold step_facts, uniq, tcnt. cbn [outgoing]. fold out'.
    split; [intros t' i'; specialize (U t' i'); specialize (Hle t' i'); unfold tcnt in U; lia|].
    split; [apply Hle|].
    unfold cnt at 2 3 4. cbn [filter ev_is term_is].
    split.
    { intros H0. destruct (keq t i (token m) id) eqn:K; [specialize (Hpos eq_refl); unfold tcnt in Hpos; lia|reflexivity]. }
    split. { destruct (final && keq t i (token m) id); cbn; lia. }
    intros H1. destruct final eqn:Ef; cbn [andb] in H1; [|cbn in H1; lia].
    destruct (keq t i (token m) id) eqn:K; [|cbn in H1; lia].
    apply keq_spec in K as [<- <-]. unfold out'. apply cnt_filter_none. intros x Hx. destruct (req_is (token m) id x); [discriminate|reflexivity].
  - (* DispatchError *)
    unfold pool_dispatch_error, tm_dispatch_error. unfold step_facts, uniq, tcnt. cbn [outgoing].
    assert (Hev : forall f, (forall r, f (SFail (r_token r) id (tm_wrap (exc_of e))) = keq t i (r_token r) id) ->
               (cnt f (map (fun r => SFail (r_token r) id (tm_wrap (exc_of e))) (filter (fun r => (r_remote r =? id)%Z) (outgoing s)))
                <= cnt (req_is t i) (outgoing s))%nat).
    { intros f Hf. rewrite cnt_map.
      eapply Nat.le_trans; [|apply (cnt_filter_le (req_is t i) (fun r => r_remote r =? id))].
      apply cnt_le. intros r Hr Hk. apply filter_In in Hr as [_ Hr]. apply Z.eqb_eq in Hr.
      rewrite Hf in Hk. rewrite req_is_keq, Hr. exact Hk. }
    pose proof (Hev (ev_is t i) (fun r => eq_refl)) as E1. pose proof (Hev (term_is t i) (fun r => eq_refl)) as E2.
    pose proof (U t i) as Ut. unfold tcnt in Ut.
    split; [intros t' i'; specialize (U t' i'); pose proof (cnt_filter_le (req_is t' i') (fun r => negb (r_remote r =? id)) (outgoing s)); unfold tcnt in U; lia|].
    split; [apply cnt_filter_le|]. split; [lia|]. split; [lia|].
    intros H1. destruct (Z.eq_dec i id) as [->|Hne].
    + apply cnt_filter_none. intros x Hx. rewrite req_is_keq. unfold keq. destruct (r_remote x =? id); [discriminate|apply andb_false_r].
    + exfalso. rewrite cnt_map in H1. unfold cnt in H1.
      assert (Hz : forall l : list req, filter (fun x : req => term_is t i (SFail (r_token x) id (tm_wrap (exc_of e)))) l = []).
      { induction l as [|a l IH]; [reflexivity|]. cbn [filter].
        assert (E : term_is t i (SFail (r_token a) id (tm_wrap (exc_of e))) = false)
          by (cbn [term_is]; unfold keq; destruct (Z.eqb_spec id i); [congruence|apply andb_false_r]).
        rewrite E. exact IH. }
      rewrite Hz in H1. cbn in H1. lia.
Qed.

Lemma route_all_facts : forall os id s t i, uniq s -> let '(s1, x) := route_all id os s in step_facts t i s s1 x.
Proof.
  induction os as [|o os IH]; intros id s t i U; [apply facts_refl; [exact U|reflexivity]|].
  cbn [route_all]. pose proof (route_facts id o s t i U) as H1. destruct (route id o s) as [s1 x1].
  specialize (IH id s1 t i (proj1 H1)). destruct (route_all id os s1) as [s2 x2].
  exact (facts_trans t i s s1 s2 x1 x2 H1 IH).
Qed.

(* histories: a request is only issued under a key that is not in the table (TokenManager.next_token is a counter) *)
Definition requests (t : bytes) (i : Z) (e : pevent) : bool :=
  match e with PRequest id tok _ => keq t i tok id | _ => false end.
Definition fresh_step (s : sys) (e : pevent) : Prop :=
  match e with PRequest id tok _ => tcnt tok id s = 0%nat | _ => True end.
Fixpoint fresh_run (s : sys) (es : list pevent) : Prop :=
  match es with [] => True | e :: r => fresh_step s e /\ fresh_run (fst (sys_step s e)) r end.

Lemma sys_step_facts s e t i : uniq s -> fresh_step s e ->
  let '(s1, x) := sys_step s e in uniq s1 /\ (requests t i e = false -> step_facts t i s s1 x).
Proof.
  intros U F. destruct e as [id tok obs|id d|id]; cbn [sys_step].
  - destruct (get_conn id (conns s)) as [c|]; [|split; [exact U|intros _; apply facts_refl; [exact U|reflexivity]]].
    destruct (pool_send_message c (request_msg tok obs)) as [[c1 o] ok]. cbn [conns pool outgoing].
    set (s' := {| conns := set_conn id c1 (conns s); pool := pool s;
                  outgoing := outgoing s ++ [{| r_token := tok; r_remote := id; r_observe := obs |}] |}).
    assert (Hadd : forall t' i', tcnt t' i' s' = (tcnt t' i' s + (if keq t' i' tok id then 1 else 0))%nat).
    { intros t' i'. unfold tcnt, s'. cbn [outgoing]. rewrite cnt_app. unfold cnt at 2. cbn [filter]. rewrite req_is_keq. cbn [r_token r_remote].
      destruct (keq t' i' tok id); reflexivity. }
    assert (Us' : uniq s').
    { intros t' i'. rewrite Hadd. destruct (keq t' i' tok id) eqn:K; [|specialize (U t' i'); lia].
      apply keq_spec in K as [-> ->]. cbn [fresh_step] in F. lia. }
    pose proof (route_all_facts o id s' t i Us') as H.
    destruct (route_all id o s') as [s1 x]. split; [exact (proj1 H)|].
    intros R. cbn [requests] in R. specialize (Hadd t i). rewrite R in Hadd.
    unfold step_facts in *. rewrite Hadd, Nat.add_0_r in H. exact H.
  - destruct (get_conn id (conns s)) as [c|]; [|split; [exact U|intros _; apply facts_refl; [exact U|reflexivity]]].
    destruct (closed c); [split; [exact U|intros _; apply facts_refl; [exact U|reflexivity]]|].
    destruct (data_received c d) as [c1 o].
    pose proof (route_all_facts o id {| conns := set_conn id c1 (conns s); pool := pool s; outgoing := outgoing s |} t i U) as H.
    destruct (route_all id o _) as [s1 x]. split; [exact (proj1 H)|intros _; exact H].
  - pose proof (route_all_facts [DispatchError ConnectionLost] id s t i U) as H.
    destruct (route_all id _ s) as [s1 x]. split; [exact (proj1 H)|intros _; exact H].
Qed.

(* over every history of the endpoint in which the key (t, i) is not issued (again): the request with that key
   receives at most one terminal event; once it has, it is out of the table; and a key that is not in the table
   receives no event at all (no response after the failure, no second failure) *)
Lemma at_most_one_terminal : forall es s t i, uniq s -> fresh_run s es -> existsb (requests t i) es = false ->
  let '(s1, x) := sys_run s es in step_facts t i s s1 x.
Proof.
  induction es as [|e es IH]; intros s t i U F R; [apply facts_refl; [exact U|reflexivity]|].
  cbn [existsb] in R. apply orb_false_elim in R as [R1 R2]. destruct F as [F1 F2].
  rewrite sys_run_cons. pose proof (sys_step_facts s e t i U F1) as H1. destruct (sys_step s e) as [s1 x1].
  cbn [fst] in F2. destruct H1 as [U1 H1]. specialize (H1 R1).
  specialize (IH s1 t i U1 F2 R2). destruct (sys_run s1 es) as [s2 x2].
  exact (facts_trans t i s s1 s2 x1 x2 H1 IH).
Qed.

(* the freshness hypothesis follows from the history alone: pairwise distinct request keys, none of them in the
   initial table (true of any history from an empty table with TokenManager.next_token's counter) *)
Fixpoint distinct_reqs (es : list pevent) : bool :=
  match es with
  | [] => true
  | PRequest id tok _ :: r => negb (existsb (requests tok id) r) && distinct_reqs r
  | _ :: r => distinct_reqs r
  end.
Lemma fresh_from_distinct : forall es s, uniq s -> distinct_reqs es = true ->
  (forall t i, existsb (requests t i) es = true -> tcnt t i s = 0%nat) -> fresh_run s es.
Proof.
  induction es as [|e es IH]; intros s U D H; [exact I|].
  assert (F1 : fresh_step s e).
  { destruct e as [id tok obs| |]; cbn [fresh_step]; auto. apply H. cbn [existsb requests].
    replace (keq tok id tok id) with true by (symmetry; apply keq_spec; auto). reflexivity. }
  split; [exact F1|].
  assert (D' : distinct_reqs es = true) by (destruct e; cbn [distinct_reqs] in D; [apply andb_prop in D; apply D|exact D|exact D]).
  pose proof (sys_step_facts s e) as HS. destruct (sys_step s e) as [s1 x1]. cbn [fst].
  apply IH; [exact (proj1 (HS nil 0 U F1))|exact D'|].
  intros t i Hreq.
  assert (Hne : requests t i e = false).
  { destruct e as [id tok obs| |]; cbn [requests]; auto. destruct (keq t i tok id) eqn:K; [|reflexivity].
    apply keq_spec in K as [-> ->]. cbn [distinct_reqs] in D. apply andb_prop in D as [D1 _]. rewrite Hreq in D1. discriminate. }
  destruct (HS t i U F1) as [_ HF]. destruct (HF Hne) as (_ & Hle & _).
  assert (tcnt t i s = 0%nat) by (apply H; cbn [existsb]; rewrite Hreq; apply orb_true_r). lia.
Qed.

Lemma uniq_empty s : outgoing s = [] -> uniq s.
Proof. intros H t i. unfold tcnt. rewrite H. cbn. lia. Qed.

(* unconditional for reachable histories: from an endpoint with an empty table (sys0, or any state with no request
   outstanding), for every history with pairwise distinct request keys, a request issued once (not again in [es2])
   gets at most one terminal event in all that follows *)
Lemma at_most_one_terminal_reachable : forall es1 es2 s t i, outgoing s = [] ->
  distinct_reqs (es1 ++ es2) = true -> existsb (requests t i) es2 = false ->
  (cnt (term_is t i) (snd (sys_run (fst (sys_run s es1)) es2)) <= 1)%nat.
Proof.
  intros es1 es2 s t i He D R.
  assert (F : fresh_run s (es1 ++ es2)).
  { apply fresh_from_distinct; [apply uniq_empty; exact He|exact D|]. intros t' i' _. unfold tcnt. rewrite He. reflexivity. }
  (* split the freshness and the uniqueness invariant at the end of es1 *)
  assert (Hsplit : forall es1 s, uniq s -> fresh_run s (es1 ++ es2) ->
            uniq (fst (sys_run s es1)) /\ fresh_run (fst (sys_run s es1)) es2).
  { clear. induction es1 as [|e es1 IH]; intros s U F; [split; assumption|].
    cbn [app fresh_run] in F. destruct F as [F1 F2]. rewrite sys_run_cons.
    pose proof (sys_step_facts s e nil 0 U F1) as HS. destruct (sys_step s e) as [s1 x1]. cbn [fst] in F2.
    destruct (IH s1 (proj1 HS) F2) as [A B]. destruct (sys_run s1 es1) as [s2 x2]. split; assumption. }
  destruct (Hsplit es1 s (uniq_empty s He) F) as [U1 F1].
  pose proof (at_most_one_terminal es2 (fst (sys_run s es1)) t i U1 F1 R) as H.
  destruct (sys_run (fst (sys_run s es1)) es2) as [s2 x]. cbn [snd]. apply H.
Qed.
