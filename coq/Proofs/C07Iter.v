(* C07 — the lossy async iterator over a WHOLE run, for a consumer that may be busy between two __anext__ calls:
   it yields, in order, a subsequence of what was pushed, and a consumer that keeps pulling ends up with the latest item
   (a notification or the end signal).  Model/C07.v's anext_drain is the instance with an instantaneous loop body. *)
From Verif Require Import Lib.Py Lib.Tactics Model.C07 Model.C07Iter Proofs.C07Serial Proofs.C07.
Open Scope Z_scope.

Lemma Subseq_refl {A} (l : list A) : Subseq l l.
Proof. induction l; [apply sub_nil|apply sub_take; assumption]. Qed.
Lemma Subseq_trans {A} : forall (b a c : list A), Subseq a b -> Subseq b c -> Subseq a c.
Proof.
  intros b a c H1 H2. revert a H1. induction H2 as [c|x b c H IH|x b c H IH]; intros a H1.
  - inversion H1. constructor.
  - constructor. apply IH. exact H1.
  - inversion H1 as [|? ? ? H3|? ? ? H3]; subst.
    + constructor.
    + constructor. apply IH. exact H3.
    + apply sub_take. apply IH. exact H3.
Qed.
Lemma Subseq_app_l {A} (c a b : list A) : Subseq a b -> Subseq (c ++ a) (c ++ b).
Proof. intros H. induction c; cbn; auto. apply sub_take. exact IHc. Qed.
Lemma Subseq_app_r {A} (c a b : list A) : Subseq a b -> Subseq (a ++ c) (b ++ c).
Proof. intros H. induction H; cbn; try (constructor; assumption). induction l; cbn; [apply Subseq_refl|constructor; assumption]. Qed.

Ltac solve_sub := repeat first [apply sub_nil | apply sub_take | apply sub_skip].

Lemma gstep_sub g o : Subseq (snd (gstep g o) ++ pending (fst (gstep g o))) (pending g ++ pushed [o]).
Proof.
  destruct o as [x| |]; cbn [gstep pushed fst snd app].
  - destruct g as [[a|] [b|]|[b|]|]; cbn; solve_sub.
  - rewrite app_nil_r. destruct g as [[a|] [b|]|[b|]|]; cbn; try destruct (is_err a); cbn; solve_sub.
  - rewrite app_nil_r. destruct g as [[a|] [b|]|[b|]|]; cbn; try destruct (is_err b); cbn; solve_sub.
Qed.

(* 1. over any interleaving of pushes, wake-ups and pulls the iterator yields an in-order subsequence of what was pushed *)
Theorem iterator_run_subsequence : forall ops g, Subseq (grun g ops) (pending g ++ pushed ops).
Proof.
  induction ops as [|o ops IH]; intros g; [cbn; constructor|].
  cbn [grun]. pose proof (gstep_sub g o) as S. destruct (gstep g o) as [g' ys]. cbn [fst snd] in S.
  apply (Subseq_trans (ys ++ pending g' ++ pushed ops)).
  - apply Subseq_app_l. apply IH.
  - rewrite app_assoc. replace (pushed (o :: ops)) with (pushed [o] ++ pushed ops) by (destruct o; reflexivity).
    rewrite app_assoc. apply Subseq_app_r. exact S.
Qed.

(* ------------------------------------------------------------------ 2. a consumer that keeps pulling gets the latest *)
Fixpoint lasto {A} (l : list A) : option A :=
  match l with [] => None | [x] => Some x | _ :: r => lasto r end.
Lemma lasto_cons {A} (x : A) l : l <> [] -> lasto (x :: l) = lasto l.
Proof. destruct l; [congruence|reflexivity]. Qed.
Lemma lasto_none {A} (l : list A) : lasto l = None -> l = [].
Proof.
  induction l as [|x l IH]; [reflexivity|]. destruct l as [|y l]; [discriminate|].
  rewrite lasto_cons by discriminate. intros H. specialize (IH H). discriminate.
Qed.
Lemma lasto_app {A} (a b : list A) : lasto (a ++ b) = match lasto b with Some z => Some z | None => lasto a end.
Proof.
  induction a as [|x a IH]; cbn [app]; [destruct (lasto b); reflexivity|].
  destruct (a ++ b) eqn:E.
  - apply app_eq_nil in E as [-> ->]. reflexivity.
  - rewrite lasto_cons by discriminate. rewrite IH.
    destruct (lasto b) eqn:Eb; [reflexivity|]. apply lasto_none in Eb. subst b. rewrite app_nil_r in E.
    rewrite lasto_cons; [reflexivity|]. rewrite E. discriminate.
Qed.

(* an end signal is the last thing ever pushed (ClientObservation.error cancels the observation) *)
Fixpoint err_last (l : list item) : bool :=
  match l with
  | [] => true
  | x :: r => match r with [] => true | _ => negb (is_err x) && err_last r end
  end.
Lemma err_last_tail x l : err_last (x :: l) = true -> err_last l = true.
Proof. destruct l; cbn; auto. intros H. apply andb_prop in H. tauto. Qed.
Lemma err_last_head x y l : err_last (x :: y :: l) = true -> is_err x = false.
Proof. cbn. intros H. apply andb_prop in H as [H _]. destruct (is_err x); auto; discriminate. Qed.
Lemma err_last_drop2 x y l : err_last (x :: y :: l) = true -> l <> [] -> err_last (x :: l) = true.
Proof.
  intros H Hl. pose proof (err_last_head _ _ _ H) as Hx. apply err_last_tail in H. apply err_last_tail in H.
  destruct l; [congruence|]. cbn [err_last] in *. rewrite Hx. cbn. exact H.
Qed.

Definition reachable (g : gstate) : Prop := forall b, g <> GBlocked None (Some b).
Definition good (g : gstate) (P : list item) : Prop :=
  (err_last (pending g ++ P) = true /\ (g = GFinished -> P = [])) /\ reachable g.

Lemma gstep_reachable g o : reachable g -> reachable (fst (gstep g o)).
Proof.
  intros R b. destruct o as [x| |]; cbn [gstep fst].
  - destruct g as [[a|] [c|]|[c|]|]; cbn; congruence.
  - destruct g as [[a|] [c|]|[c|]|]; cbn; try destruct (is_err a); cbn; try congruence; try apply R.
  - destruct g as [[a|] [c|]|[c|]|]; cbn; try destruct (is_err c); cbn; try congruence; try apply R.
Qed.

Lemma gstep_good g o r : good g (pushed (o :: r)) -> good (fst (gstep g o)) (pushed r).
Proof.
  intros [[E F] Re]. split; [|apply gstep_reachable; exact Re]. clear Re. destruct o as [x| |]; cbn [gstep fst pushed] in *.
  - destruct g as [[a|] [b|]|[b|]|]; cbn [gpush pending app] in *; unfold good; cbn [pending app].
    + split; [|discriminate]. apply (err_last_drop2 a b (x :: pushed r)); [exact E|discriminate].
    + split; [exact E|discriminate].
    + split; [apply err_last_tail in E; exact E|discriminate].
    + split; [exact E|discriminate].
    + split; [apply err_last_tail in E; exact E|discriminate].
    + split; [exact E|discriminate].
    + specialize (F eq_refl). discriminate.
  - destruct g as [[a|] [b|]|[b|]|]; cbn [gwake pending app fst] in *; unfold good; try (split; [exact E|try discriminate; auto]).
    + rewrite (err_last_head _ _ _ E). cbn [pending app]. split; [apply err_last_tail in E; exact E|discriminate].
    + destruct (is_err a) eqn:Ea; cbn [pending app].
      * destruct (pushed r) eqn:Ep; [split; auto|]. apply err_last_head in E. congruence.
      * split; [apply err_last_tail in E; exact E|discriminate].
  - destruct g as [[a|] [b|]|[b|]|]; cbn [gpull pending app fst] in *; unfold good; try (split; [exact E|try discriminate; auto]).
    destruct (is_err b) eqn:Eb; cbn [pending app].
    + destruct (pushed r) eqn:Ep; [split; auto|]. apply err_last_head in E. congruence.
    + split; [apply err_last_tail in E; exact E|discriminate].
Qed.

Lemma gstep_last g o r : good g (pushed (o :: r)) ->
  lasto (snd (gstep g o) ++ pending (fst (gstep g o))) = lasto (pending g ++ pushed [o]).
Proof.
  intros [[E F] _]. destruct o as [x| |]; cbn [gstep fst snd pushed app] in *.
  - destruct g as [[a|] [b|]|[b|]|]; cbn [gpush pending app]; try reflexivity. specialize (F eq_refl). discriminate.
  - rewrite app_nil_r. destruct g as [[a|] [b|]|[b|]|]; cbn [gwake pending app fst snd] in *; try reflexivity.
    + rewrite (err_last_head _ _ _ E). reflexivity.
    + destruct (is_err a); reflexivity.
  - rewrite app_nil_r. destruct g as [[a|] [b|]|[b|]|]; cbn [gpull pending app fst snd] in *; try reflexivity.
    destruct (is_err b); reflexivity.
Qed.

Lemma keep_pulling_flushes g : good g [] -> lasto (grun g keep_pulling) = lasto (pending g).
Proof.
  intros [[E _] Re]. rewrite app_nil_r in E. unfold keep_pulling.
  destruct g as [[a|] [b|]|[b|]|]; cbn [pending app] in *; try (exfalso; eapply Re; reflexivity).
  - pose proof (err_last_head _ _ _ E) as Ea. cbn. rewrite Ea. cbn. destruct (is_err b); reflexivity.
  - cbn. destruct (is_err a); reflexivity.
  - reflexivity.
  - cbn. destruct (is_err b); reflexivity.
  - reflexivity.
  - reflexivity.
Qed.

Theorem iterator_run_ends_with_latest : forall ops g, good g (pushed ops) ->
  lasto (grun g (ops ++ keep_pulling)) = lasto (pending g ++ pushed ops).
Proof.
  induction ops as [|o ops IH]; intros g G.
  - cbn [app pushed]. rewrite app_nil_r. apply keep_pulling_flushes. exact G.
  - cbn [app grun]. pose proof (gstep_good g o ops G) as G'. pose proof (gstep_last g o ops G) as L.
    destruct (gstep g o) as [g' ys]. cbn [fst snd] in *.
    rewrite lasto_app, (IH g' G'), <- lasto_app, app_assoc, lasto_app, L, <- lasto_app, <- app_assoc.
    replace (pushed (o :: ops)) with (pushed [o] ++ pushed ops) by (destruct o; reflexivity). reflexivity.
Qed.

(* from the start of the iteration: whatever the interleaving, a consumer that keeps pulling ends with the latest push *)
Corollary iterator_eventually_latest : forall ops x, err_last (pushed ops) = true -> lasto (pushed ops) = Some x ->
  lasto (grun (GBlocked None None) (ops ++ keep_pulling)) = Some x.
Proof.
  intros ops x E L. rewrite iterator_run_ends_with_latest; [exact L|]. split; [split; [exact E|discriminate]|intros b; discriminate].
Qed.

(* ------------------------------------------------------------------ Model/C07.v's iterator is the instant consumer *)
Definition embed (it : iter) : gstate := if it_finished it then GFinished else GBlocked (it_w it) (it_s it).

Lemma push_is_gpush it x : it_started it = true -> (it_w it = None -> it_s it = None) ->
  embed (push it x) = gpush (embed it) x.
Proof.
  intros Hs Hw. unfold embed, push. destruct (it_finished it) eqn:Ef; [rewrite Ef; reflexivity|].
  destruct (it_w it) eqn:Ew; cbn; [reflexivity|]. rewrite (Hw eq_refl). reflexivity.
Qed.

(* one anext_drain = the loop wakes the consumer, whose body takes no time: it pulls again until it blocks *)
Lemma anext_drain_is_instant_consumer it : it_started it = true ->
  map yield (grun (embed it) [GWake; GPull; GPull]) = snd (anext_drain it)
  /\ (fst (gstep (fst (gstep (fst (gstep (embed it) GWake)) GPull)) GPull) = embed (fst (anext_drain it))
      \/ it_w it = None).
Proof.
  intros Hs. unfold embed, anext_drain. rewrite Hs. cbn [negb orb].
  destruct (it_finished it) eqn:Ef; [cbn; rewrite Ef; auto|].
  destruct (it_w it) as [a|] eqn:Ew; [|cbn; auto].
  cbn [grun gstep gwake]. destruct (is_err a) eqn:Ea; [cbn; auto|].
  destruct (it_s it) as [b|] eqn:Es; cbn; [destruct (is_err b); cbn; auto|auto].
Qed.
