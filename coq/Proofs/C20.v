(* C20 — proofs about the resource-directory model: index invariant, closure safety, failed-operation frame,
   location stability, exact expiry. *)
From Coq Require Import String FinFun.
From Verif Require Import Lib.Py Lib.Tactics Model.C20Str Model.C20 Proofs.C20Dict Proofs.C20Up.
Open Scope Z_scope.

Definition has_timer (r : reg) : bool := match r_timer r with Some _ => true | None => false end.

(* ------------------------------------------------------------------ the invariant *)
(* The two indexes hold the same Registration objects, each under its own key and its own path; exactly the
   indexed objects have a pending lifetime timer; object identities are unique; nothing ever raised in a timer task. *)
Record Inv' (os : list (Z * reg)) (bk : list (key * Z)) (bp : list (Z * Z)) (nid exc : Z) : Prop := {
  inv_keys : NoDup (map fst bk);
  inv_paths : NoDup (map fst bp);
  inv_ids : NoDup (map fst os);
  inv_bk : forall k id, In (k, id) bk -> exists r, In (id, r) os /\ r_key r = k /\ In (r_path r, id) bp /\ has_timer r = true;
  inv_bp : forall p id, In (p, id) bp -> exists r, In (id, r) os /\ r_path r = p /\ In (r_key r, id) bk;
  inv_tm : forall id r, In (id, r) os -> has_timer r = true -> In (r_key r, id) bk;
  inv_fresh : forall id r, In (id, r) os -> id < nid;
  inv_exc : exc = 0
}.
Definition Inv (st : rd) : Prop := Inv' (objs st) (by_key st) (by_path st) (next_id st) (loop_exceptions st).

Lemma In_fun {K V} (d : list (K * V)) k v1 v2 : NoDup (map fst d) -> In (k, v1) d -> In (k, v2) d -> v1 = v2.
Proof.
  induction d as [|[k' v'] d IH]; cbn; intros ND H1 H2; [contradiction|]. inv ND.
  destruct H1 as [H1|H1], H2 as [H2|H2].
  - congruence.
  - inv H1. exfalso. apply H3. apply (in_map fst) in H2. exact H2.
  - inv H2. exfalso. apply H3. apply (in_map fst) in H1. exact H1.
  - eauto.
Qed.

Lemma obj_In st id r : NoDup (map fst (objs st)) -> In (id, r) (objs st) -> obj st id = r.
Proof. intros ND H. unfold obj. rewrite (In_dget Z.eqb Zeqb_spec _ _ _ ND H). reflexivity. Qed.

Lemma dget_app_mem {K V} (eqb : K -> K -> bool) (d e : list (K * V)) k v : dget eqb d k = Some v -> dget eqb (d ++ e) k = Some v.
Proof. induction d as [|[k' v'] d IH]; cbn; [discriminate|]. destruct (eqb k' k); auto. Qed.
Lemma dset_app_mem {K V} (eqb : K -> K -> bool) (d e : list (K * V)) k v : dmem eqb d k = true -> dset eqb (d ++ e) k v = dset eqb d k v ++ e.
Proof.
  unfold dmem. induction d as [|[k' v'] d IH]; cbn; [discriminate|].
  destruct (eqb k' k) eqn:E; cbn; intros H; [reflexivity|]. rewrite IH; auto.
Qed.

Lemma NoDup_app_one {A} (l : list A) x : NoDup l -> ~ In x l -> NoDup (l ++ [x]).
Proof.
  induction l as [|y l IH]; cbn; intros ND N; [constructor; [tauto|constructor]|].
  inv ND. constructor.
  - rewrite in_app_iff. cbn. intuition.
  - apply IH; tauto.
Qed.

(* ------------------------------------------------------------------ Registration.delete *)
(* explicit result of reg_delete on an indexed object *)
Definition deleted (st : rd) (id : Z) : rd :=
  {| objs := dset Z.eqb (objs st) id (set_timer (obj st id) None);
     by_key := ddel key_eqb (by_key st) (r_key (obj st id));
     by_path := ddel Z.eqb (by_path st) (r_path (obj st id));
     now := now st; next_id := next_id st; next_seq := next_seq st; loop_exceptions := loop_exceptions st |}.

Lemma reg_delete_spec st id :
  dmem Z.eqb (by_path st) (r_path (obj st id)) = true -> dmem key_eqb (by_key st) (r_key (obj st id)) = true ->
  reg_delete st id = (deleted st id, false).
Proof.
  intros Hp Hk. unfold reg_delete, deleted. cbn [by_path by_key set_obj with_by_path with_by_key objs now next_id next_seq loop_exceptions].
  rewrite Hp. cbn [negb]. rewrite Hk. cbn [negb]. reflexivity.
Qed.

Lemma In_dmem {K V} (eqb : K -> K -> bool) (spec : forall a b, eqb a b = true <-> a = b) (d : list (K * V)) k v :
  NoDup (map fst d) -> In (k, v) d -> dmem eqb d k = true.
Proof. intros ND H. apply dmem_true. exists v. apply In_dget; assumption. Qed.

Lemma Inv_indexed_delete st id k : Inv st -> In (k, id) (by_key st) ->
  reg_delete st id = (deleted st id, false) /\ r_key (obj st id) = k.
Proof.
  intros I H. destruct (inv_bk _ _ _ _ _ I _ _ H) as (r & Ho & Hk & Hp & _).
  rewrite (obj_In st id r (inv_ids _ _ _ _ _ I) Ho) in *.
  split; [|exact Hk]. apply reg_delete_spec; rewrite (obj_In st id r (inv_ids _ _ _ _ _ I) Ho).
  - eapply In_dmem; [apply Zeqb_spec|apply (inv_paths _ _ _ _ _ I)|exact Hp].
  - subst k. eapply In_dmem; [apply key_eqb_spec|apply (inv_keys _ _ _ _ _ I)|exact H].
Qed.

Lemma Inv_deleted st id k : Inv st -> In (k, id) (by_key st) -> Inv (deleted st id).
Proof.
  intros I H. destruct (inv_bk _ _ _ _ _ I _ _ H) as (r & Ho & Hk & Hp & Ht).
  pose proof (inv_keys _ _ _ _ _ I) as NK. pose proof (inv_paths _ _ _ _ _ I) as NP. pose proof (inv_ids _ _ _ _ _ I) as NI.
  unfold Inv, deleted. cbn [objs by_key by_path next_id loop_exceptions]. rewrite (obj_In st id r NI Ho). rewrite Hk.
  assert (other_id : forall k0 id0, k0 <> k -> In (k0, id0) (by_key st) -> id0 <> id).
  { intros k0 id0 N H0 ->. destruct (inv_bk _ _ _ _ _ I _ _ H0) as (r0 & Ho0 & Hk0 & _).
    pose proof (In_fun _ _ _ _ NI Ho Ho0). subst r0. congruence. }
  constructor.
  - apply NoDup_ddel; [apply key_eqb_spec|exact NK].
  - apply NoDup_ddel; [apply Zeqb_spec|exact NP].
  - apply NoDup_dset; [apply Zeqb_spec|exact NI].
  - intros k0 id0 H0. apply (In_ddel key_eqb key_eqb_spec) in H0; [|exact NK]. destruct H0 as [N H0].
    destruct (inv_bk _ _ _ _ _ I _ _ H0) as (r0 & Ho0 & Hk0 & Hp0 & Ht0).
    pose proof (other_id _ _ N H0) as Nid.
    exists r0. split; [|split; [exact Hk0|split; [|exact Ht0]]].
    + apply (In_dset Z.eqb Zeqb_spec); [exact NI|]. right. split; assumption.
    + apply (In_ddel Z.eqb Zeqb_spec); [exact NP|]. split; [|exact Hp0].
      intros E. rewrite E in Hp0. apply Nid. eapply In_fun; [exact NP|exact Hp0|exact Hp].
  - intros p0 id0 H0. apply (In_ddel Z.eqb Zeqb_spec) in H0; [|exact NP]. destruct H0 as [N H0].
    destruct (inv_bp _ _ _ _ _ I _ _ H0) as (r0 & Ho0 & Hp0 & Hk0).
    assert (Nid : id0 <> id). { intros ->. pose proof (In_fun _ _ _ _ NI Ho Ho0). subst r0. congruence. }
    exists r0. split; [|split; [exact Hp0|]].
    + apply (In_dset Z.eqb Zeqb_spec); [exact NI|]. right. split; assumption.
    + apply (In_ddel key_eqb key_eqb_spec); [exact NK|]. split; [|exact Hk0].
      intros E. rewrite E in Hk0. apply Nid. eapply In_fun; [exact NK|exact Hk0|exact H].
  - intros id0 r0 H0 Ht0. apply (In_dset Z.eqb Zeqb_spec) in H0; [|exact NI]. destruct H0 as [[-> ->]|[Nid H0]].
    + cbn in Ht0. discriminate.
    + pose proof (inv_tm _ _ _ _ _ I _ _ H0 Ht0) as Hk0.
      apply (In_ddel key_eqb key_eqb_spec); [exact NK|]. split; [|exact Hk0].
      intros E. rewrite E in Hk0. apply Nid. eapply In_fun; [exact NK|exact Hk0|exact H].
  - intros id0 r0 H0. apply (In_dset Z.eqb Zeqb_spec) in H0; [|exact NI]. destruct H0 as [[-> ->]|[Nid H0]].
    + eapply (inv_fresh _ _ _ _ _ I). exact Ho.
    + eapply (inv_fresh _ _ _ _ _ I). exact H0.
  - apply (inv_exc _ _ _ _ _ I).
Qed.

(* ------------------------------------------------------------------ changing an object in place *)
Lemma Inv_set_obj os bk bp nid exc id r r' :
  Inv' os bk bp nid exc -> In (id, r) os -> r_key r' = r_key r -> r_path r' = r_path r -> has_timer r' = has_timer r ->
  Inv' (dset Z.eqb os id r') bk bp nid exc.
Proof.
  intros I Ho Ek Ep Et. pose proof (inv_ids _ _ _ _ _ I) as NI.
  constructor; try apply I.
  - apply NoDup_dset; [apply Zeqb_spec|exact NI].
  - intros k id0 H0. destruct (inv_bk _ _ _ _ _ I _ _ H0) as (r0 & Ho0 & Hk0 & Hp0 & Ht0).
    destruct (Z.eq_dec id0 id) as [->|N].
    + pose proof (In_fun _ _ _ _ NI Ho Ho0). subst r0. exists r'. rewrite Ek, Ep, Et.
      split; [|auto]. apply (In_dset Z.eqb Zeqb_spec); [exact NI|]. left. auto.
    + exists r0. split; [|auto]. apply (In_dset Z.eqb Zeqb_spec); [exact NI|]. right. auto.
  - intros p id0 H0. destruct (inv_bp _ _ _ _ _ I _ _ H0) as (r0 & Ho0 & Hp0 & Hk0).
    destruct (Z.eq_dec id0 id) as [->|N].
    + pose proof (In_fun _ _ _ _ NI Ho Ho0). subst r0. exists r'. rewrite Ek, Ep.
      split; [|auto]. apply (In_dset Z.eqb Zeqb_spec); [exact NI|]. left. auto.
    + exists r0. split; [|auto]. apply (In_dset Z.eqb Zeqb_spec); [exact NI|]. right. auto.
  - intros id0 r0 H0 Ht0. apply (In_dset Z.eqb Zeqb_spec) in H0; [|exact NI]. destruct H0 as [[-> ->]|[N H0]].
    + rewrite Ek. apply (inv_tm _ _ _ _ _ I _ _ Ho). congruence.
    + apply (inv_tm _ _ _ _ _ I _ _ H0 Ht0).
  - intros id0 r0 H0. apply (In_dset Z.eqb Zeqb_spec) in H0; [|exact NI]. destruct H0 as [[-> ->]|[N H0]].
    + apply (inv_fresh _ _ _ _ _ I _ _ Ho).
    + apply (inv_fresh _ _ _ _ _ I _ _ H0).
Qed.

(* ------------------------------------------------------------------ indexing a new object *)
Lemma Inv_add_new os bk bp nid exc k p r :
  Inv' os bk bp nid exc -> ~ In k (map fst bk) -> ~ In p (map fst bp) -> r_key r = k -> r_path r = p -> has_timer r = true ->
  Inv' (os ++ [(nid, r)]) (dset key_eqb bk k nid) (dset Z.eqb bp p nid) (nid + 1) exc.
Proof.
  intros I Nk Np Ek Ep Et.
  pose proof (inv_keys _ _ _ _ _ I) as NK. pose proof (inv_paths _ _ _ _ _ I) as NP. pose proof (inv_ids _ _ _ _ _ I) as NI.
  assert (Fresh : ~ In nid (map fst os)).
  { intros H. apply in_map_iff in H. destruct H as ([i x] & E & H). cbn in E. subst i. pose proof (inv_fresh _ _ _ _ _ I _ _ H). lia. }
  constructor.
  - apply NoDup_dset; [apply key_eqb_spec|exact NK].
  - apply NoDup_dset; [apply Zeqb_spec|exact NP].
  - rewrite map_app. cbn. apply NoDup_app_one; assumption.
  - intros k0 id0 H0. apply (In_dset key_eqb key_eqb_spec) in H0; [|exact NK]. destruct H0 as [[-> ->]|[N H0]].
    + exists r. split; [apply in_or_app; right; left; reflexivity|]. split; [exact Ek|]. split; [|exact Et].
      apply (In_dset Z.eqb Zeqb_spec); [exact NP|]. left. auto.
    + destruct (inv_bk _ _ _ _ _ I _ _ H0) as (r0 & Ho0 & Hk0 & Hp0 & Ht0).
      exists r0. split; [apply in_or_app; left; exact Ho0|]. split; [exact Hk0|]. split; [|exact Ht0].
      apply (In_dset Z.eqb Zeqb_spec); [exact NP|]. right. split; [|exact Hp0].
      intros E. apply Np. rewrite <- E. apply (in_map fst) in Hp0. exact Hp0.
  - intros p0 id0 H0. apply (In_dset Z.eqb Zeqb_spec) in H0; [|exact NP]. destruct H0 as [[-> ->]|[N H0]].
    + exists r. split; [apply in_or_app; right; left; reflexivity|]. split; [exact Ep|].
      apply (In_dset key_eqb key_eqb_spec); [exact NK|]. left. auto.
    + destruct (inv_bp _ _ _ _ _ I _ _ H0) as (r0 & Ho0 & Hp0 & Hk0).
      exists r0. split; [apply in_or_app; left; exact Ho0|]. split; [exact Hp0|].
      apply (In_dset key_eqb key_eqb_spec); [exact NK|]. right. split; [|exact Hk0].
      intros E. apply Nk. rewrite <- E. apply (in_map fst) in Hk0. exact Hk0.
  - intros id0 r0 H0 Ht0. apply in_app_or in H0. destruct H0 as [H0|[H0|[]]].
    + pose proof (inv_tm _ _ _ _ _ I _ _ H0 Ht0) as Hk0.
      apply (In_dset key_eqb key_eqb_spec); [exact NK|]. right. split; [|exact Hk0].
      intros E. apply Nk. rewrite <- E. apply (in_map fst) in Hk0. exact Hk0.
    + inv H0. apply (In_dset key_eqb key_eqb_spec); [exact NK|]. left. auto.
  - intros id0 r0 H0. apply in_app_or in H0. destruct H0 as [H0|[H0|[]]].
    + pose proof (inv_fresh _ _ _ _ _ I _ _ H0). lia.
    + inv H0. lia.
  - apply (inv_exc _ _ _ _ _ I).
Qed.

(* ------------------------------------------------------------------ _new_pathtail returns an unused location *)
Lemma new_pathtail_from_spec bp fuel i :
  dmem Z.eqb bp (new_pathtail_from fuel bp i) = false \/
  (forall j, i <= j < i + Z.of_nat fuel -> dmem Z.eqb bp j = true).
Proof.
  revert i. induction fuel as [|f IH]; intros i.
  - right. intros j Hj. lia.
  - cbn [new_pathtail_from]. destruct (dmem Z.eqb bp i) eqn:E.
    + destruct (IH (i + 1)) as [H|H]; [left; exact H|]. right. intros j Hj.
      destruct (Z.eq_dec j i) as [->|N]; [exact E|]. apply H. lia.
    + left. exact E.
Qed.
Lemma new_pathtail_ge bp fuel i : i <= new_pathtail_from fuel bp i.
Proof. revert i. induction fuel as [|f IH]; intros i; cbn; [lia|]. destruct (dmem Z.eqb bp i); [|lia]. specialize (IH (i + 1)). lia. Qed.

Lemma new_pathtail_fresh st : ~ In (_new_pathtail st) (map fst (by_path st)).
Proof.
  unfold _new_pathtail. set (bp := by_path st).
  destruct (new_pathtail_from_spec bp (S (length bp)) 1) as [H|H].
  - apply (dget_None_notin Z.eqb Zeqb_spec). apply dmem_false. exact H.
  - exfalso.
    set (l := map (fun n => 1 + Z.of_nat n) (seq 0 (S (length bp)))).
    assert (ND : NoDup l).
    { apply FinFun.Injective_map_NoDup; [|apply seq_NoDup]. intros a b E. lia. }
    assert (Incl : incl l (map fst bp)).
    { intros j Hj. apply in_map_iff in Hj. destruct Hj as (n & <- & Hn). apply in_seq in Hn.
      assert (M : dmem Z.eqb bp (1 + Z.of_nat n) = true) by (apply H; lia).
      apply dmem_true in M. destruct M as [v M]. apply (dget_In Z.eqb Zeqb_spec) in M. apply (in_map fst) in M. exact M. }
    pose proof (NoDup_incl_length ND Incl) as L. unfold l in L. rewrite !map_length, seq_length in L. lia.
Qed.
Lemma new_pathtail_pos st : 1 <= _new_pathtail st.
Proof. apply new_pathtail_ge. Qed.

(* ------------------------------------------------------------------ initialize_endpoint *)
(* the state after a successful (re-)registration: the old registration of the key (if any) deleted, the new object
   appended and entered into both indexes *)
Definition registered (st : rd) (k : key) (r : reg) : rd :=
  let base := match dget key_eqb (by_key st) k with Some oid => deleted st oid | None => st end in
  {| objs := objs base ++ [(next_id st, r)]; by_key := dset key_eqb (by_key base) k (next_id st);
     by_path := dset Z.eqb (by_path base) (r_path r) (next_id st); now := now st;
     next_id := next_id st + 1; next_seq := next_seq st + 1; loop_exceptions := loop_exceptions st |}.
Definition location_for (st : rd) (k : key) : Z :=
  match dget key_eqb (by_key st) k with Some oid => r_path (obj st oid) | None => _new_pathtail st end.

Lemma initialize_endpoint_spec st remote q st' res : Inv st -> initialize_endpoint st remote q = (st', res) ->
  match res with
  | Raise e => st' = st /\ e = BadRequest
  | Ok id => exists k r, id = next_id st /\ r_key r = k /\ r_path r = location_for st k /\ r_links r = [] /\
                         r_timer r = Some (now st + (r_lt r + GRACE_PERIOD) * 1000000, next_seq st) /\
                         st' = registered st k r
  end.
Proof.
  intros I. unfold initialize_endpoint.
  destruct (pop_single_arg q "ep") as [[q1 ep]|e] eqn:E1.
  2:{ intros H; inv H. split; [reflexivity|]. unfold pop_single_arg in E1. repeat break_match; inv E1; reflexivity. }
  destruct ep as [ep|]; [|intros H; inv H; split; reflexivity].
  destruct (pop_single_arg q1 "d") as [[q2 d]|e] eqn:E2.
  2:{ intros H; inv H. split; [reflexivity|]. unfold pop_single_arg in E2. repeat break_match; inv E2; reflexivity. }
  destruct (pop_single_arg q2 "proxy") as [[q3 proxy]|e] eqn:E3.
  2:{ intros H; inv H. split; [reflexivity|]. unfold pop_single_arg in E3. repeat break_match; inv E3; reflexivity. }
  destruct (match proxy with Some p => negb (in_strs p ["on"; "yes"; "ondemand"]%string) | None => false end);
    [intros H; inv H; split; reflexivity|].
  match goal with |- context [dmem String.eqb ?s "proxy"] => destruct (dmem String.eqb s "proxy") end;
    [intros H; inv H; split; reflexivity|].
  set (k := (ep, d)).
  match goal with |- context [Registration_init ?x1 ?x2 ?x3 ?x4 ?x5 ?x6 ?x7] => destruct (Registration_init x1 x2 x3 x4 x5 x6 x7) as [r|r err] eqn:ER end.
  2:{ intros H; inv H. split; [reflexivity|]. unfold Registration_init in ER. apply update_params_fail_clean in ER. apply ER. }
  unfold Registration_init in ER. apply update_params_ok in ER. cbn [r_key r_path r_links] in ER. destruct ER as (Rk & Rp & Rl & Rt).
  destruct (dget key_eqb (by_key st) k) as [oid|] eqn:Eold'.
  - pose proof (dget_In key_eqb key_eqb_spec _ _ _ Eold') as Eold.
    destruct (inv_bk _ _ _ _ _ I _ _ Eold) as (r0 & Ho0 & Hk0 & Hp0 & Ht0).
    pose proof (inv_ids _ _ _ _ _ I) as NI.
    pose proof (obj_In st oid r0 NI Ho0) as Eobj.
    assert (Eget : dget Z.eqb (objs st) oid = Some r0) by (apply In_dget; [apply Zeqb_spec|exact NI|exact Ho0]).
    match goal with |- context [reg_delete ?s oid] => set (st1 := s) end.
    assert (Eobj1 : obj st1 oid = r0).
    { unfold obj, st1. cbn [objs]. rewrite (dget_app_mem Z.eqb _ _ _ _ Eget). reflexivity. }
    rewrite (reg_delete_spec st1 oid).
    + intros H; injection H as <- <-. exists k, r. unfold registered, location_for. rewrite Eold', Eobj. rewrite Eobj in Rp.
      repeat split; auto.
      unfold deleted, with_by_key, with_by_path. cbn [objs by_key by_path now next_id next_seq loop_exceptions].
      rewrite Eobj1, Eobj. unfold st1. cbn [objs by_key by_path now next_id next_seq loop_exceptions].
      rewrite dset_app_mem; [|apply dmem_true; eauto]. rewrite Rp. reflexivity.
    + rewrite Eobj1. unfold st1. cbn [by_path]. eapply In_dmem; [apply Zeqb_spec|apply (inv_paths _ _ _ _ _ I)|exact Hp0].
    + rewrite Eobj1, Hk0. unfold st1. cbn [by_key]. eapply In_dmem; [apply key_eqb_spec|apply (inv_keys _ _ _ _ _ I)|exact Eold].
  - intros H; injection H as <- <-. exists k, r. unfold registered, location_for. rewrite Eold'. repeat split; auto.
    unfold with_by_key, with_by_path. cbn [objs by_key by_path now next_id next_seq loop_exceptions]. rewrite Rp. reflexivity.
Qed.

Lemma Inv_registered st k r : Inv st -> r_key r = k -> r_path r = location_for st k -> has_timer r = true ->
  Inv (registered st k r).
Proof.
  intros I Rk Rp Rt. unfold registered, location_for in *.
  destruct (dget key_eqb (by_key st) k) as [oid|] eqn:Eold.
  - pose proof (dget_In key_eqb key_eqb_spec _ _ _ Eold) as Hin.
    pose proof (Inv_deleted st oid k I Hin) as ID.
    destruct (Inv_indexed_delete st oid k I Hin) as [_ Hk].
    unfold Inv. cbn [objs by_key by_path next_id loop_exceptions].
    apply Inv_add_new; auto.
    + unfold deleted. cbn [by_key]. rewrite Hk. rewrite ddel_keys_in; [tauto|apply key_eqb_spec|apply (inv_keys _ _ _ _ _ I)].
    + unfold deleted. cbn [by_path]. rewrite Rp. rewrite ddel_keys_in; [tauto|apply Zeqb_spec|apply (inv_paths _ _ _ _ _ I)].
  - unfold Inv. cbn [objs by_key by_path next_id loop_exceptions].
    apply Inv_add_new; auto.
    + apply (dget_None_notin key_eqb key_eqb_spec). exact Eold.
    + rewrite Rp. apply new_pathtail_fresh.
Qed.

(* ------------------------------------------------------------------ lookup of a registration resource *)
Lemma lookup_path_In st path id : lookup_path st path = Some id -> exists p, In (p, id) (by_path st) /\ path = [str_of_Z p; EmptyString].
Proof.
  unfold lookup_path. destruct path as [|s [|e [|x l]]]; try discriminate.
  destruct (String.eqb e EmptyString) eqn:Ee; [|discriminate]. apply String.eqb_eq in Ee. subst e.
  destruct (find _ (by_path st)) as [[p i]|] eqn:F; [|discriminate]. intros H. inv H.
  apply find_some in F. destruct F as [F1 F2]. cbn in F2. apply String.eqb_eq in F2. subst s. exists p. auto.
Qed.

(* ------------------------------------------------------------------ every request preserves the invariant *)
Lemma Inv_update st id r r' nseq t : Inv st -> In (id, r) (objs st) -> r_key r' = r_key r -> r_path r' = r_path r -> has_timer r' = has_timer r ->
  Inv {| objs := dset Z.eqb (objs st) id r'; by_key := by_key st; by_path := by_path st; now := t;
         next_id := next_id st; next_seq := nseq; loop_exceptions := loop_exceptions st |}.
Proof. intros I H E1 E2 E3. unfold Inv. cbn. eapply Inv_set_obj; eauto. Qed.

Lemma _update_params_Inv st id remote qs st' res : Inv st -> (exists p, In (p, id) (by_path st)) ->
  _update_params st id remote qs = (st', res) -> Inv st' /\ res <> Some KeyError /\
  (forall e, res = Some e -> is_4xx (Err e) = true -> st' = st) /\ now st' = now st.
Proof.
  intros I [p Hp] H. destruct (inv_bp _ _ _ _ _ I _ _ Hp) as (r & Ho & Hpr & Hk).
  pose proof (inv_ids _ _ _ _ _ I) as NI. pose proof (obj_In st id r NI Ho) as Eobj.
  pose proof (inv_bk _ _ _ _ _ I _ _ Hk) as (r1 & Ho1 & _ & _ & Ht). pose proof (In_fun _ _ _ _ NI Ho Ho1). subst r1.
  unfold _update_params in H. rewrite Eobj in H.
  destruct (update_params r remote (query_split qs) false (now st) (next_seq st)) as [r'|r' e] eqn:EU.
  - inv H. apply update_params_ok in EU. destruct EU as (E1 & E2 & E3 & E4). split; [|split; [discriminate|split; [discriminate|reflexivity]]].
    eapply Inv_update; eauto. unfold has_timer. rewrite E4. exact (eq_sym Ht).
  - inv H. pose proof (update_params_fail_exn _ _ _ _ _ _ _ _ EU) as Ex. apply update_params_fail in EU. destruct EU as (E1 & E2 & E3 & E4 & E5).
    split; [|split; [|split; [|reflexivity]]].
    + unfold set_obj. eapply Inv_update; eauto. unfold has_timer. rewrite E4. reflexivity.
    + unfold UnboundLocalError in Ex. destruct Ex as [->|[->| ->]]; discriminate.
    + intros e0 He H4. inv He. rewrite (E5 H4). unfold set_obj. rewrite dset_same; [destruct st; reflexivity|].
      apply In_dget; [apply Zeqb_spec|exact NI|exact Ho].
Qed.

(* ------------------------------------------------------------------ timers *)
Definition timer_step (best : option (Z * Z * Z)) (kv : Z * reg) : option (Z * Z * Z) :=
  match r_timer (snd kv) with
  | None => best
  | Some (due, seq) =>
      match best with
      | None => Some (due, seq, fst kv)
      | Some b => if timer_lt (due, seq, fst kv) b then Some (due, seq, fst kv) else best
      end
  end.
Lemma next_timer_fold st : next_timer st = fold_left timer_step (objs st) None.
Proof. reflexivity. Qed.

Lemma fold_timer_In l best due s id : fold_left timer_step l best = Some (due, s, id) ->
  best = Some (due, s, id) \/ exists r, In (id, r) l /\ r_timer r = Some (due, s).
Proof.
  revert best. induction l as [|[i x] l IH]; cbn [fold_left]; intros best H; [left; exact H|].
  apply IH in H. destruct H as [H|(r & Hin & Ht)]; [|right; exists r; split; [right; exact Hin|exact Ht]].
  unfold timer_step in H. cbn [fst snd] in H. destruct (r_timer x) as [[d q]|] eqn:Et; [|left; exact H].
  destruct best as [b|].
  - destruct (timer_lt (d, q, i) b); [|left; exact H]. inv H. right. exists x. split; [left; reflexivity|exact Et].
  - inv H. right. exists x. split; [left; reflexivity|exact Et].
Qed.
Lemma next_timer_In st due s id : next_timer st = Some (due, s, id) -> exists r, In (id, r) (objs st) /\ r_timer r = Some (due, s).
Proof. rewrite next_timer_fold. intros H. apply fold_timer_In in H. destruct H as [H|H]; [discriminate|exact H]. Qed.

Lemma Inv_with_now st t : Inv st -> Inv (with_now st t). Proof. intros I. exact I. Qed.

Lemma fire_one st due s id : Inv st -> next_timer st = Some (due, s, id) ->
  let st0 := with_now st (Z.max (now st) due) in
  reg_delete st0 id = (deleted st0 id, false) /\ Inv (deleted st0 id).
Proof.
  intros I H st0. destruct (next_timer_In _ _ _ _ H) as (r & Hin & Ht).
  assert (Hk : In (r_key r, id) (by_key st0)). { apply (inv_tm _ _ _ _ _ I _ _ Hin). unfold has_timer. rewrite Ht. reflexivity. }
  pose proof (Inv_with_now st (Z.max (now st) due) I) as I0. fold st0 in I0.
  split; [apply (Inv_indexed_delete st0 id _ I0 Hk)|apply (Inv_deleted st0 id _ I0 Hk)].
Qed.

Lemma fire_due_Inv fuel : forall st target, Inv st -> Inv (fire_due fuel st target).
Proof.
  induction fuel as [|f IH]; intros st target I; cbn [fire_due]; [exact I|].
  destruct (next_timer st) as [[[due s] id]|] eqn:E; [|exact I].
  destruct (due <=? target); [|exact I].
  destruct (fire_one st due s id I E) as [Hd Hi]. rewrite Hd. apply IH. exact Hi.
Qed.
Lemma advance_Inv st dt : Inv st -> Inv (advance st dt).
Proof. intros I. unfold advance. apply Inv_with_now. apply fire_due_Inv. exact I. Qed.
Lemma drain_Inv st : Inv st -> Inv (drain st).
Proof. intros I. unfold drain. apply fire_due_Inv. exact I. Qed.

(* ------------------------------------------------------------------ handle *)
Lemma set_links_Inv st id : Inv st -> (exists r, In (id, r) (objs st)) -> forall links, Inv (set_obj st id (set_links (obj st id) links)).
Proof.
  intros I [r Ho] links. rewrite (obj_In st id r (inv_ids _ _ _ _ _ I) Ho). unfold set_obj. eapply Inv_update; eauto.
Qed.

Definition is_lookup (o : op) : bool := match o with LookupEp _ _ | LookupRes _ _ => true | _ => false end.
Lemma handle_Inv st o st' r : Inv st -> handle st o = (st', r) ->
  Inv st' /\ (is_lookup o = false -> r <> Err KeyError) /\ (is_4xx r = true -> st' = st).
Proof.
  intros I. destruct o as [remote q b|path remote q b|path remote q b|path|path accept|q accept|q accept|dt]; cbn [handle].
  - (* Register *)
    unfold directory_render_post. destruct (link_format_from_message b) as [links|e] eqn:EL.
    2:{ intros H; inv H. split; [exact I|]. split; [intros _|reflexivity]. unfold link_format_from_message in EL. repeat break_match; inv EL; discriminate. }
    destruct (initialize_endpoint st remote (query_split q)) as [st1 [id|e]] eqn:EI; pose proof (initialize_endpoint_spec _ _ _ _ _ I EI) as S; cbn beta iota in S.
    + destruct S as (k & r0 & -> & Rk & Rp & Rl & Rt & ->). intros H; inv H.
      assert (I1 : Inv (registered st (r_key r0) r0)). { apply Inv_registered; auto. unfold has_timer. rewrite Rt. reflexivity. }
      split; [|split; [intros _; discriminate|intros X; cbn in X; discriminate X]].
      apply set_links_Inv; [exact I1|]. exists r0. unfold registered. cbn [objs]. apply in_or_app. right. left. reflexivity.
    + destruct S as [-> Ne]. intros H; inv H. split; [exact I|]. split; [intros _; congruence|reflexivity].
  - (* UpdatePost *)
    destruct (lookup_path st path) as [id|] eqn:EP; [|intros H; inv H; split; [exact I|split; [intros _; discriminate|reflexivity]]].
    apply lookup_path_In in EP. destruct EP as (p & Hp & _).
    unfold registration_render_post. destruct (_ || _); [intros H; inv H; split; [exact I|split; [intros _; discriminate|reflexivity]]|].
    destruct (_update_params st id remote q) as [st1 [e|]] eqn:EU; intros H; inv H;
      destruct (_update_params_Inv _ _ _ _ _ _ I (ex_intro _ p Hp) EU) as (I1 & Ne & F & _).
    + split; [exact I1|]. split; [intros _; congruence|]. intros H4. apply (F e eq_refl H4).
    + split; [exact I1|]. split; discriminate.
  - (* UpdatePut *)
    destruct (lookup_path st path) as [id|] eqn:EP; [|intros H; inv H; split; [exact I|split; [intros _; discriminate|reflexivity]]].
    apply lookup_path_In in EP. destruct EP as (p & Hp & _).
    unfold registration_render_put. destruct (link_format_from_message b) as [links|e] eqn:EL.
    2:{ intros H; inv H. split; [exact I|]. split; [intros _|reflexivity]. unfold link_format_from_message in EL. repeat break_match; inv EL; discriminate. }
    destruct (_update_params st id remote q) as [st1 [e|]] eqn:EU; intros H; inv H;
      destruct (_update_params_Inv _ _ _ _ _ _ I (ex_intro _ p Hp) EU) as (I1 & Ne & F & _).
    + split; [exact I1|]. split; [intros _; congruence|]. intros H4. apply (F e eq_refl H4).
    + split; [|split; [intros _; discriminate|discriminate]]. apply set_links_Inv; [exact I1|].
      (* the object is still there after the update *)
      unfold _update_params in EU. destruct (update_params _ _ _ _ _ _) as [r'|r' e']; inv EU.
      destruct (inv_bp _ _ _ _ _ I _ _ Hp) as (r0 & Ho & _). exists r'. cbn [objs].
      apply (In_dset Z.eqb Zeqb_spec); [apply (inv_ids _ _ _ _ _ I)|]. left. auto.
  - (* Delete *)
    destruct (lookup_path st path) as [id|] eqn:EP; [|intros H; inv H; split; [exact I|split; [intros _; discriminate|reflexivity]]].
    apply lookup_path_In in EP. destruct EP as (p & Hp & _).
    destruct (inv_bp _ _ _ _ _ I _ _ Hp) as (r0 & Ho & _ & Hk).
    unfold registration_render_delete. destruct (Inv_indexed_delete st id _ I Hk) as [-> _].
    intros H; inv H. split; [eapply Inv_deleted; eauto|split; [intros _; discriminate|discriminate]].
  - destruct (lookup_path st path); intros H; inv H; (split; [exact I|split; [intros _|reflexivity]]); [|discriminate].
    unfold link_format_to_message. intros E. repeat break_match; discriminate.
  - intros H; inv H. split; [exact I|split; [intros X; cbn in X; discriminate X|reflexivity]].
  - intros H; inv H. split; [exact I|split; [intros X; cbn in X; discriminate X|reflexivity]].
  - intros H; inv H. split; [apply advance_Inv; exact I|split; [intros _; discriminate|intros X; discriminate X]].
Qed.

(* ------------------------------------------------------------------ expiry *)
Definition SettledAt (st : rd) (t : Z) : Prop :=
  forall id r due s, In (id, r) (objs st) -> r_timer r = Some (due, s) -> t < due.
(* no pending lifetime timer is due: the state between two events of the virtual loop *)
Definition Settled (st : rd) : Prop := SettledAt st (now st).

Definition due_of (m : Z * Z * Z) : Z := fst (fst m).
Lemma timer_lt_true a b : timer_lt a b = true -> due_of a <= due_of b.
Proof. destruct a as [[d1 s1] i1], b as [[d2 s2] i2]. unfold timer_lt, due_of. cbn. lia. Qed.
Lemma timer_lt_false a b : timer_lt a b = false -> due_of b <= due_of a.
Proof. destruct a as [[d1 s1] i1], b as [[d2 s2] i2]. unfold timer_lt, due_of. cbn. lia. Qed.

Lemma fold_timer_min l : forall best,
  (forall b, best = Some b -> exists m, fold_left timer_step l best = Some m /\ due_of m <= due_of b) /\
  (forall id r d s, In (id, r) l -> r_timer r = Some (d, s) -> exists m, fold_left timer_step l best = Some m /\ due_of m <= d).
Proof.
  induction l as [|[i x] l IH]; intros best; cbn [fold_left].
  - split; [intros b ->; exists b; split; [reflexivity|lia]|intros ? ? ? ? []].
  - destruct (IH (timer_step best (i, x))) as [IH1 IH2]. split.
    + intros b ->. unfold timer_step in *. cbn [fst snd] in *. destruct (r_timer x) as [[d q]|]; [|apply IH1; reflexivity].
      destruct (timer_lt (d, q, i) b) eqn:E.
      * destruct (IH1 _ eq_refl) as (m & Hm & Hle). exists m. split; [exact Hm|]. apply timer_lt_true in E. unfold due_of in *. cbn in *. lia.
      * apply IH1. reflexivity.
    + intros id r d s [H|H] Ht; [|eapply IH2; eauto]. inv H.
      unfold timer_step in *. cbn [fst snd] in *. rewrite Ht in *. destruct best as [b|].
      * destruct (timer_lt (d, s, id) b) eqn:E.
        -- destruct (IH1 _ eq_refl) as (m & Hm & Hle). exists m. split; [exact Hm|exact Hle].
        -- destruct (IH1 _ eq_refl) as (m & Hm & Hle). exists m. split; [exact Hm|]. apply timer_lt_false in E. unfold due_of in *. cbn in *. lia.
      * destruct (IH1 _ eq_refl) as (m & Hm & Hle). exists m. split; [exact Hm|exact Hle].
Qed.
Lemma next_timer_min st id r d s : In (id, r) (objs st) -> r_timer r = Some (d, s) ->
  exists m, next_timer st = Some m /\ due_of m <= d.
Proof. intros H Ht. rewrite next_timer_fold. destruct (fold_timer_min (objs st) None) as [_ F]. eapply F; eauto. Qed.

Definition pending (os : list (Z * reg)) : nat := length (filter (fun kv => has_timer (snd kv)) os).
Lemma pending_le os : (pending os <= length os)%nat.
Proof. unfold pending. induction os as [|x os IH]; cbn; [lia|]. destruct (has_timer (snd x)); cbn; lia. Qed.
Lemma pending_cancel os id r : NoDup (map fst os) -> In (id, r) os -> has_timer r = true ->
  S (pending (dset Z.eqb os id (set_timer r None))) = pending os.
Proof.
  unfold pending. induction os as [|[i x] os IH]; cbn [dset filter map]; intros ND H Ht; [contradiction|].
  inv ND. destruct H as [H|H].
  - inv H. rewrite Z.eqb_refl. cbn [filter snd]. rewrite Ht. cbn. reflexivity.
  - destruct (Z.eqb i id) eqn:E.
    + apply Z.eqb_eq in E. subst. exfalso. apply H2. apply (in_map fst) in H. exact H.
    + cbn [filter snd]. destruct (has_timer x); cbn [length]; rewrite <- (IH H3 H Ht); reflexivity.
Qed.

Lemma fire_due_now fuel : forall st target, now st <= target -> now st <= now (fire_due fuel st target) <= target.
Proof.
  induction fuel as [|f IH]; intros st target Hn; cbn [fire_due]; [lia|].
  destruct (next_timer st) as [[[due s] id]|] eqn:E; [|lia].
  destruct (due <=? target) eqn:Ed; [|lia].
  destruct (reg_delete (with_now st (Z.max (now st) due)) id) as [st1 raised] eqn:ER.
  assert (Hn1 : now st1 = Z.max (now st) due).
  { unfold reg_delete in ER. repeat break_match; inv ER; reflexivity. }
  assert (B : now (if raised then bump_exceptions st1 else st1) = Z.max (now st) due) by (destruct raised; exact Hn1).
  match goal with |- _ <= now (fire_due f ?s target) <= _ => specialize (IH s target) end.
  rewrite B in IH. lia.
Qed.

Lemma fire_due_settles fuel : forall st target, Inv st -> (pending (objs st) <= fuel)%nat ->
  SettledAt (fire_due fuel st target) target.
Proof.
  induction fuel as [|f IH]; intros st target I Hf; cbn [fire_due].
  - intros id r due s H Ht. exfalso. unfold pending in Hf.
    assert (In (id, r) (filter (fun kv => has_timer (snd kv)) (objs st))).
    { apply filter_In. split; [exact H|]. cbn. unfold has_timer. rewrite Ht. reflexivity. }
    destruct (filter _ (objs st)); [contradiction|cbn in Hf; lia].
  - destruct (next_timer st) as [[[due s] id]|] eqn:E.
    + destruct (due <=? target) eqn:Ed.
      * destruct (fire_one st due s id I E) as [Hd Hi]. rewrite Hd. apply IH; [exact Hi|].
        destruct (next_timer_In _ _ _ _ E) as (r & Hin & Ht).
        unfold deleted. cbn [objs with_now]. rewrite (obj_In _ id r); [|apply (inv_ids _ _ _ _ _ I)|exact Hin].
        pose proof (pending_cancel (objs st) id r (inv_ids _ _ _ _ _ I) Hin) as P.
        unfold has_timer in P at 1. rewrite Ht in P. specialize (P eq_refl). lia.
      * intros id' r' d' s' H Ht. destruct (next_timer_min st id' r' d' s' H Ht) as (m & Hm & Hle).
        rewrite E in Hm. inv Hm. unfold due_of in Hle. cbn in Hle. lia.
    + intros id' r' d' s' H Ht. destruct (next_timer_min st id' r' d' s' H Ht) as (m & Hm & _). rewrite E in Hm. discriminate.
Qed.

Lemma drain_Settled st : Inv st -> Settled (drain st).
Proof.
  intros I. unfold Settled, drain.
  pose proof (fire_due_now (length (objs st)) st (now st) (Z.le_refl _)) as N.
  replace (now (fire_due (length (objs st)) st (now st))) with (now st) by lia.
  apply fire_due_settles; [exact I|apply pending_le].
Qed.
Lemma advance_Settled st dt : Inv st -> 0 <= dt -> Settled (advance st dt).
Proof.
  intros I Hdt. unfold Settled, advance. cbn [now with_now]. unfold SettledAt. cbn [objs with_now].
  apply fire_due_settles; [exact I|apply pending_le].
Qed.

Lemma drain_id st : Settled st -> drain st = st.
Proof.
  intros S. unfold drain. destruct (length (objs st)); cbn [fire_due]; [reflexivity|].
  destruct (next_timer st) as [[[due s] id]|] eqn:E; [|reflexivity].
  destruct (next_timer_In _ _ _ _ E) as (r & Hin & Ht). pose proof (S _ _ _ _ Hin Ht).
  replace (due <=? now st) with false by lia. reflexivity.
Qed.

(* ------------------------------------------------------------------ step and run *)
Lemma step_Inv st o st' r : Inv st -> step st o = (st', r) ->
  Inv st' /\ Settled st' /\ (is_lookup o = false -> r <> Err KeyError).
Proof.
  intros I. unfold step. destruct (handle st o) as [st1 r1] eqn:EH. intros H; inv H.
  destruct (handle_Inv _ _ _ _ I EH) as (I1 & Nk & _).
  split; [apply drain_Inv; exact I1|split; [apply drain_Settled; exact I1|exact Nk]].
Qed.

Lemma empty_Inv : Inv empty_rd.
Proof. unfold Inv, empty_rd. cbn. constructor; cbn; try constructor; try tauto; try reflexivity. Qed.
Lemma empty_Settled : Settled empty_rd.
Proof. intros id r due s []. Qed.

Lemma run_state_Inv ops : forall st, Inv st -> Settled st -> Inv (run_state st ops) /\ Settled (run_state st ops).
Proof.
  induction ops as [|o ops IH]; intros st I S; cbn [run_state]; [auto|].
  destruct (step st o) as [st1 r] eqn:E. destruct (step_Inv _ _ _ _ I E) as (I1 & S1 & _). cbn [fst]. apply IH; assumption.
Qed.

(* a request answered with 4.xx leaves the whole directory state — both indexes, every registration's lifetime, base,
   parameters, links and timer, the clock — exactly as it was *)
Lemma failed_op_unchanged_lemma st o st' r : Inv st -> Settled st -> step st o = (st', r) -> is_4xx r = true -> st' = st.
Proof.
  intros I S. unfold step. destruct (handle st o) as [st1 r1] eqn:EH. intros H H4; inv H.
  destruct (handle_Inv _ _ _ _ I EH) as (_ & _ & F). rewrite (F H4). apply drain_id. exact S.
Qed.

(* ------------------------------------------------------------------ locations *)
Lemma register_location_lemma st remote q b st' loc : Inv st -> handle st (Register remote q b) = (st', Created loc) ->
  exists k, loc = location_for st k /\
            dget key_eqb (by_key st') k = Some (next_id st) /\ dget Z.eqb (by_path st') loc = Some (next_id st) /\
            r_key (obj st' (next_id st)) = k /\ r_path (obj st' (next_id st)) = loc.
Proof.
  intros I. cbn [handle]. unfold directory_render_post.
  destruct (link_format_from_message b) as [links|e]; [|discriminate].
  destruct (initialize_endpoint st remote (query_split q)) as [st1 [id|e]] eqn:EI; [|discriminate].
  pose proof (initialize_endpoint_spec _ _ _ _ _ I EI) as S. cbn beta iota in S.
  destruct S as (k & r0 & -> & Rk & Rp & Rl & Rt & ->). intros H. inv H.
  assert (I1 : Inv (registered st (r_key r0) r0)). { apply Inv_registered; auto. unfold has_timer. rewrite Rt. reflexivity. }
  assert (Hin : In (next_id st, r0) (objs (registered st (r_key r0) r0))).
  { unfold registered. cbn [objs]. apply in_or_app. right. left. reflexivity. }
  rewrite (obj_In _ _ _ (inv_ids _ _ _ _ _ I1) Hin).
  exists (r_key r0). split; [exact Rp|]. unfold set_obj. cbn [by_key by_path]. unfold registered at 1 2. cbn [by_key by_path].
  split; [apply (dget_dset_same key_eqb key_eqb_spec)|]. split; [apply (dget_dset_same Z.eqb Zeqb_spec)|].
  unfold obj. cbn [objs]. rewrite (dget_dset_same Z.eqb Zeqb_spec). cbn. auto.
Qed.

Lemma distinct_locations_lemma st k1 k2 id1 id2 : Inv st -> In (k1, id1) (by_key st) -> In (k2, id2) (by_key st) -> k1 <> k2 ->
  r_path (obj st id1) <> r_path (obj st id2).
Proof.
  intros I H1 H2 N E.
  destruct (inv_bk _ _ _ _ _ I _ _ H1) as (r1 & Ho1 & Hk1 & Hp1 & _).
  destruct (inv_bk _ _ _ _ _ I _ _ H2) as (r2 & Ho2 & Hk2 & Hp2 & _).
  pose proof (inv_ids _ _ _ _ _ I) as NI.
  rewrite (obj_In st id1 r1 NI Ho1), (obj_In st id2 r2 NI Ho2) in E. rewrite E in Hp1.
  pose proof (In_fun _ _ _ _ (inv_paths _ _ _ _ _ I) Hp1 Hp2). subst id2.
  pose proof (In_fun _ _ _ _ NI Ho1 Ho2). subst r2. congruence.
Qed.

Lemma indexes_bijective_lemma st : Inv st ->
  NoDup (map fst (by_key st)) /\ NoDup (map fst (by_path st)) /\
  (forall id, (exists k, In (k, id) (by_key st)) <-> (exists p, In (p, id) (by_path st))) /\
  (forall k id, In (k, id) (by_key st) -> r_key (obj st id) = k /\ In (r_path (obj st id), id) (by_path st)) /\
  (forall p id, In (p, id) (by_path st) -> r_path (obj st id) = p /\ In (r_key (obj st id), id) (by_key st)).
Proof.
  intros I. pose proof (inv_ids _ _ _ _ _ I) as NI.
  split; [apply I|split; [apply I|split; [|split]]].
  - intros id. split; intros [x H].
    + destruct (inv_bk _ _ _ _ _ I _ _ H) as (r & _ & _ & Hp & _). eauto.
    + destruct (inv_bp _ _ _ _ _ I _ _ H) as (r & _ & _ & Hk). eauto.
  - intros k id H. destruct (inv_bk _ _ _ _ _ I _ _ H) as (r & Ho & Hk & Hp & _). rewrite (obj_In st id r NI Ho). auto.
  - intros p id H. destruct (inv_bp _ _ _ _ _ I _ _ H) as (r & Ho & Hp & Hk). rewrite (obj_In st id r NI Ho). auto.
Qed.

(* reachable states *)
Definition reachable (st : rd) : Prop := exists ops, st = run_state empty_rd ops.
Lemma reachable_Inv st : reachable st -> Inv st /\ Settled st.
Proof. intros [ops ->]. apply run_state_Inv; [apply empty_Inv|apply empty_Settled]. Qed.

(* listed <-> pending unexpired lifetime *)
Lemma listed_iff_live_lemma st : Inv st -> Settled st ->
  forall id r, In (id, r) (objs st) ->
    ((exists k, In (k, id) (by_key st)) <-> exists due s, r_timer r = Some (due, s) /\ now st < due).
Proof.
  intros I S id r Ho. pose proof (inv_ids _ _ _ _ _ I) as NI. split.
  - intros [k H]. destruct (inv_bk _ _ _ _ _ I _ _ H) as (r1 & Ho1 & _ & _ & Ht).
    pose proof (In_fun _ _ _ _ NI Ho Ho1). subst r1. unfold has_timer in Ht. destruct (r_timer r) as [[d s]|] eqn:E; [|discriminate].
    exists d, s. split; [reflexivity|]. eapply S; eauto.
  - intros (d & s & Ht & _). exists (r_key r). apply (inv_tm _ _ _ _ _ I _ _ Ho). unfold has_timer. rewrite Ht. reflexivity.
Qed.

(* the closures never raise *)
Lemma run_no_exception ops : forall st, Inv st -> Settled st ->
  loop_exceptions (run_state st ops) = 0 /\
  Forall2 (fun o ob => is_lookup o = false -> o_resp ob <> Err KeyError) ops (run st ops).
Proof.
  induction ops as [|o ops IH]; intros st I S; cbn [run_state run].
  - split; [apply I|constructor].
  - destruct (step st o) as [st1 r] eqn:E. destruct (step_Inv _ _ _ _ I E) as (I1 & S1 & Nk). cbn [fst].
    destruct (IH st1 I1 S1) as [A B]. split; [exact A|]. constructor; [exact Nk|exact B].
Qed.

Lemma rereg_keeps_location_lemma st remote q b st' loc : reachable st ->
  handle st (Register remote q b) = (st', Created loc) ->
  exists k, (forall oid, dget key_eqb (by_key st) k = Some oid -> loc = r_path (obj st oid)) /\
            (dget key_eqb (by_key st) k = None -> ~ In loc (map fst (by_path st)) /\ 1 <= loc) /\
            dget key_eqb (by_key st') k = Some (next_id st) /\ dget Z.eqb (by_path st') loc = Some (next_id st) /\
            r_key (obj st' (next_id st)) = k /\ r_path (obj st' (next_id st)) = loc.
Proof.
  intros R H. destruct (reachable_Inv st R) as [I _].
  destruct (register_location_lemma _ _ _ _ _ _ I H) as (k & L & A & B & C & D).
  exists k. unfold location_for in L. split; [|split; [|auto]].
  - intros oid E. rewrite E in L. exact L.
  - intros E. rewrite E in L. subst loc. split; [apply new_pathtail_fresh|apply new_pathtail_pos].
Qed.
