(* C18 — the bookkeeping invariant of the message manager (Model/C18.v) that makes shutdown complete:
   every cancellable timer (retransmission, empty ACK) is referenced from _active_exchanges or
   _piggyback_opportunities, in every state reachable from a fresh context.  It rests on the NSTART bookkeeping
   (at most one exchange per remote, that remote has a _backlogs entry, messages queued for a remote are addressed
   to it) and on stored duplicate-replies never being CON, so that _add_exchange never overwrites a live entry. *)
From Verif Require Import Lib.Py Lib.Tactics Model.C18 Proofs.C18.
Open Scope Z_scope.

Definition pkey (p : piggy) : Z * Z := (p_remote p, p_tok p).

Record WFm (s : mmst) (xs : list exchange) : Prop := {
  wf_ex : exchanges s = Some xs;
  wf_own : forall t, In t (timers s) -> In (t_id t) (map x_timer xs) \/ In (t_id t) (map p_timer (piggys s));
  wf_bl : forall x, In x xs -> has_backlog s (x_remote x) = true;
  wf_one : NoDup (map x_remote xs);
  wf_stored : forall e m, In e (recents s) -> r_stored e = Some m -> m_type m <> CON;
  wf_pk : NoDup (map pkey (piggys s));
  wf_ea : forall t r tok, In t (timers s) -> t_kind t = TEmptyAck r tok ->
            exists p, In p (piggys s) /\ p_remote p = r /\ p_tok p = tok /\ p_timer p = t_id t;
  wf_items : forall b m mon, In b (backlogs s) -> In (m, mon) (b_items b) -> m_remote m = b_remote b }.
Definition WF (s : mmst) : Prop := exists xs, WFm s xs.

Lemma WF_owned s : WF s -> timers_owned s.
Proof. intros [xs H]. unfold timers_owned. rewrite (wf_ex _ _ H). exact (wf_own _ _ H). Qed.

(* ---------------------------------------------------------------- list facts *)
Lemma NoDup_map_inj_in {A B} (f : A -> B) (l : list A) a b :
  NoDup (map f l) -> In a l -> In b l -> f a = f b -> a = b.
Proof.
  induction l as [|x l IH]; cbn; [tauto|]. intros ND Ia Ib E. inversion ND as [|? ? Hx ND']; subst.
  destruct Ia as [->|Ia], Ib as [->|Ib]; auto.
  - exfalso. apply Hx. rewrite E. apply in_map. exact Ib.
  - exfalso. apply Hx. rewrite <- E. apply in_map. exact Ia.
Qed.
Lemma find_In {A} (p : A -> bool) l x : find p l = Some x -> In x l /\ p x = true.
Proof. apply find_some. Qed.
Lemma has_exchange_false xs r : has_exchange xs r = false <-> forall x, In x xs -> x_remote x <> r.
Proof.
  unfold has_exchange. split.
  - intros H x Ix E. assert (existsb (fun x => x_remote x =? r) xs = true); [|congruence].
    apply existsb_exists. exists x. split; [exact Ix|apply Z.eqb_eq; exact E].
  - intro H. destruct (existsb (fun x => x_remote x =? r) xs) eqn:E; [|reflexivity].
    apply existsb_exists in E. destruct E as (x & Ix & Hx). apply Z.eqb_eq in Hx. exfalso. exact (H x Ix Hx).
Qed.
Lemma has_backlog_true s r : has_backlog s r = true <-> exists b, In b (backlogs s) /\ b_remote b = r.
Proof.
  unfold has_backlog. rewrite existsb_exists. split; intros (b & I & H); exists b; split; auto; apply Z.eqb_eq; exact H.
Qed.
Lemma exchange_is_true r mid x : exchange_is r mid x = true <-> x_remote x = r /\ x_mid x = mid.
Proof. unfold exchange_is. rewrite andb_true_iff, !Z.eqb_eq. tauto. Qed.
Lemma piggy_is_true r tok p : piggy_is r tok p = true <-> pkey p = (r, tok).
Proof. unfold piggy_is, pkey. rewrite andb_true_iff, !Z.eqb_eq. split; [intros [-> ->]; reflexivity|intro H; inversion H; auto]. Qed.
Lemma filter_all {A} (p : A -> bool) l : (forall x, In x l -> p x = true) -> filter p l = l.
Proof. induction l as [|x l IH]; cbn; intro H; [reflexivity|]. rewrite (H x (or_introl eq_refl)). f_equal. apply IH. intros y Iy. apply H. right. exact Iy. Qed.

(* ---------------------------------------------------------------- primitive updates *)
Lemma WF_cancel s xs id : WFm s xs -> WFm (cancel s id) xs.
Proof.
  intros [E Own Bl One St Pk Ea It]. constructor; cbn; auto.
  - intros t I. apply filter_In in I. apply Own. tauto.
  - intros t r tok I K. apply filter_In in I. apply (Ea t r tok); tauto.
Qed.
Lemma WF_fold_cancel {A} (f : A -> Z) l : forall s xs, WFm s xs -> WFm (fold_left (fun a x => cancel a (f x)) l s) xs.
Proof. induction l as [|x l IH]; intros s xs H; cbn [fold_left]; [exact H|]. apply IH. apply WF_cancel. exact H. Qed.
Lemma WF_now s xs t : WFm s xs -> WFm (mm_set_now s t) xs.
Proof. intros [E Own Bl One St Pk Ea It]. constructor; cbn; auto. Qed.
Lemma WF_forgets s xs l : WFm s xs -> WFm (mm_set_forgets s l) xs.
Proof. intros [E Own Bl One St Pk Ea It]. constructor; cbn; auto. Qed.
Lemma WF_next_mid s xs : WFm s xs -> WFm (fst (_next_message_id s)) xs.
Proof. intros [E Own Bl One St Pk Ea It]. constructor; cbn; auto. Qed.
Lemma WF_call_later_forget s xs d r mid : WFm s xs -> WFm (call_later_forget s d r mid) xs.
Proof. intros [E Own Bl One St Pk Ea It]. constructor; cbn; auto. Qed.

Lemma WF_store s xs m : WFm s xs -> WFm (_store_response_for_duplicates s m) xs.
Proof.
  intros H. unfold _store_response_for_duplicates. destruct (is_ack_or_rst (m_type m)) eqn:T; cbn [negb]; [|exact H].
  destruct H as [E Own Bl One St Pk Ea It]. constructor; cbn; auto.
  intros e m' I S. apply in_map_iff in I. destruct I as (e0 & <- & I0).
  destruct (recent_is (m_remote m) (m_mid m) e0).
  - cbn in S. inversion S; subst. intro C. rewrite C in T. discriminate.
  - exact (St e0 m' I0 S).
Qed.
Lemma WF_recents_app s xs r mid : WFm s xs ->
  WFm (mm_set_recents s (recents s ++ [{| r_remote := r; r_mid := mid; r_stored := None |}])) xs.
Proof.
  intros [E Own Bl One St Pk Ea It]. constructor; cbn; auto.
  intros e m I S. apply in_app_or in I. destruct I as [I|[<-|[]]]; [exact (St e m I S)|discriminate S].
Qed.

Lemma has_backlog_set_items s r items r' : has_backlog (set_backlog_items s r items) r' = has_backlog s r'.
Proof.
  unfold has_backlog, set_backlog_items. cbn. induction (backlogs s) as [|b l IH]; cbn; [reflexivity|]. rewrite IH. f_equal.
  destruct (b_remote b =? r) eqn:E; cbn; [|reflexivity]. apply Z.eqb_eq in E. rewrite E. reflexivity.
Qed.
Lemma WF_set_items s xs r items : WFm s xs -> (forall m mon, In (m, mon) items -> m_remote m = r) ->
  WFm (set_backlog_items s r items) xs.
Proof.
  intros [E Own Bl One St Pk Ea It] Hi. constructor; try (cbn; auto; fail).
  - intros x Ix. rewrite has_backlog_set_items. apply Bl. exact Ix.
  - intros b m mon Ib Im. cbn in Ib. apply in_map_iff in Ib. destruct Ib as (b0 & <- & Ib0).
    destruct (b_remote b0 =? r); cbn in *; [apply Hi with mon; exact Im|apply (It b0 m mon); assumption].
Qed.
Lemma WF_del_backlog s xs r : WFm s xs -> has_exchange xs r = false -> WFm (del_backlog s r) xs.
Proof.
  intros [E Own Bl One St Pk Ea It] Hx. constructor; try (cbn; auto; fail).
  - intros x Ix. pose proof (Bl x Ix) as B. apply has_backlog_true in B. destruct B as (b & Ib & Hb).
    apply has_backlog_true. exists b. split; [|exact Hb]. cbn. apply filter_In. split; [exact Ib|].
    rewrite Hb. destruct (x_remote x =? r) eqn:Q; [|reflexivity]. apply Z.eqb_eq in Q.
    exfalso. exact (proj1 (has_exchange_false xs r) Hx x Ix Q).
  - intros b m mon Ib. cbn in Ib. apply filter_In in Ib. apply It. tauto.
Qed.

(* ---------------------------------------------------------------- exchanges *)
(* _active_exchanges.pop(key) followed by cancelling the popped entry's timer *)
Lemma WF_pop_exchange s xs r mid x : WFm s xs -> find (exchange_is r mid) xs = Some x ->
  let xs' := filter (fun x => negb (exchange_is r mid x)) xs in
  WFm (cancel (mm_set_exchanges s (Some xs')) (x_timer x)) xs' /\ has_exchange xs' r = false /\ x_remote x = r /\
  has_backlog s r = true.
Proof.
  intros [E Own Bl One St Pk Ea It] F. cbv zeta. apply find_In in F. destruct F as [Ix Kx].
  apply exchange_is_true in Kx. destruct Kx as [Kr Km].
  assert (Uniq : forall y, In y xs -> x_remote y = r -> y = x).
  { intros y Iy Hy. apply (NoDup_map_inj_in x_remote xs); auto. congruence. }
  split; [|split; [|split; [exact Kr|rewrite <- Kr; apply Bl; exact Ix]]].
  - constructor; cbn; auto.
    + intros t I. apply filter_In in I. destruct I as [I Hid]. destruct (Own t I) as [O|O]; [|right; exact O].
      left. apply in_map_iff in O. destruct O as (y & Hy & Iy). apply in_map_iff. exists y. split; [exact Hy|].
      apply filter_In. split; [exact Iy|]. destruct (exchange_is r mid y) eqn:Q; [|reflexivity].
      apply exchange_is_true in Q. assert (y = x) by (apply Uniq; tauto). subst y.
      rewrite Hy, Z.eqb_refl in Hid. discriminate.
    + intros y Iy. apply filter_In in Iy. apply Bl. tauto.
    + apply NoDup_map_filter. exact One.
    + intros t r0 tok I K. apply filter_In in I. apply (Ea t r0 tok); tauto.
  - apply has_exchange_false. intros y Iy Hy. apply filter_In in Iy. destruct Iy as [Iy Q].
    assert (y = x) by (apply Uniq; assumption). subst y.
    assert (exchange_is r mid x = true) by (apply exchange_is_true; tauto). rewrite H in Q. discriminate.
Qed.

(* arming a retransmission timer and entering the exchange, for a remote that has no exchange but a backlog entry *)
Lemma WF_add_entry s xs m timeout count mon : WFm s xs -> has_exchange xs (m_remote m) = false ->
  has_backlog s (m_remote m) = true ->
  let '(s1, id) := _schedule_retransmit s m timeout count in
  let xs' := xs ++ [{| x_remote := m_remote m; x_mid := m_mid m; x_mon := mon; x_timer := id |}] in
  WFm (mm_set_exchanges s1 (Some xs')) xs'.
Proof.
  intros [E Own Bl One St Pk Ea It] Hx Hb. unfold _schedule_retransmit, call_later. cbv zeta.
  constructor; cbn; auto.
  - intros t I. apply in_app_or in I. destruct I as [I|[<-|[]]].
    + destruct (Own t I) as [O|O]; [left|right; exact O]. rewrite map_app. apply in_or_app. left. exact O.
    + left. rewrite map_app. apply in_or_app. right. left. reflexivity.
  - intros x Ix. apply in_app_or in Ix. destruct Ix as [Ix|[<-|[]]]; [apply Bl; exact Ix|exact Hb].
  - rewrite map_app. cbn. apply NoDup_app_intro_one; [exact One|].
    intro I. apply in_map_iff in I. destruct I as (y & Hy & Iy). exact (proj1 (has_exchange_false xs _) Hx y Iy Hy).
  - intros t r tok I K. apply in_app_or in I. destruct I as [I|[<-|[]]]; [exact (Ea t r tok I K)|discriminate K].
Qed.

Lemma has_backlog_app s r r' : has_backlog (mm_set_backlogs s (backlogs s ++ [{| b_remote := r; b_items := [] |}])) r' =
  has_backlog s r' || (r =? r').
Proof. unfold has_backlog. cbn. rewrite existsb_app. cbn. rewrite orb_false_r. reflexivity. Qed.

Lemma filter_no_exchange xs r mid : has_exchange xs r = false -> filter (fun x => negb (exchange_is r mid x)) xs = xs.
Proof.
  intro H. apply filter_all. intros x Ix. destruct (exchange_is r mid x) eqn:Q; [|reflexivity].
  apply exchange_is_true in Q. exfalso. exact (proj1 (has_exchange_false xs r) H x Ix (proj1 Q)).
Qed.

Lemma WF_add_exchange s xs m mon : WFm s xs -> has_exchange xs (m_remote m) = false ->
  snd (_add_exchange s m mon) = [] /\ exists xs', WFm (fst (_add_exchange s m mon)) xs'.
Proof.
  intros H Hx. unfold _add_exchange.
  set (s1 := if has_backlog s (m_remote m) then s else _).
  assert (H1 : WFm s1 xs /\ has_backlog s1 (m_remote m) = true).
  { unfold s1. destruct (has_backlog s (m_remote m)) eqn:B; [split; [exact H|exact B]|].
    split; [|rewrite has_backlog_app, Z.eqb_refl; apply orb_true_r].
    destruct H as [E Own Bl One St Pk Ea It]. constructor; try (cbn; auto; fail).
    - intros x Ix. rewrite has_backlog_app. rewrite (Bl x Ix). reflexivity.
    - intros b m0 mon0 Ib Im. cbn in Ib. apply in_app_or in Ib. destruct Ib as [Ib|[<-|[]]]; [exact (It b m0 mon0 Ib Im)|destruct Im]. }
  destruct H1 as [H1 B1].
  pose proof (WF_add_entry s1 xs m (uniform s1) 0 mon H1 Hx B1) as A.
  destruct (_schedule_retransmit s1 m (uniform s1) 0) as [s2 id] eqn:Es2.
  assert (E2 : exchanges s2 = Some xs).
  { unfold _schedule_retransmit, call_later in Es2. inversion Es2; subst. cbn. exact (wf_ex _ _ H1). }
  rewrite E2. rewrite (filter_no_exchange xs _ _ Hx). cbn [fst snd]. split; [reflexivity|eexists; exact A].
Qed.

Lemma WF_send_initially s xs m mon : WFm s xs -> (m_type m = CON -> has_exchange xs (m_remote m) = false) ->
  exists xs', WFm (fst (_send_initially s m mon)) xs'.
Proof.
  intros H Pre. unfold _send_initially. destruct (m_type m) eqn:T.
  - destruct (WF_add_exchange s xs m mon H (Pre eq_refl)) as (O & xs' & H').
    destruct (_add_exchange s m mon) as [s1 o1]. cbn [fst snd] in *. subst o1. cbn [fst]. exists xs'. apply WF_store. exact H'.
  - cbn [fst]. exists xs. apply WF_store. exact H.
  - cbn [fst]. exists xs. apply WF_store. exact H.
  - cbn [fst]. exists xs. apply WF_store. exact H.
Qed.
(* exchanges are only touched when a CON is sent *)
Lemma send_initially_nocon s m mon : m_type m <> CON -> exchanges (fst (_send_initially s m mon)) = exchanges s /\
  backlogs (fst (_send_initially s m mon)) = backlogs s.
Proof.
  intro T. unfold _send_initially. destruct (m_type m); try congruence; cbn [fst];
    unfold _store_response_for_duplicates; destruct (negb _); cbn; auto.
Qed.
Lemma WF_send_initially_nocon s xs m mon : WFm s xs -> m_type m <> CON -> WFm (fst (_send_initially s m mon)) xs.
Proof.
  intros H T. unfold _send_initially. destruct (m_type m); try congruence; cbn [fst]; apply WF_store; exact H.
Qed.

(* ---------------------------------------------------------------- backlog *)
Lemma backlog_items_some s r items : backlog_items s r = Some items ->
  exists b, In b (backlogs s) /\ b_remote b = r /\ b_items b = items.
Proof.
  unfold backlog_items. destruct (find (fun b => b_remote b =? r) (backlogs s)) as [b|] eqn:F; [|discriminate].
  intro H. inversion H; subst. apply find_In in F. destruct F as [I K]. apply Z.eqb_eq in K. exists b. auto.
Qed.

Lemma WF_continue_backlog_loop fuel : forall s xs r, WFm s xs -> exists xs', WFm (fst (_continue_backlog_loop fuel s r)) xs'.
Proof.
  induction fuel as [|fuel IH]; intros s xs r H; cbn [_continue_backlog_loop]; [exists xs; exact H|].
  rewrite (wf_ex _ _ H). destruct (has_exchange xs r) eqn:Hx; [exists xs; exact H|].
  destruct (backlog_items s r) as [[|[m mon] rest]|] eqn:B; cbn [fst].
  - exists xs. apply WF_del_backlog; assumption.
  - apply backlog_items_some in B. destruct B as (b & Ib & Hb & Hi).
    assert (Hall : forall m0 mon0, In (m0, mon0) ((m, mon) :: rest) -> m_remote m0 = r).
    { intros m0 mon0 I. rewrite <- Hb. apply (wf_items _ _ H b m0 mon0 Ib). rewrite Hi. exact I. }
    assert (H1 : WFm (set_backlog_items s r rest) xs).
    { apply WF_set_items; [exact H|]. intros m0 mon0 I. apply (Hall m0 mon0). right. exact I. }
    assert (Pre : m_type m = CON -> has_exchange xs (m_remote m) = false).
    { intros _. rewrite (Hall m mon (or_introl eq_refl)). exact Hx. }
    destruct (WF_send_initially _ xs m mon H1 Pre) as (xs1 & H2).
    destruct (_send_initially (set_backlog_items s r rest) m mon) as [s1 o1]. cbn [fst] in H2.
    destruct (IH s1 xs1 r H2) as (xs2 & H3). destruct (_continue_backlog_loop fuel s1 r) as [s2 o2]. cbn [fst] in *.
    exists xs2. exact H3.
  - exists xs. exact H.
Qed.
Lemma WF_continue_backlog s xs r : WFm s xs -> exists xs', WFm (fst (_continue_backlog s r)) xs'.
Proof.
  intro H. unfold _continue_backlog. destruct (backlog_items s r); [apply WF_continue_backlog_loop with xs; exact H|exists xs; exact H].
Qed.

(* ---------------------------------------------------------------- piggy-back opportunities *)
Lemma WF_pop_piggy s xs r tok p : WFm s xs -> find (piggy_is r tok) (piggys s) = Some p ->
  WFm (cancel (mm_set_piggys s (filter (fun p => negb (piggy_is r tok p)) (piggys s))) (p_timer p)) xs.
Proof.
  intros [E Own Bl One St Pk Ea It] F. apply find_In in F. destruct F as [Ip Kp]. apply piggy_is_true in Kp.
  assert (Uniq : forall q, In q (piggys s) -> pkey q = (r, tok) -> q = p).
  { intros q Iq Hq. apply (NoDup_map_inj_in pkey (piggys s)); auto. congruence. }
  constructor; cbn; auto.
  - intros t I. apply filter_In in I. destruct I as [I Hid]. destruct (Own t I) as [O|O]; [left; exact O|right].
    apply in_map_iff in O. destruct O as (q & Hq & Iq). apply in_map_iff. exists q. split; [exact Hq|].
    apply filter_In. split; [exact Iq|]. destruct (piggy_is r tok q) eqn:Q; [|reflexivity].
    apply piggy_is_true in Q. assert (q = p) by (apply Uniq; assumption). subst q. rewrite Hq, Z.eqb_refl in Hid. discriminate.
  - apply NoDup_map_filter. exact Pk.
  - intros t r0 tok0 I K. apply filter_In in I. destruct I as [I Hid].
    destruct (Ea t r0 tok0 I K) as (q & Iq & Q1 & Q2 & Q3). exists q. split; [|auto].
    apply filter_In. split; [exact Iq|]. destruct (piggy_is r tok q) eqn:Q; [|reflexivity].
    apply piggy_is_true in Q. assert (q = p) by (apply Uniq; assumption). subst q. rewrite Q3, Z.eqb_refl in Hid. discriminate.
Qed.

Lemma WF_timers_sub s xs l : WFm s xs -> (forall t, In t l -> In t (timers s)) -> WFm (mm_set_timers s l) xs.
Proof.
  intros [E Own Bl One St Pk Ea It] Sub. constructor; cbn; auto.
Qed.

(* arming the empty-ACK timer of a request whose (remote, token) has no opportunity entry *)
Lemma WF_arm_piggy s xs r tok mid : WFm s xs -> find (piggy_is r tok) (piggys s) = None ->
  let '(s1, id) := call_later s EMPTY_ACK_DELAY (TEmptyAck r tok) in
  WFm (mm_set_piggys s1 (piggys s1 ++ [{| p_remote := r; p_tok := tok; p_mid := mid; p_timer := id |}])) xs.
Proof.
  intros [E Own Bl One St Pk Ea It] F. unfold call_later. cbv zeta. constructor; cbn; auto.
  - intros t I. apply in_app_or in I. destruct I as [I|[<-|[]]].
    + destruct (Own t I) as [O|O]; [left; exact O|right]. rewrite map_app. apply in_or_app. left. exact O.
    + right. rewrite map_app. apply in_or_app. right. left. reflexivity.
  - rewrite map_app. cbn. apply NoDup_app_intro_one; [exact Pk|].
    intro I. apply in_map_iff in I. destruct I as (q & Hq & Iq). apply piggy_is_true in Hq.
    cbn in Hq. pose proof (find_none _ _ F q Iq). congruence.
  - intros t r0 tok0 I K. apply in_app_or in I. destruct I as [I|[<-|[]]].
    + destruct (Ea t r0 tok0 I K) as (q & Iq & Q). exists q. split; [apply in_or_app; left; exact Iq|exact Q].
    + cbn in K. inversion K; subst. eexists. split; [apply in_or_app; right; left; reflexivity|cbn; auto].
Qed.

Lemma piggy_filter_none r tok l : find (piggy_is r tok) (filter (fun p => negb (piggy_is r tok p)) l) = None.
Proof.
  induction l as [|p l IH]; cbn; [reflexivity|]. destruct (piggy_is r tok p) eqn:Q; cbn; [exact IH|]. rewrite Q. exact IH.
Qed.

Lemma WF_process_request_piggyback s xs m : WFm s xs -> WFm (_process_request_piggyback s m) xs.
Proof.
  intro H. unfold _process_request_piggyback. destruct (m_type m); try exact H.
  destruct (find (piggy_is (m_remote m) (m_token m)) (piggys s)) as [p|] eqn:F.
  - (* an older request with the same token is still un-ACKed: its opportunity is dropped and its timer cancelled *)
    pose proof (WF_pop_piggy s xs _ _ p H F) as H1.
    set (sa := cancel (mm_set_piggys s (filter (fun p => negb (piggy_is (m_remote m) (m_token m) p)) (piggys s))) (p_timer p)) in H1.
    pose proof (WF_arm_piggy sa xs (m_remote m) (m_token m) (m_mid m) H1) as H2.
    assert (Fa : find (piggy_is (m_remote m) (m_token m)) (piggys sa) = None) by (unfold sa; cbn; apply piggy_filter_none).
    specialize (H2 Fa). unfold call_later in *. cbn [fst snd] in *. cbv zeta in H2.
    assert (Fs : find (piggy_is (m_remote m) (m_token m)) (piggys (mm_set_next_tid (mm_set_timers s (timers s ++ [{| t_due := now s + EMPTY_ACK_DELAY; t_id := next_tid s; t_kind := TEmptyAck (m_remote m) (m_token m) |}])) (next_tid s + 1))) = Some p) by exact F.
    rewrite Fs.
    match type of H2 with WFm ?sb0 _ => set (sb := sb0) in H2 end.
    match goal with |- WFm ?sf _ => replace sf with (mm_set_timers sb (filter (fun t => negb (t_id t =? p_timer p)) (timers s ++ [{| t_due := now s + EMPTY_ACK_DELAY; t_id := next_tid s; t_kind := TEmptyAck (m_remote m) (m_token m) |}]))) by reflexivity end.
    apply WF_timers_sub; [exact H2|].
    intros t I. apply filter_In in I. destruct I as [I Hid]. unfold sb, sa. cbn.
    apply in_app_or in I. apply in_or_app. destruct I as [I|I]; [left; apply filter_In; auto|right; exact I].
  - pose proof (WF_arm_piggy s xs (m_remote m) (m_token m) (m_mid m) H F) as H2.
    unfold call_later in *. cbv zeta in H2. cbn [fst snd] in *.
    assert (Fs : find (piggy_is (m_remote m) (m_token m)) (piggys (mm_set_next_tid (mm_set_timers s (timers s ++ [{| t_due := now s + EMPTY_ACK_DELAY; t_id := next_tid s; t_kind := TEmptyAck (m_remote m) (m_token m) |}])) (next_tid s + 1))) = None) by exact F.
    rewrite Fs. exact H2.
Qed.

(* ---------------------------------------------------------------- send_message, _deduplicate_message *)
Lemma WF_send_message s xs mt code tok obs r rt mon : WFm s xs ->
  exists xs', WFm (fst (send_message s mt code tok obs r rt mon)) xs'.
Proof.
  intro H. unfold send_message.
  set (first := if is_response code then _ else _).
  assert (H1 : WFm (fst (fst first)) xs).
  { unfold first. destruct (is_response code); [|exact H].
    destruct (find (piggy_is r tok) (piggys s)) as [p|] eqn:F; [|exact H]. cbn [fst]. apply WF_pop_piggy; assumption. }
  destruct first as [[s1 mt1] mid1]. cbn [fst] in H1. rewrite (wf_ex _ _ H1).
  set (mt2 := match mt1 with None => match rt with Some NON => NON | _ => CON end | Some t => t end).
  set (second := match mid1 with Some i => _ | None => _ end).
  assert (H2 : WFm (fst second) xs).
  { unfold second. destruct mid1; [exact H1|apply WF_next_mid; exact H1]. }
  destruct second as [s2 mid2]. cbn [fst] in H2.
  destruct (mtype_eqb mt2 CON && has_backlog s2 r) eqn:C.
  - rewrite (wf_ex _ _ H2). destruct (backlog_items s2 r) as [items|] eqn:B; cbn [fst]; [|exists xs; exact H2].
    exists xs. apply WF_set_items; [exact H2|]. intros m0 mon0 I. apply in_app_or in I. destruct I as [I|[I|[]]].
    + apply backlog_items_some in B. destruct B as (b & Ib & Hb & Hi). rewrite <- Hb. apply (wf_items _ _ H2 b m0 mon0 Ib). rewrite Hi. exact I.
    + inversion I; subst. reflexivity.
  - apply WF_send_initially with xs; [exact H2|]. cbn [m_type m_remote]. intro T.
    assert (mtype_eqb mt2 CON = true) by (rewrite T; reflexivity). rewrite H0 in C. cbn in C.
    apply has_exchange_false. intros x Ix Hx. pose proof (wf_bl _ _ H2 x Ix) as B. rewrite Hx in B. congruence.
Qed.

Lemma WF_deduplicate s xs m : WFm s xs -> exists xs', WFm (fst (fst (_deduplicate_message s m))) xs'.
Proof.
  intro H. unfold _deduplicate_message.
  destruct (find (recent_is (m_remote m) (m_mid m)) (recents s)) as [e|] eqn:F.
  - destruct (m_type m); try (cbn [fst]; exists xs; exact H).
    destruct (r_stored e) as [old|] eqn:S; [|cbn [fst]; exists xs; exact H].
    apply find_In in F. destruct F as [Ie _]. pose proof (wf_stored _ _ H e old Ie S) as T.
    pose proof (WF_send_initially_nocon s xs old MonNone H T) as H1.
    destruct (_send_initially s old MonNone) as [s1 o]. cbn [fst] in *. exists xs. exact H1.
  - cbn [fst]. exists xs.
    pose proof (WF_recents_app (call_later_forget s EXCHANGE_LIFETIME (m_remote m) (m_mid m)) xs (m_remote m) (m_mid m)
                  (WF_call_later_forget s xs _ _ _ H)) as H1. exact H1.
Qed.

(* ---------------------------------------------------------------- the upward half: the token manager's state is irrelevant *)
Lemma WF_remove_exchange s xs m : WFm (mm s) xs -> exists xs', WFm (mm (fst (_remove_exchange s m))) xs'.
Proof.
  intro H. unfold _remove_exchange. rewrite (wf_ex _ _ H).
  destruct (find (exchange_is (m_remote m) (m_mid m)) xs) as [x|] eqn:F; [|exists xs; exact H].
  pose proof (WF_pop_exchange (mm s) xs _ _ x H F) as (H1 & _). cbv zeta in H1.
  set (mm1 := cancel _ (x_timer x)) in *.
  destruct (match m_type m with RST => call_monitor (now mm1) (tm s) (x_mon x) | _ => (tm s, []) end) as [tm1 o1].
  destruct (WF_continue_backlog mm1 _ (m_remote m) H1) as (xs2 & H2).
  destruct (_continue_backlog mm1 (m_remote m)) as [mm2 o2]. cbn [fst mm] in *. exists xs2. exact H2.
Qed.

Lemma WF_handler_respond s xs h code last obs lg : WFm (mm s) xs -> exists xs', WFm (mm (fst (handler_respond s h code last obs lg))) xs'.
Proof.
  intro H. unfold handler_respond. destruct (incoming (tm s)) as [l|]; [|exists xs; exact H].
  destruct (find (fun i => i_h i =? h) l) as [i|]; [|exists xs; exact H].
  destruct (WF_send_message (mm s) xs None code (i_tok i) obs (i_remote i) (Some (i_type i)) (MonSrv h) H) as (xs' & H').
  destruct (send_message _ _ _ _ _ _ _ _) as [mm1 out]. cbn [fst mm] in *. exists xs'. exact H'.
Qed.

Lemma fold_cancel_set_exchanges {A} (f : A -> Z) l : forall s v,
  fold_left (fun a x => cancel a (f x)) l (mm_set_exchanges s v) = mm_set_exchanges (fold_left (fun a x => cancel a (f x)) l s) v.
Proof. induction l as [|x l IH]; intros s v; cbn [fold_left]; [reflexivity|]. rewrite <- IH. reflexivity. Qed.

Lemma WF_dispatch_error s xs e r : WFm (mm s) xs -> exists xs', WFm (mm (fst (dispatch_error s e r))) xs'.
Proof.
  intro H. unfold dispatch_error. rewrite (wf_ex _ _ H).
  destruct (tm_dispatch_error _ _ _ _) as [tm1 o1]. cbn [fst mm].
  set (gone := filter (fun x => x_remote x =? r) xs). set (xs' := filter (fun x => negb (x_remote x =? r)) xs).
  exists xs'. rewrite fold_cancel_set_exchanges.
  assert (Hx : has_exchange xs' r = false).
  { apply has_exchange_false. intros x Ix Q. apply filter_In in Ix. destruct Ix as [_ Ix]. apply Z.eqb_eq in Q. rewrite Q in Ix. discriminate. }
  apply WF_del_backlog; [|exact Hx].
  pose proof (WF_fold_cancel x_timer gone (mm s) xs H) as H1.
  set (sc := fold_left (fun a x => cancel a (x_timer x)) gone (mm s)) in *.
  assert (Tm : forall t, In t (timers sc) -> ~ In (t_id t) (map x_timer gone)) by (intros t I; apply (fold_cancel_removes x_timer gone (mm s) t I)).
  destruct H1 as [E Own Bl One St Pk Ea It]. constructor; cbn; auto.
  - intros t I. destruct (Own t I) as [O|O]; [left|right; exact O].
    apply in_map_iff in O. destruct O as (y & Hy & Iy). apply in_map_iff. exists y. split; [exact Hy|].
    apply filter_In. split; [exact Iy|]. destruct (x_remote y =? r) eqn:Q; [|reflexivity]. exfalso.
    apply (Tm t I). rewrite <- Hy. apply in_map. apply filter_In. auto.
  - intros y Iy. apply filter_In in Iy. apply Bl. tauto.
  - apply NoDup_map_filter. exact One.
Qed.

Lemma WF_retransmit s xs m timeout count : WFm (mm s) xs -> exists xs', WFm (mm (fst (_retransmit s m timeout count))) xs'.
Proof.
  intro H. unfold _retransmit. rewrite (wf_ex _ _ H).
  destruct (find (exchange_is (m_remote m) (m_mid m)) xs) as [x|] eqn:F; [|exists xs; exact H].
  pose proof (WF_pop_exchange (mm s) xs _ _ x H F) as (H1 & Hx & Hr & Hb). cbv zeta in H1, Hx.
  set (xs' := filter (fun x => negb (exchange_is (m_remote m) (m_mid m) x)) xs) in *.
  set (mm1 := cancel _ (x_timer x)) in *.
  assert (Hb1 : has_backlog mm1 (m_remote m) = true) by exact Hb.
  destruct (count <? MAX_RETRANSMIT).
  - pose proof (WF_add_entry mm1 xs' m (timeout * 2) (count + 1) (x_mon x) H1 Hx Hb1) as A.
    destruct (_schedule_retransmit mm1 m (timeout * 2) (count + 1)) as [mm2 id]. cbn [fst mm]. eexists. exact A.
  - rewrite Hb1. destruct (tm_dispatch_error _ _ _ _) as [tm1 o]. cbn [fst mm]. exists xs'. apply WF_del_backlog; assumption.
Qed.

Lemma WF_run_item s xs i : WFm (mm s) xs -> In i (pending (mm s)) -> exists xs', WFm (mm (fst (run_item s i))) xs'.
Proof.
  intros H I. unfold pending in I. apply in_app_or in I. destruct I as [I|I]; apply in_map_iff in I; destruct I as (t & <- & It).
  - unfold run_item. set (tau := Z.max (now (mm s)) (t_due t)).
    assert (H0 : WFm (mm_set_now (cancel (mm s) (t_id t)) tau) xs) by (apply WF_now; apply WF_cancel; exact H).
    destruct (t_kind t) as [m timeout count|r tok] eqn:K.
    + apply (WF_retransmit {| tm := tm s; mm := mm_set_now (cancel (mm s) (t_id t)) tau |} xs m timeout count H0).
    + unfold on_timeout. cbn [piggys mm_set_now cancel mm_set_timers].
      destruct (wf_ea _ _ H t r tok It K) as (p0 & Ip0 & P1 & P2 & P3).
      destruct (find (piggy_is r tok) (piggys (mm s))) as [p|] eqn:F.
      * assert (p = p0).
        { pose proof (find_In _ _ _ F) as [Ip Kp]. apply piggy_is_true in Kp.
          apply (NoDup_map_inj_in pkey (piggys (mm s))); [exact (wf_pk _ _ H)|exact Ip|exact Ip0|]. rewrite Kp. unfold pkey. congruence. }
        subst p0.
        pose proof (WF_now _ xs tau (WF_pop_piggy (mm s) xs r tok p H F)) as H1.
        match goal with |- context [_send_empty_ack ?a ?b ?c] =>
          replace a with (mm_set_now (cancel (mm_set_piggys (mm s) (filter (fun p => negb (piggy_is r tok p)) (piggys (mm s)))) (p_timer p)) tau)
            by (rewrite P3; reflexivity) end.
        match goal with |- context [_send_empty_ack ?a ?b ?c] =>
          pose proof (WF_send_initially_nocon a xs {| m_type := ACK; m_code := EMPTY; m_mid := c; m_token := 0; m_obs := None; m_remote := b |} MonNone H1) as H2 end.
        unfold _send_empty_ack. destruct (_send_initially _ _ _) as [mm1 o]. cbn [fst mm] in *. exists xs. apply H2. cbn. discriminate.
      * cbn [fst mm]. exists xs. exact H0.
  - unfold run_item.
    set (mm0 := mm_set_now _ _).
    assert (H0 : WFm mm0 xs) by (unfold mm0; apply WF_now; apply WF_forgets; exact H).
    unfold forget_recent. destruct (existsb (recent_is (f_remote t) (f_mid t)) (recents mm0)); cbn [fst mm]; [|exists xs; exact H0].
    exists xs. destruct H0 as [E Own Bl One St Pk Ea Itm]. constructor; cbn; auto.
    intros e m Ie S. apply filter_In in Ie. apply (St e m); tauto.
Qed.

Lemma WF_fire s xs : WFm (mm s) xs -> exists xs', WFm (mm (fst (fire s))) xs'.
Proof.
  intro H. unfold fire. destruct (earliest (pending (mm s))) as [i|] eqn:E; [|exists xs; exact H].
  apply WF_run_item with xs; [exact H|apply earliest_In; exact E].
Qed.
Lemma WF_advance fuel : forall s xs target, WFm (mm s) xs -> exists xs', WFm (mm (fst (advance_to fuel s target))) xs'.
Proof.
  induction fuel as [|fuel IH]; intros s xs target H; cbn [advance_to]; [exists xs; exact H|].
  destruct (earliest (pending (mm s))) as [i|] eqn:E; [|cbn [fst mm]; exists xs; apply WF_now; exact H].
  destruct (fst (item_key i) <=? target); [|cbn [fst mm]; exists xs; apply WF_now; exact H].
  destruct (WF_run_item s xs i H (earliest_In _ _ E)) as (xs1 & H1). destruct (run_item s i) as [s1 o1]. cbn [fst] in H1.
  destruct (IH s1 xs1 target H1) as (xs2 & H2). destruct (advance_to fuel s1 target) as [s2 o2]. exists xs2. exact H2.
Qed.

Lemma WF_dispatch_message s xs m : WFm (mm s) xs -> exists xs', WFm (mm (fst (dispatch_message s m))) xs'.
Proof.
  intro H. unfold dispatch_message.
  set (d := if is_request (m_code m) then _deduplicate_message (mm s) m else (mm s, [], false)).
  assert (H1 : exists xs1, WFm (fst (fst d)) xs1).
  { unfold d. destruct (is_request (m_code m)); [apply WF_deduplicate with xs; exact H|exists xs; exact H]. }
  destruct d as [[mm1 o1] dup]. cbn [fst] in H1. destruct H1 as (xs1 & H1). destruct dup; [exists xs1; exact H1|].
  set (s1 := {| tm := tm s; mm := mm1 |}).
  set (r2 := if is_ack_or_rst (m_type m) then _remove_exchange s1 m else (s1, [])).
  assert (H2 : exists xs2, WFm (mm (fst r2)) xs2).
  { unfold r2. destruct (is_ack_or_rst (m_type m)); [apply (WF_remove_exchange s1 xs1 m H1)|exists xs1; exact H1]. }
  destruct r2 as [s2 o2]. cbn [fst] in H2. destruct H2 as (xs2 & H2).
  match goal with |- exists xs', WFm (mm (fst (let '(s3, o3) := ?X in _))) xs' => assert (H3 : exists xs3, WFm (mm (fst X)) xs3); [|destruct X as [s3 o3]; exact H3] end.
  destruct ((m_code m =? EMPTY) && mtype_eqb (m_type m) CON).
  { unfold _process_ping.
    match goal with |- context [_send_initially ?a ?b ?c] => pose proof (WF_send_initially_nocon a xs2 b c H2) as Hs; destruct (_send_initially a b c) end.
    cbn [fst mm] in *. exists xs2. apply Hs. cbn. discriminate. }
  destruct ((m_code m =? EMPTY) && is_ack_or_rst (m_type m)); [exists xs2; exact H2|].
  destruct (is_request (m_code m) && negb (is_ack_or_rst (m_type m))).
  { destruct (tm_process_request (tm s2) m). cbn [fst mm]. exists xs2. apply WF_process_request_piggyback. exact H2. }
  destruct (is_response (m_code m) && negb (mtype_eqb (m_type m) RST)); [|exists xs2; exact H2].
  destruct (tm_process_response (now (mm s2)) (tm s2) m) as [[tm3 o] success].
  destruct success; destruct (m_type m); cbn [fst mm]; try (exists xs2; exact H2).
  - unfold _send_empty_ack.
    match goal with |- context [_send_initially ?a ?b ?c] => pose proof (WF_send_initially_nocon a xs2 b c H2) as Hs; destruct (_send_initially a b c) end.
    cbn [fst mm] in *. exists xs2. apply Hs. cbn. discriminate.
  - match goal with |- context [_send_initially ?a ?b ?c] => pose proof (WF_send_initially_nocon a xs2 b c H2) as Hs; destruct (_send_initially a b c) end.
    cbn [fst mm] in *. exists xs2. apply Hs. cbn. discriminate.
Qed.

Definition not_shutdown (e : event) : bool := match e with Shutdown => false | _ => true end.

Lemma WF_step s xs e : WFm (mm s) xs -> not_shutdown e = true -> exists xs', WFm (mm (fst (step s e))) xs'.
Proof.
  intros H NS. destruct e; try discriminate NS; cbn [step].
  - apply WF_dispatch_message with xs; exact H.
  - apply WF_fire with xs; exact H.
  - apply WF_advance with xs; exact H.
  - unfold tm_request. destruct (outgoing (tm s)); [|exists xs; exact H]. destruct (next_token (tm s)) as [tm1 tok].
    match goal with |- context [send_message ?a ?b ?c ?d ?e ?f ?g ?h] => destruct (WF_send_message a xs b c d e f g h H) as (xs' & H'); destruct (send_message a b c d e f g h) end.
    cbn [fst mm] in *. exists xs'. exact H'.
  - destruct (client_cancel (tm s) q). exists xs. exact H.
  - exists xs. exact H.
  - destruct (find _ (resolving (tm s))) as [[[[q0 r] mt] ob]|]; [|exists xs; exact H].
    unfold tm_request. cbn [tm mm]. destruct (outgoing _); [|exists xs; exact H]. destruct (next_token _) as [tm1 tok].
    match goal with |- context [send_message ?a ?b ?c ?d ?e ?f ?g ?h] => destruct (WF_send_message a xs b c d e f g h H) as (xs' & H'); destruct (send_message a b c d e f g h) end.
    cbn [fst mm] in *. exists xs'. exact H'.
  - apply WF_handler_respond with xs; exact H.
  - apply WF_handler_respond with xs; exact H.
  - apply WF_dispatch_error with xs; exact H.
Qed.

Lemma WF_run : forall es s xs, WFm (mm s) xs -> forallb not_shutdown es = true -> exists xs', WFm (mm (fst (run s es))) xs'.
Proof.
  induction es as [|e es IH]; intros s xs H NS; cbn [run]; [exists xs; exact H|].
  cbn [forallb] in NS. apply andb_true_iff in NS. destruct NS as [N1 N2].
  destruct (WF_step s xs e H N1) as (xs1 & H1). destruct (step s e) as [s1 o]. cbn [fst] in H1.
  destruct (IH s1 xs1 H1 N2) as (xs2 & H2). destruct (run s1 es). exists xs2. exact H2.
Qed.
Lemma WF_init u m t : WFm (mm (init u m t)) [].
Proof. constructor; cbn; try tauto; try constructor. Qed.

(* every cancellable timer of a context that has not been shut down is referenced from its tables *)
Theorem reachable_owned : forall es u m t, forallb not_shutdown es = true ->
  timers_owned (mm (fst (run (init u m t) es))) /\ exists xs, exchanges (mm (fst (run (init u m t) es))) = Some xs.
Proof.
  intros es u m t NS. destruct (WF_run es (init u m t) [] (WF_init u m t) NS) as (xs & H).
  split; [apply WF_owned; exists xs; exact H|exists xs; exact (wf_ex _ _ H)].
Qed.
