(* C08, round 6 — (A) the "ends on ..." theorems for reachable states, without the side condition on registration numbers
   (derived from reachability); (B) "a notification that is marked last / unsuccessful ends the registration" at the level of the
   trigger EVENT (step), not of the task's helper functions. *)
From Coq Require Import Permutation.
From Verif Require Import Lib.Py Lib.Tactics Model.C08 Proofs.C08 Proofs.C08Silent Proofs.C08Ends Proofs.C08Observe Proofs.C08Wire Proofs.C08Latest Proofs.C08Progress.
Open Scope Z_scope.

Lemma reach mid0 es : let s := run (init mid0) es in FI None s /\ InvA (abs s) /\ s_cancelq s = [] /\ LV s.
Proof. apply (run_all es (init mid0) (FI_init mid0) (InvA_init mid0) eq_refl (LV_init mid0)). Qed.
Lemma reach_rng mid0 es g0 : In g0 (s_regs (run (init mid0) es)) -> 0 <= g_gid g0 < s_gidctr (run (init mid0) es).
Proof. intros H. destruct (reach mid0 es) as ([HG _] & _). apply (g_rng _ HG). exact H. Qed.

(* ------------------------------------------------------------------ (A) unconditional on reachable states *)
Lemma r_ends_on_same_token mid0 es r con mid tok obs g0 : let s := run (init mid0) es in
  find_key s r tok = Some g0 -> s_down s = false -> in_recent s r mid = None -> ~ live (g_gid g0) (step s (ERequest r con mid tok obs)).
Proof. intros s Hk Hd Hr. apply ends_on_same_token; auto. apply reach_rng. apply find_key_In in Hk. tauto. Qed.
Lemma r_ends_on_transport_error mid0 es r g0 : let s := run (init mid0) es in
  In g0 (s_regs s) -> g_remote g0 = r -> s_down s = false -> ~ live (g_gid g0) (step s (ETransportError r)).
Proof. intros s Hi Hr Hd. apply ends_on_transport_error; auto. apply reach_rng. exact Hi. Qed.
Lemma r_ends_on_timeout mid0 es m t g0 : let s := run (init mid0) es in
  In g0 (s_regs s) -> g_remote g0 = m_remote m -> ~ live (g_gid g0) (flush_cancels (fire s (KRetrans m t MAX_RETRANSMIT))).
Proof. intros s Hi Hr. apply ends_on_timeout; auto. apply reach_rng. exact Hi. Qed.
Lemma r_ends_on_rst_con mid0 es r mid x : let s := run (init mid0) es in
  find (fun x => (x_remote x =? r) && (x_mid x =? mid)) (s_exch s) = Some x -> s_down s = false -> ~ live (x_gid x) (step s (ERst r mid)).
Proof.
  intros s Hx Hd. destruct (Z_lt_ge_dec (x_gid x) 0) as [Hn|Hn]; [|destruct (Z_lt_ge_dec (x_gid x) (s_gidctr s)) as [Hc|Hc]].
  2:{ apply ends_on_rst_con; auto. lia. }
  all: intros Hl; cbn [step] in Hl; rewrite Hd in Hl; unfold live in Hl; apply in_map_iff in Hl as [g1 [Eg Hi]];
    apply (lf_regs _ _ (LF_trans _ _ _ (LF_remove_exchange s r mid true) (LF_flush _))) in Hi; pose proof (reach_rng mid0 es g1 Hi) as R; fold s in R; lia.
Qed.

(* ------------------------------------------------------------------ (B) the trigger event *)
(* after one updated_state(v, is_last) every observer in [order] holds the value, and a set is_last sticks *)
Lemma trigger_all_val tv l order : forall s, NoDup (map g_gid (s_regs s)) ->
  let s' := fold_left (fun s gid => trigger s gid tv l) order s in
  s_gate s' = s_gate s /\
  exists F, s_regs s' = map F (s_regs s) /\ (forall g, g_gid (F g) = g_gid g /\ g_phase (F g) = g_phase g) /\
    (forall g, g_trig g = Some tv -> g_trig (F g) = Some tv) /\ (forall g, g_late g = true -> g_late (F g) = true) /\
    (forall g, In (g_gid g) order -> g_trig (F g) = Some tv /\ (l = true -> g_late (F g) = true)).
Proof.
  induction order as [|x o IH]; intros s Hn; cbn [fold_left].
  - split; [reflexivity|]. exists (fun g => g). rewrite map_id. split; [reflexivity|]. split; [intros g; split; reflexivity|]. split; [auto|]. split; [auto|]. intros g [].
  - set (f1 := fun g0 => if g_gid g0 =? x then set_trig g0 (Some tv) (g_late g0 || l) else g0).
    assert (R1 : s_regs (trigger s x tv l) = map f1 (s_regs s)) by (apply regs_trigger; exact Hn).
    assert (K1 : forall g, g_gid (f1 g) = g_gid g /\ g_phase (f1 g) = g_phase g) by (intros g; unfold f1; destruct (g_gid g =? x); split; reflexivity).
    assert (Hn1 : NoDup (map g_gid (s_regs (trigger s x tv l)))).
    { rewrite R1, map_map. erewrite map_ext; [exact Hn|]. intros g. apply K1. }
    assert (G1 : s_gate (trigger s x tv l) = s_gate s) by (unfold trigger; destruct (find_reg s x); reflexivity).
    destruct (IH (trigger s x tv l) Hn1) as (G2 & F2 & C & K2 & T2 & L2 & D). split; [congruence|].
    exists (fun g => F2 (f1 g)). split; [rewrite C, R1, map_map; reflexivity|].
    assert (T1 : forall g, g_trig g = Some tv -> g_trig (f1 g) = Some tv) by (intros g H; unfold f1; destruct (g_gid g =? x); [reflexivity | exact H]).
    assert (L1 : forall g, g_late g = true -> g_late (f1 g) = true) by (intros g H; unfold f1; destruct (g_gid g =? x); cbn; [rewrite H; reflexivity | exact H]).
    split; [intros g; split; [rewrite (proj1 (K2 (f1 g))); apply K1 | rewrite (proj2 (K2 (f1 g))); apply K1]|].
    split; [intros g H; apply T2, T1, H|]. split; [intros g H; apply L2, L1, H|].
    intros g H. split.
    + destruct H as [Hx|Hi]; [|apply D; rewrite (proj1 (K1 g)); exact Hi].
      apply T2. unfold f1. replace (g_gid g =? x) with true by lia. reflexivity.
    + intros Hl. destruct H as [Hx|Hi]; [|apply D; [rewrite (proj1 (K1 g)); exact Hi | exact Hl]].
      apply L2. unfold f1. replace (g_gid g =? x) with true by lia. cbn. rewrite Hl. apply orb_true_r.
Qed.

(* a task's run leaves the other registrations' entries and the gate alone *)
Definition others_stay (x : Z) (s s' : state) : Prop := (forall g1, In g1 (s_regs s) -> g_gid g1 <> x -> In g1 (s_regs s')) /\ s_gate s' = s_gate s.
Lemma os_trans x a b c : others_stay x a b -> others_stay x b c -> others_stay x a c.
Proof. intros [A1 A2] [B1 B2]. split; [intros; apply B1; auto | congruence]. Qed.
Lemma os_same x s s' : s_regs s' = s_regs s -> s_gate s' = s_gate s -> others_stay x s s'.
Proof. intros E1 E2. split; [intros; rewrite E1; assumption | exact E2]. Qed.
Lemma os_put s g : others_stay (g_gid g) s (put_reg s g).
Proof. split; [|reflexivity]. intros g1 H Hn. unfold put_reg. fsimpl. apply in_map_iff. exists g1. split; [|exact H]. replace (g_gid g1 =? g_gid g) with false by lia. reflexivity. Qed.
Lemma os_remove x s : others_stay x s (remove_reg s x).
Proof. split; [|reflexivity]. intros g1 H Hn. unfold remove_reg. fsimpl. apply filter_In. split; [exact H | lia]. Qed.
Lemma os_emit x s g code o pk pv : others_stay x s (emit s g code o pk pv).
Proof. destruct (emit_keep s g code o pk pv) as [K R]. apply os_same; [exact R | apply (k_gate _ _ K)]. Qed.
Lemma os_after_response cont s g res : (forall s1 g1, g_gid g1 = g_gid g -> others_stay (g_gid g) s1 (cont s1 g1)) ->
  others_stay (g_gid g) s (after_response cont s g res).
Proof. intros Hc. unfold after_response. destruct res as [code pk pv|code pk pv].
  - destruct (g_late g || negb (successful code)).
    + eapply os_trans; [apply os_emit|]. eapply os_trans; [apply os_remove | apply os_same; reflexivity].
    + eapply os_trans; [apply os_emit | apply Hc; reflexivity].
  - eapply os_trans; [apply (os_same _ s (cancel_cb s (g_gid g))); reflexivity|]. eapply os_trans; [apply os_emit | apply os_remove]. Qed.
Lemma os_run_loop f : forall s g, others_stay (g_gid g) s (run_loop f s g).
Proof. induction f as [|f IH]; intros s g; cbn [run_loop]; [apply os_put|].
  destruct (g_trig g) as [[|code k]|]; [| |apply (os_put s (set_phase g PWait))].
  - set (s1 := log s _). eapply os_trans; [apply (os_same _ s s1); reflexivity|]. destruct (s_gate s1).
    + apply (os_put s1 (set_phase (set_trig g None (g_late g)) (PNotif (s_version s1)))).
    + apply (os_after_response (run_loop f) s1 (set_trig g None (g_late g))). intros s2 g2 E. rewrite <- E. apply IH.
  - apply (os_after_response (run_loop f) s (set_trig g None (g_late g))). intros s2 g2 E. rewrite <- E. apply IH.
Qed.

Lemma a_flush_ctr b : a_ctr (a_flush b) = a_ctr b.
Proof. unfold a_flush. cbn [a_ctr a_setcq]. generalize (a_cq b). intros l. revert b. induction l as [|g l IH]; intros b; cbn [fold_left]; [reflexivity|]. rewrite IH. reflexivity. Qed.
Lemma areach_ctr a b : areach a b -> a_ctr a <= a_ctr b.
Proof. intros H. induction H; try rewrite a_flush_ctr; cbn [a_ctr a_accept a_stop a_end a_cancel a_unreg]; lia. Qed.
(* the woken task of a registration whose pending value is final ends it *)
Definition final_pending (tv : tval) (g1 : reg) : Prop :=
  g_trig g1 = Some tv /\ (g_late g1 = true \/ exists code k, tv = TResp code k /\ successful code = false).
Lemma run_final tv s g1 : FI None s -> In g1 (s_regs s) -> final_pending tv g1 -> (tv = TRender -> s_gate s = false) ->
  ~ live (g_gid g1) (run_loop 2 s g1).
Proof.
  intros HF Hi [Ht Hc] Hg. pose proof (g_rng s (proj1 HF) g1 Hi) as R. cbn [run_loop]. rewrite Ht. destruct tv as [|code k].
  - set (s1 := log s _). assert (G1 : s_gate s1 = false) by (apply Hg; reflexivity). rewrite G1.
    change (g_gid g1) with (g_gid (set_trig g1 None (g_late g1))). apply ends_on_final; [exact R|]. cbn [g_late set_trig]. destruct Hc as [Hl|(c & k & E & _)]; [|discriminate].
    destruct (render_outcome _ _); [cbn; rewrite Hl; reflexivity | exact I].
  - change (g_gid g1) with (g_gid (set_trig g1 None (g_late g1))). apply ends_on_final; [exact R|]. cbn [g_late set_trig]. destruct Hc as [Hl|(c & k' & E & Hs)]; [rewrite Hl; reflexivity|].
    inversion E; subst. rewrite Hs. apply orb_true_r.
Qed.
Lemma okreg_wake G l : forall s, okreg G s -> okreg G (wake l s).
Proof. intros s H. apply (q_ok (fun _ => True) G s). apply Q_wake. exact H. Qed.
Lemma wake_final tv G l : forall s, FI None s -> (tv = TRender -> s_gate s = false) ->
  (exists g1, In g1 (s_regs s) /\ g_gid g1 = G /\ final_pending tv g1) -> In G l -> ~ live G (wake l s).
Proof.
  induction l as [|x l IH]; intros s HF Hg (g1 & Hi & Eg & Hp) Hin; [destruct Hin|].
  change (wake (x :: l) s) with (wake l (match find_reg s x with Some g => run_loop 2 s g | None => s end)).
  destruct (Z.eq_dec x G) as [->|Hne].
  - rewrite <- Eg, (find_reg_of_In s g1 (g_nd s (proj1 HF)) Hi).
    assert (Hnl : ~ live (g_gid g1) (run_loop 2 s g1)) by (apply (run_final tv); auto).
    assert (Ok : okreg (g_gid g1) (run_loop 2 s g1)).
    { split; [exact Hnl|]. destruct (task_entry s g1 HF Hi) as (A & B & C & D).
      pose proof (g_rng s (proj1 HF) g1 Hi) as R. pose proof (run_loop_FI 0 s g1 A B C) as HF2.
      (* the counter does not shrink: it is only read through the range of live entries, so use the abstract machine *)
      pose proof (areach_run_loop 2 s g1 (in_map g_gid _ _ Hi)) as AR. apply areach_ctr in AR. cbn [abs a_ctr] in AR. lia. }
    apply (okreg_wake _ l _ Ok).
  - destruct Hin as [E|Hin]; [congruence|].
    destruct (find_reg s x) as [gx|] eqn:Ex; [|apply IH; auto; exists g1; auto].
    apply find_reg_In in Ex as [Exi Exg]. destruct (task_entry s gx HF Exi) as (A & B & C & D).
    destruct (os_run_loop 2 s gx) as [O1 O2].
    apply IH; [apply (run_loop_FI 0); assumption | rewrite O2; exact Hg | | exact Hin].
    exists g1. split; [apply O1; [exact Hi | congruence] | auto].
Qed.

Lemma ends_on_trigger_event mid0 es g0 perm tv l : let s := run (init mid0) es in
  In g0 (s_regs s) -> g_phase g0 = PWait -> (tv = TRender -> s_gate s = false) ->
  (l = true \/ exists code k, tv = TResp code k /\ successful code = false) ->
  ~ live (g_gid g0) (step s (ETrigger perm [(tv, l)])).
Proof.
  intros s Hi Hp Hg Hc. destruct (reach mid0 es) as (HF & HA & Hq & _). fold s in HF, HA, Hq.
  assert (Ho : map g_gid (s_regs s) = s_observers s).
  { destruct HA as [_ _ G _ _ _ _ _ _ _]. cbn [abs a_gids a_obs a_cq] in G. rewrite Hq in G. rewrite G.
    clear. induction (s_observers s) as [|x l0 IHl]; [reflexivity|]. cbn [filter memZ existsb negb]. f_equal. exact IHl. }
  pose proof (g_nd s (proj1 HF)) as Hn.
  cbn [step]. set (order := pick_order perm (s_observers s)). set (waiting := filter (is_waiting s) order).
  assert (Hord : In (g_gid g0) order).
  { apply (Permutation_in _ (Permutation_sym (pick_order_perm perm (s_observers s)))). rewrite <- Ho. apply in_map. exact Hi. }
  assert (Hw : In (g_gid g0) waiting).
  { apply filter_In. split; [exact Hord|]. unfold is_waiting. rewrite (find_reg_of_In s g0 Hn Hi), Hp. reflexivity. }
  set (s1 := trigger_burst order [(tv, l)] s).
  assert (HF1 : FI None s1) by (apply trigger_burst_FI; exact HF).
  destruct (trigger_all_val tv l order (set_version s (s_version s + 1)) Hn) as (G1 & F & C & K & T & L & D).
  change (fold_left (fun s0 gid => trigger s0 gid tv l) order (set_version s (s_version s + 1))) with s1 in G1, C.
  assert (Hlive : ~ live (g_gid g0) (wake waiting s1)).
  { apply (wake_final tv); [exact HF1 | intros E; rewrite G1; apply Hg; exact E | | exact Hw].
    exists (F g0). split; [rewrite C; apply in_map; exact Hi | split; [apply K|]].
    destruct (D g0 Hord) as [D1 D2]. split; [exact D1|]. destruct Hc as [Hl|Hx]; [left; apply D2; exact Hl | right; exact Hx]. }
  assert (Ok : okreg (g_gid g0) (wake waiting s1)).
  { split; [exact Hlive|]. pose proof (reach_rng mid0 es g0 Hi) as R. fold s in R.
    assert (AR : areach (abs s) (abs (wake waiting s1))).
    { eapply areach_trans; [|apply areach_wake]. unfold s1. rewrite abs_trigger_burst. constructor. }
    apply areach_ctr in AR. cbn [abs a_ctr] in AR. lia. }
  apply (q_ok (fun _ => True) _ _ _ (Q_flush _ _ _ Ok)).
Qed.
