(* C01 — the receive paths named by the property's anchors (udp6.py, generic_udp.py) handle the one exception that can
   leave Message.decode; the call sites are extracted from source on every run (Gen/decode_handlers.v) *)
From Verif Require Import Gen.decode_handlers.
From Coq Require Import String List Bool Lia.
Import ListNotations.

Definition catches_unparsable (s : string * list string) : bool :=
  existsb (String.eqb "error.UnparsableMessage") (snd s).
Lemma decode_sites_catch : forallb catches_unparsable decode_sites = true /\ (2 <= length decode_sites)%nat.
Proof. split; [vm_compute; reflexivity|cbn; lia]. Qed.
