(* C04 — proofs about Model/C04.v.
   Part 1: association-list and log vocabulary lemmas.
   Part 2: [Ext]: what every "plumbing" method does to the entry of a fixed key k of _recent_messages:
           it appends outputs stamped with the current time, keeps clock and expiry timers, and leaves the
           entry equal to the last ACK/RST sent under k (the point of the repair of F2).
   Part 3: the invariant [Inv] and the per-event relation [R]; fresh arrivals.
   Part 4: the trace theorems. *)
From Verif Require Import Lib.Py Lib.Tactics Model.C04.
Import ListNotations.
Open Scope Z_scope.

(* ================================================================== Part 1 *)
Lemma key_eqb_eq a b : key_eqb a b = true <-> a = b.
Proof.
  destruct a as [a1 a2], b as [b1 b2]; unfold key_eqb; simpl.
  rewrite andb_true_iff, !Z.eqb_eq. split; [intros [-> ->]; reflexivity | intros H; inversion H; auto].
Qed.
Lemma key_eqb_refl a : key_eqb a a = true.
Proof. apply key_eqb_eq; reflexivity. Qed.
Lemma key_eqb_neq a b : key_eqb a b = false <-> a <> b.
Proof.
  split; intros H.
  - intros E. apply key_eqb_eq in E. congruence.
  - destruct (key_eqb a b) eqn:E; [apply key_eqb_eq in E; contradiction | reflexivity].
Qed.
Lemma key_eqb_sym a b : key_eqb a b = key_eqb b a.
Proof. unfold key_eqb. rewrite (Z.eqb_sym (fst a)), (Z.eqb_sym (snd a)). reflexivity. Qed.

Section AListLemmas.
  Context {V : Type}.
  Notation get := (aget (V := V) key_eqb).
  Lemma aget_areplace_eq k v l :
    get k (areplace key_eqb k v l) = match get k l with Some _ => Some v | None => None end.
  Proof.
    induction l as [|[k' v'] l IH]; simpl; [reflexivity|].
    destruct (key_eqb k k') eqn:E; simpl; rewrite E; auto.
  Qed.
  Lemma aget_areplace_neq k k' v l : k' <> k -> get k' (areplace key_eqb k v l) = get k' l.
  Proof.
    intros N. induction l as [|[k2 v2] l IH]; simpl; [reflexivity|].
    destruct (key_eqb k k2) eqn:E; simpl.
    - apply key_eqb_eq in E; subst k2. apply key_eqb_neq in N. rewrite N. reflexivity.
    - destruct (key_eqb k' k2); auto.
  Qed.
  Lemma areplace_same k v l : get k l = Some v -> areplace key_eqb k v l = l.
  Proof.
    induction l as [|[k2 v2] l IH]; simpl; [reflexivity|].
    destruct (key_eqb k k2) eqn:E; intros H.
    - inversion H; subst. reflexivity.
    - rewrite IH; auto.
  Qed.
  Lemma aget_app k l1 l2 : get k (l1 ++ l2) = match get k l1 with Some v => Some v | None => get k l2 end.
  Proof. induction l1 as [|[k2 v2] l IH]; simpl; [reflexivity|]. destruct (key_eqb k k2); auto. Qed.
  Lemma aget_aremove_eq k l : get k (aremove key_eqb k l) = None.
  Proof. induction l as [|[k2 v2] l IH]; simpl; [reflexivity|]. destruct (key_eqb k k2) eqn:E; simpl; [|rewrite E]; auto. Qed.
  Lemma aget_aremove_neq k k' l : k' <> k -> get k' (aremove key_eqb k l) = get k' l.
  Proof.
    intros N. induction l as [|[k2 v2] l IH]; simpl; [reflexivity|].
    destruct (key_eqb k k2) eqn:E; simpl.
    - apply key_eqb_eq in E; subst k2. apply key_eqb_neq in N. rewrite N. exact IH.
    - destruct (key_eqb k' k2); auto.
  Qed.
End AListLemmas.

Lemma last_reply_app k a b acc : last_reply k (a ++ b) acc = last_reply k b (last_reply k a acc).
Proof. unfold last_reply. apply fold_left_app. Qed.
Lemma last_reply_nil k acc : last_reply k [] acc = acc.
Proof. reflexivity. Qed.
Lemma starts_app k a b : starts k (a ++ b) = starts k a ++ starts k b.
Proof. unfold starts. apply flat_map_app. Qed.

Lemma reply_of_props k o r w : reply_of k o = Some (r, w) ->
  r = fst k /\ w_mid w = snd k /\ is_ackrst (w_type w) = true /\ exists t, o = Send t r w.
Proof.
  destruct o as [t r' w'| | |]; simpl; try discriminate.
  destruct ((r' =? fst k) && (w_mid w' =? snd k) && is_ackrst (w_type w')) eqn:E; [|discriminate].
  intros H; inversion H; subst. apply andb_true_iff in E as [E E3]. apply andb_true_iff in E as [E1 E2].
  apply Z.eqb_eq in E1, E2. repeat split; auto. exists t; reflexivity.
Qed.
Lemma last_reply_inv k l acc x : last_reply k l acc = Some x ->
  acc = Some x \/ exists o, In o l /\ reply_of k o = Some x.
Proof.
  revert acc. induction l as [|o l IH]; simpl; intros acc H; [left; exact H|].
  apply IH in H as [H | (o' & Hin & Ho)].
  - destruct (reply_of k o) eqn:E; [right; exists o; split; [left; reflexivity | congruence] | left; exact H].
  - right; exists o'; split; [right|]; assumption.
Qed.

Lemma starts_times (P : Z -> Prop) k l : Forall (fun o => P (out_time o)) l -> Forall P (starts k l).
Proof.
  induction 1 as [|o l Ho Hl IH]; simpl; [constructor|].
  unfold starts in *; simpl. destruct (start_of k o) eqn:E; simpl; [|exact IH].
  constructor; [|exact IH]. destruct o; simpl in *; try discriminate.
  destruct ((r =? fst k) && (mid =? snd k)); inversion E; subst; exact Ho.
Qed.

(* ================================================================== Part 2 *)
(* sanity of the cancellable timers: only confirmable messages are ever retransmitted *)
Definition tkind_ok (t : tkind) : Prop :=
  match t with TRetransmit _ w _ _ => w_type w = CON | TEmptyAck _ _ => True end.
Definition TOK (s : st) : Prop := Forall (fun t => tkind_ok (snd t)) (timers s).

Record Ext (sk : list Z) (k : Z * Z) (s s' : st) : Prop := {
  ext_now : now s' = now s;
  ext_forgets : forgets s' = forgets s;
  ext_tok : TOK s -> TOK s';
  ext_outs : exists new, outs s' = outs s ++ new
      /\ Forall (fun o => out_time o = now s) new
      /\ starts k new = sk
      /\ aget key_eqb k (recent s') = option_map (last_reply k new) (aget key_eqb k (recent s)) }.

Lemma option_map_id {A} (f : A -> A) (x : option A) : (forall a, f a = a) -> option_map f x = x.
Proof. intros H; destruct x; simpl; [rewrite H|]; reflexivity. Qed.

Lemma Ext_refl k s : Ext [] k s s.
Proof.
  split; auto. exists []. rewrite app_nil_r. repeat split; auto.
  symmetry; apply option_map_id; reflexivity.
Qed.
Lemma Ext_trans sk1 sk2 k s1 s2 s3 : Ext sk1 k s1 s2 -> Ext sk2 k s2 s3 -> Ext (sk1 ++ sk2) k s1 s3.
Proof.
  intros [N1 F1 T1 (n1 & O1 & Tm1 & S1 & A1)] [N2 F2 T2 (n2 & O2 & Tm2 & S2 & A2)].
  split; [congruence | congruence | auto |].
  exists (n1 ++ n2). rewrite O2, O1, app_assoc. repeat split.
  - apply Forall_app; split; [exact Tm1|]. rewrite N1 in Tm2; exact Tm2.
  - rewrite starts_app; congruence.
  - rewrite A2, A1. destruct (aget key_eqb k (recent s1)); simpl; [rewrite last_reply_app|]; reflexivity.
Qed.
Lemma Ext_trans0 k s1 s2 s3 : Ext [] k s1 s2 -> Ext [] k s2 s3 -> Ext [] k s1 s3.
Proof. intros A B. exact (Ext_trans [] [] k _ _ _ A B). Qed.
Lemma Ext_trans0r sk k s1 s2 s3 : Ext [] k s1 s2 -> Ext sk k s2 s3 -> Ext sk k s1 s3.
Proof. intros A B. exact (Ext_trans [] sk k _ _ _ A B). Qed.
Lemma Ext_trans0l sk k s1 s2 s3 : Ext sk k s1 s2 -> Ext [] k s2 s3 -> Ext sk k s1 s3.
Proof. intros A B. pose proof (Ext_trans sk [] k _ _ _ A B) as H. rewrite app_nil_r in H. exact H. Qed.

(* a state that differs from s in none of: clock, expiry timers, cancellable timers, log, _recent_messages *)
Lemma Ext_frame k s s' :
  now s' = now s -> forgets s' = forgets s -> timers s' = timers s -> outs s' = outs s -> recent s' = recent s ->
  Ext [] k s s'.
Proof.
  intros N F T O Rc. split; auto.
  - unfold TOK; rewrite T; auto.
  - exists []. rewrite app_nil_r, Rc. repeat split; auto. symmetry; apply option_map_id; reflexivity.
Qed.
Ltac frame := apply Ext_frame; reflexivity.

Lemma ext_set_tseq k v s : Ext [] k s (set_tseq v s). Proof. frame. Qed.
Lemma ext_set_message_id k v s : Ext [] k s (set_message_id v s). Proof. frame. Qed.
Lemma ext_set_exchanges k v s : Ext [] k s (set_exchanges v s). Proof. frame. Qed.
Lemma ext_set_backlogs k v s : Ext [] k s (set_backlogs v s). Proof. frame. Qed.
Lemma ext_set_piggy k v s : Ext [] k s (set_piggy v s). Proof. frame. Qed.
Lemma ext_set_incoming k v s : Ext [] k s (set_incoming v s). Proof. frame. Qed.
Lemma ext_set_waiting k v s : Ext [] k s (set_waiting v s). Proof. frame. Qed.
Lemma ext_set_next_sid k v s : Ext [] k s (set_next_sid v s). Proof. frame. Qed.

(* changes of the cancellable timers only *)
Lemma Ext_timers k s s' :
  now s' = now s -> forgets s' = forgets s -> outs s' = outs s -> recent s' = recent s ->
  (TOK s -> TOK s') -> Ext [] k s s'.
Proof.
  intros N F O Rc T. split; auto.
  exists []. rewrite app_nil_r, Rc. repeat split; auto. symmetry; apply option_map_id; reflexivity.
Qed.
Lemma ext_cancel k h s : Ext [] k s (cancel h s).
Proof.
  apply Ext_timers; try reflexivity. unfold TOK, cancel; simpl. intros H.
  apply Forall_forall. intros t Ht. apply filter_In in Ht as [Ht _]. rewrite Forall_forall in H. auto.
Qed.
Lemma ext_call_later k d t s : tkind_ok t -> Ext [] k s (fst (call_later d t s)).
Proof.
  intros Ht. apply Ext_timers; try reflexivity. unfold TOK, call_later; simpl. intros H.
  apply Forall_app; split; [exact H|]. constructor; [exact Ht | constructor].
Qed.

Lemma ext_emit_exn k e s : Ext [] k s (emit (Exn (now s) e) s).
Proof.
  split; auto. exists [Exn (now s) e]. repeat split; auto.
  simpl. symmetry; apply option_map_id; reflexivity.
Qed.

Lemma ext_set_refused k v s : Ext [] k s (set_refused v s). Proof. frame. Qed.
Lemma ext_emit_refused k r s : Ext [] k s (emit (Refused (now s) r) s).
Proof.
  split; auto. exists [Refused (now s) r]. repeat split; auto.
  simpl. symmetry; apply option_map_id; reflexivity.
Qed.

Lemma ext_stop_incoming k ik sid s : Ext [] k s (stop_incoming ik sid s).
Proof. unfold stop_incoming. eapply Ext_trans0; [apply ext_set_incoming | apply ext_set_waiting]. Qed.
Lemma ext_fold {A} k (f : st -> A -> st) l :
  (forall s a, Ext [] k s (f s a)) -> forall s, Ext [] k s (fold_left f l s).
Proof.
  intros H. induction l as [|a l IH]; intros s; simpl; [apply Ext_refl|].
  eapply Ext_trans0; [apply H | apply IH].
Qed.
Lemma ext_tm_dispatch_error k r s : Ext [] k s (tm_dispatch_error r s).
Proof.
  unfold tm_dispatch_error. apply ext_fold. intros s0 e.
  destruct (snd (fst e) =? r); [apply ext_stop_incoming | apply Ext_refl].
Qed.

Lemma ext_mm_dispatch_error k r s : Ext [] k s (mm_dispatch_error r s).
Proof.
  unfold mm_dispatch_error. eapply Ext_trans0; [|apply ext_set_backlogs].
  eapply Ext_trans0; [apply ext_tm_dispatch_error|]. apply ext_fold. intros s0 e.
  destruct (fst (fst e) =? r); [|apply Ext_refl]. eapply Ext_trans0; [apply ext_set_exchanges | apply ext_cancel].
Qed.
Lemma ext_refusal k r s : Ext [] k s (refusal r s).
Proof.
  unfold refusal. destruct (is_refused r s); [|apply Ext_refl].
  eapply Ext_trans0; [apply ext_emit_refused | apply ext_mm_dispatch_error].
Qed.

Lemma ext_send_log k r w s : is_ackrst (w_type w) = false -> Ext [] k s (send_log r w s).
Proof.
  intros H. split; auto. exists [Send (now s) r w]. repeat split; auto.
  simpl. symmetry; apply option_map_id. intros a. unfold last_reply; simpl. rewrite H, andb_false_r. reflexivity.
Qed.
Lemma ext_send_via k r w s : is_ackrst (w_type w) = false -> Ext [] k s (_send_via_transport r w s).
Proof. intros H. unfold _send_via_transport. eapply Ext_trans0; [apply ext_send_log; exact H | apply ext_refusal]. Qed.

Lemma ext_add_exchange k r w s : w_type w = CON -> Ext [] k s (_add_exchange r w s).
Proof.
  intros Hc. unfold _add_exchange, _schedule_retransmit.
  set (s1 := match aget Z.eqb r (backlogs s) with None => _ | Some _ => _ end).
  assert (E1 : Ext [] k s s1) by (subst s1; destruct (aget Z.eqb r (backlogs s)); [apply Ext_refl | apply ext_set_backlogs]).
  destruct (call_later (ack_timeout s1) (TRetransmit r w (ack_timeout s1) 0) s1) as [s2 h] eqn:E.
  eapply Ext_trans0; [exact E1|]. eapply Ext_trans0; [|apply ext_set_exchanges].
  replace s2 with (fst (call_later (ack_timeout s1) (TRetransmit r w (ack_timeout s1) 0) s1)) by (rewrite E; reflexivity).
  apply ext_call_later. exact Hc.
Qed.

(* store + send: the remembered reply of k follows the log *)
Lemma ext_store_log k r w s :
  Ext [] k s (send_log r w (_store_response_for_duplicates r w s)).
Proof.
  unfold _store_response_for_duplicates.
  destruct (is_ackrst (w_type w)) eqn:Ea; simpl.
  2:{ apply ext_send_log; exact Ea. }
  split; try reflexivity.
  - destruct (aget key_eqb (r, w_mid w) (recent s)); auto.
  - destruct (aget key_eqb (r, w_mid w) (recent s)); reflexivity.
  - destruct (aget key_eqb (r, w_mid w) (recent s)); auto.
  - exists [Send (now s) r w]. split; [|split; [|split]].
    + destruct (aget key_eqb (r, w_mid w) (recent s)); reflexivity.
    + constructor; [|constructor]. destruct (aget key_eqb (r, w_mid w) (recent s)); reflexivity.
    + reflexivity.
    + unfold last_reply; simpl. rewrite Ea, andb_true_r.
      destruct ((r =? fst k) && (w_mid w =? snd k)) eqn:Ek.
      * apply andb_true_iff in Ek as [E1 E2]. apply Z.eqb_eq in E1, E2.
        assert (Hk : (r, w_mid w) = k) by (destruct k; simpl in *; congruence). rewrite Hk.
        destruct (aget key_eqb k (recent s)) eqn:G; simpl.
        -- rewrite aget_areplace_eq, G. reflexivity.
        -- exact G.
      * assert (Hk : k <> (r, w_mid w)).
        { intros ->. simpl in Ek. rewrite !Z.eqb_refl in Ek. discriminate. }
        destruct (aget key_eqb (r, w_mid w) (recent s)); simpl.
        -- rewrite aget_areplace_neq by exact Hk. symmetry; apply option_map_id; reflexivity.
        -- symmetry; apply option_map_id; reflexivity.
Qed.

Lemma ext_store_send k r w s :
  Ext [] k s (_send_via_transport r w (_store_response_for_duplicates r w s)).
Proof. unfold _send_via_transport. eapply Ext_trans0; [apply ext_store_log | apply ext_refusal]. Qed.

Lemma ext_send_initially k r w mon s : Ext [] k s (_send_initially r w mon s).
Proof.
  unfold _send_initially. destruct (w_type w) eqn:Et; try apply ext_store_send.
  destruct mon; simpl; [|apply ext_emit_exn].
  eapply Ext_trans0; [apply ext_add_exchange; exact Et | apply ext_store_send].
Qed.

Lemma ext_send_empty_ack k r mid s : Ext [] k s (_send_empty_ack r mid s).
Proof. apply ext_send_initially. Qed.

Lemma ext_continue_backlog_loop k fuel r s : Ext [] k s (_continue_backlog_loop fuel r s).
Proof.
  revert s. induction fuel as [|fuel IH]; intros s; simpl; [apply Ext_refl|].
  destruct (has_exchange_with r s); [apply Ext_refl|].
  destruct (aget Z.eqb r (backlogs s)) as [[|w rest]|]; [apply ext_set_backlogs | | apply Ext_refl].
  eapply Ext_trans0; [|apply IH].
  eapply Ext_trans0; [apply ext_set_backlogs | apply ext_send_initially].
Qed.
Lemma ext_continue_backlog k r s : Ext [] k s (_continue_backlog r s).
Proof.
  unfold _continue_backlog. destruct (aget Z.eqb r (backlogs s)); [apply ext_continue_backlog_loop | apply ext_emit_exn].
Qed.
Lemma ext_remove_exchange k r mid s : Ext [] k s (_remove_exchange r mid s).
Proof.
  unfold _remove_exchange. destruct (aget key_eqb (r, mid) (exchanges s)); [|apply Ext_refl].
  eapply Ext_trans0; [|apply ext_continue_backlog].
  eapply Ext_trans0; [apply ext_set_exchanges | apply ext_cancel].
Qed.

Lemma ext_retransmit k r w timeout counter s : w_type w = CON -> Ext [] k s (_retransmit r w timeout counter s).
Proof.
  intros Hc. unfold _retransmit. destruct (aget key_eqb (r, w_mid w) (exchanges s)); [|apply ext_emit_exn].
  set (s1 := cancel _ _).
  assert (E1 : Ext [] k s s1) by (subst s1; eapply Ext_trans0; [apply ext_set_exchanges | apply ext_cancel]).
  destruct (counter <? MAX_RETRANSMIT).
  - unfold _schedule_retransmit.
    destruct (call_later (timeout * 2) (TRetransmit r w (timeout * 2) (counter + 1)) s1) as [s2 h] eqn:E.
    eapply Ext_trans0; [exact E1|].
    eapply Ext_trans0; [|apply ext_send_via; rewrite Hc; reflexivity].
    eapply Ext_trans0; [|apply ext_set_exchanges].
    replace s2 with (fst (call_later (timeout * 2) (TRetransmit r w (timeout * 2) (counter + 1)) s1)) by (rewrite E; reflexivity).
    apply ext_call_later. exact Hc.
  - destruct (aget Z.eqb r (backlogs s1)).
    + eapply Ext_trans0; [exact E1|]. eapply Ext_trans0; [apply ext_set_backlogs | apply ext_tm_dispatch_error].
    + eapply Ext_trans0; [exact E1 | apply ext_emit_exn].
Qed.

Lemma ext_decide k m a (plain : mtype -> Z -> wire) s0 :
  Ext [] k s0
    (let t := match a_rel a with
              | Some true => CON | Some false => NON
              | None => match i_type m with NON => NON | _ => CON end end in
     let '(s, mid) := _next_message_id s0 in
     let w := plain t mid in
     match t, aget Z.eqb (i_remote m) (backlogs s) with
     | CON, Some b => set_backlogs (aset Z.eqb (i_remote m) (b ++ [w]) (backlogs s)) s
     | _, _ => _send_initially (i_remote m) w true s
     end).
Proof.
  cbv zeta. unfold _next_message_id.
  set (t := match a_rel a with Some true => CON | Some false => NON | None => match i_type m with NON => NON | _ => CON end end).
  set (s1 := set_message_id _ s0).
  assert (E1 : Ext [] k s0 s1) by apply ext_set_message_id.
  destruct t; try (eapply Ext_trans0; [exact E1 | apply ext_send_initially]).
  destruct (aget Z.eqb (i_remote m) (backlogs s1)).
  - eapply Ext_trans0; [exact E1 | apply ext_set_backlogs].
  - eapply Ext_trans0; [exact E1 | apply ext_send_initially].
Qed.

Lemma ext_send_message k m a s : Ext [] k s (send_message m a s).
Proof.
  unfold send_message. cbv zeta.
  destruct (is_response (a_code a)); [|apply (ext_decide k m a (fun t mid => {| w_type := t; w_code := a_code a; w_mid := mid; w_token := i_token m; w_payload := a_payload a |}))].
  destruct (aget tokkey_eqb (i_remote m, i_token m) (piggy s)) as [[mid h]|].
  - set (s1 := cancel h _).
    assert (E1 : Ext [] k s s1) by (subst s1; eapply Ext_trans0; [apply ext_set_piggy | apply ext_cancel]).
    destruct (negb _); (eapply Ext_trans0; [exact E1 | apply ext_send_initially]).
  - destruct (negb _); [apply Ext_refl | apply (ext_decide k m a (fun t mid => {| w_type := t; w_code := a_code a; w_mid := mid; w_token := i_token m; w_payload := a_payload a |}))].
Qed.

Lemma ext_finish k m a s : Ext [] k s (finish m a s).
Proof. unfold finish. eapply Ext_trans0; [apply ext_send_message | apply ext_set_incoming]. Qed.

Lemma ext_handler_respond k sid a s : Ext [] k s (handler_respond sid a s).
Proof.
  unfold handler_respond. destruct (aget Z.eqb sid (waiting s)); [|apply Ext_refl].
  eapply Ext_trans0; [apply ext_set_waiting | apply ext_finish].
Qed.
Lemma ext_handler_raise k sid e s : Ext [] k s (handler_raise sid e s).
Proof.
  unfold handler_raise. destruct (aget Z.eqb sid (waiting s)); [|apply Ext_refl].
  eapply Ext_trans0; [apply ext_set_waiting | apply ext_finish].
Qed.

Lemma ext_on_timeout k r tok s : Ext [] k s (on_timeout r tok s).
Proof.
  unfold on_timeout. destruct (aget tokkey_eqb (r, tok) (piggy s)) as [[mid h]|]; [|apply ext_emit_exn].
  eapply Ext_trans0; [apply ext_set_piggy | apply ext_send_empty_ack].
Qed.

(* the hand-over to the application: the only place a Start is logged *)
Definition sk_of (k : Z * Z) (m : inmsg) (t : Z) : list Z := if key_eqb (msg_key m) k then [t] else [].

Lemma ext_emit_start k m sid s :
  Ext (sk_of k m (now s)) k s (emit (Start (now s) sid (i_remote m) (i_mid m) (i_token m)) s).
Proof.
  split; auto. exists [Start (now s) sid (i_remote m) (i_mid m) (i_token m)]. repeat split; auto.
  - unfold starts, sk_of, msg_key, key_eqb; simpl. destruct ((i_remote m =? fst k) && (i_mid m =? snd k)); reflexivity.
  - simpl. symmetry; apply option_map_id; reflexivity.
Qed.

Lemma ext_render_to_pipe k m s : Ext (sk_of k m (now s)) k s (render_to_pipe m s).
Proof.
  unfold render_to_pipe.
  set (s1 := emit _ _).
  assert (E1 : Ext (sk_of k m (now s)) k s s1).
  { subst s1. eapply Ext_trans0r; [apply ext_set_next_sid | apply (ext_emit_start k m (next_sid s) (set_next_sid (next_sid s + 1) s))]. }
  destruct (i_path m); try (eapply Ext_trans0l; [exact E1 | apply ext_finish]).
  eapply Ext_trans0l; [exact E1 | apply ext_set_waiting].
Qed.

Lemma ext_process_request k m s : Ext (sk_of k m (now s)) k s (process_request m s).
Proof.
  unfold process_request.
  set (s1 := match aget inckey_eqb (i_token m, i_remote m) (incoming s) with Some old => _ | None => _ end).
  assert (E1 : Ext [] k s s1) by (subst s1; destruct (aget inckey_eqb (i_token m, i_remote m) (incoming s)); [apply ext_stop_incoming | apply Ext_refl]).
  assert (N : now s = now (set_incoming (aset inckey_eqb (i_token m, i_remote m) (next_sid s1) (incoming s1)) s1)).
  { simpl. symmetry. apply (ext_now _ _ _ _ E1). }
  rewrite N. eapply Ext_trans0r; [|apply ext_render_to_pipe].
  eapply Ext_trans0; [exact E1 | apply ext_set_incoming].
Qed.

Lemma ext__process_request k m s : Ext (sk_of k m (now s)) k s (_process_request m s).
Proof.
  unfold _process_request.
  set (s1 := match i_type m with CON => _ | _ => s end).
  assert (E1 : Ext [] k s s1).
  { subst s1. destruct (i_type m); try apply Ext_refl.
    destruct (call_later EMPTY_ACK_DELAY (TEmptyAck (i_remote m) (i_token m)) s) as [s2 h] eqn:E.
    assert (E2 : Ext [] k s s2).
    { replace s2 with (fst (call_later EMPTY_ACK_DELAY (TEmptyAck (i_remote m) (i_token m)) s)) by (rewrite E; reflexivity).
      apply ext_call_later. exact I. }
    eapply Ext_trans0; [|apply ext_set_piggy].
    destruct (aget tokkey_eqb (i_remote m, i_token m) (piggy s2)) as [[mid old]|]; [|exact E2].
    eapply Ext_trans0; [exact E2|]. eapply Ext_trans0; [apply ext_set_piggy | apply ext_cancel]. }
  rewrite <- (ext_now _ _ _ _ E1). eapply Ext_trans0r; [exact E1 | apply ext_process_request].
Qed.

(* dispatch_message after the duplicate check *)
Definition dispatch_rest (m : inmsg) (s : st) : st :=
  let s := if is_ackrst (i_type m) then _remove_exchange (i_remote m) (i_mid m) s else s in
  if (i_code m =? EMPTY) && mtype_eqb (i_type m) CON then _process_ping m s
  else if (i_code m =? EMPTY) && is_ackrst (i_type m) then s
  else if is_request (i_code m) && negb (is_ackrst (i_type m)) then _process_request m s
  else if is_response (i_code m) && negb (mtype_eqb (i_type m) RST) then
    if mtype_eqb (i_type m) CON
    then _send_initially (i_remote m) {| w_type := RST; w_code := EMPTY; w_mid := i_mid m; w_token := []; w_payload := [] |} false s
    else s
  else s.

Lemma dispatch_message_unfold m s :
  dispatch_message m s =
  let '(s1, dup) := if is_request (i_code m) then _deduplicate_message m s else (s, false) in
  if dup then s1 else dispatch_rest m s1.
Proof. reflexivity. Qed.

(* which Start entries for k the rest of the dispatch logs *)
Definition rest_sk (k : Z * Z) (m : inmsg) (t : Z) : list Z :=
  if is_request (i_code m) && negb (is_ackrst (i_type m)) then sk_of k m t else [].

Lemma ext_dispatch_rest k m s : Ext (rest_sk k m (now s)) k s (dispatch_rest m s).
Proof.
  unfold dispatch_rest, rest_sk.
  set (s1 := if is_ackrst (i_type m) then _ else s).
  assert (E1 : Ext [] k s s1) by (subst s1; destruct (is_ackrst (i_type m)); [apply ext_remove_exchange | apply Ext_refl]).
  rewrite <- (ext_now _ _ _ _ E1).
  destruct (is_request (i_code m)) eqn:Q.
  - assert (Z0 : (i_code m =? EMPTY) = false) by (unfold is_request, EMPTY in *; lia).
    rewrite Z0; simpl.
    destruct (negb (is_ackrst (i_type m))) eqn:A.
    + eapply Ext_trans0r; [exact E1 | apply ext__process_request].
    + assert (Rs : is_response (i_code m) = false) by (unfold is_request, is_response in *; lia).
      rewrite Rs; simpl. exact E1.
  - simpl.
    destruct ((i_code m =? EMPTY) && mtype_eqb (i_type m) CON); [eapply Ext_trans0; [exact E1 | apply ext_send_initially]|].
    destruct ((i_code m =? EMPTY) && is_ackrst (i_type m)); [exact E1|].
    destruct (is_response (i_code m) && negb (mtype_eqb (i_type m) RST)); [|exact E1].
    destruct (mtype_eqb (i_type m) CON); [|exact E1].
    eapply Ext_trans0; [exact E1 | apply ext_send_initially].
Qed.

(* ================================================================== Part 3 *)
Definition Inv (s : st) : Prop :=
  (forall k, aget key_eqb k (recent s) <> None <-> In k (map snd (forgets s)))
  /\ NoDup (map snd (forgets s))
  /\ (forall k r w, aget key_eqb k (recent s) = Some (Some (r, w)) ->
        r = fst k /\ w_mid w = snd k /\ is_ackrst (w_type w) = true)
  /\ Forall (fun f => now s <= fst (fst f)) (forgets s)
  /\ TOK s.

Lemma Inv_ext s s' : Inv s -> (forall k, exists sk, Ext sk k s s') -> Inv s'.
Proof.
  intros (I1 & I2 & I3 & I4 & I5) H.
  assert (F : forgets s' = forgets s) by (destruct (H (0, 0)) as [sk E]; apply (ext_forgets _ _ _ _ E)).
  assert (N : now s' = now s) by (destruct (H (0, 0)) as [sk E]; apply (ext_now _ _ _ _ E)).
  split; [|split; [|split; [|split]]].
  - intros k. destruct (H k) as [sk [_ _ _ (new & _ & _ & _ & A)]]. rewrite F, <- I1, A.
    destruct (aget key_eqb k (recent s)); simpl; split; congruence.
  - rewrite F; exact I2.
  - intros k r w G. destruct (H k) as [sk [_ _ _ (new & _ & _ & _ & A)]]. rewrite A in G.
    destruct (aget key_eqb k (recent s)) as [v|] eqn:Gv; simpl in G; [|discriminate].
    inversion G as [G1]. apply last_reply_inv in G1 as [-> | (o & _ & Ho)].
    + eapply I3; exact Gv.
    + apply reply_of_props in Ho. tauto.
  - rewrite F, N; exact I4.
  - destruct (H (0, 0)) as [sk E]. apply (ext_tok _ _ _ _ E). exact I5.
Qed.

(* what one event does to the entry of key k, when the event is not a first arrival of k *)
Definition R (k : Z * Z) (s s' : st) : Prop :=
  exists new, outs s' = outs s ++ new /\ now s <= now s' /\ Forall (fun o => now s <= out_time o) new /\
    starts k new = [] /\
    match aget key_eqb k (recent s) with
    | Some v =>
        (aget key_eqb k (recent s') = Some (last_reply k new v)
         /\ forall D q, In (D, q, k) (forgets s) -> In (D, q, k) (forgets s'))
        \/ (aget key_eqb k (recent s') = None /\ forall D q, In (D, q, k) (forgets s) -> D <= now s')
    | None => aget key_eqb k (recent s') = None
    end.

Lemma R_refl k s : R k s s.
Proof.
  exists []. rewrite app_nil_r. repeat split; auto; try lia.
  destruct (aget key_eqb k (recent s)); auto.
Qed.
Lemma R_trans k s1 s2 s3 : R k s1 s2 -> R k s2 s3 -> R k s1 s3.
Proof.
  intros (n1 & O1 & N1 & T1 & S1 & A1) (n2 & O2 & N2 & T2 & S2 & A2).
  exists (n1 ++ n2). rewrite O2, O1, app_assoc. split; [reflexivity|]. split; [lia|]. split.
  { apply Forall_app; split; [exact T1|]. eapply Forall_impl; [|exact T2]. simpl; intros; lia. }
  split; [rewrite starts_app, S1, S2; reflexivity|].
  destruct (aget key_eqb k (recent s1)) as [v|].
  - destruct A1 as [[A1 F1] | [A1 F1]].
    + rewrite A1 in A2. destruct A2 as [[A2 F2] | [A2 F2]].
      * left. rewrite last_reply_app. split; auto.
      * right. split; [exact A2|]. intros D q HD. apply (F2 D q), F1, HD.
    + rewrite A1 in A2. right. split; [exact A2|]. intros D q HD. specialize (F1 D q HD). lia.
  - rewrite A1 in A2. exact A2.
Qed.
Lemma Ext_R k s s' : Ext [] k s s' -> R k s s'.
Proof.
  intros [N F _ (new & O & T & S & A)]. exists new. split; [exact O|]. split; [lia|]. split.
  { eapply Forall_impl; [|exact T]. simpl; intros; lia. }
  split; [exact S|]. rewrite A. destruct (aget key_eqb k (recent s)); simpl; [|reflexivity].
  left. split; [reflexivity|]. rewrite F; auto.
Qed.

(* ---- least timer *)
Lemma min_timer_in l x : min_timer l = Some x -> In x l.
Proof.
  revert x. induction l as [|y l IH]; simpl; intros x H; [discriminate|].
  destruct (min_timer l) as [z|]; [|inversion H; auto].
  destruct (earlier z y); inversion H; subst; auto.
Qed.
Lemma min_timer_le l d q a : min_timer l = Some (d, q, a) -> forall d' q' a', In (d', q', a') l -> d <= d'.
Proof.
  revert d q a. induction l as [|y l IH]; simpl; intros d q a H d' q' a' Hin; [contradiction|].
  destruct (min_timer l) as [[[dz qz] az]|] eqn:M.
  - destruct y as [[dy qy] ay]. simpl in H.
    destruct ((dz <? dy) || ((dz =? dy) && (qz <? qy))) eqn:E; inversion H; subst.
    + destruct Hin as [Hin | Hin]; [inversion Hin; subst; lia | eapply IH; eauto].
    + destruct Hin as [Hin | Hin]; [inversion Hin; subst; lia|].
      specialize (IH _ _ _ eq_refl _ _ _ Hin). lia.
  - inversion H; subst. destruct Hin as [Hin | Hin]; [inversion Hin; lia|].
    destruct l; [contradiction|]. simpl in M. destruct (min_timer l) as [z|]; [destruct (earlier z p)|]; discriminate.
Qed.
Lemma min_timer_none l : min_timer l = None -> l = [].
Proof.
  destruct l as [|y l]; [reflexivity|]. simpl. destruct (min_timer l) as [z|]; [destruct (earlier z y)|]; discriminate.
Qed.
Lemma in_all_forget s d q k : In (d, q, AForget k) (all_timers s) <-> In (d, q, k) (forgets s).
Proof.
  unfold all_timers. rewrite in_app_iff, !in_map_iff. split.
  - intros [([[d' q'] k'] & E & Hin) | ([[d' q'] t] & E & _)]; simpl in E; inversion E; subst; exact Hin.
  - intros H. left. exists (d, q, k). split; [reflexivity | exact H].
Qed.
Lemma in_all_timer s d q t : In (d, q, ATimer t) (all_timers s) <-> In (d, q, t) (timers s).
Proof.
  unfold all_timers. rewrite in_app_iff, !in_map_iff. split.
  - intros [([[d' q'] k'] & E & _) | ([[d' q'] t'] & E & Hin)]; simpl in E; inversion E; subst; exact Hin.
  - intros H. right. exists (d, q, t). split; [reflexivity | exact H].
Qed.

Lemma nodup_key_unique (l : list (Z * Z * (Z * Z))) a b k :
  NoDup (map snd l) -> In (a, k) l -> In (b, k) l -> a = b.
Proof.
  induction l as [|[c k'] l IH]; simpl; intros ND Ha Hb; [contradiction|].
  inversion ND as [|? ? Hn ND']; subst.
  destruct Ha as [Ha | Ha], Hb as [Hb | Hb].
  - congruence.
  - inversion Ha; subst. exfalso. apply Hn. apply in_map_iff. exists (b, k); auto.
  - inversion Hb; subst. exfalso. apply Hn. apply in_map_iff. exists (a, k); auto.
  - auto.
Qed.

Lemma R_set_now k v s : now s <= v -> R k s (set_now v s).
Proof.
  intros H. exists []. simpl. rewrite app_nil_r. repeat split; auto.
  destruct (aget key_eqb k (recent s)); auto.
Qed.
Lemma Inv_set_now v s : Inv s -> Forall (fun f => v <= fst (fst f)) (forgets s) -> Inv (set_now v s).
Proof. intros (I1 & I2 & I3 & I4 & I5) H. split; [exact I1|]. split; [exact I2|]. split; [exact I3|]. split; [exact H | exact I5]. Qed.

Lemma exts_cancel h s : forall k, exists sk, Ext sk k s (cancel h s).
Proof. intros k; exists []; apply ext_cancel. Qed.

(* ---- fire *)
Lemma fire_spec s : Inv s ->
  Inv (fire s) /\ forall k, R k s (fire s).
Proof.
  intros HI. unfold fire.
  destruct (min_timer (all_timers s)) as [[[d q] [k0 | t]]|] eqn:M.
  - (* expiry of k0 *)
    pose proof (min_timer_in _ _ M) as Hin. apply in_all_forget in Hin.
    pose proof (min_timer_le _ _ _ _ M) as Hle.
    destruct HI as (I1 & I2 & I3 & I4 & I5).
    assert (P0 : aget key_eqb k0 (recent s) <> None).
    { apply I1. apply in_map_iff. exists (d, q, k0). auto. }
    simpl. destruct (aget key_eqb k0 (recent s)) as [v0|] eqn:G0; [clear P0 | contradiction].
    split.
    + split; [|split; [|split; [|split]]]; simpl.
      * intros k. destruct (key_eqb k0 k) eqn:E.
        -- apply key_eqb_eq in E; subst k. rewrite aget_aremove_eq. split; [congruence|].
           intros H. apply in_map_iff in H as ([[d' q'] k'] & E' & H'). simpl in E'; subst k'.
           apply filter_In in H' as [_ H']. simpl in H'. rewrite key_eqb_refl in H'. discriminate.
        -- apply key_eqb_neq in E. rewrite aget_aremove_neq by congruence. rewrite I1.
           rewrite !in_map_iff. split; intros ([[d' q'] k'] & E' & H'); simpl in E'; subst k'; exists (d', q', k); split; auto.
           ++ apply filter_In. split; auto. simpl. rewrite key_eqb_sym. apply negb_true_iff, key_eqb_neq. congruence.
           ++ apply filter_In in H'. tauto.
      * clear - I2. induction (forgets s) as [|[c k'] l IH]; simpl in *; [constructor|].
        inversion I2; subst. destruct (negb (key_eqb k' k0)); simpl; auto. constructor; auto.
        intros H. apply H1. apply in_map_iff in H as (x & E & H). apply in_map_iff. exists x. split; auto.
        apply filter_In in H. tauto.
      * intros k r w G. destruct (key_eqb k0 k) eqn:E.
        -- apply key_eqb_eq in E; subst k. rewrite aget_aremove_eq in G. discriminate.
        -- apply key_eqb_neq in E. rewrite aget_aremove_neq in G by congruence. eapply I3; exact G.
      * apply Forall_forall. intros [[d' q'] k'] H. apply filter_In in H as [H _]. simpl.
        rewrite Forall_forall in I4. specialize (I4 _ H). simpl in I4.
        assert (d <= d') by (eapply Hle; apply in_all_forget; exact H). lia.
      * exact I5.
    + intros k. exists []. simpl. rewrite app_nil_r. split; [reflexivity|]. split; [lia|]. split; [constructor|]. split; [reflexivity|].
      destruct (key_eqb k0 k) eqn:E.
      * apply key_eqb_eq in E; subst k. rewrite G0. right. rewrite aget_aremove_eq. split; [reflexivity|].
        intros D q' HD. assert ((D, q') = (d, q)) by (eapply nodup_key_unique; eauto). inversion H; subst. lia.
      * apply key_eqb_neq in E. rewrite aget_aremove_neq by congruence.
        destruct (aget key_eqb k (recent s)); [|reflexivity]. left. split; [reflexivity|].
        intros D q' HD. apply filter_In. split; auto. simpl. rewrite key_eqb_sym. apply negb_true_iff, key_eqb_neq. congruence.
  - (* a cancellable timer *)
    pose proof (min_timer_in _ _ M) as Hin. apply in_all_timer in Hin.
    pose proof (min_timer_le _ _ _ _ M) as Hle.
    set (s1 := set_now (Z.max (now s) d) s).
    assert (HI1 : Inv s1).
    { apply Inv_set_now; [exact HI|]. destruct HI as (_ & _ & _ & I4 & _).
      apply Forall_forall. intros [[d' q'] k'] H. rewrite Forall_forall in I4. specialize (I4 _ H). simpl in *.
      assert (d <= d') by (eapply Hle; apply in_all_forget; exact H). lia. }
    assert (R1 : forall k, R k s s1) by (intros k; apply R_set_now; lia).
    set (s2 := cancel q s1).
    assert (HI2 : Inv s2) by (apply (Inv_ext s1); [exact HI1 | apply exts_cancel]).
    assert (R2 : forall k, R k s s2) by (intros k; eapply R_trans; [apply R1 | apply Ext_R, ext_cancel]).
    assert (Hok : tkind_ok t).
    { destruct HI as (_ & _ & _ & _ & I5). unfold TOK in I5. rewrite Forall_forall in I5. apply (I5 _ Hin). }
    destruct t as [r tok | r w timeout counter].
    + split.
      * apply (Inv_ext s2); [exact HI2|]. intros k; exists []; apply ext_on_timeout.
      * intros k. eapply R_trans; [apply R2 | apply Ext_R, ext_on_timeout].
    + simpl in Hok. split.
      * apply (Inv_ext s2); [exact HI2|]. intros k; exists []; apply ext_retransmit; exact Hok.
      * intros k. eapply R_trans; [apply R2 | apply Ext_R, ext_retransmit; exact Hok].
  - split; [exact HI | intros k; apply R_refl].
Qed.

Lemma advance_loop_spec fuel target s : Inv s ->
  Inv (advance_loop fuel target s) /\ forall k, R k s (advance_loop fuel target s).
Proof.
  revert s. induction fuel as [|fuel IH]; intros s HI; simpl; [split; [exact HI | intros; apply R_refl]|].
  destruct (next_due s) as [due|]; [|split; [exact HI | intros; apply R_refl]].
  destruct (due <=? target); [|split; [exact HI | intros; apply R_refl]].
  destruct (fire_spec s HI) as [HI1 R1]. destruct (IH _ HI1) as [HI2 R2].
  split; [exact HI2 | intros k; eapply R_trans; [apply R1 | apply R2]].
Qed.

Lemma advance_spec d s : Inv s -> Inv (advance d s) /\ forall k, R k s (advance d s).
Proof.
  intros HI. unfold advance. destruct (d <? 0); [split; [exact HI | intros; apply R_refl]|].
  destruct (advance_loop_spec advance_fuel (now s + d) s HI) as [HI1 R1].
  set (s1 := advance_loop advance_fuel (now s + d) s) in *.
  assert (Fin : (forall f, In f (forgets s1) -> Z.max (now s1) (now s + d) <= fst (fst f)) ->
                Inv (set_now (Z.max (now s1) (now s + d)) s1) /\ forall k, R k s (set_now (Z.max (now s1) (now s + d)) s1)).
  { intros H. split.
    - apply Inv_set_now; [exact HI1 | apply Forall_forall; exact H].
    - intros k. eapply R_trans; [apply R1 | apply R_set_now; lia]. }
  unfold next_due. destruct (min_timer (all_timers s1)) as [[[due q] a]|] eqn:M.
  - destruct (due <=? now s + d) eqn:E; [split; [exact HI1 | exact R1]|].
    apply Fin. intros [[d' q'] k'] H. simpl.
    assert (due <= d') by (eapply min_timer_le; [exact M | apply in_all_forget; exact H]).
    destruct HI1 as (_ & _ & _ & I4 & _). rewrite Forall_forall in I4. specialize (I4 _ H). simpl in I4. lia.
  - apply Fin. intros f H. apply min_timer_none in M. unfold all_timers in M. apply app_eq_nil in M as [M _].
    destruct (forgets s1); [contradiction | discriminate].
Qed.

(* ---- arrival of a message *)
Definition insert_key (k : Z * Z) (s : st) : st :=
  set_recent (recent (set_tseq (tseq s + 1) (set_forgets (forgets s ++ [(now s + EXCHANGE_LIFETIME, tseq s, k)]) s)) ++ [(k, None)])
             (set_tseq (tseq s + 1) (set_forgets (forgets s ++ [(now s + EXCHANGE_LIFETIME, tseq s, k)]) s)).

Lemma dedup_fresh m s : aget key_eqb (msg_key m) (recent s) = None ->
  _deduplicate_message m s = (insert_key (msg_key m) s, false).
Proof. intros H. unfold _deduplicate_message. rewrite H. reflexivity. Qed.

Lemma dedup_dup m s v : aget key_eqb (msg_key m) (recent s) = Some v ->
  _deduplicate_message m s =
  (match i_type m, v with CON, Some (r, w) => _send_initially r w false s | _, _ => s end, true).
Proof.
  intros H. unfold _deduplicate_message. rewrite H.
  destruct (i_type m); try reflexivity. destruct v as [[r w]|]; reflexivity.
Qed.

Lemma NoDup_app_one {A} (l : list A) x : NoDup l -> ~ In x l -> NoDup (l ++ [x]).
Proof.
  induction l as [|y l IH]; simpl; intros ND Hn; [constructor; [intros []|constructor]|].
  inversion ND; subst. constructor.
  - rewrite in_app_iff. simpl. intros [H | [H | []]]; [contradiction | subst; apply Hn; left; reflexivity].
  - apply IH; auto.
Qed.

Lemma Inv_insert k s : Inv s -> aget key_eqb k (recent s) = None -> Inv (insert_key k s).
Proof.
  intros (I1 & I2 & I3 & I4 & I5) G. unfold insert_key.
  split; [|split; [|split; [|split]]]; simpl.
  - intros k'. rewrite aget_app, map_app, in_app_iff. simpl.
    destruct (key_eqb k' k) eqn:E.
    + apply key_eqb_eq in E; subst k'. rewrite G. split; [auto | congruence].
    + destruct (aget key_eqb k' (recent s)) eqn:G'.
      * split; [intros _; left; apply I1; congruence | congruence].
      * split; [congruence|]. intros [H | [H | []]].
        -- apply I1 in H. contradiction.
        -- subst k'. rewrite key_eqb_refl in E. discriminate.
  - rewrite map_app. simpl. apply NoDup_app_one; [exact I2|].
    intros H. apply I1 in H. contradiction.
  - intros k' r w H. rewrite aget_app in H. destruct (aget key_eqb k' (recent s)) eqn:G'.
    + inversion H; subst. eapply I3; exact G'.
    + simpl in H. destruct (key_eqb k' k); discriminate.
  - apply Forall_app; split; [exact I4|]. constructor; [|constructor]. simpl. unfold EXCHANGE_LIFETIME. lia.
  - exact I5.
Qed.

Lemma R_insert k k0 s : k <> k0 -> R k s (insert_key k0 s).
Proof.
  intros N. exists []. unfold insert_key; simpl. rewrite app_nil_r. repeat split; auto; try lia.
  rewrite aget_app. apply key_eqb_neq in N.
  destruct (aget key_eqb k (recent s)).
  - left. split; [reflexivity|]. intros D q H. apply in_app_iff; left; exact H.
  - simpl. rewrite N. reflexivity.
Qed.

Lemma dispatch_dup m s v : is_request (i_code m) = true -> aget key_eqb (msg_key m) (recent s) = Some v ->
  dispatch_message m s = match i_type m, v with CON, Some (r, w) => _send_initially r w false s | _, _ => s end.
Proof. intros Q G. rewrite dispatch_message_unfold, Q, (dedup_dup m s v G). reflexivity. Qed.
Lemma dispatch_fresh m s : is_request (i_code m) = true -> aget key_eqb (msg_key m) (recent s) = None ->
  dispatch_message m s = dispatch_rest m (insert_key (msg_key m) s).
Proof. intros Q G. rewrite dispatch_message_unfold, Q, (dedup_fresh m s G). reflexivity. Qed.
Lemma dispatch_nonreq m s : is_request (i_code m) = false -> dispatch_message m s = dispatch_rest m s.
Proof. intros Q. rewrite dispatch_message_unfold, Q. reflexivity. Qed.

Lemma rest_sk_other k m t : msg_key m <> k -> rest_sk k m t = [].
Proof.
  intros N. unfold rest_sk, sk_of. apply key_eqb_neq in N. rewrite N.
  destruct (is_request (i_code m) && negb (is_ackrst (i_type m))); reflexivity.
Qed.
Lemma rest_sk_nonreq k m t : is_request (i_code m) = false -> rest_sk k m t = [].
Proof. intros Q. unfold rest_sk. rewrite Q. reflexivity. Qed.

(* the event is the first arrival of a request-coded message with key k *)
Definition fresh_for (k : Z * Z) (s : st) (e : event) : Prop :=
  exists m, e = Recv m /\ is_request (i_code m) = true /\ msg_key m = k /\ aget key_eqb k (recent s) = None.

Lemma step_spec s e : Inv s ->
  Inv (step s e) /\ forall k, ~ fresh_for k s e -> R k s (step s e).
Proof.
  intros HI. destruct e as [m | | d | sid a | sid x | r0 b0 | r0]; simpl.
  - destruct (is_request (i_code m)) eqn:Q.
    + destruct (aget key_eqb (msg_key m) (recent s)) as [v|] eqn:G.
      * rewrite (dispatch_dup m s v Q G).
        assert (E : forall k, Ext [] k s (match i_type m, v with CON, Some (r, w) => _send_initially r w false s | _, _ => s end)).
        { intros k. destruct (i_type m); try apply Ext_refl. destruct v as [[r w]|]; [apply ext_send_initially | apply Ext_refl]. }
        split; [apply (Inv_ext s); [exact HI | intros k; exists []; apply E] | intros k _; apply Ext_R, E].
      * rewrite (dispatch_fresh m s Q G).
        pose proof (Inv_insert _ _ HI G) as HI1. split.
        -- apply (Inv_ext (insert_key (msg_key m) s)); [exact HI1|]. intros k; eexists; apply ext_dispatch_rest.
        -- intros k NF.
           assert (N : msg_key m <> k).
           { intros E. apply NF. exists m. subst k. auto. }
           eapply R_trans; [apply R_insert; intros E'; apply N; symmetry; exact E'|]. apply Ext_R.
           pose proof (ext_dispatch_rest k m (insert_key (msg_key m) s)) as E. rewrite rest_sk_other in E by exact N. exact E.
    + rewrite (dispatch_nonreq m s Q). split.
      * apply (Inv_ext s); [exact HI|]. intros k; eexists; apply ext_dispatch_rest.
      * intros k _. apply Ext_R. pose proof (ext_dispatch_rest k m s) as E. rewrite rest_sk_nonreq in E by exact Q. exact E.
  - destruct (fire_spec s HI) as [A B]. split; [exact A | intros k _; apply B].
  - destruct (advance_spec d s HI) as [A B]. split; [exact A | intros k _; apply B].
  - split; [apply (Inv_ext s); [exact HI | intros k; exists []; apply ext_handler_respond] | intros k _; apply Ext_R, ext_handler_respond].
  - split; [apply (Inv_ext s); [exact HI | intros k; exists []; apply ext_handler_raise] | intros k _; apply Ext_R, ext_handler_raise].
  - split; [apply (Inv_ext s); [exact HI | intros k; exists []; apply ext_set_refused] | intros k _; apply Ext_R, ext_set_refused].
  - split; [apply (Inv_ext s); [exact HI | intros k; exists []; apply ext_mm_dispatch_error] | intros k _; apply Ext_R, ext_mm_dispatch_error].
Qed.

(* first arrival *)
Lemma step_fresh s m : Inv s -> is_request (i_code m) = true -> aget key_eqb (msg_key m) (recent s) = None ->
  let k := msg_key m in let s' := step s (Recv m) in
  exists new q, outs s' = outs s ++ new /\ now s' = now s /\ Forall (fun o => out_time o = now s) new
    /\ starts k new = (if negb (is_ackrst (i_type m)) then [now s] else [])
    /\ aget key_eqb k (recent s') = Some (last_reply k new None)
    /\ In (now s + EXCHANGE_LIFETIME, q, k) (forgets s').
Proof.
  intros HI Q G. simpl. rewrite (dispatch_fresh m s Q G).
  destruct (ext_dispatch_rest (msg_key m) m (insert_key (msg_key m) s)) as [N F _ (new & O & T & S & A)].
  exists new, (tseq s). split; [exact O|]. split; [exact N|]. split; [exact T|]. split; [|split].
  - rewrite S. unfold rest_sk, sk_of. rewrite Q, key_eqb_refl. simpl. reflexivity.
  - rewrite A. unfold insert_key; simpl. rewrite aget_app, G. simpl. rewrite key_eqb_refl. reflexivity.
  - rewrite F. unfold insert_key; simpl. apply in_app_iff. right. left. reflexivity.
Qed.

(* a copy inside the lifetime: exactly the remembered reply, no other change *)
Lemma set_recent_same s : set_recent (recent s) s = s.
Proof. destruct s; reflexivity. Qed.
Lemma set_outs_nil s : set_outs (outs s ++ []) s = s.
Proof. rewrite app_nil_r. destruct s; reflexivity. Qed.

Lemma dup_exact s m v : Inv s -> is_request (i_code m) = true -> aget key_eqb (msg_key m) (recent s) = Some v ->
  is_refused (i_remote m) s = false ->
  step s (Recv m) =
  set_outs (outs s ++ match i_type m, v with CON, Some (r, w) => [Send (now s) r w] | _, _ => [] end) s.
Proof.
  intros (_ & _ & I3 & _ & _) Q G NR. simpl. rewrite (dispatch_dup m s v Q G).
  destruct (i_type m); try (symmetry; apply set_outs_nil).
  destruct v as [[r w]|]; [|symmetry; apply set_outs_nil].
  destruct (I3 _ _ _ G) as (E1 & E2 & E3).
  assert (Hk : (r, w_mid w) = msg_key m) by (destruct (msg_key m); simpl in *; congruence).
  assert (Hr : r = i_remote m) by (rewrite E1; reflexivity).
  assert (T : _send_via_transport r w s = set_outs (outs s ++ [Send (now s) r w]) s).
  { unfold _send_via_transport, refusal, send_log, emit, is_refused in *. simpl. rewrite Hr, NR. reflexivity. }
  unfold _send_initially, _store_response_for_duplicates.
  destruct (w_type w); simpl in E3; try discriminate; simpl; rewrite Hk, G, (areplace_same _ _ _ G), set_recent_same; exact T.
Qed.

(* ================================================================== Part 4: traces *)
Definition log_since (s s' : st) : list output := skipn (length (outs s)) (outs s').
Lemma log_since_app s s' new : outs s' = outs s ++ new -> log_since s s' = new.
Proof.
  intros H. unfold log_since. rewrite H. rewrite skipn_app, skipn_all, Nat.sub_diag. reflexivity.
Qed.

Lemma step_mono s e : Inv s ->
  exists new, outs (step s e) = outs s ++ new /\ now s <= now (step s e) /\ Forall (fun o => now s <= out_time o) new.
Proof.
  intros HI. destruct (step_spec s e HI) as [_ H].
  assert (X : exists k, ~ fresh_for k s e).
  { destruct e as [m| | | | | |]; [exists (i_remote m + 1, i_mid m) | exists (0, 0) ..]; intros (m' & E & _ & K & _); inversion E; subst.
    unfold msg_key in K. inversion K. lia. }
  destruct X as [k NF]. destruct (H k NF) as (new & O & N & T & _). exists new. auto.
Qed.

Lemma run_spec evs : forall s, Inv s ->
  Inv (run s evs) /\ exists new, outs (run s evs) = outs s ++ new /\ now s <= now (run s evs)
                                 /\ Forall (fun o => now s <= out_time o) new.
Proof.
  induction evs as [|e evs IH]; intros s HI; simpl.
  - split; [exact HI|]. exists []. rewrite app_nil_r. repeat split; auto; lia.
  - destruct (step_spec s e HI) as [HI1 _]. destruct (step_mono s e HI) as (n1 & O1 & N1 & T1).
    destruct (IH _ HI1) as [HI2 (n2 & O2 & N2 & T2)]. split; [exact HI2|].
    exists (n1 ++ n2). rewrite O2, O1, app_assoc. split; [reflexivity|]. split; [lia|].
    apply Forall_app; split; [exact T1|]. eapply Forall_impl; [|exact T2]. simpl; intros; lia.
Qed.
Lemma run_inv evs s : Inv s -> Inv (run s evs).
Proof. intros H. apply (run_spec evs s H). Qed.
Lemma run_outs evs s : Inv s -> outs (run s evs) = outs s ++ log_since s (run s evs).
Proof. intros H. destruct (run_spec evs s H) as [_ (new & O & _)]. rewrite (log_since_app _ _ _ O). exact O. Qed.
Lemma step_outs e s : Inv s -> outs (step s e) = outs s ++ log_since s (step s e).
Proof. intros H. apply (run_outs [e] s H). Qed.
Lemma log_since_cons e evs s : Inv s ->
  log_since s (run s (e :: evs)) = log_since s (step s e) ++ log_since (step s e) (run (step s e) evs).
Proof.
  intros HI. simpl. apply log_since_app.
  rewrite (run_outs evs (step s e)) by (apply (step_spec s e HI)). rewrite (step_outs e s HI) at 1. apply app_assoc_reverse.
Qed.

Lemma not_fresh_present k s e v : aget key_eqb k (recent s) = Some v -> ~ fresh_for k s e.
Proof. intros G (m & _ & _ & _ & G'). congruence. Qed.

(* while its expiry timer has not fired, the entry of k follows the log and no request with key k is started *)
Lemma alive_run k evs : forall s v D q, Inv s -> aget key_eqb k (recent s) = Some v -> In (D, q, k) (forgets s) ->
  now (run s evs) < D ->
  starts k (log_since s (run s evs)) = []
  /\ aget key_eqb k (recent (run s evs)) = Some (last_reply k (log_since s (run s evs)) v)
  /\ In (D, q, k) (forgets (run s evs)).
Proof.
  induction evs as [|e evs IH]; intros s v D q HI G HD Hn.
  - simpl in *. rewrite (log_since_app s s []) by (symmetry; apply app_nil_r). auto.
  - rewrite (log_since_cons e evs s HI). simpl in Hn |- *.
    destruct (step_spec s e HI) as [HI1 HR]. specialize (HR k (not_fresh_present k s e v G)).
    destruct HR as (new & O & N & T & S & A). rewrite G in A. rewrite (log_since_app _ _ _ O).
    destruct (run_spec evs (step s e) HI1) as [_ (n2 & _ & N2 & _)].
    destruct A as [[A F] | [_ F]]; [|specialize (F D q HD); lia].
    destruct (IH (step s e) (last_reply k new v) D q HI1 A (F D q HD) Hn) as (S2 & A2 & F2).
    rewrite starts_app, S, S2, last_reply_app. auto.
Qed.

(* nothing with key k is handed to the application before the expiry timer of k is due *)
Lemma no_start_before_due k evs : forall s D q, Inv s -> In (D, q, k) (forgets s) ->
  Forall (fun t => D <= t) (starts k (log_since s (run s evs))).
Proof.
  induction evs as [|e evs IH]; intros s D q HI HD.
  - simpl. rewrite (log_since_app s s []) by (symmetry; apply app_nil_r). constructor.
  - rewrite (log_since_cons e evs s HI), starts_app.
    assert (G : exists v, aget key_eqb k (recent s) = Some v).
    { destruct HI as (I1 & _). destruct (aget key_eqb k (recent s)) eqn:G; [eauto|]. exfalso.
      apply (proj2 (I1 k)); [|exact G]. apply in_map_iff. exists (D, q, k). auto. }
    destruct G as [v G].
    destruct (step_spec s e HI) as [HI1 HR]. specialize (HR k (not_fresh_present k s e v G)).
    destruct HR as (new & O & N & T & S & A). rewrite G in A. rewrite (log_since_app _ _ _ O), S. simpl.
    destruct A as [[A F] | [_ F]].
    + apply (IH _ D q HI1 (F D q HD)).
    + specialize (F D q HD). destruct (run_spec evs (step s e) HI1) as [_ (n2 & O2 & N2 & T2)].
      rewrite (log_since_app _ _ _ O2). apply starts_times. eapply Forall_impl; [|exact T2]. simpl; intros; lia.
Qed.

Inductive spaced (L : Z) : list Z -> Prop :=
| spaced_nil : spaced L []
| spaced_cons t l : Forall (fun t' => t + L <= t') l -> spaced L l -> spaced L (t :: l).

Lemma fresh_dec k s e : fresh_for k s e \/ ~ fresh_for k s e.
Proof.
  destruct e as [m| | | | | |]; try (right; intros (m' & E & _); discriminate).
  destruct (is_request (i_code m)) eqn:Q; [|right; intros (m' & E & Q' & _); inversion E; subst; congruence].
  destruct (key_eqb (msg_key m) k) eqn:K.
  - apply key_eqb_eq in K. destruct (aget key_eqb k (recent s)) eqn:G.
    + right. intros (m' & _ & _ & _ & G'). congruence.
    + left. exists m. auto.
  - right. intros (m' & E & _ & K' & _). inversion E; subst. rewrite key_eqb_refl in K. discriminate.
Qed.

Lemma handler_at_most_once_lemma k evs : forall s, Inv s ->
  spaced EXCHANGE_LIFETIME (starts k (log_since s (run s evs))).
Proof.
  induction evs as [|e evs IH]; intros s HI.
  - simpl. rewrite (log_since_app s s []) by (symmetry; apply app_nil_r). constructor.
  - rewrite (log_since_cons e evs s HI), starts_app.
    destruct (step_spec s e HI) as [HI1 HR].
    destruct (fresh_dec k s e) as [(m & -> & Q & K & G) | NF].
    + subst k. destruct (step_fresh s m HI Q G) as (new & q & O & N & T & S & A & F).
      rewrite (log_since_app _ _ _ O), S.
      destruct (negb (is_ackrst (i_type m))); simpl; [|apply IH; exact HI1].
      constructor; [|apply IH; exact HI1]. apply (no_start_before_due _ evs _ _ q HI1 F).
    + destruct (HR k NF) as (new & O & _ & _ & S & _). rewrite (log_since_app _ _ _ O), S. simpl. apply IH; exact HI1.
Qed.

(* readable form: two hand-overs of the same key are at least a lifetime apart *)
Lemma spaced_nth L l : spaced L l -> forall i j t1 t2, (i < j)%nat -> nth_error l i = Some t1 -> nth_error l j = Some t2 -> t1 + L <= t2.
Proof.
  induction 1 as [|t l Hf Hs IH]; intros i j t1 t2 Hij H1 H2; [destruct i; discriminate|].
  destruct j as [|j]; [lia|]. destruct i as [|i]; simpl in *.
  - inversion H1; subst. rewrite Forall_forall in Hf. apply Hf. eapply nth_error_In; eauto.
  - eapply IH; [|eauto|eauto]. lia.
Qed.

Lemma dup_con_reanswered_lemma s0 m evs dup : Inv s0 ->
  is_request (i_code m) = true -> aget key_eqb (msg_key m) (recent s0) = None ->
  let s1 := step s0 (Recv m) in let s2 := run s1 evs in
  now s2 < now s0 + EXCHANGE_LIFETIME ->
  is_request (i_code dup) = true -> msg_key dup = msg_key m ->
  is_refused (i_remote dup) s2 = false ->
  step s2 (Recv dup) =
  set_outs (outs s2 ++ match i_type dup, last_reply (msg_key m) (log_since s0 s2) None with
                       | CON, Some (r, w) => [Send (now s2) r w]
                       | _, _ => [] end) s2.
Proof.
  intros HI Q G s1 s2 Hn Qd Kd NR.
  destruct (step_fresh s0 m HI Q G) as (new & q & O & N & T & S & A & F). fold s1 in O, N, A, F.
  assert (HI1 : Inv s1) by apply (step_spec s0 (Recv m) HI).
  destruct (alive_run (msg_key m) evs s1 _ _ q HI1 A F Hn) as (S2 & A2 & F2). fold s2 in S2, A2, F2.
  assert (L : log_since s0 s2 = new ++ log_since s1 s2).
  { apply log_since_app. unfold s2. rewrite (run_outs evs s1 HI1), O. apply app_assoc_reverse. }
  rewrite L, last_reply_app, <- Kd.
  apply dup_exact; [apply run_inv; exact HI1 | exact Qd | rewrite Kd; exact A2 | exact NR].
Qed.

Lemma within_lifetime_is_duplicate_lemma s0 m evs : Inv s0 ->
  is_request (i_code m) = true -> aget key_eqb (msg_key m) (recent s0) = None ->
  let s2 := run (step s0 (Recv m)) evs in
  now s2 < now s0 + EXCHANGE_LIFETIME ->
  aget key_eqb (msg_key m) (recent s2) <> None /\ starts (msg_key m) (log_since (step s0 (Recv m)) s2) = [].
Proof.
  intros HI Q G s2 Hn.
  destruct (step_fresh s0 m HI Q G) as (new & q & O & N & T & S & A & F).
  assert (HI1 : Inv (step s0 (Recv m))) by apply (step_spec s0 (Recv m) HI).
  destruct (alive_run (msg_key m) evs _ _ _ q HI1 A F Hn) as (S2 & A2 & F2).
  fold s2 in A2. rewrite A2. split; [congruence | exact S2].
Qed.

(* no request-coded message with key k arrives *)
Definition no_arrival (k : Z * Z) (e : event) : Prop :=
  match e with Recv m => is_request (i_code m) && key_eqb (msg_key m) k = false | _ => True end.
Lemma no_arrival_not_fresh k s e : no_arrival k e -> ~ fresh_for k s e.
Proof.
  intros H (m & -> & Q & K & _). simpl in H. subst k. rewrite Q, key_eqb_refl in H. discriminate.
Qed.

Lemma expiry_exact_lemma k evs : forall s D q, Inv s -> In (D, q, k) (forgets s) -> Forall (no_arrival k) evs ->
  let s2 := run s evs in
  (aget key_eqb k (recent s2) <> None /\ now s2 <= D /\ In (D, q, k) (forgets s2))
  \/ (aget key_eqb k (recent s2) = None /\ D <= now s2).
Proof.
  assert (Gone : forall evs s, Inv s -> aget key_eqb k (recent s) = None -> Forall (no_arrival k) evs ->
                 aget key_eqb k (recent (run s evs)) = None).
  { clear evs. induction evs as [|e evs IH]; intros s HI G Hev; [exact G|]. simpl.
    inversion Hev as [|? ? He Hev']; subst.
    destruct (step_spec s e HI) as [HI1 HR]. destruct (HR k (no_arrival_not_fresh k s e He)) as (new & _ & _ & _ & _ & A).
    rewrite G in A. apply IH; auto. }
  induction evs as [|e evs IH]; intros s D q HI HD Hev; simpl.
  - left. destruct HI as (I1 & _ & _ & I4 & _). split; [|split; [|exact HD]].
    + apply I1. apply in_map_iff. exists (D, q, k). auto.
    + rewrite Forall_forall in I4. apply (I4 _ HD).
  - inversion Hev as [|? ? He Hev']; subst.
    destruct (step_spec s e HI) as [HI1 HR]. destruct (HR k (no_arrival_not_fresh k s e He)) as (new & _ & _ & _ & _ & A).
    destruct (aget key_eqb k (recent s)) as [v|] eqn:G.
    + destruct A as [[A F] | [A F]].
      * apply (IH _ D q HI1 (F D q HD) Hev').
      * right. split; [apply Gone; auto|]. specialize (F D q HD).
        destruct (run_spec evs (step s e) HI1) as [_ (n2 & _ & N2 & _)]. lia.
    + exfalso. destruct HI as (I1 & _). apply (proj2 (I1 k)); [|exact G]. apply in_map_iff. exists (D, q, k). auto.
Qed.

Lemma Inv_init mid0 u : Inv (init mid0 u).
Proof.
  unfold Inv, init, TOK; simpl. split; [|split; [|split; [|split]]].
  - intros k; split; [congruence | intros []].
  - constructor.
  - intros k r w H; discriminate.
  - constructor.
  - constructor.
Qed.

Lemma handler_at_most_once_nth k evs s i j t1 t2 : Inv s -> (i < j)%nat ->
  nth_error (starts k (log_since s (run s evs))) i = Some t1 ->
  nth_error (starts k (log_since s (run s evs))) j = Some t2 ->
  t1 + EXCHANGE_LIFETIME <= t2.
Proof. intros HI. apply spaced_nth. apply handler_at_most_once_lemma. exact HI. Qed.

Lemma other_keys_untouched_lemma s m k : Inv s -> msg_key m <> k -> R k s (step s (Recv m)).
Proof.
  intros HI N. apply (step_spec s (Recv m) HI). intros (m' & E & _ & K & _). inversion E; subst. contradiction.
Qed.

(* the reply repeated for a copy is an ACK or RST that was really sent to that endpoint under that message id *)
Lemma last_reply_sent k l r w : last_reply k l None = Some (r, w) ->
  r = fst k /\ w_mid w = snd k /\ is_ackrst (w_type w) = true /\ exists t, In (Send t r w) l.
Proof.
  intros H. apply last_reply_inv in H as [H | (o & Hin & Ho)]; [discriminate|].
  apply reply_of_props in Ho as (A & B & C & t & ->). repeat split; auto. exists t; exact Hin.
Qed.

Lemma reachable_inv mid0 u evs : Inv (run (init mid0 u) evs).
Proof. apply run_inv, Inv_init. Qed.

Lemma stored_reply_wellformed_lemma mid0 u evs k r w :
  aget key_eqb k (recent (run (init mid0 u) evs)) = Some (Some (r, w)) ->
  r = fst k /\ w_mid w = snd k /\ is_ackrst (w_type w) = true.
Proof. intros H. destruct (reachable_inv mid0 u evs) as (_ & _ & I3 & _). eapply I3; exact H. Qed.

(* ------------------------------------------------------------------ round 5: lifetime with copies, keys that did not arrive *)
(* copies neither extend nor shorten the lifetime: inside it, the one expiry timer of the key is the one armed at first arrival *)
Lemma expiry_fixed_at_first_arrival_lemma s0 m evs : Inv s0 ->
  is_request (i_code m) = true -> aget key_eqb (msg_key m) (recent s0) = None ->
  let s2 := run (step s0 (Recv m)) evs in
  now s2 < now s0 + EXCHANGE_LIFETIME ->
  exists q, In (now s0 + EXCHANGE_LIFETIME, q, msg_key m) (forgets s2)
    /\ forall D' q', In (D', q', msg_key m) (forgets s2) -> D' = now s0 + EXCHANGE_LIFETIME.
Proof.
  intros HI Q G s2 Hn.
  destruct (step_fresh s0 m HI Q G) as (new & q & O & N & T & S & A & F).
  assert (HI1 : Inv (step s0 (Recv m))) by apply (step_spec s0 (Recv m) HI).
  destruct (alive_run (msg_key m) evs _ _ _ q HI1 A F Hn) as (_ & _ & F2). fold s2 in F2.
  exists q. split; [exact F2|]. intros D' q' H.
  assert (HI2 : Inv s2) by (apply run_inv; exact HI1). destruct HI2 as (_ & ND & _).
  assert (E : (D', q') = (now s0 + EXCHANGE_LIFETIME, q)) by (eapply nodup_key_unique; eauto).
  inversion E; reflexivity.
Qed.

(* evs1 arbitrary (copies included) inside the lifetime, evs2 (no arrival of the key) carries the clock past it: forgotten *)
Lemma forgotten_after_lifetime_lemma s0 m evs1 evs2 : Inv s0 ->
  is_request (i_code m) = true -> aget key_eqb (msg_key m) (recent s0) = None ->
  let s2 := run (step s0 (Recv m)) evs1 in
  now s2 < now s0 + EXCHANGE_LIFETIME ->
  Forall (no_arrival (msg_key m)) evs2 ->
  let s3 := run s2 evs2 in
  now s0 + EXCHANGE_LIFETIME < now s3 ->
  aget key_eqb (msg_key m) (recent s3) = None.
Proof.
  intros HI Q G s2 Hn Hev s3 Hl.
  destruct (expiry_fixed_at_first_arrival_lemma s0 m evs1 HI Q G Hn) as (q & F & _). fold s2 in F.
  assert (HI2 : Inv s2) by (apply run_inv; apply (step_spec s0 (Recv m) HI)).
  destruct (expiry_exact_lemma (msg_key m) evs2 s2 _ q HI2 F Hev) as [(_ & Hle & _) | (Hg & _)]; [unfold s3 in Hl; lia | exact Hg].
Qed.

(* a key of which no request-coded datagram arrives stays unknown and is never started, whatever else happens
   (other endpoints using the same message id, timers, handlers, transport errors) *)
Lemma not_arrived_stays_unknown_lemma k evs : forall s, Inv s -> aget key_eqb k (recent s) = None ->
  Forall (no_arrival k) evs ->
  aget key_eqb k (recent (run s evs)) = None /\ starts k (log_since s (run s evs)) = [].
Proof.
  induction evs as [|e evs IH]; intros s HI G Hev.
  - simpl. rewrite (log_since_app s s []) by (symmetry; apply app_nil_r). auto.
  - inversion Hev as [|? ? He Hev']; subst. rewrite (log_since_cons e evs s HI). simpl.
    destruct (step_spec s e HI) as [HI1 HR]. destruct (HR k (no_arrival_not_fresh k s e He)) as (new & O & _ & _ & S & A).
    rewrite G in A. destruct (IH _ HI1 A Hev') as (G2 & S2).
    rewrite (log_since_app _ _ _ O), starts_app, S, S2. auto.
Qed.

Lemma Ext_present sk k s s' v : Ext sk k s s' -> aget key_eqb k (recent s) = Some v ->
  exists new, outs s' = outs s ++ new /\ starts k new = sk
    /\ aget key_eqb k (recent s') = Some (last_reply k new v) /\ forgets s' = forgets s.
Proof.
  intros [_ F _ (new & O & _ & S & A)] G. exists new. rewrite A, G. auto.
Qed.

(* a datagram with another key never removes or resets the entry of k and starts nothing for k *)
Lemma other_keys_keep_entry_lemma s m k v : Inv s -> msg_key m <> k ->
  aget key_eqb k (recent s) = Some v ->
  exists new, outs (step s (Recv m)) = outs s ++ new /\ starts k new = [] /\
    aget key_eqb k (recent (step s (Recv m))) = Some (last_reply k new v) /\
    forall D q, In (D, q, k) (forgets s) -> In (D, q, k) (forgets (step s (Recv m))).
Proof.
  intros HI N G. simpl.
  destruct (is_request (i_code m)) eqn:Q.
  - destruct (aget key_eqb (msg_key m) (recent s)) as [v0|] eqn:G0.
    + rewrite (dispatch_dup m s v0 Q G0).
      assert (E : Ext [] k s (match i_type m, v0 with CON, Some (r, w) => _send_initially r w false s | _, _ => s end)).
      { destruct (i_type m); try apply Ext_refl. destruct v0 as [[r w]|]; [apply ext_send_initially | apply Ext_refl]. }
      destruct (Ext_present _ _ _ _ _ E G) as (new & O & S & A & F). exists new. rewrite F. auto.
    + rewrite (dispatch_fresh m s Q G0).
      pose proof (ext_dispatch_rest k m (insert_key (msg_key m) s)) as E. rewrite rest_sk_other in E by exact N.
      assert (G1 : aget key_eqb k (recent (insert_key (msg_key m) s)) = Some v).
      { unfold insert_key; simpl. rewrite aget_app, G. reflexivity. }
      destruct (Ext_present _ _ _ _ _ E G1) as (new & O & S & A & F). exists new. rewrite F.
      split; [exact O|]. split; [exact S|]. split; [exact A|].
      intros D q H. unfold insert_key; simpl. apply in_app_iff; left; exact H.
  - rewrite (dispatch_nonreq m s Q).
    pose proof (ext_dispatch_rest k m s) as E. rewrite rest_sk_nonreq in E by exact Q.
    destruct (Ext_present _ _ _ _ _ E G) as (new & O & S & A & F). exists new. rewrite F. auto.
Qed.

(* the per-event frame: any event that is not a first arrival of k *)
Lemma event_frame_lemma s e k : Inv s -> ~ fresh_for k s e -> R k s (step s e).
Proof. intros HI. apply (step_spec s e HI). Qed.
