(* C02 — proofs. Part 7 (clause audit, round 5): the timer step reaches the give-up; "completes at most once" has content:
   the model's InvalidStateError branch (a second set_result / set_exception on a done future) is unreachable. *)
From Verif Require Import Lib.Py Lib.PyLemmas Lib.Tactics Gen.tokenmanager_next_token Model.C02 Proofs.C02 Proofs.C02Once Proofs.C02Origin Proofs.C02Inv.
Open Scope Z_scope.

(* ------------------------------------------------------------------ step s Fire with an exhausted exchange fails the requests of that remote *)
Lemma fire_giveup_fails_lemma : forall s ex r mid e og tok q c, Inv s -> exchanges s = Some ex ->
  next_timer ex None = Some ((r, mid), e) -> alookup rm_eqb (r, mid) ex = Some e -> (ex_counter e <? 4) = false ->
  amem Z.eqb r (backlogs s) = true ->
  outgoing s = Some og -> In ((tok, Some r), q) og -> get_req s q = Some c -> cq_fut c = FPending ->
  In (SetException q ConRetransmitsExceeded) (snd (step s Fire)).
Proof.
  intros s ex r mid e og tok q c HI Hex Hnt L Hc Hbl Hog Hin G Hf. cbn [step]. rewrite Hex, Hnt.
  unfold _retransmit. cbn [exchanges set_now]. rewrite Hex, L, Hc. cbn [backlogs set_exchanges set_now]. rewrite Hbl.
  eapply (giveup_fails_lemma _ og r tok q c); [|exact Hog|exact Hin|exact G|exact Hf].
  eapply Inv_frame; [| |exact HI]; reflexivity.
Qed.

(* ------------------------------------------------------------------ no second completion is ever attempted *)
(* per request object: while the generator waits for its first event the future is pending *)
Definition creq_ok (c : creq) : Prop := cq_runner c = AwaitFirst -> cq_fut c = FPending.
Definition ReqInv (s : st) : Prop := forall q c, get_req s q = Some c -> creq_ok c.
Definition nocrash (o : output) : Prop := match o with Crash _ => False | _ => True end.

Lemma run_ok : forall q c ev c' o stop keep, creq_ok c -> _run q c ev = (c', o, stop, keep) -> creq_ok c' /\ Forall nocrash o.
Proof.
  intros q c ev c' o stop keep Hc H. unfold _run, creq_ok in *.
  destruct (cq_runner c) eqn:R.
  - rewrite (Hc eq_refl) in H. repeat dmatch; invpairs; cbn; (split; [intros; discriminate|repeat constructor]).
  - repeat dmatch; invpairs; cbn; (split; [intros; discriminate|repeat constructor]).
  - invpairs. split; [rewrite R; intros; discriminate|constructor].
  - invpairs. split; [rewrite R; intros; discriminate|constructor].
Qed.
Lemma creq_ok_same : forall c c', cq_runner c' = cq_runner c -> cq_fut c' = cq_fut c -> creq_ok c -> creq_ok c'.
Proof. intros c c' H1 H2 H. unfold creq_ok in *. rewrite H1, H2. exact H. Qed.
Lemma stop_interest_ok : forall c c' ks, creq_ok c -> _stop_interest c = (c', ks) -> creq_ok c'.
Proof. intros c c' ks H S. unfold _stop_interest, _end in S. repeat dmatch; invpairs; (eapply creq_ok_same; [| |exact H]; reflexivity). Qed.
Lemma end_ok : forall c c' ks, creq_ok c -> _end c = (c', ks) -> creq_ok c'.
Proof. intros c c' ks H S. unfold _end in S. repeat dmatch; invpairs; (eapply creq_ok_same; [| |exact H]; reflexivity). Qed.
Lemma process_ok : forall q c ev c' o ks keep, creq_ok c -> process q c ev = (c', o, ks, keep) -> creq_ok c' /\ Forall nocrash o.
Proof.
  intros q c ev c' o ks keep Hc H. unfold process in H.
  destruct (_run q c ev) as [[[c1 o1] stop] kp] eqn:R. apply run_ok in R; [|exact Hc]. destruct R as [R1 R2].
  destruct stop; [|invpairs; split; assumption].
  destruct (_stop_interest c1) as [c2 k2] eqn:S. apply stop_interest_ok in S; [|exact R1]. invpairs. split; assumption.
Qed.
Lemma loop_ok : forall q ev snap c c' o ks early, creq_ok c -> _add_event_loop q c snap ev = (c', o, ks, early) -> creq_ok c' /\ Forall nocrash o.
Proof.
  intros q ev. induction snap as [|x rest IH]; intros c c' o ks early Hc H; cbn [_add_event_loop] in H.
  - invpairs. split; [exact Hc|constructor].
  - assert (C : forall c1 o1 k1 keep, call_cb q c x ev = (c1, o1, k1, keep) -> creq_ok c1 /\ Forall nocrash o1).
    { intros c1 o1 k1 keep E. destruct x; cbn [call_cb] in E; [eapply process_ok; eauto|].
      destruct (pev_is_last ev); invpairs; (split; [exact Hc|constructor]). }
    destruct (call_cb q c x ev) as [[[c1 o1] k1] keep] eqn:E. destruct (C _ _ _ _ eq_refl) as [C1 C2].
    destruct keep.
    + destruct (_add_event_loop q c1 rest ev) as [[[c2 o2] k2] e2] eqn:L. apply IH in L; [|exact C1]. destruct L. invpairs.
      split; [assumption|apply Forall_app; split; assumption].
    + destruct (cq_cbs c1); [|invpairs; split; assumption].
      destruct (_add_event_loop q _ rest ev) as [[[c2 o2] k2] e2] eqn:L. apply IH in L. 2: { eapply creq_ok_same; [| |exact C1]; reflexivity. }
      destruct L. invpairs. split; [assumption|apply Forall_app; split; assumption].
Qed.
Lemma pipe_add_event_ok : forall q c ev c' o ks, creq_ok c -> pipe_add_event q c ev = (c', o, ks) -> creq_ok c' /\ Forall nocrash o.
Proof.
  intros q c ev c' o ks Hc H. unfold pipe_add_event in H. destruct (cq_cbs c); [|invpairs; split; [exact Hc|constructor]].
  destruct (_add_event_loop q c l ev) as [[[c1 o1] k1] early] eqn:L. apply loop_ok in L; [|exact Hc]. destruct L as [L1 L2].
  destruct early; [invpairs; split; assumption|].
  destruct (cq_cbs c1); [|invpairs; split; assumption].
  destruct (_any_interest l0); [invpairs; split; assumption|].
  destruct (_end c1) as [c2 k2] eqn:E. apply end_ok in E; [|exact L1]. invpairs. split; assumption.
Qed.

Definition ok_step (s s' : st) (o : list output) : Prop := ReqInv s' /\ Forall nocrash o.
Lemma ReqInv_frame : forall s s', reqs s' = reqs s -> ReqInv s -> ReqInv s'.
Proof. intros s s' H HI q c G. apply (HI q c). unfold get_req in *. rewrite <- H. exact G. Qed.
Lemma ReqInv_upd : forall s q c, ReqInv s -> creq_ok c -> ReqInv (upd_req s q c).
Proof.
  intros s q c HI Hc q' c' G. rewrite get_req_upd in G. destruct (q' =? q); [inversion G; subst; exact Hc|eapply HI; eauto].
Qed.
Lemma add_event_ok : forall s q ev s' o, ReqInv s -> _add_event s q ev = (s', o) -> ok_step s s' o.
Proof.
  intros s q ev s' o HI H. unfold _add_event in H. destruct (get_req s q) as [c|] eqn:G; [|invpairs; split; [exact HI|constructor]].
  destruct (pipe_add_event q c ev) as [[c' o'] ks] eqn:P. apply pipe_add_event_ok in P; [|eapply HI; eauto]. destruct P as [P1 P2]. invpairs.
  split; [|exact P2]. eapply ReqInv_frame; [|apply ReqInv_upd; [exact HI|exact P1]]. apply pop_keys_frame.
Qed.
Ltac ok_frame HI := split; [eapply ReqInv_frame; [|exact HI]; reflexivity|repeat constructor].
Lemma run_stoppers_ok : forall e qs s s' o, ReqInv s -> run_stoppers s qs e = (s', o) -> ok_step s s' o.
Proof.
  intros e. induction qs as [|q rest IH]; intros s s' o HI H; cbn [run_stoppers] in H; [invpairs; split; [exact HI|constructor]|].
  destruct (add_exception s q e) as [s1 o1] eqn:A. apply add_event_ok in A; [|exact HI]. destruct A as [A1 A2].
  destruct (run_stoppers s1 rest e) as [s2 o2] eqn:R. apply IH in R; [|exact A1]. destruct R. invpairs. split; [assumption|apply Forall_app; split; assumption].
Qed.
Lemma tm_dispatch_error_ok : forall s k r s' o, ReqInv s -> tm_dispatch_error s k r = (s', o) -> ok_step s s' o.
Proof.
  intros s k r s' o HI H. unfold tm_dispatch_error in H. destruct (outgoing s); [|invpairs; split; [exact HI|constructor]]. eapply run_stoppers_ok; eauto.
Qed.
Lemma mm_dispatch_error_ok : forall s k r s' o, ReqInv s -> mm_dispatch_error s k r = (s', o) -> ok_step s s' o.
Proof.
  intros s k r s' o HI H. unfold mm_dispatch_error in H. destruct (exchanges s); [|invpairs; split; [exact HI|constructor]].
  destruct (tm_dispatch_error s k r) as [s1 o1] eqn:T. apply tm_dispatch_error_ok in T; [|exact HI]. destruct T as [T1 T2]. invpairs.
  split; [eapply ReqInv_frame; [|exact T1]; reflexivity|exact T2].
Qed.
Lemma send_via_transport_ok : forall s r w s' o, ReqInv s -> _send_via_transport s r w = (s', o) -> ok_step s s' o.
Proof.
  intros s r w s' o HI H. unfold _send_via_transport in H. destruct (refuses s r); [eapply mm_dispatch_error_ok; eauto|invpairs; split; [exact HI|repeat constructor]].
Qed.
Lemma send_initially_ok : forall s r w m s' o, ReqInv s -> _send_initially s r w m = (s', o) -> ok_step s s' o.
Proof.
  intros s r w m s' o HI H. unfold _send_initially in H. apply send_via_transport_ok in H; [exact H|].
  destruct (w_mtype w =? CON); [destruct m|]; try exact HI. eapply ReqInv_frame; [|exact HI]. apply add_exchange_frame.
Qed.
Lemma continue_loop_ok : forall r fuel s s' o x, ReqInv s -> _continue_backlog_loop fuel s r = (s', o, x) -> ok_step s s' o.
Proof.
  intros r. induction fuel as [|f IH]; intros s s' o x HI H; cbn [_continue_backlog_loop] in H; [invpairs; split; [exact HI|constructor]|].
  destruct (exchanges s); [|invpairs; split; [exact HI|constructor]].
  destruct (alookup Z.eqb r (backlogs s)) as [bl|]; [|invpairs; split; [exact HI|constructor]].
  destruct (has_exchange r l); [invpairs; split; [exact HI|constructor]|].
  destruct bl as [|[w m] rest]; [invpairs; ok_frame HI|].
  destruct (_send_initially _ r w (Some m)) as [s1 o1] eqn:S. apply send_initially_ok in S. 2: { eapply ReqInv_frame; [|exact HI]; reflexivity. }
  destruct S as [S1 S2]. destruct (_continue_backlog_loop f s1 r) as [[s2 o2] x2] eqn:L. apply IH in L; [|exact S1]. destruct L. invpairs.
  split; [assumption|apply Forall_app; split; assumption].
Qed.
Lemma remove_exchange_ok : forall s r w s' o x, ReqInv s -> _remove_exchange s r w = (s', o, x) -> ok_step s s' o.
Proof.
  intros s r w s' o x HI H. unfold _remove_exchange in H.
  destruct (exchanges s); [|invpairs; split; [exact HI|constructor]].
  destruct (alookup rm_eqb (r, w_mid w) l); [|invpairs; split; [exact HI|constructor]].
  destruct (if w_mtype w =? RST then _ else _) as [s2 o2] eqn:A.
  assert (A' : ok_step s s2 o2).
  { destruct (w_mtype w =? RST); [eapply add_event_ok in A; [exact A|eapply ReqInv_frame; [|exact HI]; reflexivity]|invpairs; ok_frame HI]. }
  destruct A' as [A1 A2]. destruct (_continue_backlog s2 r) as [[s3 o3] x3] eqn:C. invpairs.
  unfold _continue_backlog in C. destruct (alookup Z.eqb r (backlogs s2)).
  - apply continue_loop_ok in C; [|exact A1]. destruct C. split; [assumption|apply Forall_app; split; assumption].
  - invpairs. split; [exact A1|apply Forall_app; split; [exact A2|repeat constructor]].
Qed.
Lemma process_response_ok : forall s r w b s' o, ReqInv s -> outgoing s <> None -> process_response s r w = (b, s', o) -> ok_step s s' o.
Proof.
  intros s r w b s' o HI Hog H. unfold process_response in H. destruct (outgoing s) as [og|]; [|contradiction].
  destruct (alookup key_eqb _ og); [|invpairs; split; [exact HI|constructor]].
  destruct (add_response _ z w r _) as [s2 o2] eqn:A. apply add_event_ok in A. 2: { destruct (negb _); [eapply ReqInv_frame; [|exact HI]; reflexivity|exact HI]. }
  invpairs. exact A.
Qed.
Lemma shrinks_some : forall s s', shrinks s s' -> outgoing s <> None -> outgoing s' <> None.
Proof. intros s s' H Hs. unfold shrinks in H. destruct (outgoing s); [|contradiction]. destruct (outgoing s'); [discriminate|contradiction]. Qed.
Lemma dispatch_message_ok : forall s r mcl w s' o, ReqInv s -> outgoing s <> None -> is_request (w_code w) = false ->
  dispatch_message s r mcl w = (s', o) -> ok_step s s' o.
Proof.
  intros s r mcl w s' o HI Hog Hreq H. unfold dispatch_message in H. rewrite Hreq in H.
  destruct (if (w_mtype w =? ACK) || (w_mtype w =? RST) then _ else _) as [[s1 o1] x1] eqn:RE.
  assert (B1 : ok_step s s1 o1 /\ outgoing s1 <> None).
  { destruct ((w_mtype w =? ACK) || (w_mtype w =? RST)).
    - split; [eapply remove_exchange_ok; eauto|]. eapply shrinks_some; [eapply remove_exchange_shrinks; eauto|exact Hog].
    - invpairs. split; [split; [exact HI|constructor]|exact Hog]. }
  destruct B1 as [[B1 B2] B3].
  assert (SI : forall s2 o2 wr s3 o3, ReqInv s2 -> Forall nocrash o2 -> _send_initially s2 r wr None = (s3, o3) -> ok_step s s3 (o2 ++ o3)).
  { intros * I2 N2 S. apply send_initially_ok in S; [|exact I2]. destruct S. split; [assumption|apply Forall_app; split; assumption]. }
  destruct x1. { invpairs. split; assumption. }
  destruct ((w_code w =? EMPTY) && (w_mtype w =? CON)).
  { destruct (_send_initially s1 r _ None) as [s2 o2] eqn:S. invpairs. eapply SI; eauto. }
  destruct ((w_code w =? EMPTY) && ((w_mtype w =? ACK) || (w_mtype w =? RST))). { invpairs. split; assumption. }
  destruct (is_response (w_code w) && _); [|invpairs; split; assumption].
  destruct (process_response s1 r w) as [[b s2] o2] eqn:P. apply process_response_ok in P; [|exact B1|exact B3]. destruct P as [P1 P2].
  assert (N12 : Forall nocrash (o1 ++ o2)) by (apply Forall_app; split; assumption).
  destruct b; [destruct (w_mtype w =? CON)|destruct ((w_mtype w =? CON) && negb mcl)].
  - destruct (_send_initially s2 r _ None) as [s3 o3] eqn:S. invpairs. rewrite app_assoc. eapply SI; [exact P1|exact N12|exact S].
  - invpairs. split; assumption.
  - destruct (_send_initially s2 r _ None) as [s3 o3] eqn:S. invpairs. rewrite app_assoc. eapply SI; [exact P1|exact N12|exact S].
  - invpairs. split; assumption.
Qed.
Lemma retransmit_ok : forall s r mid s' o, ReqInv s -> _retransmit s r mid = (s', o) -> ok_step s s' o.
Proof.
  intros s r mid s' o HI H. unfold _retransmit in H. destruct (exchanges s); [|invpairs; split; [exact HI|constructor]].
  destruct (alookup rm_eqb (r, mid) l); [|invpairs; ok_frame HI].
  destruct (ex_counter e <? 4).
  - apply send_via_transport_ok in H; [exact H|]. eapply ReqInv_frame; [|exact HI]; reflexivity.
  - destruct (amem Z.eqb r _); [|invpairs; ok_frame HI].
    apply tm_dispatch_error_ok in H; [exact H|]. eapply ReqInv_frame; [|exact HI]; reflexivity.
Qed.
Lemma shutdown_loop_ok : forall fuel s s' o, ReqInv s -> tm_shutdown_loop fuel s = (s', o) -> ok_step s s' o.
Proof.
  induction fuel as [|f IH]; intros s s' o HI H; cbn [tm_shutdown_loop] in H; [invpairs; split; [exact HI|constructor]|].
  destruct (outgoing s) as [[|[k q] rest]|]; try (invpairs; split; [exact HI|constructor]).
  destruct (add_exception _ q LibraryShutdown) as [s1 o1] eqn:A. apply add_event_ok in A. 2: { eapply ReqInv_frame; [|exact HI]; reflexivity. }
  destruct A as [A1 A2]. destruct (tm_shutdown_loop f s1) as [s2 o2] eqn:L. apply IH in L; [|exact A1]. destruct L. invpairs.
  split; [assumption|apply Forall_app; split; assumption].
Qed.
Lemma send_message_ok : forall s r mt tok obs m s' o, ReqInv s -> send_message s r mt tok obs m = Ok (s', o) -> ok_step s s' o.
Proof.
  intros s r mt tok obs m s' o HI H. unfold send_message in H.
  set (mt' := match mt with None => _ | Some _ => _ end) in H. clearbody mt'.
  destruct ((mt' =? CON) && is_multicast r); [discriminate|]. cbn [_next_message_id] in H.
  set (s1 := set_next_mid s _) in H. assert (I1 : ReqInv s1) by (eapply ReqInv_frame; [|exact HI]; reflexivity). clearbody s1.
  set (w := {| w_mtype := mt' |}) in H. clearbody w.
  destruct ((mt' =? CON) && amem Z.eqb r _).
  - set (s2 := set_backlogs s1 _) in H. assert (I2 : ReqInv s2) by (eapply ReqInv_frame; [|exact I1]; reflexivity). clearbody s2.
    injection H as <- <-. split; [exact I2|constructor].
  - destruct (_send_initially s1 r w (Some m)) as [s2 o1] eqn:S. apply send_initially_ok in S; [|exact I1].
    injection H as <- <-. exact S.
Qed.
Lemma new_request_ok : forall s q r mt obs s' o, ReqInv s -> new_request s q r mt obs = (s', o) -> ok_step s s' o.
Proof.
  intros s q r mt obs s' o HI H. unfold new_request in H. destruct (get_req s q) eqn:G; [invpairs; split; [exact HI|constructor]|].
  set (c0 := {| cq_remote := r |}) in H.
  assert (I0 : ReqInv (upd_req s q c0)) by (apply ReqInv_upd; [exact HI|intros _; reflexivity]).
  set (s0 := upd_req s q c0) in *. clearbody s0. unfold request in H.
  destruct (outgoing s0). 2: { eapply add_event_ok in H; [exact H|exact I0]. }
  rewrite next_token_spec in H.
  set (tok := tokbytes _) in H. set (k := (tok, _)) in H. set (s1 := set_outgoing _ _) in H.
  assert (I1 : ReqInv s1) by (eapply ReqInv_frame; [|exact I0]; reflexivity). clearbody s1.
  assert (I2 : ReqInv (on_interest_end s1 q k)).
  { unfold on_interest_end. destruct (get_req s1 q) as [c|] eqn:G1; [|exact I1].
    destruct (pipe_on_interest_end c k) as [c' ks] eqn:P. eapply ReqInv_frame; [apply pop_keys_frame|]. apply ReqInv_upd; [exact I1|].
    unfold pipe_on_interest_end in P. repeat dmatch; invpairs; try (eapply I1; eauto; fail); (eapply creq_ok_same; [| |eapply I1; eauto]; reflexivity). }
  set (s2 := on_interest_end s1 q k) in *. clearbody s2.
  destruct (send_message s2 r mt tok obs q) as [[s3 o3]|e] eqn:SM.
  - apply send_message_ok in SM; [|exact I2]. destruct SM. invpairs. split; [assumption|constructor; [exact I|assumption]].
  - destruct (add_exception s2 q e) as [s3 o3] eqn:A. apply add_event_ok in A; [|exact I2]. destruct A. invpairs.
    split; [assumption|constructor; [exact I|assumption]].
Qed.
Lemma cancel_ok : forall s q s' o, ReqInv s -> cancel s q = (s', o) -> ok_step s s' o.
Proof.
  intros s q s' o HI H. unfold cancel in H. destruct (get_req s q) as [c|] eqn:G; [|invpairs; split; [exact HI|constructor]].
  destruct (cq_fut c); try (invpairs; split; [exact HI|constructor]).
  destruct (_stop_interest _) as [c' ks] eqn:S. apply stop_interest_ok in S. 2: { intros R. cbn in R. discriminate. }
  invpairs. split; [|repeat constructor]. eapply ReqInv_frame; [apply pop_keys_frame|]. apply ReqInv_upd; assumption.
Qed.
Definition ev_client (e : event) : Prop := match e with Recv _ _ w => is_request (w_code w) = false | _ => True end.
Lemma step_ok : forall s e s' o, ReqInv s -> ev_client e -> step s e = (s', o) -> ok_step s s' o.
Proof.
  intros s e s' o HI Hc H. destruct e; cbn [step] in H.
  - eapply new_request_ok; eauto.
  - destruct (outgoing s) eqn:Hog; [|invpairs; split; [exact HI|constructor]].
    eapply dispatch_message_ok; [exact HI|rewrite Hog; discriminate|exact Hc|exact H].
  - destruct (exchanges s); [|invpairs; split; [exact HI|constructor]].
    destruct (next_timer l None) as [[[r mid] e]|]; [|invpairs; split; [exact HI|constructor]].
    apply retransmit_ok in H; [exact H|]. eapply ReqInv_frame; [|exact HI]; reflexivity.
  - repeat dmatch; invpairs; ok_frame HI.
  - eapply mm_dispatch_error_ok; eauto.
  - eapply cancel_ok; eauto.
  - invpairs. split; [|constructor]. unfold obs_cancel. destruct (get_req s q) as [c|] eqn:G; [|exact HI].
    destruct (cq_runner c) eqn:R; try exact HI. destruct (cq_obs_cancelled c); [exact HI|].
    apply ReqInv_upd; [exact HI|]. eapply creq_ok_same; [| |eapply HI; eauto]; reflexivity.
  - invpairs. ok_frame HI.
  - unfold shutdown in H. destruct (outgoing s); [|invpairs; split; [exact HI|constructor]].
    destruct (tm_shutdown_loop (length l) s) as [s1 o1] eqn:L. apply shutdown_loop_ok in L; [|exact HI]. destruct L as [L1 L2]. invpairs.
    split; [eapply ReqInv_frame; [|exact L1]; reflexivity|exact L2].
Qed.
(* from the initial state, whatever the network, the timers, the transport and the application do: the library never attempts
   to complete a response future twice (in Python: set_result / set_exception raising InvalidStateError), nor hits any other
   branch the model marks as unreachable *)
Lemma no_second_completion_lemma : forall es s s' os, ReqInv s -> Forall ev_client es -> run s es = (s', os) ->
  ReqInv s' /\ Forall nocrash (concat os).
Proof.
  induction es as [|e r IH]; intros s s' os HI Hc H; cbn [run] in H; [invpairs; split; [exact HI|constructor]|].
  inversion Hc as [|? ? Hc1 Hc2]. subst.
  destruct (step s e) as [s1 o] eqn:S. apply step_ok in S; [|exact HI|exact Hc1]. destruct S as [S1 S2].
  destruct (run s1 r) as [s2 os'] eqn:R. apply IH in R; [|exact S1|exact Hc2]. destruct R. invpairs.
  split; [assumption|]. cbn [concat]. apply Forall_app; split; assumption.
Qed.
Lemma no_crash_lemma : forall t m a es x, Forall ev_client es -> In x (concat (snd (run (init t m a) es))) -> nocrash x.
Proof.
  intros t m a es x Hc Hin. destruct (run (init t m a) es) as [s' os] eqn:R.
  apply no_second_completion_lemma in R; [|intros q c G; discriminate|exact Hc]. destruct R as [_ R].
  rewrite Forall_forall in R. apply R. exact Hin.
Qed.
